"""C02 / C03 - query meaning (spec/Query.tla) vs. the real parser/normaliser and search engine."""
import concurrent.futures
import json
import os
import random

from common import (Infra, go_must_pass, go_test, harness_overlay, read_ndjson, run_tlc, tlc_must_pass, write_ndjson)

PKG = "internal/index"

EVENTS = [[], [("c", "AA")], [("s", "BB")], [("c", "AA"), ("s", "BB")], [("s", "BB"), ("c", "AA")],
          [("c", "AA"), ("s", "BB"), ("c", "CC")], [("c", "CC"), ("s", "BB"), ("c", "AA")], [("c", "BB"), ("c", "AA"), ("s", "BB"), ("c", "AA")],
          # four and five chunks: chains whose fourth element has alternatives (data:, or-groups)
          [("c", "AA"), ("s", "BB"), ("c", "CC"), ("c", "BB")], [("c", "AA"), ("s", "BB"), ("c", "CC"), ("s", "BB"), ("c", "AA")]]
# strength-2 covering array (Hadamard 8) over 7 two-level factors
ROWS = ["0000000", "1111111", "0101010", "1010101", "0011001", "1100110", "0110011", "1001100"]


def ip(a, b, c, d):
    return ((a * 256 + b) * 256 + c) * 256 + d


def make_population(rng):
    """64 streams: every payload pattern crossed with a pairwise-covering set of attribute rows"""
    streams = []
    combos = [(e, r) for e in range(len(EVENTS)) for r in range(len(ROWS))]
    rng.shuffle(combos)
    for sid, (e, r) in enumerate(combos):
        bits = [int(x) for x in ROWS[r]]
        tags = (["tag/x"] if bits[4] else []) + (["service/y"] if bits[5] else [])
        ft = sid % 4
        streams.append({"id": sid, "cport": 1000 + bits[0], "sport": 80 + bits[1], "cbytes": 0, "sbytes": 0, "proto": 1 + bits[2],
                        "chost": [ip(10, 0, 0, 1), ip(10, 0, 1, 2)][bits[3]], "shost": [ip(10, 0, 9, 9), ip(10, 0, 1, 77)][bits[6]],
                        "tags": tags, "ev": [{"d": d, "t": t} for d, t in EVENTS[e]], "ft": ft, "lt": ft + 1 + (sid % 3)})   # last packet strictly later: all packet times are whole hours
    return streams


def make_layouts(rng, pop):
    """one file; two files with shadowed old versions; three files"""
    def old_version(s, other):
        o = dict(other)
        o["id"] = s["id"]
        return o
    one = [list(pop)]
    shadowed = rng.sample(range(len(pop)), 16)
    f1 = [old_version(pop[i], pop[(i * 7 + 3) % len(pop)]) for i in shadowed] + [pop[i] for i in range(len(pop)) if i % 2 == 0 and i not in shadowed]
    f2 = [pop[i] for i in range(len(pop)) if i % 2 == 1 or i in shadowed]
    two = [f1, f2]
    sh2 = rng.sample(range(len(pop)), 12)
    g1 = [old_version(pop[i], pop[(i * 5 + 1) % len(pop)]) for i in sh2] + [pop[i] for i in range(len(pop)) if i % 3 == 0 and i not in sh2]
    g2 = [old_version(pop[i], pop[(i * 11 + 2) % len(pop)]) for i in sh2[:6]] + [pop[i] for i in range(len(pop)) if i % 3 == 1 and i not in sh2]
    g3 = [pop[i] for i in range(len(pop)) if i % 3 == 2 or i in sh2]
    # time-sliced: the newer file holds only late streams, among them the newest versions of streams whose old versions
    # (early times) are in the older file: a time bound can rule out the newer file as a whole, its streams still hide
    # the old versions
    late = [i for i in range(len(pop)) if pop[i]["ft"] >= 2]
    early = [i for i in range(len(pop)) if pop[i]["ft"] < 2]
    sh3 = rng.sample(late, min(12, len(late)))
    h1 = [pop[i] for i in early] + [old_version(pop[i], pop[early[(k * 5) % len(early)]]) for k, i in enumerate(sh3)]
    h2 = [pop[i] for i in late]
    # extremes agree: the earliest and the latest stream of the first file are short ones, the long streams lie in
    # between (a shortcut that judges a file by its minimal / maximal times must not speak for the streams inside)
    def dur(s):
        return s["lt"] - s["ft"]
    fmin, fmax = min(s["ft"] for s in pop), max(s["ft"] for s in pop)
    edge = [i for i in range(len(pop)) if dur(pop[i]) == 1 and pop[i]["ft"] in (fmin, fmax)]
    top = max(pop[i]["lt"] for i in edge) if edge else 0
    inner = [i for i in range(len(pop)) if dur(pop[i]) > 1 and pop[i]["lt"] <= top and i not in edge]
    e1 = [pop[i] for i in edge + inner]
    e2 = [pop[i] for i in range(len(pop)) if i not in edge and i not in inner]
    # id-sliced: the middle file holds only ids above everything in the oldest file, the newest file reaches back
    # below it with new versions of streams of the oldest file (an import that continues old streams)
    n = len(pop)
    low, mid = n * 3 // 8, n * 11 // 16
    sh4 = rng.sample(range(low), min(10, low))
    s1 = [old_version(pop[i], pop[(i * 13 + 5) % n]) for i in sh4] + [pop[i] for i in range(low) if i not in sh4]
    s2 = [pop[i] for i in range(low, mid)]
    s3 = [pop[i] for i in sh4] + [pop[i] for i in range(mid, n)]
    for f in (f1, f2, g1, g2, g3, h1, h2, e1, e2, s1, s2, s3):
        rng.shuffle(f)
    # high ids: the same streams numbered from 1000 (a long list of ids - more alternatives than a machine word has bits -
    # has entries below, inside and above the range of existing ids)
    high = [dict(s, id=s["id"] + 1000) for s in pop]
    rng.shuffle(high)
    return [one, two, [g1, g2, g3], [h1, h2], [e1, e2], [s1, s2, s3], [high]]


RUNS = [
    {"sort": [{"key": "id", "desc": False}], "limit": 0, "skip": 0},
    {"sort": [{"key": "id", "desc": False}], "limit": 3, "skip": 0},
    {"sort": [{"key": "id", "desc": True}], "limit": 5, "skip": 5},
    {"sort": [], "limit": 4, "skip": 0},
    {"sort": [{"key": "ftime", "desc": False}], "limit": 6, "skip": 6},
    {"sort": [{"key": "ltime", "desc": True}, {"key": "id", "desc": False}], "limit": 7, "skip": 0},
    {"sort": [{"key": "cport", "desc": False}], "limit": 4, "skip": 8},
    {"sort": [{"key": "sbytes", "desc": True}, {"key": "cbytes", "desc": False}], "limit": 10, "skip": 0},
    {"sort": [{"key": "chost", "desc": False}, {"key": "sport", "desc": True}], "limit": 3, "skip": 3},
    {"sort": [{"key": "shost", "desc": True}], "limit": 0, "skip": 0},
    {"sort": [{"key": "id", "desc": False}], "limit": 2, "skip": 62},
    {"sort": [{"key": "cbytes", "desc": False}], "limit": 64, "skip": 0},
    # ID restriction (what the tagging job and tag prefetching use)
    {"sort": [{"key": "id", "desc": False}], "limit": 0, "skip": 0, "ids": [0, 1, 2, 3, 5, 8, 13, 21, 34, 55]},
    {"sort": [{"key": "ftime", "desc": True}], "limit": 4, "skip": 2, "ids": list(range(10, 40))},
    {"sort": [], "limit": 3, "skip": 0, "ids": [7, 8, 9, 40, 41, 63]},
]
# grouping: one stream per group
RUNS += [
    {"sort": [{"key": "id", "desc": False}], "limit": 0, "skip": 0, "group": ["sport"]},
    {"sort": [{"key": "id", "desc": True}], "limit": 0, "skip": 0, "group": ["cport", "sport"]},
    {"sort": [{"key": "ftime", "desc": False}, {"key": "id", "desc": False}], "limit": 3, "skip": 0, "group": ["chost"]},
    {"sort": [{"key": "id", "desc": False}], "limit": 2, "skip": 1, "group": ["sport", "shost"]},
]
# ... by the value a data filter captured (only for the queries that capture one, see CAPTURE_CASES)
RUNS += [
    {"sort": [{"key": "id", "desc": False}], "limit": 100, "skip": 0, "group": ["v"]},
    {"sort": [{"key": "id", "desc": True}], "limit": 0, "skip": 0, "group": ["v"]},
    {"sort": [{"key": "ftime", "desc": True}, {"key": "id", "desc": False}], "limit": 2, "skip": 0, "group": ["v"]},
    {"sort": [{"key": "id", "desc": False}], "limit": 1, "skip": 1, "group": ["v"]},
    {"sort": [], "limit": 3, "skip": 0, "group": ["v"]},
]
for _r in RUNS:
    _r.setdefault("ids", [])
    _r.setdefault("group", [])


def _atom(k, **kw):
    a = {"k": k, "n": 0, "lo": 0, "hi": 0, "s": [], "p": 0, "h": 0, "bits": 32, "name": "", "tok": "", "conv": ""}
    a.update(kw)
    return {"op": "atom", "a": a}


# queries with a capturing data filter (searched grouped by the captured value; C02 only: the normal form keeps the
# expression as text, which Query.tla's token semantics of C03 does not read)
CAPTURE_CASES = [
    _atom("capc"),
    {"op": "and", "x": _atom("capc"), "y": _atom("sport", n=80)},
    {"op": "and", "x": _atom("capc"), "y": {"op": "not", "x": _atom("tag", name="tag/x")}},
    {"op": "and", "x": _atom("proto", p=1), "y": _atom("capc")},
]


def subquery_capture_cases(pop):
    """two alternatives that capture differently named variables in the same sub-query (a stream with both tokens): a value
    captured for one alternative must not serve the other"""
    both = [s["id"] for s in pop if {("c", "AA"), ("c", "CC")} <= {(e["d"], e["t"]) for e in s["ev"]}]
    if not both:
        return []
    n = both[0]
    a1 = _atom("sub_cap", n=n, tok="CC", name="a", p=81)
    a2 = _atom("sub_cap", n=n, tok="AA", name="b", p=80)
    cases = [{"op": "or", "x": a1, "y": a2}, {"op": "or", "x": a2, "y": a1}, a1]
    # ... also beyond the 64th alternative of a query (the set of alternatives a captured value belongs to is a bit mask that grows
    # in 64-bit pieces): two alternatives that each capture two variables in a stream holding all three tokens, after 64 others
    three = [s["id"] for s in pop if {("c", "AA"), ("c", "BB"), ("c", "CC")} <= {(e["d"], e["t"]) for e in s["ev"]}]
    if three:
        m = three[0]
        x = {"op": "and", "x": _atom("sub_cap", n=m, tok="CC", name="a", p=81), "y": _atom("sub_cap", n=m, tok="AA", name="c", p=81)}
        y = {"op": "and", "x": _atom("sub_cap", n=m, tok="CC", name="a", p=80), "y": _atom("sub_cap", n=m, tok="BB", name="c", p=80)}
        for first, second in ((x, y), (y, x)):
            ast = _atom("cport", n=3000)
            for i in range(1, 64):
                ast = {"op": "or", "x": ast, "y": _atom("cport", n=3000 + i)}
            cases.append({"op": "or", "x": {"op": "or", "x": ast, "y": first}, "y": second})
    return cases


def shape(ast):
    """narrow signature of a query: operators and atom kinds"""
    if ast["op"] == "atom":
        return ast["a"]["k"]
    if ast["op"] == "not":
        return "-" + shape(ast["x"])
    return "%s(%s,%s)" % (ast["op"], shape(ast["x"]), shape(ast["y"]))


def gen_asts(ctx, n_random_runs, depth):
    res = tlc_must_pass(run_tlc(ctx, "QueryGen", "QueryGen_exh.cfg", workers=1, timeout=300), "QueryGen exhaustive")
    exh = [p for p in res.prints if "op" in p]

    def one(seed):
        return run_tlc(ctx, "QueryGen", "QueryGen_rand.cfg", workers=1, timeout=300,
                       extra=["-simulate", "num=1", "-depth", str(depth), "-seed", str(seed)])
    rnd = []
    with concurrent.futures.ThreadPoolExecutor(max_workers=4) as ex:
        for r in ex.map(one, [ctx.seed * 100 + i for i in range(n_random_runs)]):
            if r.error:
                raise Infra("QueryGen random failed:\n" + r.out[-2000:])
            rnd += [p for p in r.prints if "op" in p]
    return exh, rnd


def run(ctx):
    rng = random.Random(ctx.seed)
    exh, rnd = gen_asts(ctx, 4 if ctx.quick() else 16, 60 if ctx.quick() else 200)
    depth2 = [a for a in exh if a["op"] in ("and", "or") and a["x"]["op"] in ("atom", "not") and a["y"]["op"] in ("atom", "not")
              and (a["x"]["op"] == "atom" or a["x"]["x"]["op"] == "atom") and (a["y"]["op"] == "atom" or a["y"]["x"]["op"] == "atom")
              and not (a["x"]["op"] == "not" and a["x"]["x"]["op"] != "atom")]
    depth2 = [a for a in depth2 if "sub_" not in json.dumps(a)]      # sub-query cases are always kept
    d2ids = {id(a) for a in depth2}
    other = [a for a in exh if id(a) not in d2ids]
    if ctx.quick():
        depth2 = rng.sample(depth2, min(len(depth2), 900))
    pop = make_population(rng)
    cases = other + depth2 + rnd + (CAPTURE_CASES + subquery_capture_cases(pop) if ctx.pid == "C02" else [])
    layouts = make_layouts(rng, pop)
    inp = os.path.join(ctx.scratch, "query_in.json")
    with open(inp, "w") as fh:
        json.dump({"layouts": layouts, "cases": cases, "runs": RUNS}, fh)
    pops = os.path.join(ctx.scratch, "query_pops.ndjson")
    out = os.path.join(ctx.scratch, "query_cases_all.ndjson")
    ov = harness_overlay(ctx, PKG, "query")
    rc, o = go_test(ctx, PKG, ov, "^TestVerifQuery$", env_extra={"VERIF_IN": inp, "VERIF_POPS": pops, "VERIF_OUT": out, "TZ": "UTC"}, timeout=900)
    go_must_pass(rc, o, "query harness")
    rows = read_ndjson(out)
    if len(rows) != len(cases):
        raise Infra("harness returned %d of %d cases" % (len(rows), len(cases)))
    # TLC validation, split over several processes
    nproc = 12
    chunks = [rows[i::nproc] for i in range(nproc)]
    fails, consumed = [], 0

    def validate(i):
        d = ctx.sub("qchunk%d" % i)
        cpath = os.path.join(d, "query_cases.ndjson")
        write_ndjson(cpath, chunks[i])
        r = run_tlc(ctx, "QueryTrace", "QueryTrace.cfg", files=[cpath, pops], workers=1, timeout=1500)
        return i, r
    with concurrent.futures.ThreadPoolExecutor(max_workers=nproc) as ex:
        for i, r in ex.map(validate, range(nproc)):
            if r.error or not r.finished:
                raise Infra("query trace validation failed:\n" + r.out[-3000:])
            done = [p for p in r.prints if "done" in p]
            if not done or done[-1]["done"] != len(chunks[i]):
                raise Infra("query trace chunk %d not consumed: %s of %d" % (i, done, len(chunks[i])))
            consumed += len(chunks[i])
            fails += [p for p in r.prints if p.get("kind") == "fail"]
    hangs = sorted({by["text"] for by in rows if by.get("hang")})
    infra = [f for f in fails if f["what"] in ("parse-error", "unsupported-normal-form")]
    if infra:
        raise Infra("generated query not handled: %s" % infra[0])
    by_case = {r["case"]: r for r in rows}
    want = {"C03": ("C03.NormalForm", "C03.Impossible"), "C02": ("C02.Result",)}[ctx.pid]
    for f in fails:
        if f["what"] not in want:
            continue
        c = by_case[f["case"]]
        extra = ""
        if f["what"] == "C02.Result":
            try:
                r = json.loads(f["info"])
                extra = "|sort=%s|limit%s" % (",".join(s["key"] for s in r["sort"]) or "default", ">0" if r["limit"] else "=0")
                if r.get("group"):
                    extra += "|group"
            except Exception:
                pass
        ctx.violation("%s:%s%s" % (f["what"], shape(c["ast"]), extra), "%s for query %s (%s)" % (f["what"], c["text"], f["info"][:300]),
                      {"query": c["text"], "ast": c["ast"], "nf": c["nf"], "detail": f["info"][:2000]})
    nruns = sum(len(r["runs"]) for r in rows)
    shapes = {shape(c) for c in cases}
    nontriv = sum(1 for r in rows for x in r["runs"] if 0 < len(x["res"]))
    cov = {
        "evaluations": len(rows) if ctx.pid == "C03" else nruns,
        "distinct_nontrivial": len(shapes) if ctx.pid == "C03" else nontriv,
        "rule": ("C03: one evaluation = one TLC-generated query parsed by the real parser, its structural normal form evaluated by TLC on "
                 "every stored stream version (%d witness streams covering all pairs of attribute values x 8 payload orders); distinct = "
                 "distinct query shapes (operators + filter kinds)" % (sum(len(f) for l in layouts for f in l))) if ctx.pid == "C03" else
                ("C02: one evaluation = one real SearchStreams call (query x index layout x sort/limit/skip) checked by TLC against "
                 "ResultAllowed; non-trivial = calls with a non-empty result"),
        "samples": [{"text": rows[i]["text"], "nf": rows[i]["nf"], "runs": rows[i]["runs"][:2]} for i in (0, len(rows) // 2, len(rows) - 1)],
        "skipped_parse_hangs": hangs, "queries": len(rows), "query_shapes": len(shapes), "search_calls": nruns, "rows_validated_by_tlc": consumed,
        "exhaustive_depth2_and_chains": len(other) + len(depth2), "random_deeper": len(rnd), "layouts": [[len(f) for f in l] for l in layouts],
    }
    return "exploration", cov, ["main-query filters only (sub-queries, grouping and converter selectors are not generated here)",
                                "tags are decided (no uncertain tags) in these searches; undecided tags are covered by C06.SearchRight",
                                "payload tokens are literal strings, one per chunk (regular-expression behaviour is C04)"]

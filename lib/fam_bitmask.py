"""C17 - bitmask containers vs. the set model (spec/Bitmask.tla)."""
import json
import os

from common import (Infra, go_must_pass, go_test, harness_overlay, read_ndjson, run_tlc,
                    tlc_must_pass, write_ndjson)

W = 6
FARPOS = 140   # position of the far bit relative to the base: beyond an empty 64-bit word above the window


def run(ctx):
    # (C) exhaustive TLC over the model; doubles as generator of the transition table
    res = tlc_must_pass(run_tlc(ctx, "Bitmask", "BitmaskMC.cfg", workers=1, timeout=300), "BitmaskMC")
    table = [p for p in res.prints if "op" in p]
    if len(table) < 1000:
        raise Infra("transition table too small: %d" % len(table))
    # the same window plus one far bit per register (spec/BitmaskFar.tla): the flags become an ordinary element at FARPOS
    fres = tlc_must_pass(run_tlc(ctx, "BitmaskFar", "BitmaskFarMC.cfg", workers=1, timeout=300), "BitmaskFarMC")
    ftable = []
    for p in [p for p in fres.prints if "op" in p]:
        if not (p["fa"] or p["fb"] or p["fa2"] or p["fb2"]):
            continue        # (already in the plain table)
        far = {"SetFar": "Set", "UnsetFar": "Unset", "FlipFar": "Flip", "ExtractFar": "Extract"}
        ftable.append({"op": far.get(p["op"], p["op"]), "arg": FARPOS if p["op"] in far else p["arg"], "val": p["val"], "res": p["res"],
                       "a": sorted(p["a"]) + ([FARPOS] if p["fa"] else []), "b": sorted(p["b"]) + ([FARPOS] if p["fb"] else []),
                       "a2": sorted(p["a2"]) + ([FARPOS + p["shift"]] if p["fa2"] else []),
                       "b2": sorted(p["b2"]) + ([FARPOS] if p["fb2"] else [])})
    if len(ftable) < 1000:
        raise Infra("far-bit transition table too small: %d" % len(ftable))
    table = table + ftable
    tpath = os.path.join(ctx.scratch, "bitmask_table.ndjson")
    write_ndjson(tpath, table)

    # (A) replay on the real containers
    out = os.path.join(ctx.scratch, "bitmask_out.json")
    trace = os.path.join(ctx.scratch, "bitmask_trace.ndjson")
    walks, wlen, traced = (400, 60, 150) if ctx.quick() else (20000, 120, 600)
    ov = harness_overlay(ctx, "internal/tools/bitmask", "bitmask")
    rc, o = go_test(ctx, "internal/tools/bitmask", ov, "^TestVerifBitmask$", env_extra={
        "VERIF_IN": tpath, "VERIF_OUT": out, "VERIF_TRACE": trace, "VERIF_W": str(W),
        "VERIF_WALKS": str(walks), "VERIF_WALKLEN": str(wlen), "VERIF_TRACED": str(traced)})
    go_must_pass(rc, o, "bitmask harness")
    summ = json.load(open(out))
    for m in summ["mismatches"] or []:
        ctx.violation(m["key"], "%s (%s, base %s; %d occurrences)" % (
            m["what"], m["mode"], m["base"], summ["mismatch_counts"][m["key"]]), m)

    # (B) TLC validates the recorded walks against the model
    rows = read_ndjson(trace)
    tres = run_tlc(ctx, "BitmaskTrace", "BitmaskTrace.cfg", files=[trace], workers=1, timeout=600)
    if tres.error or not tres.finished:
        raise Infra("trace validation failed to run:\n" + tres.out[-3000:])
    done = [p for p in tres.prints if "done" in p]
    fails = [p for p in tres.prints if "fail" in p]
    if not done or done[-1]["done"] != len(rows):
        raise Infra("trace not fully consumed by TLC: %s of %d\n%s" % (done, len(rows), tres.out[-2000:]))
    for f in fails:
        key = "%s.%s:%s" % (f["impl"], f["op"], f["fail"])
        ctx.violation(key, "TLC trace validation: walk %s step %s" % (f["tr"], f["n"]), f)

    ntr = len({r["tr"] for r in rows})
    cov = {
        "states": res.distinct + fres.distinct, "transitions": len(table), "far_bit_transitions": len(ftable),
        "traces_validated_against_impl": ntr,
        "evaluations": summ["evaluations"] + summ["walk_steps"],
        "distinct_nontrivial": len(table),
        "rule": "every transition of the TLC state graph of Bitmask.tla (W=6, two registers) replayed from 3 "
                "construction variants x 3 bases (0/60/124) x 3 representations; plus random walks on "
                "persistent objects; distinct_nontrivial = distinct (state, operation, argument) transitions",
        "exhaustive": True,
        "walks": summ["walks"], "walk_steps": summ["walk_steps"],
        "distinct_walk_transitions": summ["distinct_walk_transitions"],
        "trace_rows_validated_by_tlc": len(rows), "ops": summ["ops"],
        "samples": rows[:3] + table[1000:1003],
    }
    return "model_checking", cov, [
        "bits outside [base, base+W+150) are not scanned",
        "window W=6 translated to bases 0/60/124, plus a window W=4 with one far bit per register (an empty word in between); "
        "larger masks only through chained walks"]

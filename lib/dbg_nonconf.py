#!/usr/bin/env python3
"""debug helper: print pre/post state of nonconforming / failing rows of a kept scratch dir"""
import glob, json, sys
d = sys.argv[1]
kind = sys.argv[2] if len(sys.argv) > 2 else "nonconf"
rows = [json.loads(l) for l in open(d + '/manager_trace.ndjson')]
outs = sorted(glob.glob(d + '/tlc*/tlc.out'), key=lambda p: int(p.split('/tlc')[-2].split('/')[0]) if False else len(p))
out = ''
for o in glob.glob(d + '/tlc*/tlc.out'):
    t = open(o).read()
    if 'ManagerTrace' in t:
        out = t
bad = []
for line in out.splitlines():
    if '@@J' in line and kind in line:
        s = line[line.index('@@J') + 3:].rstrip('"').replace('\\"', '"')
        bad.append(json.loads(s))
print(len(bad), kind)
seen = set()
def brief(st):
    return {'known': st['known'], 'queue': st['queue'], 'next': st['nextID'], 'idx': st['indexes'], 'use': st['use'], 'unm': st['unmerge'],
            'files': {f: [(e['id'], e['c'], e['v']) for e in c] for f, c in st['files'].items()},
            'tags': {t: (x['def']['k'], x['def']['n'], x['def']['s'], x['def']['t'], 'M', x['M'], 'U', x['U'], 'refBy', x['refBy'], 'cv', x['convs']) for t, x in st['tags'].items()},
            'flags': {k: v for k, v in st['flags'].items() if v}, 'during': st['during'],
            'jobs': {k: {a: b for a, b in j.items() if a not in ('def',)} for k, j in st['jobs'].items() if j['phase'] != 'none'},
            'views': st['views'], 'toConv': st['toConv'], 'cache': st['cache']}
for b in bad:
    k = (b['what'], b['a'])
    if k in seen:
        continue
    seen.add(k)
    r = [x for x in rows if x['sid'] == b['sid'] and x['n'] == b['n']][0]
    p = [x for x in rows if x['sid'] == b['sid'] and x['n'] == b['n'] - 1][0]
    print('=' * 20, b)
    print(' ev', json.dumps(r['ev']), r['res'], r['msg'])
    print(' PRE ', json.dumps(brief(p['st'])))
    print(' POST', json.dumps(brief(r['st'])))
    print(' OBS ', json.dumps({k: r['obs'][k] for k in ('truth', 'search', 'vis', 'views', 'err')}))

"""Manager family: C06 C09 C10 C11 C13 (C16, C12, C20 build on the same pieces).
spec/Manager.tla + ManagerMC.tla (exhaustive) + ManagerGen.tla (schedules) + ManagerTrace.tla (validation)."""
import concurrent.futures
import json
import os
import re

import common
from common import (HARNESS, Infra, go_test, harness_overlay, load_known, read_ndjson, run_tlc, write_ndjson)

PKG = "internal/index/manager"

# which trace-spec predicates decide which property
PRED_PROP = {
    "C06.NeverStale": "C06", "C06.SearchRight": "C06", "C06.ShownRight": "C06", "C06.ShownRightOnDemand": "C06", "C06.SearchRightCombined": "C06", "C06.truth-undefined": "C06",
    "C10.FreshViewShowsIndexList": "C10", "C10.ViewComplete": "C10", "C10.ViewStable": "C10", "C08.OneIdPerConn": "C10",
    "C13.ViewReadFails": "C13", "C13.ServedFileGone": "C13", "C13.JobReadFails": "C13", "C13.NoUseAfterFree": "C13", "C13.Balanced": "C13",
    "C13.LockCount": "C13", "C13.DirExactWhenQuiet": "C13", "C13.NoLeak": "C13",
    "C11.GraphWellFormed": "C11", "C11.ReferencedMirrors": "C11", "C11.RejectIsNoop": "C11", "C11.Applied": "C11",
    "C09.FlagsMatchJobs": "C09", "C09.Stuck": "C09", "C09.Settles": "C09", "C09.ConverterWorkDone": "C09",
    "C12.TagsKept": "C12", "C12.SettingsKept": "C12", "C12.CacheKept": "C12", "C12.StreamsKept": "C12", "C12.Converges": "C12", "C12.ConvergesCorrect": "C12",
    "C16.ConvFresh": "C16", "C16.ConvFreshAtRest": "C16", "C16.ConvEventually": "C16", "C16.DetachStops": "C16",
}


def mc_config(name, consts, invariants, spec="MCSpec", props=None):
    caps = "MCCapsBad" if "badcap" in consts.get("Extra", "") else "MCCaps"
    lines = ["SPECIFICATION " + spec, "CONSTANTS", "  Caps <- " + caps, "  Conns <- MCConns", "  Pieces <- MCPieces", "  Port <- MCPort"]
    consts = dict(consts)
    consts.setdefault("Crashes", "FALSE")
    consts.setdefault("Restarts", "FALSE")
    consts.setdefault("Extra", "{}")
    for k, v in consts.items():
        lines.append("  %s = %s" % (k, v))
    props = list(props or []) + [i.split(":", 1)[1] for i in invariants if i.startswith("PROPERTY:")]
    invariants = [i for i in invariants if not i.startswith("PROPERTY:")]
    if invariants:
        lines.append("INVARIANTS " + " ".join(invariants))
    if props:
        lines.append("PROPERTIES " + " ".join(props))
    return "\n".join(lines) + "\n"


def gen_config(consts, maxlen):
    c = dict(consts)
    c["MaxLen"] = maxlen
    return mc_config("gen", c, ["Emit"], spec="GenSpec")


def parse_hist(res):
    out = []
    for p in res.prints:
        if "hist" in p:
            out.append(p["hist"])
    return out


def generate(ctx, consts, maxlen, n, depth, seeds, timeout=900):
    """TLC -simulate on ManagerGen with several seeds in parallel; returns list of event lists."""
    cfg_text = gen_config(consts, maxlen)
    cfg = os.path.join(ctx.scratch, "ManagerGen_run.cfg")
    with open(cfg, "w") as fh:
        fh.write(cfg_text)

    def one(seed):
        return run_tlc(ctx, "ManagerGen", "ManagerGen_run.cfg", files=[cfg], workers=1, timeout=timeout,
                       extra=["-simulate", "num=%d" % n, "-depth", str(depth), "-seed", str(seed)])
    hists = []
    # run_tlc allocates scratch dirs through ctx.n_tlc: serialise the allocation, parallelise the runs
    with concurrent.futures.ThreadPoolExecutor(max_workers=min(8, len(seeds))) as ex:
        futs = [ex.submit(one, s) for s in seeds]
        for f in futs:
            r = f.result()
            if r.error and "hist" not in r.out:
                raise Infra("schedule generation failed:\n" + r.out[-3000:])
            if r.error:
                raise Infra("schedule generation hit a TLC error:\n" + r.out[-3000:])
            hists.extend(parse_hist(r))
    return hists


def to_schedule(sid, hist, convs=(), settle=True):
    steps = []
    for ei, e in enumerate(hist):
        st = {"a": e["a"]}
        if e["a"] == "ApiImport":
            st["k"] = e["k"]
        if e["a"] in ("AddTag", "UpdQuery"):
            st["name"] = e["name"]
            st["def"] = e["def"]
        if e["a"] in ("DelTag",):
            st["name"] = e["name"]
        if e["a"] in ("MarkAdd", "MarkDel"):
            st["name"] = e["name"]
            st["ids"] = list(e["ids"])
        if e["a"] in ("ViewOpen", "ViewRelease"):
            st["v"] = e["v"]
        if e["a"] == "SetConverters":
            st["name"] = e["name"]
            st["convs"] = list(e.get("convs", []))
        if e["a"] in ("Crash", "Restart"):
            st["what"] = e.get("what", "") or "none"
            st["cut"] = e.get("cut", 0)
        if e["a"] == "Restart" and convs and ei % 3 == 1:
            # the instant of the kill is the harness' choice: here inside the append of a converter cache record
            st["what"], st["cut"] = "cache", ei * 7
        if e["a"] in ("ConvReset", "ConvRemove", "ConvAdd"):
            st["convs"] = list(e["convs"])
        if e["a"] == "UpdName":
            st["name"] = e["name"]
            st["new"] = e["v"]
        if e["a"] == "UpdColor":
            st["name"] = e["name"]
            st["color"] = e["what"]
        if e["a"] in ("AddHook", "DelHook", "AddEndpoint", "DelEndpoint"):
            st["what"] = e["what"]
        if e["a"] == "SetConfig":
            st["k"] = e["k"]
        if e["a"] == "ViewConvert":
            st["convs"] = list(e["convs"])
            st["v"] = e["v"]
            st["k"] = e["k"]
        steps.append(st)
    return {"id": sid, "steps": steps, "settle": settle, "convs": list(convs)}


def load_regress(tags, world=""):
    path = os.path.join(HARNESS, "manager", "regress.json")
    res = []
    for s in json.load(open(path)):
        if s.get("world", "") != world:
            continue
        if not tags or set(s.get("for", [])) & set(tags):
            res.append({"id": s["id"], "steps": s["steps"], "settle": s.get("settle", True), "convs": s.get("convs", [])})
    return res


def world_files(ctx, world):
    """a scaled world: JSON for the Go harness, ManagerWorld.tla for the trace validation"""
    if not world:
        return None, None
    path = os.path.join(ctx.scratch, "world_%s.json" % world["name"])
    with open(path, "w") as fh:
        json.dump({"caps": world["caps"], "conns": sorted(world["pieces"]), "pieces": {str(c): p for c, p in world["pieces"].items()},
                   "port": {str(c): p for c, p in world["port"].items()}}, fh)
    conns = sorted(world["pieces"])
    tla = ("---- MODULE ManagerWorld ----\nEXTENDS Integers\nWCaps == {%s}\nWConns == {%s}\n" % (
        ", ".join(map(str, world["caps"])), ", ".join(map(str, conns))))
    tla += "WPieces == [c \\in WConns |-> CASE " + " [] ".join("c = %d -> {%s}" % (c, ", ".join(map(str, world["pieces"][c]))) for c in conns) + "]\n"
    tla += "WPort == [c \\in WConns |-> CASE " + " [] ".join("c = %d -> %d" % (c, world["port"][c]) for c in conns) + "]\n====\n"
    return path, tla


def wide_world():
    """63 streams after capture 1, 64 after capture 2, 65 after capture 3: the stream bitmasks cross a word boundary"""
    pieces = {1: [1, 2], 2: [2, 3], 3: [1], 65: [3]}
    port = {1: 80, 2: 81, 3: 80, 65: 80}
    for c in range(4, 65):
        pieces[c] = [1]
        port[c] = 82
    return {"name": "wide", "caps": [1, 2, 3], "pieces": pieces, "port": port}


def run_schedules(ctx, scheds, tag="m", race=False, free=False, timeout=1500, world=None):
    """Run schedules on the real Manager.  A crash of the service goroutine kills the test process:
    the crashed schedule is recorded and the rest is re-run.  Returns (rows, crashes, raw outputs)."""
    ov = harness_overlay(ctx, PKG, "manager")
    rows, crashes, outs = [], [], []
    pending = list(scheds)
    attempt = 0
    while pending and attempt < 12:
        attempt += 1
        sin = os.path.join(ctx.scratch, "%s_sched_%d.json" % (tag, attempt))
        trace = os.path.join(ctx.scratch, "%s_trace_%d.ndjson" % (tag, attempt))
        with open(sin, "w") as fh:
            json.dump(pending, fh)
        env = {"VERIF_IN": sin, "VERIF_TRACE": trace}
        wpath, _ = world_files(ctx, world)
        if wpath:
            env["VERIF_WORLD"] = wpath
        if free:
            env["VERIF_FREE"] = "1"
            env["VERIF_SLOW_MS"] = "3"
        rc, out = go_test(ctx, PKG, ov, "^TestVerifManager$", env_extra=env, race=race, timeout=timeout)
        outs.append(out)
        got = read_ndjson(trace) if os.path.exists(trace) else []
        rows.extend(got)
        if rc == 0:
            break
        if race and "panic:" not in out and "fatal error:" not in out and ("WARNING: DATA RACE" in out or "race detected" in out) \
                and "VERIF-SUMMARY" in out:
            break                                   # the run completed; the race detector made it exit non-zero
        if "[build failed]" in out or "cannot find package" in out or re.search(r"^#.*\n.*\.go:\d+:\d+:", out, re.M):
            raise Infra("harness does not build against the current tree:\n" + out[-4000:])
        # which schedule was running?
        done_ids = []
        for r in got:
            if r["sid"] not in done_ids:
                done_ids.append(r["sid"])
        crashed = done_ids[-1] if done_ids else pending[0]["id"]
        idx = [i for i, s in enumerate(pending) if s["id"] == crashed]
        idx = idx[0] if idx else 0
        last_n = max([r["n"] for r in got if r["sid"] == crashed] or [0])
        crashes.append({"sid": crashed, "after_step": last_n, "schedule": pending[idx], "output": out[-6000:],
                        "race": "WARNING: DATA RACE" in out, "panic": "panic:" in out or "fatal error:" in out})
        # drop rows of the crashed schedule (incomplete), keep the others
        rows = [r for r in rows if r["sid"] != crashed]
        pending = pending[idx + 1:]
    # re-number traces
    sid_tr = {}
    for r in rows:
        sid_tr.setdefault(r["sid"], len(sid_tr))
        r["tr"] = sid_tr[r["sid"]]
    return rows, crashes, outs


def validate(ctx, rows, convs=(), world=None):
    """TLC trace validation.  Returns (fails, nonconfs, consumed)."""
    good = [r for r in rows if r.get("st") is not None]
    # a Go nil slice is written as JSON null (an observation that failed half-way leaves some): TLC's reader knows no null.
    # The row says that the observation failed (obs.err), which is what gets judged.
    nulls = []

    def denull(x, where):
        if isinstance(x, dict):
            return {k: denull(v, where + "." + k) for k, v in x.items()}
        if isinstance(x, list):
            return [denull(v, where) for v in x]
        if x is None:
            nulls.append(where)
            return []
        return x
    good = [denull(r, "row") for r in good]
    if nulls and not any(r.get("obs", {}).get("err") for r in good):
        raise Infra("null values in a trace without a failed observation: %s" % sorted(set(nulls))[:5])
    path = os.path.join(ctx.scratch, "manager_trace.ndjson")
    write_ndjson(path, good)
    cfg = os.path.join(ctx.scratch, "ManagerTrace_run.cfg")
    with open(cfg, "w") as fh:
        fh.write("SPECIFICATION TraceSpec\nCONSTANTS\n  Caps <- TCaps\n  Conns <- TConns\n  Pieces <- TPieces\n  Port <- TPort\n"
                 "  TagNames = {}\n  ConvNames = {%s}\nINVARIANTS Props Done\n" % ", ".join('"%s"' % c for c in convs))
    _, wtla = world_files(ctx, world)
    res = run_tlc(ctx, "ManagerTrace", "ManagerTrace_run.cfg", files=[path, cfg], workers=1, timeout=1200,
                  consts_tla={"ManagerWorld.tla": wtla} if wtla else None)
    if res.error or not res.finished:
        raise Infra("trace validation did not run to completion:\n" + res.out[-4000:])
    done = [p for p in res.prints if "done" in p]
    if not done or done[-1]["done"] != len(good):
        raise Infra("trace not fully consumed: %s of %d rows\n%s" % (done, len(good), res.out[-3000:]))
    fails = [p for p in res.prints if p.get("kind") == "fail"]
    nonconfs = [p for p in res.prints if p.get("kind") == "nonconf"]
    return fails, nonconfs, len(good)


def step_sig(rows_by, f):
    """narrow signature of a failing predicate: predicate + the action at which it first became false in that trace"""
    if f.get("info"):
        if f["what"] == "C16.ConvFresh":
            return "%s@%s:%s" % (f["what"], f["a"], f["info"])
        return "%s:%s" % (f["what"], f["info"])
    return "%s@%s" % (f["what"], f["a"])


def first_fails(fails):
    """keep, per (trace, predicate), only the first failing step (later rows repeat the same bad state)"""
    best = {}
    for f in fails:
        k = (f["sid"], f["what"])
        if k not in best or f["n"] < best[k]["n"]:
            best[k] = f
    return list(best.values())


# --------------------------------------------------------------------------- per-property drivers

GEN = {
    # pid: (constants of ManagerGen, MaxLen, regress tags)
    "C06": ({"TagNames": '{"tag/a", "tag/b", "mark/m"}', "ConvNames": "{}", "MaxCalls": 7, "MaxViews": 1, "Menu": '"tagsb"', "Invalid": "FALSE"}, 44),
    "C09": ({"TagNames": '{"tag/a", "tag/b", "mark/m"}', "ConvNames": "{}", "MaxCalls": 6, "MaxViews": 1, "Menu": '"tagsb"', "Invalid": "FALSE"}, 40),
    "C10": ({"TagNames": '{"tag/a"}', "ConvNames": "{}", "MaxCalls": 7, "MaxViews": 3, "Menu": '"files"', "Invalid": "FALSE", "Extra": '{"badcap"}'}, 40),
    "C11": ({"TagNames": '{"tag/a", "tag/b", "mark/m"}', "ConvNames": "{}", "MaxCalls": 12, "MaxViews": 0, "Menu": '"tagsb"', "Invalid": "TRUE", "Extra": '{"rename", "color"}'}, 34),
    "C13": ({"TagNames": '{"tag/a"}', "ConvNames": "{}", "MaxCalls": 8, "MaxViews": 3, "Menu": '"files"', "Invalid": "FALSE", "Extra": '{"mergefail", "badcap"}'}, 40),
    "C12": ({"TagNames": '{"tag/a", "tag/b", "mark/m"}', "ConvNames": '{"cv"}', "MaxCalls": 12, "MaxViews": 1, "Menu": '"convq"', "Invalid": "FALSE", "Crashes": "TRUE",
             "Restarts": "TRUE", "Extra": '{"rename", "color", "settings"}'}, 50),
    "C16": ({"TagNames": '{"tag/a", "tag/b", "mark/m"}', "ConvNames": '{"cv"}', "MaxCalls": 10, "MaxViews": 1, "Menu": '"convq"', "Invalid": "FALSE", "Crashes": "TRUE",
             "Extra": '{"convdir"}'}, 48),
}
# C20 only: webhook / endpoint / config / rename / colour calls next to imports and tagging
GEN["settings"] = ({"TagNames": '{"tag/a", "tag/b"}', "ConvNames": "{}", "MaxCalls": 12, "MaxViews": 1, "Menu": '"files"', "Invalid": "FALSE",
                    "Extra": '{"rename", "color", "settings"}'}, 44)
CONVS = {"C16": ["cv"], "C12": ["cv"]}

MC = {
    # pid: list of (cfg name, constants, invariants, timeout)
    "C06": [("tags3", {"TagNames": '{"tag/a", "tag/b"}', "ConvNames": "{}", "MaxCalls": 3, "MaxViews": 0, "Menu": '"tags"', "Invalid": "FALSE"},
             ["NeverStale", "GraphWellFormed"]),
            ("marks", {"TagNames": '{"tag/a", "mark/m"}', "ConvNames": "{}", "MaxCalls": 3, "MaxViews": 0, "Menu": '"tags"', "Invalid": "FALSE"},
             ["NeverStale", "GraphWellFormed"]),
            # byte-count filters: a stream that a later capture continues changes its counts
            ("bytes", {"TagNames": '{"tag/a"}', "ConvNames": "{}", "MaxCalls": 3, "MaxViews": 0, "Menu": '"bytes"', "Invalid": "FALSE"},
             ["NeverStale", "NeverStuck", "FlagsMatchJobs"]),
            # payload filters also search the cached converter output: tags that matched output which is dropped later (detach,
            # reset, executable removed) must be evaluated again
            # (two calls in the quick tier; three and four calls: MC_THOROUGH)
            ("conv-payload", {"TagNames": '{"tag/a", "tag/b"}', "ConvNames": '{"cv"}', "MaxCalls": 2, "MaxViews": 0, "Menu": '"conv"', "Invalid": "FALSE",
                              "Extra": '{"convdir"}'},
             ["NeverStaleAtRest", "NeverStuck", "FlagsMatchJobs"]),
            # a payload filter inside a sub-query: new converter output of one stream may change the answer for any other
            ("conv-subq", {"TagNames": '{"tag/a", "tag/b"}', "ConvNames": '{"cv"}', "MaxCalls": 3, "MaxViews": 0, "Menu": '"subq"', "Invalid": "FALSE"},
             ["NeverStaleAtRest", "NeverStuck", "FlagsMatchJobs"])],
    "C09": [("tags3", {"TagNames": '{"tag/a", "tag/b"}', "ConvNames": "{}", "MaxCalls": 3, "MaxViews": 0, "Menu": '"tags"', "Invalid": "FALSE"},
             ["NeverStuck", "FlagsMatchJobs"]),
            ("liveness", {"TagNames": '{"tag/a"}', "ConvNames": "{}", "MaxCalls": 2, "MaxViews": 0, "Menu": '"files"', "Invalid": "FALSE"}, []),
            # tags with sub-queries (invalidated as a whole): the as-found model re-invalidated them at every TagDone and never settled
            ("liveness-subs", {"TagNames": '{"tag/a", "tag/b"}', "ConvNames": "{}", "MaxCalls": 2, "MaxViews": 0, "Menu": '"subs"', "Invalid": "FALSE"}, []),
            # a definition whose evaluation always fails (payload filter on a converter that does not exist) is decided as empty
            ("liveness-errs", {"TagNames": '{"tag/a"}', "ConvNames": "{}", "MaxCalls": 2, "MaxViews": 0, "Menu": '"errs"', "Invalid": "FALSE"}, [])],
    "C10": [("files", {"TagNames": '{"tag/a"}', "ConvNames": "{}", "MaxCalls": 3, "MaxViews": 2, "Menu": '"files"', "Invalid": "FALSE"},
             ["ViewComplete", "OneIdPerConn"]),
            # an unreadable capture file among the uploads: the batch ends before it, at the head of a batch it is dropped
            ("badcap", {"TagNames": '{"tag/a"}', "ConvNames": "{}", "MaxCalls": 3, "MaxViews": 1, "Menu": '"files"', "Invalid": "FALSE",
                        "Extra": '{"badcap"}'},
             ["ViewComplete", "OneIdPerConn", "NoUseAfterFree", "Balanced", "NeverStuck", "FlagsMatchJobs"])],
    "C11": [("calls", {"TagNames": '{"tag/a", "mark/m"}', "ConvNames": "{}", "MaxCalls": 3, "MaxViews": 0, "Menu": '"tags"', "Invalid": "TRUE"},
             ["GraphWellFormed"]),
            # rename / colour: a rename moves the tag record and the reverse references; a job in flight for the old name is dropped
            # (colour calls next to renames: MC_THOROUGH)
            ("rename", {"TagNames": '{"tag/a", "tag/b"}', "ConvNames": "{}", "MaxCalls": 3, "MaxViews": 0, "Menu": '"tags"', "Invalid": "TRUE",
                        "Extra": '{"rename"}'},
             ["GraphWellFormed", "NeverStale", "NeverStuck", "FlagsMatchJobs"])],
    "C13": [("files", {"TagNames": '{"tag/a"}', "ConvNames": "{}", "MaxCalls": 3, "MaxViews": 2, "Menu": '"files"', "Invalid": "FALSE"},
             ["NoUseAfterFree", "Balanced", "DirExactWhenQuiet", "NoLeak"]),
            # a merge may fail (its output cannot be written): nothing is replaced, the job's locks are given back,
            # the oldest file of the run is left out of later merges
            ("mergefail", {"TagNames": '{"tag/a"}', "ConvNames": "{}", "MaxCalls": 3, "MaxViews": 1, "Menu": '"files"', "Invalid": "FALSE",
                           "Extra": '{"mergefail"}'},
             ["NoUseAfterFree", "Balanced", "DirExactWhenQuiet", "NoLeak", "ViewComplete", "NeverStuck", "FlagsMatchJobs"])],
    # C12: the process may be killed between any two steps and restarted (Restart action of Manager.tla), then anything may follow
    "C12": [("restart", {"TagNames": '{"tag/a"}', "ConvNames": '{"cv"}', "MaxCalls": 3, "MaxViews": 0, "Menu": '"conv"', "Invalid": "FALSE", "Restarts": "TRUE"},
             ["MCViewComplete", "NameOrderIsServeOrder", "NeverStale", "Balanced", "NoUseAfterFree", "GraphWellFormed", "NeverStuck",
              "FlagsMatchJobs", "OneIdPerConn", "ConvEventually", "PROPERTY:StreamsKeptProp"]),
            # settings (webhooks, endpoints, config) and colours are part of what a restart must show (StreamsKeptStep)
            ("restart-settings", {"TagNames": '{"tag/a"}', "ConvNames": "{}", "MaxCalls": 4, "MaxViews": 0, "Menu": '"files"', "Invalid": "FALSE",
                                  "Restarts": "TRUE", "Extra": '{"settings", "color"}'},
             ["MCViewComplete", "NameOrderIsServeOrder", "NeverStale", "Balanced", "NoUseAfterFree", "NeverStuck", "FlagsMatchJobs",
              "OneIdPerConn", "PROPERTY:StreamsKeptProp"])],
    "C16": [("conv", {"TagNames": '{"tag/a"}', "ConvNames": '{"cv"}', "MaxCalls": 3, "MaxViews": 0, "Menu": '"conv"', "Invalid": "FALSE"},
             ["ConvFreshAtRest", "ConvEventually", "NeverStuck", "FlagsMatchJobs"]),
            # the converter directory changes while jobs run: executable removed (detached everywhere, cache dropped) and added again
            ("convdir", {"TagNames": '{"tag/a"}', "ConvNames": '{"cv"}', "MaxCalls": 4, "MaxViews": 0, "Menu": '"conv"', "Invalid": "FALSE",
                         "Extra": '{"convdir"}'},
             ["ConvFreshAtRest", "ConvEventually", "NeverStuck", "FlagsMatchJobs", "Balanced", "NoUseAfterFree", "NeverStaleAtRest"])],
}

# Invariants the faithful model is known to violate: each is a recorded known finding (KNOWN_FINDINGS.txt) that exists at design
# level.  TLC must FIND the counterexample (otherwise the model no longer describes the code as found: machinery error).
MC_EXPECTED = {
    "C06": [("conv-payload", {"TagNames": '{"tag/a", "tag/b"}', "ConvNames": '{"cv"}', "MaxCalls": 3, "MaxViews": 0, "Menu": '"conv"', "Invalid": "FALSE"},
             {"NeverStale": "C06.NeverStale:convjob"})],
    "C16": [("conv", {"TagNames": '{"tag/a"}', "ConvNames": '{"cv"}', "MaxCalls": 3, "MaxViews": 0, "Menu": '"conv"', "Invalid": "FALSE"},
             {"ConvFresh": "C16.ConvFresh@ConvCompute", "DetachStops": "C16.DetachStops@ImportDone"}),
            ("restart", {"TagNames": '{"tag/a"}', "ConvNames": '{"cv"}', "MaxCalls": 3, "MaxViews": 0, "Menu": '"conv"', "Invalid": "FALSE", "Restarts": "TRUE"},
             {"ConvFreshAtRest": "C16.ConvFreshAtRest:cause=CrashRestart/import-leftover"})],
}


MC_THOROUGH = {
    "C12": [("restart-tags", {"TagNames": '{"tag/a", "mark/m"}', "ConvNames": "{}", "MaxCalls": 3, "MaxViews": 0, "Menu": '"tags"', "Invalid": "FALSE", "Restarts": "TRUE"},
             ["MCViewComplete", "NameOrderIsServeOrder", "NeverStale", "Balanced", "NoUseAfterFree", "GraphWellFormed", "NeverStuck",
              "FlagsMatchJobs", "OneIdPerConn", "PROPERTY:StreamsKeptProp"]),
            ("restart-views", {"TagNames": '{"tag/a"}', "ConvNames": "{}", "MaxCalls": 4, "MaxViews": 1, "Menu": '"files"', "Invalid": "FALSE", "Restarts": "TRUE"},
             ["MCViewComplete", "NameOrderIsServeOrder", "NeverStale", "Balanced", "NoUseAfterFree", "NeverStuck", "FlagsMatchJobs",
              "OneIdPerConn", "DirExactWhenQuiet", "PROPERTY:StreamsKeptProp"])],
    "C06": [("subs", {"TagNames": '{"tag/a", "tag/b"}', "ConvNames": "{}", "MaxCalls": 3, "MaxViews": 0, "Menu": '"subs"', "Invalid": "FALSE"},
             ["NeverStale", "GraphWellFormed", "NeverStuck", "FlagsMatchJobs"]),
            ("conv-payload3", {"TagNames": '{"tag/a", "tag/b"}', "ConvNames": '{"cv"}', "MaxCalls": 3, "MaxViews": 0, "Menu": '"conv"', "Invalid": "FALSE",
                               "Extra": '{"convdir"}'},
             ["NeverStaleAtRest", "NeverStuck", "FlagsMatchJobs"]),
            ("conv-payload4", {"TagNames": '{"tag/a", "tag/b"}', "ConvNames": '{"cv"}', "MaxCalls": 4, "MaxViews": 0, "Menu": '"conv"', "Invalid": "FALSE",
                               "Extra": '{"convdir"}'},
             ["NeverStaleAtRest", "NeverStuck", "FlagsMatchJobs"]),
            # payload filter inside a sub-query: four calls; three calls with a view (on-demand conversion through the view)
            ("conv-subq4", {"TagNames": '{"tag/a", "tag/b"}', "ConvNames": '{"cv"}', "MaxCalls": 4, "MaxViews": 0, "Menu": '"subq"', "Invalid": "FALSE"},
             ["NeverStaleAtRest", "NeverStuck", "FlagsMatchJobs"]),
            ("conv-subq-view", {"TagNames": '{"tag/a", "tag/b"}', "ConvNames": '{"cv"}', "MaxCalls": 3, "MaxViews": 1, "Menu": '"subq"', "Invalid": "FALSE"},
             ["NeverStaleAtRest", "NeverStuck", "FlagsMatchJobs"])],
    "C11": [("rename-color", {"TagNames": '{"tag/a", "tag/b"}', "ConvNames": "{}", "MaxCalls": 3, "MaxViews": 0, "Menu": '"tags"', "Invalid": "TRUE",
                              "Extra": '{"rename", "color"}'},
             ["GraphWellFormed", "NeverStale", "NeverStuck", "FlagsMatchJobs"])],
    "C16": [("conv-marks-views", {"TagNames": '{"tag/a", "mark/m"}', "ConvNames": '{"cv"}', "MaxCalls": 3, "MaxViews": 1, "Menu": '"conv"', "Invalid": "FALSE"},
             ["ConvEventually", "NeverStuck", "FlagsMatchJobs", "NoUseAfterFree", "Balanced", "GraphWellFormed", "NeverStaleAtRest"])],
    "C09": [("liveness-conv", {"TagNames": '{"tag/a"}', "ConvNames": '{"cv"}', "MaxCalls": 2, "MaxViews": 0, "Menu": '"conv"', "Invalid": "FALSE"}, [])],
}


def model_check(ctx, pid):
    """(C): exhaustive TLC over the bounded model.  A counterexample here is about the model; it is reported in the
    evidence and turned into a schedule by the generator/regression set, never into a verdict."""
    total_d, total_g, notes = 0, 0, []
    if os.environ.get("VERIF_SKIP_MC") == "1":      # ad-hoc debugging only; never set by registered commands
        return 1, 1, [{"skipped": True}]
    configs = list(MC.get(pid, []))
    if not ctx.quick():
        configs += MC_THOROUGH.get(pid, [])
    def one(c):
        name, consts, invs = c
        cfg = os.path.join(ctx.scratch, "ManagerMC_%s_%s.cfg" % (pid, name))
        with open(cfg, "w") as fh:
            if name.startswith("liveness"):      # C09: EnvDone ~> Settled under weak fairness of the job steps, no state constraint
                fh.write(mc_config(name, consts, [], spec="MCFairSpec", props=["Settles"]))
            else:
                fh.write(mc_config(name, consts, invs))
        return run_tlc(ctx, "ManagerMC", os.path.basename(cfg), files=[cfg], workers=8, timeout=900 if ctx.quick() else 3000)
    # two configurations at a time (TLC does not scale linearly with its workers; 2 x 14 GB heap fit the machine)
    with concurrent.futures.ThreadPoolExecutor(max_workers=2) as ex:
        results = list(ex.map(one, configs))
    for (name, consts, invs), res in zip(configs, results):
        total_d += res.distinct
        total_g += res.generated
        if res.error:
            raise Infra("model checking %s failed:\n%s" % (name, res.out[-3000:]))
        if res.invariant_violated or res.temporal_violated or res.action_prop_violated:
            raise Infra("MODEL-COUNTEREXAMPLE (not a verdict about the code): %s violated in configuration %s of ManagerMC; turn the TLC trace "
                        "into a schedule (harness/manager/regress.json) and replay it on the real Manager\n%s"
                        % (res.invariant_violated or "temporal property", name, res.out[-6000:]))
        notes.append({"config": name, "distinct": res.distinct, "generated": res.generated,
                      "invariants": invs, "violated_in_model": res.invariant_violated, "complete": res.finished and not res.invariant_violated})
    findings, _ = load_known()
    for name, consts, expected in MC_EXPECTED.get(pid, []):
        for inv, key in expected.items():
            if (pid, key) not in findings:
                raise Infra("MC_EXPECTED names %s which is not a known finding" % key)
            cfg = os.path.join(ctx.scratch, "ManagerMC_%s_%s_%s.cfg" % (pid, name, inv))
            with open(cfg, "w") as fh:
                fh.write(mc_config(name, consts, [inv]))
            res = run_tlc(ctx, "ManagerMC", os.path.basename(cfg), files=[cfg], workers=12, timeout=900)
            if res.error or res.invariant_violated != [inv]:
                raise Infra("the model was expected to reproduce known finding %s (invariant %s, configuration %s) but TLC says:\n%s"
                            % (key, inv, name, res.out[-3000:]))
            notes.append({"config": name, "invariant": inv, "violated_in_model_as_expected": key, "distinct_until_found": res.distinct})
    return total_d, total_g, notes


GEN2 = {   # additional generator configurations (same MaxLen)
    "C10": [{"TagNames": '{"tag/a", "tag/b"}', "ConvNames": "{}", "MaxCalls": 8, "MaxViews": 2, "Menu": '"conv"', "Invalid": "FALSE"}],
    "C11": [{"TagNames": '{"tag/a", "tag/b", "service/c"}', "ConvNames": "{}", "MaxCalls": 12, "MaxViews": 0, "Menu": '"subs"', "Invalid": "TRUE"}],
    "C06": [{"TagNames": '{"tag/a", "tag/b", "mark/m"}', "ConvNames": "{}", "MaxCalls": 7, "MaxViews": 1, "Menu": '"subs"', "Invalid": "FALSE"},
            {"TagNames": '{"tag/a", "tag/b", "mark/m"}', "ConvNames": '{"cv"}', "MaxCalls": 9, "MaxViews": 1, "Menu": '"convq"', "Invalid": "FALSE", "Extra": '{"convdir"}'}],
    "C09": [{"TagNames": '{"tag/a", "mark/m"}', "ConvNames": '{"cv"}', "MaxCalls": 8, "MaxViews": 1, "Menu": '"conv"', "Invalid": "FALSE"},
            {"TagNames": '{"tag/a", "tag/b", "mark/m"}', "ConvNames": "{}", "MaxCalls": 7, "MaxViews": 1, "Menu": '"subs"', "Invalid": "FALSE"},
            {"TagNames": '{"tag/a", "tag/b"}', "ConvNames": "{}", "MaxCalls": 7, "MaxViews": 1, "Menu": '"errs"', "Invalid": "FALSE"}],
    "C13": [{"TagNames": '{"tag/a", "mark/m"}', "ConvNames": '{"cv"}', "MaxCalls": 8, "MaxViews": 2, "Menu": '"conv"', "Invalid": "FALSE"}],
}


def run(ctx):
    pid = ctx.pid
    consts, maxlen = GEN[pid]
    states, trans, mc_notes = model_check(ctx, pid)
    nseeds, per = (6, 10) if ctx.quick() else (16, 60)
    if os.environ.get("VERIF_ONLY_REGRESS") == "1":   # ad-hoc debugging only
        nseeds = 0
    scheds = []
    cfgs = [consts] + GEN2.get(pid, [])
    all_convs = set()
    for ci, c in enumerate(cfgs):
        ns = max(2, nseeds // len(cfgs)) if ci else max(2, nseeds - (len(cfgs) - 1) * max(2, nseeds // len(cfgs))) if len(cfgs) > 1 else nseeds
        convs = ["cv"] if '"cv"' in c["ConvNames"] else []
        all_convs |= set(convs)
        if nseeds:
            hs = generate(ctx, c, maxlen, per, maxlen + 5, [ctx.seed * 1000 + 100 * ci + i for i in range(ns)])
            scheds += [to_schedule("g%d_%d" % (ci, i), h, convs=convs) for i, h in enumerate(hs)]
    convs = sorted(all_convs | set(CONVS.get(pid, [])))
    scheds = load_regress([pid]) + scheds
    rows, crashes, outs = run_schedules(ctx, scheds, tag=pid)
    # the same family in the scaled world (63 / 64 / 65 streams): regression schedules written for it + the first generated ones
    wide = wide_world()
    nwide = 4 if ctx.quick() else 24
    wscheds = load_regress([pid], world="wide") + [dict(s, id="w-" + s["id"]) for s in scheds if s["id"].startswith("g")][:nwide]
    wrows, wcrashes, _ = run_schedules(ctx, wscheds, tag=pid + "_wide", world=wide)
    api_cov = {}
    if pid == "C10":
        api_cov = endpoint_pass(ctx)
    if pid == "C11":
        # the same calls through the HTTP layer (parameter handling of cmd/pkappa2): spec/ApiTrace.tla
        import fam_api
        api_cov = fam_api.api_pass(ctx, generate)
    level, cov, assumptions = evaluate(ctx, pid, scheds, rows, crashes, states, trans, mc_notes, convs=convs,
                                       extra=[(wide, wscheds, wrows, wcrashes)])
    cov.update(api_cov)
    return level, cov, assumptions


def endpoint_pass(ctx):
    """captures that arrive over a PCAP-over-IP endpoint: what a view shows at rest, judged by spec/EndpointTrace.tla"""
    out = os.path.join(ctx.scratch, "endpoint_rows.ndjson")
    ov = harness_overlay(ctx, PKG, "manager")
    rc, o = go_test(ctx, PKG, ov, "^TestVerifPcapOverIP$", env_extra={"VERIF_OUT": out}, timeout=300)
    if rc != 0 or not os.path.exists(out):
        raise Infra("PCAP-over-IP scenario failed:\n" + o[-3000:])
    rows = read_ndjson(out)
    res = run_tlc(ctx, "EndpointTrace", "EndpointTrace.cfg", files=[out], workers=1, timeout=300)
    if res.error or not res.finished:
        raise Infra("endpoint trace validation did not run to completion:\n" + res.out[-3000:])
    done = [p for p in res.prints if "done" in p]
    if not done or done[-1]["done"] != len(rows):
        raise Infra("endpoint rows not fully consumed: %s of %d" % (done, len(rows)))
    fails = [p for p in res.prints if p.get("kind") == "fail"]
    for f in fails:
        if f["what"].startswith("endpoint-scenario"):
            raise Infra("PCAP-over-IP scenario did not run as intended: %s" % f)
    seen = set()
    for f in fails:
        if f["what"] in seen:
            continue
        seen.add(f["what"])
        row = next(r for r in rows if r["variant"] == f["variant"])
        ctx.violation(f["what"], "%s fails for the capture stream served with pause pattern %s: a view at rest shows %s" % (
            f["what"], f["variant"], json.dumps(row["vis"])[:300]), {"row": row})
    return {"endpoint_variants": len(rows), "endpoint_capture_files_written_by_the_service": [r["pcaps"] for r in rows]}


def evaluate(ctx, pid, scheds, rows, crashes, states, trans, mc_notes, convs=(), extra=()):
    by_sid = {s["id"]: s for s in scheds}
    base_rows = rows
    for _w, wscheds, wrows, wcrashes in extra:
        by_sid.update({s["id"]: s for s in wscheds})
        rows = rows + wrows
        crashes = crashes + wcrashes
        scheds = scheds + wscheds
    for c in crashes:
        if pid in ("C11",) and c["panic"]:
            m = re.search(r"panic: (.*)", c["output"])
            nxt = c["schedule"]["steps"][c["after_step"]]["a"] if c["after_step"] < len(c["schedule"]["steps"]) else "?"
            ctx.violation("crash@%s" % nxt, "service process crashed (%s) in schedule %s after step %d" % (
                m.group(1) if m else "panic", c["sid"], c["after_step"]), c)
        elif not c["panic"] and not c["race"]:
            raise Infra("harness run died without a panic:\n" + c["output"][-3000:])
        else:
            ctx.notes.append("schedule %s crashed the process (counted under C11)" % c["sid"])
    hung = [r for r in rows if r["res"] in ("hang",) or (r["res"] == "fatal" and "hang" in r.get("msg", ""))]
    fatal = [r for r in rows if r["res"] in ("fatal", "infra") and r not in hung]
    for r in hung:
        if pid in ("C11", "C09"):
            ctx.violation("hang@%s" % r["ev"]["a"], "service does not respond: %s (schedule %s step %d)" % (r["msg"], r["sid"], r["n"]),
                          {"schedule": by_sid.get(r["sid"]), "row": r})
    if fatal:
        raise Infra("harness could not drive the service: %s" % json.dumps(fatal[0])[:2000])
    # C12: a restart on a crash copy that fails, panics or hangs
    crash_rows = [r for r in rows if r["ev"]["a"] == "CrashRestart"]
    for r in crash_rows:
        if r["res"] != "ok" and pid == "C12":
            ctx.violation("C12.Opens:%s:%s" % (r["ev"].get("what", ""), r["res"]),
                          "restart on the directory left by a kill fails (%s): %s" % (r["res"], r.get("msg", "")[:300]),
                          {"schedule": by_sid.get(r["sid"].split("#")[0]), "row": {k: r[k] for k in ("sid", "ev", "res", "msg")}})
    fails, nonconfs, consumed = validate(ctx, base_rows, convs)
    for w, _ws, wrows, _wc in extra:
        f2, n2, c2 = validate(ctx, wrows, convs, world=w)
        fails, nonconfs, consumed = fails + f2, nonconfs + n2, consumed + c2
    # staleness at rest is attributed to the step at which the stale entry first appeared
    first_strict = {}
    for f in fails:
        if f["what"] == "C16.ConvFresh" and (f["sid"] not in first_strict or f["n"] < first_strict[f["sid"]]["n"]):
            first_strict[f["sid"]] = f
    # a restart on a copy of the directory shows the stale entries the killed process already had: same cause as there
    for f in fails:
        if f["what"] == "C16.ConvFresh" and f.get("info") == "inherited":
            parent = first_strict.get(f["sid"].split("#")[0])
            if parent is not None and parent is not f:
                f["a"], f["info"] = parent["a"], parent.get("info", "") if parent.get("info") != "inherited" else ""
    # (was the process killed before that point of the trace?  a crash copy "sid#cN" starts with the restart)
    killed_at = {}
    for r in list(base_rows) + [x for e in extra for x in e[2]]:
        if r["ev"]["a"] == "CrashRestart":
            killed_at[r["sid"]] = min(killed_at.get(r["sid"], r["n"]), r["n"])
    for f in fails:
        if f["what"] == "C16.ConvFreshAtRest":
            fs = first_strict.get(f["sid"], f)
            f["info"] = "cause=" + fs["a"] + ("/" + fs["info"] if fs is not f and fs.get("info") else "")
            if fs["a"] == "ConvCompute" and ("#" in f["sid"] or killed_at.get(f["sid"], 1 << 30) <= f["n"]):
                f["info"] += "+kill"
    mine = [f for f in first_fails(fails) if PRED_PROP.get(f["what"]) == pid]
    others = sorted({f["what"] for f in fails if PRED_PROP.get(f["what"]) != pid})
    # a fresh view that cannot read an index file the service serves: the file was closed or deleted while in use (C13)
    gone = [f for f in fails if f["what"] == "obs-error" and re.search(r"closed|no such file|bad file descriptor", f.get("info", ""))]
    for f in gone:
        f["what"] = "C13.ServedFileGone"
        f["info"] = ""
    # the directory listing lacks a file the service still serves from: deleted while in use (C13)
    row_of = {(r["sid"], r["n"]): r for r in list(base_rows) + [x for e in extra for x in e[2]]}
    for f in [f for f in fails if f["what"] == "dir-listing-differs"]:
        r = row_of.get((f["sid"], f["n"]))
        if r and r.get("st") and set(r["st"]["indexes"]) - set(r["obs"].get("dir") or []):
            f["what"] = "C13.ServedFileGone"
            f["info"] = ""
    infra_fail = [f for f in fails if f["what"] in ("obs-error", "dir-listing-differs")]
    if infra_fail:
        raise Infra("observation failed: %s" % infra_fail[0])
    for f in mine:
        ctx.violation(step_sig(None, f),
                      "%s fails in schedule %s at step %d (%s)" % (f["what"], f["sid"], f["n"], f["a"]),
                      {"schedule": by_sid.get(f["sid"].split("#")[0]), "fail": f})
    for n in sorted({(n["what"], n["a"]) for n in nonconfs}):
        ctx.nonconformance.append("step=%s what=%s (%d rows)" % (n[1], n[0], sum(1 for x in nonconfs if (x["what"], x["a"]) == n)))
    ntr = len({r["sid"] for r in rows})
    acts = {}
    for r in rows:
        acts[r["ev"]["a"] + ":" + r["res"]] = acts.get(r["ev"]["a"] + ":" + r["res"], 0) + 1
    overlap = sum(1 for s in scheds if has_overlap(s))
    cov = {
        "states": states, "transitions": trans, "traces_validated_against_impl": ntr,
        "samples": [{"schedule": scheds[-1]["id"], "steps": [st["a"] for st in scheds[-1]["steps"]]},
                    {"row": {k: rows[min(5, len(rows) - 1)][k] for k in ("sid", "n", "ev", "res")}}] if rows else [],
        "model_checking": mc_notes, "schedules": len(scheds), "rows_validated_by_tlc": consumed,
        "actions_executed": acts, "schedules_with_job_overlap": overlap,
        "nonconforming_rows": len(nonconfs), "other_property_predicates_failing": others,
        "evaluations": consumed, "distinct_nontrivial": overlap,
        "rule": "TLC -simulate behaviours of ManagerGen.tla (weighted choice, seeds derived from VERIF_SEED) plus regression "
                "schedules, replayed on the real Manager through the verif hooks; non-trivial = an API call or another job's "
                "completion happens between a job's start and its completion",
    }
    if pid == "C12":
        pts = {}
        for r in crash_rows:
            sched = by_sid.get(r["sid"].split("#")[0])
            k = r["ev"].get("k", 0)
            prev = sched["steps"][k - 2]["a"] if sched and 2 <= k <= len(sched["steps"]) + 1 else "?"
            pts[(r["ev"].get("what", ""), prev)] = pts.get((r["ev"].get("what", ""), prev), 0) + 1
        cov["crash_restarts"] = len(crash_rows)
        cov["crash_points"] = sorted("%s after %s (%d)" % (w, a, n) for (w, a), n in pts.items())
        cov["evaluations"] = len(crash_rows)
        cov["distinct_nontrivial"] = len(pts)
        cov["rule"] = ("one evaluation = one restart of the real Manager on a copy of the data directory taken at a TLC-chosen "
                       "instant (optionally with the newest state/index file cut short); distinct = distinct (kind of cut, preceding action)")
        return "fault_enumeration", cov, ["process kill only (the service never syncs; power loss is out of scope)",
                                          "world of 3 captures / 3 UDP connections"]
    return "model_checking", cov, [
        "world of 3 captures / 3 UDP connections (harness/manager/world_test.go = ManagerMC.tla MCPieces) and the same world "
        "padded with single-packet connections to 63 / 64 / 65 streams (trace validation only)",
        "from-scratch truth uses the real query engine on a fresh view (engine correctness is C02-C04)",
        "a model-only counterexample is not a verdict; verdicts come from predicates evaluated on real states"]


def has_overlap(s):
    inflight = set()
    for st in s["steps"]:
        a = st["a"]
        if a.endswith("Compute"):
            inflight.add(a[:-7])
        elif a.endswith("Done"):
            inflight.discard(a[:-4])
            if inflight:
                return True
        elif inflight and a not in ("ViewOpen", "ViewRelease"):
            return True
    return False


# --------------------------------------------------------------------------- C20: data races

REPO_ROOT = os.path.realpath(common.REPO)


def parse_races(out):
    """split go test output into race reports; signature = first non-harness /repo frame of each of the two accesses"""
    reports = []
    blocks = out.split("WARNING: DATA RACE")[1:]
    for b in blocks:
        b = b.split("==================")[0]
        parts = re.split(r"\n(?=Previous (?:read|write) at |Goroutine \d+ \()", b)
        accesses = [p for p in parts if re.match(r"\s*(Read|Write|Previous read|Previous write) at ", p.strip()) or p.strip().startswith(("Read at", "Write at"))]
        sigs = []
        for a in accesses[:2]:
            frames = re.findall(r"\n\s+(\S+)\(.*?\)\n\s+(\S+?):(\d+)", "\n" + a)
            pick, harness_only = None, True
            for fn, path, line in frames:
                if path.startswith(REPO_ROOT + "/internal/") or path.startswith(REPO_ROOT + "/cmd/"):
                    if "zz_verif_" in path:
                        continue
                    harness_only = False
                    pick = fn.split("/")[-1]
                    pick = re.sub(r"\.func\d+(\.\d+)*", ".func", pick)
                    pick = re.sub(r"^manager\.TestVerif\w+\.", "manager.", pick)
                    break
            sigs.append(pick or ("harness" if harness_only else "runtime"))
        while len(sigs) < 2:
            sigs.append("?")
        reports.append({"sig": "|".join(sorted(sigs)), "text": b[:3000]})
    return reports


def run_c20(ctx):
    nseeds, per = (3, 6) if ctx.quick() else (8, 30)
    scheds = load_regress([])
    seen = set()
    uniq = []
    for sc in scheds:
        if sc["id"] not in seen and "Crash" not in [st["a"] for st in sc["steps"]]:
            seen.add(sc["id"])
            uniq.append(sc)
    scheds = uniq
    if os.environ.get("VERIF_ONLY_REGRESS") != "1":
        for ci, pid in enumerate(["C06", "C16", "C13", "settings"]):
            consts, maxlen = GEN[pid]
            consts = dict(consts)
            consts["Crashes"] = "FALSE"
            consts["Restarts"] = "FALSE"
            convs = ["cv"] if '"cv"' in consts["ConvNames"] else []
            ns = nseeds * 3 if pid == "settings" else nseeds      # (races with the settings calls need a call right after a job's completion)
            hs = generate(ctx, consts, maxlen, per, maxlen + 5, [ctx.seed * 1000 + 100 * ci + i for i in range(ns)])
            scheds += [to_schedule("g%d_%d" % (ci, i), h, convs=convs) for i, h in enumerate(hs)]
    # gated: TLC's interleavings; free: no gates, API calls overlap with running jobs
    rows_g, crashes_g, outs_g = run_schedules(ctx, scheds, tag="race_gated", race=True, timeout=3000)
    rows_f, crashes_f, outs_f = run_schedules(ctx, scheds, tag="race_free", race=True, free=True, timeout=3000)
    # extension: endpoint / listener / webhook goroutines (not schedule driven)
    ov = harness_overlay(ctx, PKG, "manager")
    rc_e, out_e = go_test(ctx, PKG, ov, "^TestVerifEndpoints$", env_extra={"VERIF_ENDPOINTS": "1", "VERIF_SLOW_MS": "25"}, race=True, timeout=300)
    if rc_e != 0 and "DATA RACE" not in out_e:
        raise Infra("endpoint scenario failed:\n" + out_e[-3000:])
    outs_f = outs_f + [out_e]
    for c in crashes_g + crashes_f:
        if c["panic"]:
            ctx.notes.append("schedule %s crashed the process under -race" % c["sid"])
    reports = []
    for o in outs_g + outs_f:
        reports += parse_races(o)
    by_sig = {}
    for r in reports:
        by_sig.setdefault(r["sig"], []).append(r)
    harness = [s for s in by_sig if set(s.split("|")) <= {"harness", "runtime", "?"}]
    for sig, rs in sorted(by_sig.items()):
        if sig in harness:
            continue
        ctx.violation("race:" + sig, "data race reported by the Go race detector (%d reports)" % len(rs), {"report": rs[0]["text"]})
    if harness:
        ctx.notes.append("race reports inside the harness only: %s" % harness)
    acts = {}
    for r in rows_g + rows_f:
        acts[r["ev"]["a"]] = acts.get(r["ev"]["a"], 0) + 1
    overlap = sum(1 for s in scheds if has_overlap(s))
    cov = {
        "evaluations": len(rows_g) + len(rows_f), "distinct_nontrivial": overlap,
        "rule": "TLC-generated schedules of ManagerGen.tla (tags / converters / files configurations) and the regression schedules, "
                "each executed twice on the real Manager built with -race: gated (TLC's interleaving of job completions and API "
                "calls) and free-running (no gates: API calls overlap running jobs); evaluations = steps executed; "
                "distinct_nontrivial = schedules in which a call or completion happens while another job is in flight",
        "samples": [{"schedule": scheds[-1]["id"], "steps": [st["a"] for st in scheds[-1]["steps"]]}],
        "schedules": len(scheds), "race_reports": len(reports), "distinct_signatures": sorted(by_sig),
        "harness_only_signatures": harness, "actions_executed": acts,
    }
    return "exploration", cov, ["the verdict is the Go race detector's; it reports only races on executed interleavings",
                                "gates add happens-before edges, therefore every schedule also runs free"]

"""C01 / C07 - index file writer, reader and merger vs. spec/IndexFile.tla.

(C) exhaustive TLC on the scaled model (IndexFileMC*.cfg / IndexFileMergeMC.cfg); its "@@J" output is the
    list of regime-covering vectors,
(A) the vectors are scaled back (harness/indexfile) and run on the real Writer / Reader / Merge, together
    with seeded random stream sets / stacks,
(B) everything the real code returned is validated by TLC (IndexFileTrace.tla); only a predicate failing
    there becomes a violation."""
import concurrent.futures
import json
import os
import time

from common import (Infra, go_must_pass, go_test, harness_overlay, read_ndjson, run_tlc, write_ndjson)

HOST_REGIMES = {"second-v4-hostgroup", "second-v6-hostgroup", "undo-after-partial-add", "first-group-used-after-undo",
                "place-of-undone-host-taken-then-host-again",
                "undone-host-looked-up-again", "host-stored-in-two-groups", "interleaved-family-groups", "mixed-families"}
SKIP_REGIMES = {"skip-saturated", "split-then-saturated-skip", "wrap-in-skipped-packets", "wrap-inside-empty-run"}
MERGE_HOST_REGIMES = {"addindex-pops-partially-added-hosts", "merged-file-has-second-group-of-a-family",
                      "new-group-although-family-present", "hosts-joined-into-existing-group",
                      "hosts-appended-to-group-sharing-the-readers-host-section"}
NOISE = {"index-high-bits", "several-import-entries-one-capture", "leading-empty-packets", "server-speaks-first"}

CONSTS = """  CapBytes = 7
  MaxData = 2
  SkipSat = 2
  Wrap = 4
  Tick = 8
  Sec = 2
  ImportSplit = 2
"""


class SubCtx:
    """private TLC scratch numbering for runs started in parallel"""

    def __init__(self, ctx, name):
        self.scratch = ctx.sub(name)
        self.n_tlc = 0

    def sub(self, name):
        d = os.path.join(self.scratch, name)
        os.makedirs(d, exist_ok=True)
        return d


def mc_cfg(pop, start, mode, max_streams, max_pkts, sizes, steps, emit_k, exempt):
    return ("SPECIFICATION Spec\nCONSTANTS\n" + CONSTS +
            '  PopUnit = "%s"\n  StartUnit = "%s"\n  Mode = "%s"\n  MaxStreams = %d\n  MaxPkts = %d\n'
            "  Sizes = {%s}\n  Steps = {%s}\n  EmitK = %d\n  Exempt = %s\nINVARIANTS Check\n"
            % (pop, start, mode, max_streams, max_pkts, sizes, steps, emit_k, "TRUE" if exempt else "FALSE"))


def merge_cfg(mids, files, merges, hp, tp, hpl, tpl, emit_k):
    q = lambda l: ", ".join('"%s"' % x for x in l)
    return ("SPECIFICATION Spec\nVIEW View\nCONSTANTS\n" + CONSTS +
            '  PopUnit = "host"\n  StartUnit = "host"\n  MIds = {%s}\n  MaxFiles = %d\n  MaxMerges = %d\n'
            "  HPats = {%s}\n  TPats = {%s}\n  HPatsLast = {%s}\n  TPatsLast = {%s}\n  EmitK = %d\nINVARIANTS Check\n"
            % (", ".join(str(i) for i in mids), files, merges, q(hp), q(tp), q(hpl), q(tpl), emit_k))


def run_mcs(ctx, jobs):
    """jobs: list of (name, module, cfg file name or None, cfg text or None, workers). Runs them in parallel."""
    def one(job):
        name, module, cfg, text, workers = job
        sub = SubCtx(ctx, "mc_" + name)
        files = None
        if text is not None:
            cfg = "gen_%s.cfg" % name
            p = os.path.join(sub.scratch, cfg)
            with open(p, "w") as fh:
                fh.write(text)
            files = [p]
        res = run_tlc(sub, module, cfg, files=files, workers=workers, timeout=1500 if not ctx.quick() else 400, heap="6g")
        return name, res
    out = {}
    with concurrent.futures.ThreadPoolExecutor(max_workers=len(jobs)) as ex:
        for name, res in ex.map(one, jobs):
            mcfail = [p for p in res.prints if "mcfail" in p]
            if not res.finished and not mcfail and not res.invariant_violated and not res.error:
                raise Infra("TLC run %s ended without a result (rc=%s; killed?):\n%s" % (name, res.rc, res.out[-600:]))
            if not res.ok() or mcfail:
                raise Infra("exhaustive TLC run %s did not pass (a counterexample on the MODEL is not a verdict about the code):\n%s\n%s"
                            % (name, json.dumps(mcfail[:1])[:1500], "\n".join(l for l in res.out.splitlines() if "@@J" not in l)[-2500:]))
            out[name] = res
    return out


def unique_vectors(results, key):
    seen, vecs = set(), []
    for name in sorted(results):
        for p in results[name].prints:
            if "vec" not in p:
                continue
            k = json.dumps(p[key], sort_keys=True)
            if k in seen:
                continue
            seen.add(k)
            p["mc"] = name
            vecs.append(p)
    return vecs


def validate_trace(ctx, trace, what):
    rows = 0
    with open(trace) as fh:
        for line in fh:
            if line.strip():
                rows += 1
    if rows == 0:
        raise Infra("harness produced no trace rows (%s)" % what)
    tres = run_tlc(ctx, "IndexFileTrace", "IndexFileTrace.cfg", files=[trace], workers=1, timeout=900, heap="8g")
    if tres.error or not tres.finished:
        raise Infra("trace validation failed to run:\n" + "\n".join(l for l in tres.out.splitlines() if "@@J" not in l)[-3000:])
    done = [p for p in tres.prints if "done" in p]
    if not done or done[-1]["done"] != rows:
        raise Infra("trace not fully consumed by TLC: %s of %d" % (done, rows))
    return rows, [p for p in tres.prints if "fail" in p]


def run_harness(ctx, vectors, par=8):
    vin = os.path.join(ctx.scratch, "indexfile_vectors.ndjson")
    write_ndjson(vin, vectors)
    out = os.path.join(ctx.scratch, "indexfile_out.json")
    trace = os.path.join(ctx.scratch, "indexfile_trace.ndjson")
    tmp = ctx.sub("idxtmp")
    ov = harness_overlay(ctx, "internal/index", "indexfile")
    rc, o = go_test(ctx, "internal/index", ov, "^TestVerifIndexFile$", env_extra={
        "VERIF_IN": vin, "VERIF_OUT": out, "VERIF_TRACE": trace, "VERIF_TMP": tmp, "VERIF_PAR": str(par)},
        timeout=1100 if not ctx.quick() else 170)
    go_must_pass(rc, o, "indexfile harness")
    return json.load(open(out)), trace


def selftest(ctx, trace):
    """the binding binds: one corrupted observation / one dropped stream in a recorded row must be rejected by TLC"""
    if ctx.quick():
        return
    row = None
    with open(trace) as fh:
        for line in fh:
            if len(line) < 200000:
                r = json.loads(line)
                if (r["kind"] == "file" and r["err"] == "" and len(r["all"]) >= 2) or \
                   (r["kind"] == "merge" and r["err"] == "" and len(r["after"]["visible"]) >= 2):
                    row = r
                    break
    if row is None:
        raise Infra("selftest: no usable row")
    a, b = json.loads(json.dumps(row)), json.loads(json.dumps(row))
    a["tr"], b["tr"] = 1, 2
    if row["kind"] == "file":
        a["all"][0]["cb"] += 1
        b["all"] = b["all"][1:]
        b["nall"] -= 1
    else:
        a["after"]["visible"][0]["last"] = "2020-01-01T12:00:00.000000001Z"
        b["after"]["visible"] = b["after"]["visible"][1:]
    d = ctx.sub("selftest")
    p = os.path.join(d, "indexfile_trace.ndjson")
    write_ndjson(p, [a, b])
    tres = run_tlc(ctx, "IndexFileTrace", "IndexFileTrace.cfg", files=[p], workers=1, timeout=300, heap="2g")
    trs = {f["tr"] for f in tres.prints if "fail" in f}
    if tres.error or not tres.finished or trs != {1, 2}:
        raise Infra("selftest: corrupted rows were not rejected by TLC:\n" + tres.out[-1500:])
    ctx.notes.append("selftest: corrupted field and dropped stream rejected by TLC")


def report(ctx, fails):
    """turn TLC's failing predicates (evaluated on what the real code returned) into violations, one per narrow key"""
    for f in fails:
        what = "%s on %s vector %s (regimes %s): %s" % (f["fail"], f["src"], f["name"], ",".join(f["regimes"][:6]),
                                                         json.dumps(f["info"], sort_keys=True)[:400])
        ctx.violation(f["key"], what, f)


# ----------------------------------------------------------------------------- C01

def run_c01(ctx):
    quick = ctx.quick()
    k = 3 if quick else 6
    jobs = [
        ("hosts", "IndexFileMC", None, mc_cfg("host", "host", "hosts", 4 if quick else 5, 0, "", "", k, False), 4),
        ("hosts_asfound", "IndexFileMC", None, mc_cfg("byte", "byte", "hosts", 4, 0, "", "", k, True), 4),
        ("meta", "IndexFileMC", None, mc_cfg("host", "host", "meta", 3, 0, "", "", k, False), 4),
        ("pkts3", "IndexFileMC", None, mc_cfg("host", "host", "pkts", 1, 3, "99, 0, 1, 3" if quick else "99, 0, 1, 2, 3, 4",
                                              "0, 1, 8, 24, 32" if quick else "0, 1, 8, 9, 24, 32, 40", k, False), 2),
        ("pkts4", "IndexFileMC", None, mc_cfg("host", "host", "pkts", 1, 4, "99, 1, 3" if quick else "99, 0, 1, 3",
                                              "0, 8, 24" if quick else "0, 8, 24, 32", k, False), 2 if quick else 4),
    ]
    if not quick:
        jobs.append(("pkts5", "IndexFileMC", None, mc_cfg("host", "host", "pkts", 1, 5, "99, 1, 3", "0, 24", k, False), 4))
    t0 = time.time()
    mcs = run_mcs(ctx, jobs)
    ctx.notes.append("model checking %.0fs" % (time.time() - t0))
    vecs = unique_vectors({n: r for n, r in mcs.items()}, "streams")
    if len(vecs) < 20:
        raise Infra("too few vectors from TLC: %d" % len(vecs))

    vectors, regimes_run = [], set()
    per_regime = 1 if quick else 4          # scaled-back (expensive) concretisations per regime
    used = {}
    for i, v in enumerate(vecs):
        regs = sorted(v["regimes"])
        base = {"vec": "c01", "regimes": regs, "streams": v["streams"], "seed": ctx.seed * 1000 + i}
        variants = ["A", "B"] if not quick else [["A", "B"][(ctx.seed + i) % 2]]
        hostv = set(regs) & HOST_REGIMES
        if hostv and "A" not in variants:
            variants.append("A")
        for var in variants:
            vectors.append(dict(base, name="%s#%d/%s" % (v["mc"], i, var), variant=var, fill=False, rep=1))
        want = {r for r in hostv if used.get(("fill", r), 0) < per_regime}
        if want and v["mc"] != "hosts_asfound":
            for r in hostv:
                used[("fill", r)] = used.get(("fill", r), 0) + 1
            for var in (variants if not quick else variants[:1]):
                vectors.append(dict(base, name="%s#%d/%s+fill" % (v["mc"], i, var), variant=var, fill=True, rep=1))
        skipv = set(regs) & SKIP_REGIMES
        want = {r for r in skipv if used.get(("rep", r), 0) < 2 * per_regime}
        if want:
            for r in skipv:
                used[("rep", r)] = used.get(("rep", r), 0) + 1
            vectors.append(dict(base, name="%s#%d/%s+rep" % (v["mc"], i, variants[0]), variant=variants[0], fill=False, rep=128))
        regimes_run |= set(regs)
    nrand, nbig = (200, 1) if quick else (1500, 3)
    for j in range(8):
        vectors.append({"vec": "c01", "name": "rand%d" % j, "random": nrand // 8, "big": False, "seed": ctx.seed * 7919 + j, "regimes": []})
    for j in range(nbig):
        vectors.append({"vec": "c01", "name": "randbig%d" % j, "random": 1, "big": True, "seed": ctx.seed * 104729 + j, "regimes": []})

    t0 = time.time()
    summ, trace = run_harness(ctx, vectors, par=12)
    t1 = time.time()
    rows, fails = validate_trace(ctx, trace, "C01")
    ctx.notes.append("harness %.0fs, trace validation %.0fs; slowest vectors: %s" % (t1 - t0, time.time() - t1, ", ".join(summ.get("slowest", [])[:5])))
    report(ctx, fails)
    selftest(ctx, trace)

    sample = read_ndjson_head(trace, 2)
    cov = {
        "states": sum(r.distinct for r in mcs.values()), "transitions": sum(r.generated for r in mcs.values()),
        "model_runs": {n: {"distinct": r.distinct, "generated": r.generated} for n, r in mcs.items()},
        "traces_validated_against_impl": rows,
        "evaluations": summ["streams"],
        "distinct_nontrivial": len(regimes_run),
        "rule": "exhaustive TLC over the scaled writer/reader model along three axes (hosts, ids/times/sources, packet lists of one "
                "stream), both for the repaired host-table code and the code as found (with the named exemption "
                "KnownHostGroupDefect); every input TLC printed for a regime (first %d per regime) is scaled back (16384/4096 "
                "hosts, 65535-byte records, 255 skip, 2^32 us, 2^32 index) and written/read with the real code; plus seeded "
                "random stream sets; distinct_nontrivial = distinct regimes of the model reached by inputs run on the real code; "
                "evaluations = streams written and read back through AllStreams, StreamByID and StreamByFirstPacketSource" % k,
        "exhaustive": True,
        "vectors_from_tlc": len(vecs), "vectors_run": len(vectors), "files_written": summ["files"], "filler_streams": summ["fillers"],
        "regimes": sorted(regimes_run), "random_sets": nrand // 8 * 8 + nbig,
        "predicate_failures": len(fails), "timing": list(ctx.notes),
        "samples": sample,
    }
    return "exploration", cov, [
        "client and server address of a stream belong to the same family; stream ids and first-packet sources are distinct inside a file",
        "packet timestamps of a stream do not decrease; every packet carries one capture reference",
        "chunk boundaries and chunk times inside one direction, and per-packet timestamps, are outside the claim and not compared",
        "the 2^16 host-group and 2^32 record limits that make AddStream refuse a stream are not reached",
        "payload content is compared through SHA-1 digests and lengths per direction"]


def read_ndjson_head(path, n):
    res = []
    with open(path) as fh:
        for line in fh:
            if len(line) < 20000:
                res.append(json.loads(line))
            if len(res) >= n:
                break
    return res


# ----------------------------------------------------------------------------- C07

def run_c07(ctx):
    quick = ctx.quick()
    k = 2 if quick else 4
    if quick:
        jobs = [("merge3", "IndexFileMergeMC", None,
                 merge_cfg([1, 2, 3], 3, 2, ["p0", "p3", "u"], ["a0", "d2"], ["p3", "mix"], ["d2"], k), 14)]
    else:
        jobs = [("merge3", "IndexFileMergeMC", None,
                 merge_cfg([1, 2, 3], 3, 2, ["p0", "p3", "mix", "v6", "u"], ["a0", "d0", "d2"], ["p3", "mix"], ["d2"], k), 10),
                ("merge2x4", "IndexFileMergeMC", None,
                 merge_cfg([1, 2, 3, 4], 2, 2, ["p0", "p3", "mix", "v6", "u"], ["a0", "d0", "a2", "d2"], ["p3"], ["d2"], k), 6)]
    t0 = time.time()
    mcs = run_mcs(ctx, jobs)
    ctx.notes.append("model checking %.0fs" % (time.time() - t0))
    vecs = unique_vectors(mcs, "ops")
    if len(vecs) < 10:
        raise Infra("too few vectors from TLC: %d" % len(vecs))

    vectors, regimes_run, nfill = [], set(), 0
    per_regime = 1 if quick else 4          # scaled-back (16380 filler hosts per file) concretisations per host regime
    used = {}
    for i, v in enumerate(vecs):
        regs = sorted(v["regimes"])
        ops = [{"op": o["op"], "from": o["from"], "streams": o["streams"]} for o in v["ops"]]
        base = {"vec": "c07", "regimes": regs, "ops": ops, "seed": ctx.seed * 1000 + i}
        variants = ["A", "B"] if not quick else [["A", "B"][(ctx.seed + i) % 2]]
        for var in variants:
            vectors.append(dict(base, name="%s#%d/%s" % (v["mc"], i, var), variant=var, fill=False, rep=1))
        hr = set(regs) & MERGE_HOST_REGIMES
        if {r for r in hr if used.get(r, 0) < per_regime}:
            for r in hr:
                used[r] = used.get(r, 0) + 1
            nfill += 1
            vectors.append(dict(base, name="%s#%d/%s+fill" % (v["mc"], i, variants[0]), variant=variants[0], fill=True, rep=1))
        regimes_run |= set(regs)
    nrand = 160 if quick else 2400
    for j in range(8):
        vectors.append({"vec": "c07", "name": "randstack%d" % j, "random": nrand // 8, "seed": ctx.seed * 7919 + j, "regimes": []})

    t0 = time.time()
    summ, trace = run_harness(ctx, vectors, par=8)
    t1 = time.time()
    rows, fails = validate_trace(ctx, trace, "C07")
    ctx.notes.append("harness %.0fs, trace validation %.0fs; slowest vectors: %s" % (t1 - t0, time.time() - t1, ", ".join(summ.get("slowest", [])[:5])))
    report(ctx, fails)
    selftest(ctx, trace)

    cov = {
        "states": sum(r.distinct for r in mcs.values()), "transitions": sum(r.generated for r in mcs.values()),
        "model_runs": {n: {"distinct": r.distinct, "generated": r.generated} for n, r in mcs.items()},
        "traces_validated_against_impl": rows,
        "evaluations": summ["streams"],
        "distinct_nontrivial": len(regimes_run),
        "rule": "exhaustive TLC over stacks of <= 3 files on 3 ids (thorough: also 2 files on 4 ids) with every id subset per file, "
                "host and time patterns, every suffix merged at every point, <= 2 merges (merge of a merge): invariant "
                "Visible(stack) = newest pushed version per id, all lookups exact; the first %d behaviours per regime are "
                "rebuilt with the real Writer and merged with the real index.Merge (some with 16380 filler hosts per file), plus "
                "seeded random stacks; rows = merges whose before/after observations (direct, through SearchStreams, search "
                "battery) TLC compared with each other and with the model's Visible; distinct_nontrivial = distinct merge regimes "
                "of the model reached on the real code; evaluations = visible streams observed before merges" % k,
        "exhaustive": True,
        "vectors_from_tlc": len(vecs), "vectors_run": len(vectors), "merges": summ["merges"], "many_host_vectors": nfill,
        "regimes": sorted(regimes_run), "random_stacks": nrand // 8 * 8,
        "predicate_failures": len(fails), "timing": list(ctx.notes),
        "samples": [{"regimes": v["regimes"], "ops": [(o["op"], o["from"], [s["id"] for s in o["streams"]]) for o in v["ops"]]} for v in vecs[:3]],
    }
    return "exploration", cov, [
        "merge scheduling and replacement inside the service are covered by the Manager family (MergeDone, ViewStable), not here",
        "the limits that make AddIndex spill into a second output file (2^16 host groups, 2^32 records) are not reached",
        "the model of the merge uses the repaired host-table code (PopUnit/StartUnit = host); the as-found variant is checked in C01",
        "search results with equal sort keys are compared as key sequences and id sets (order among ties is not part of the claim)",
        "the search battery avoids 'or' queries with sort+limit (C02 finding) - engine correctness is C02's subject"]


def run(ctx):
    if ctx.pid == "C01":
        return run_c01(ctx)
    if ctx.pid == "C07":
        return run_c07(ctx)
    raise Infra("fam_indexfile does not serve " + ctx.pid)

"""C19 - file endpoints stay inside the capture directory and never overwrite
(spec/Upload.tla, UploadProps.tla, UploadGen.tla, UploadTrace.tla; harness/upload)."""
import json
import os
import random

from common import (Infra, go_must_pass, go_test, harness_overlay, read_ndjson, run_tlc,
                    tlc_must_pass, write_ndjson)

PROPERTY_PREDICATES = ("InsideOnly", "NoOverwrite", "OneNewFile", "ExactlyOnceQueued", "ExistingRejected",
                       "ReadInsideOnly", "DownloadReadOnly", "DownloadQueuesNothing", "AtMostOneSuccess",
                       "LoserChangesNothing")


def _project_schedules(terminals):
    """Terminal interleavings of the two-uploader model -> schedules over the points the harness can control:
    open / half / fin (= rest, close, enqueue without anything in between) / abort.  Interleavings that put
    another uploader's step between rest, close and enqueue cannot be reproduced exactly and are left out."""
    out, seen, skipped = [], {}, 0
    for t in terminals:
        steps, ok, i, sch = [], True, 0, t["sched"]
        while i < len(sch):
            u, s = sch[i]["u"], sch[i]["s"]
            if s in ("open", "half", "abort"):
                steps.append([u, s])
                i += 1
            elif s == "rest":
                if (i + 2 < len(sch) and sch[i + 1] == {"u": u, "s": "close"} and sch[i + 2] == {"u": u, "s": "enq"}):
                    steps.append([u, "fin"])
                    i += 3
                else:
                    ok = False
                    break
            else:
                ok = False
                break
        if not ok:
            skipped += 1
            continue
        plain_a = t["paths"]["A"]["cls"] == "plain"
        plain_b = t["paths"]["B"]["cls"] == "plain"
        key = (json.dumps(steps), t["pre"], plain_a, plain_b)
        has_exp = plain_a and plain_b
        if key in seen:
            if has_exp and seen[key]["exp"] != t["ok"]:
                raise Infra("two-uploader model assigns two outcomes to one schedule: %s" % (key,))
            continue
        seen[key] = {"steps": steps, "pre": t["pre"], "plainA": plain_a, "plainB": plain_b,
                     "hasExp": has_exp, "exp": t["ok"], "id": len(out)}
        out.append(seen[key])
    return out, skipped


def _dedupe(prints):
    res, seen = [], set()
    for p in prints:
        if "hist" not in p:
            continue
        k = json.dumps(p["hist"], sort_keys=True)
        if k not in seen:
            seen.add(k)
            res.append(p["hist"])
    return res


def _validate(ctx, rows, trace_path=None, chunk=6000):
    """TLC (UploadTrace.tla) over the recorded rows, in chunks cut at world boundaries (bounded memory).
    Returns the failing (row number, predicate) records with row numbers relative to `rows`."""
    fails, seen, start = [], set(), 0
    while start < len(rows):
        end = min(len(rows), start + chunk)
        while end < len(rows) and rows[end]["n"] != 0:
            end += 1
        part = rows[start:end]
        sub = ctx.sub("trace%d_%d" % (ctx.n_tlc, start))
        path = os.path.join(sub, "upload_trace.ndjson")
        write_ndjson(path, part)
        res = run_tlc(ctx, "UploadTrace", "UploadTrace.cfg", files=[path], workers=1, timeout=900, heap="3g")
        if res.error or not res.finished:
            raise Infra("trace validation failed to run (rc=%s):\n%s" % (res.rc, res.out[-3000:]))
        done = [p for p in res.prints if "done" in p]
        if not done or done[-1]["done"] != len(part):
            raise Infra("trace not fully consumed by TLC: %s of %d\n%s" % (done, len(part), res.out[-2000:]))
        for p in res.prints:
            if "fail" in p:
                p["row"] += start
                k = (p["row"], p["fail"])
                if k not in seen:
                    seen.add(k)
                    fails.append(p)
        os.remove(path)
        start = end
    return fails


def _selftest(ctx, rows):
    """The binding must bind: corrupt single fields of recorded rows (rows that TLC accepted) and require TLC
    to name the predicate."""
    picked, want = [], []
    acc = [r for r in rows if r["op"] == "upload" and r["status"] == 200 and r["pre"]["inside"]]
    rej = [r for r in rows if r["op"] == "upload" and r["status"] != 200]
    dl = [r for r in rows if r["op"] == "download" and r["reads"]]
    pr = [r for r in rows if r["op"] == "pair" and r["same"] and (r["status"] == 200) != (r["status2"] == 200)]
    if len(acc) < 3 or not rej or not dl or not pr:
        if ctx.violations:
            return 0        # a tree that breaks the property may leave no accepted material; the verdict stands
        raise Infra("selftest: trace has no material (accepted %d rejected %d served %d pairs %d)" % (
            len(acc), len(rej), len(dl), len(pr)))

    def add(row, mutate, fail):
        r = json.loads(json.dumps(row))
        r["n"] = 0
        mutate(r)
        picked.append(r)
        want.append((len(picked), fail))

    add(acc[0], lambda r: r["post"].__setitem__("base", "base:changed"), "InsideOnly")
    add(acc[1], lambda r: r.__setitem__("events", 2), "ExactlyOnceQueued")
    add(acc[2], lambda r: r["post"]["inside"].__setitem__(
        [i for i, f in enumerate(r["post"]["inside"]) if f["n"] == r["pre"]["inside"][0]["n"]][0],
        {"n": r["pre"]["inside"][0]["n"], "c": "0:changed"}), "NoOverwrite")
    add(acc[0], lambda r: r.__setitem__("body", "1:other"), "OneNewFile")
    add(rej[0], lambda r: r.__setitem__("queued", ["x.pcap"]), "ExactlyOnceQueued")
    add(dl[0], lambda r: r["reads"].append({"z": "base", "n": "secret.pcap"}), "ReadInsideOnly")
    add(pr[0], lambda r: (r.__setitem__("status", 200), r.__setitem__("status2", 200)), "AtMostOneSuccess")
    add(pr[0], lambda r: r.__setitem__("body" if r["status"] == 200 else "body2", "1:mixed"), "LoserChangesNothing")
    # a repeated accepted upload of one written path (second copy of the row, new file renamed)
    twice = json.loads(json.dumps(acc[0]))
    twice["n"] = 0
    picked.append(twice)
    again = json.loads(json.dumps(acc[0]))
    again["n"] = 1
    again["pre"] = json.loads(json.dumps(acc[0]["post"]))
    again["post"] = json.loads(json.dumps(acc[0]["post"]))
    again["post"]["inside"].append({"n": "zzzz-second-copy", "c": again["body"]})
    again["queued"] = ["zzzz-second-copy"]
    picked.append(again)
    want.append((len(picked), "ExistingRejected"))
    fails = _validate(ctx, picked)
    got = {(f["row"], f["fail"]) for f in fails}
    missing = [w for w in want if w not in got]
    if missing:
        raise Infra("selftest: corrupted rows were not rejected by TLC: %s (got %s)" % (missing, sorted(got)))
    return len(want)


def run(ctx):
    quick = ctx.quick()
    rnd = random.Random(ctx.seed)

    # (C) the two-uploader model, exhaustively; its terminal interleavings become schedules
    mc = tlc_must_pass(run_tlc(ctx, "UploadMC", "UploadMC.cfg", workers=1, timeout=300), "UploadMC")
    terminals = [p for p in mc.prints if "sched" in p]
    scheds, skipped = _project_schedules(terminals)
    if len(scheds) < 20:
        raise Infra("too few schedules from the two-uploader model: %d" % len(scheds))
    # the same model without exclusive create must break the properties (the predicates discriminate)
    racy = run_tlc(ctx, "UploadMC", "UploadMC_racy.cfg", workers=1, timeout=300)
    if not racy.invariant_violated:
        raise Infra("check-then-rename variant of the model does not violate any property:\n" + racy.out[-1500:])

    # three uploaders: at most one success per name under every interleaving (model only)
    mc3 = tlc_must_pass(run_tlc(ctx, "UploadMC", "UploadMC3.cfg", workers=4, timeout=600), "UploadMC3")

    # (A) request sequences from TLC: exhaustive sweep of abstract requests + simulated sequences
    sweep = tlc_must_pass(run_tlc(ctx, "UploadGen", "UploadGen_sweep.cfg", workers=1, timeout=300), "UploadGen sweep")
    singles = [h[0] for h in _dedupe(sweep.prints)]
    paths = {}
    for q in singles:
        paths.setdefault((q["cls"], q["nm"], q["ext"], q["v"]), set()).add(q["op"])
    if any(v != {"upload", "download"} for v in paths.values()) or len(paths) < 500:
        raise Infra("sweep incomplete: %d paths" % len(paths))
    plist = sorted(paths)
    rnd.shuffle(plist)
    seqs = []
    for i in range(0, len(plist), 6):
        chunk = plist[i:i + 6]
        one = []
        for (c, n, e, v) in chunk:
            one.append({"op": "upload", "cls": c, "nm": n, "ext": e, "v": v, "k": 0})
            one.append({"op": "download", "cls": c, "nm": n, "ext": e, "v": v, "k": 0})
        seqs.append(one + one)            # second round: every written path once more
    nsweep = len(seqs)
    nsim = 200 if quick else 2500
    sim = tlc_must_pass(run_tlc(ctx, "UploadGen", "UploadGen_sim.cfg", workers=1, timeout=600,
                                extra=["-simulate", "num=%d" % nsim, "-depth", "10", "-seed", str(ctx.seed)]),
                        "UploadGen sim")
    simseqs = _dedupe(sim.prints)
    if len(simseqs) < nsim // 2:
        raise Infra("simulation produced too few sequences: %d" % len(simseqs))
    seqs += simseqs

    inp = os.path.join(ctx.scratch, "upload_in.json")
    with open(inp, "w") as fh:
        json.dump({"seqs": seqs, "scheds": scheds, "pairReps": 1 if quick else 6}, fh)
    out = os.path.join(ctx.scratch, "upload_out.json")
    trace = os.path.join(ctx.scratch, "upload_trace.ndjson")
    ov = harness_overlay(ctx, "cmd/pkappa2", "upload", web_dist=True)
    rc, o = go_test(ctx, "cmd/pkappa2", ov, "^TestVerifUpload$", timeout=170 if quick else 1000, env_extra={
        "VERIF_IN": inp, "VERIF_OUT": out, "VERIF_TRACE": trace, "VERIF_TMP": ctx.sub("worlds")})
    go_must_pass(rc, o, "upload harness")
    summ = json.load(open(out))
    rows = read_ndjson(trace)
    if len(rows) != summ["rows"] or not rows:
        raise Infra("trace incomplete: %d rows, harness wrote %d" % (len(rows), summ["rows"]))

    # (B) TLC evaluates the property predicates on every recorded row
    fails = _validate(ctx, rows)
    for f in fails:
        r = rows[f["row"] - 1]
        sig = "%s/%s#%d" % (r["op"], r["cls"], r["var"]) if r["op"] != "pair" else "pair/%s+%s" % (r["cls"], r["cls2"])
        if f["fail"].startswith("Conforms"):
            ctx.nonconformance.append("step=%d %s %s path=%s status=%s" % (f["row"], f["fail"], sig, r["path"], r["status"]))
            continue
        if f["fail"] not in PROPERTY_PREDICATES:
            raise Infra("unknown predicate in trace validation output: %s" % f)
        rep = {k: r[k] for k in r if k not in ("pre", "post")}
        rep["inside_before"] = r["pre"]["inside"][:40]
        rep["inside_after"] = r["post"]["inside"][:40]
        rep["predicate"] = f["fail"]
        ctx.violation("C19.%s:%s" % (f["fail"], sig),
                      "%s false on %s %s (status %s%s): new inside %s, changed outside %s, events %d, queued %s" % (
                          f["fail"], r["op"], r["path"], r["status"],
                          "/%s, second path %s, schedule %s" % (r["status2"], r["path2"], " ".join(r["sched"]))
                          if r["op"] == "pair" else "",
                          r["created"], r["outside"], r["events"], r["queued"]), rep)

    bad = {f["row"] for f in fails}
    nself = _selftest(ctx, [r for i, r in enumerate(rows) if (i + 1) not in bad])

    st = summ["stats"]
    acc = st.get("upload.accepted", 0)
    served = st.get("download.served", 0)
    pairs = [r for r in rows if r["op"] == "pair"]
    one_winner = sum(1 for r in pairs if (r["status"] == 200) != (r["status2"] == 200))
    sched_run = len({r["schedid"] for r in pairs})
    if acc < 20 or served < 5 or one_winner < 10:
        raise Infra("vacuous run: accepted uploads %d, served downloads %d, pairs with one winner %d" % (
            acc, served, one_winner))
    worlds = len({r["w"] for r in rows})
    by_class = {}
    for k, v in sorted(st.items()):
        parts = k.split(".")
        if len(parts) == 3 and parts[0] in ("upload", "download"):
            by_class.setdefault(parts[0] + "/" + parts[1], {})[parts[2]] = v
    cov = {
        "states": mc.distinct + mc3.distinct, "transitions": mc.generated + mc3.generated,
        "states_two_uploaders": mc.distinct, "states_three_uploaders": mc3.distinct,
        "model_terminal_interleavings": len(terminals), "schedules_replayable": len(scheds),
        "schedules_not_replayable": skipped, "schedules_executed": sched_run,
        "racy_model_violates": racy.invariant_violated,
        "traces_validated_against_impl": worlds,
        "evaluations": len(rows),
        "distinct_nontrivial": summ["templates_exercised"] + sched_run,
        "rule": "distinct_nontrivial = distinct (operation, path class, literal spelling template) sent to the real "
                "router + distinct two-uploader schedules of the TLC model executed on it; evaluations = recorded "
                "requests/pairs, each with the file system of all three zones before and after, all validated by TLC "
                "(UploadTrace.tla)",
        "exhaustive": False,
        "abstract_requests_swept": 2 * len(plist), "sweep_worlds": nsweep, "simulated_sequences": len(simseqs),
        "spelling_templates_total": summ["templates_total"], "spelling_templates_exercised": summ["templates_exercised"],
        "uploads_accepted": acc, "downloads_served_from_inside": served, "pair_rows": len(pairs),
        "pairs_with_exactly_one_winner": one_winner,
        "pair_outcomes": {k: v for k, v in st.items() if k.startswith("pair.") and k != "pair.rows"},
        "status_by_class": by_class,
        "selftest_corruptions_rejected": nself,
        "nonconformance": len(ctx.nonconformance),
        "harness_seconds": round(summ["seconds"], 1),
        "samples": [{k: r[k] for k in ("op", "cls", "path", "status", "created", "outside", "events", "queued")}
                    for r in rows[:2] + pairs[:1]],
    }
    return "exploration", cov, [
        "the file system is a fresh temporary tree per sequence; manager-owned directories (index, state, snapshot) "
        "live outside the observed zones; symbolic links inside the capture directory are not part of the model",
        "names handed to the importer are read from the importer's log line per queued entry; arrival events through "
        "Manager.Listen",
        "overlap of two uploads is controlled at the request body (open / half / rest+close+enqueue / abort); "
        "interleavings finer than that are covered by the model only",
        "requests without authentication passwords configured; HTTP/1.1 over loopback only"]

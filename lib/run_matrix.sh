#!/bin/sh
# runs every seeded change against the check(s) of its property; writes seeded/MATRIX.txt
cd "$(dirname "$0")/.."
OUT=seeded/MATRIX.txt
: > $OUT.tmp
for d in seeded/*/; do
  n=$(basename $d)
  id=${n%%-*}
  checks=$id
  case $n in
    C07-m2) checks="C10";;
    C09-m2) checks="C09";;
    C07-m3) checks="C10 C13";;
    C01-m5) checks="C07";;     # the change is in Writer.AddIndex (merge)
    C04-m5) checks="C03";;     # the change is in the query normaliser (Conditions.then)
    C10-m5) checks="C02";;     # the change is in index.SearchStreams (shadowing of old versions)
    C01-m6) checks="C01 C07";;  # the change is in Writer.AddIndex (merge of a chatty stream)
    C10-m6) checks="C10 C02";;  # the change is in index.buildSearchObjects (three stacked indexes)
    C08-m6) checks="C10";;
    C08-m7) checks="C10";;
    C01-m7) checks="C01 C07";;
    C12-m7) checks="C12 C15";;
    C16-m7) checks="C16 C15";;
    C09-m7) checks="C09 C16";;
    C10-m8) checks="C10 C02";;          # not detected (admissible pages; DESIGN 10.11)
    C08-m8) checks="C08";;              # needs the thorough tier (two restarts around a 100000-packet world): MUT_TIER=thorough
    C12-m8) checks="C12";;
    C11-m6|C11-m7|C11-m8) continue;;   # obsolete: all three drop "t.referencedBy = ot.referencedBy" for a tag deleted and added again during its job; since the definition-number fix the result of such a job is dropped as a whole (demo passes with the change)
    C09-m5) continue;;          # obsolete: its scenario (data query on a tag with converters) is rejected since fix 2d7… (see DESIGN 10.6)
    C11-m2|C11-m4|C11-m5) continue;;   # obsolete for the same reason (the same line, earlier rounds)
  esac
  python3 lib/mutants.py run $n $checks 2>&1 | grep -v KNOWN | cut -c1-240 >> $OUT.tmp
done
mv $OUT.tmp $OUT

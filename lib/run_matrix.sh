#!/bin/sh
# runs every seeded change against the check(s) of its property; writes seeded/MATRIX.txt
cd "$(dirname "$0")/.."
OUT=seeded/MATRIX.txt
: > $OUT.tmp
for d in seeded/*/; do
  n=$(basename $d)
  id=${n%%-*}
  checks=$id
  case $n in
    C07-m2) checks="C10";;
    C09-m2) checks="C09";;
    C07-m3) checks="C10 C13";;
  esac
  python3 lib/mutants.py run $n $checks 2>&1 | grep -v KNOWN | cut -c1-240 >> $OUT.tmp
done
mv $OUT.tmp $OUT

#!/usr/bin/env python3
"""Seeded-change tooling.
  mutants.py confirm <mutant-dir> <name>   - verify a sub-agent's change in a scratch worktree and store it in /verif/seeded/<name>
  mutants.py run <name> [check ids...]     - apply /verif/seeded/<name>/patch.diff to /repo, run checks, revert, print verdicts
"""
import json
import os
import re
import shutil
import subprocess
import sys

V = os.path.dirname(os.path.dirname(os.path.abspath(__file__)))
REPO = "/repo"
ENV = dict(os.environ, GOFLAGS="-mod=mod", GOPROXY="off")
ENV.pop("GOSUMDB", None)
ENV.pop("GOTOOLCHAIN", None)


def sh(cmd, cwd=None, timeout=1800):
    p = subprocess.run(cmd, shell=True, cwd=cwd, env=ENV, stdout=subprocess.PIPE, stderr=subprocess.STDOUT, text=True, timeout=timeout)
    return p.returncode, p.stdout


def confirm(mdir, name):
    meta = json.load(open(os.path.join(mdir, "meta.json")))
    cmd = meta.get("demo_cmd", "")
    m = re.search(r"-run\s+'?\"?([^\s'\"]+)'?\"?", cmd)
    pk = re.search(r"(\./)?(internal/[\w/]+|cmd/[\w/]+)/?\s*$", cmd.strip()) or re.search(r"\s(\./)?((?:internal|cmd)/[\w/]+)/?", cmd)
    if not m or not pk:
        print("cannot parse demo_cmd:", cmd)
        return 2
    runre, pkg = m.group(1), pk.group(2).rstrip("/")
    wt = "/tmp/confirm_" + name
    sh("git -C %s worktree remove --force %s" % (REPO, wt))
    rc, out = sh("git -C %s worktree add -q --detach %s HEAD" % (REPO, wt))
    if rc:
        print(out)
        return 2
    try:
        demos = [f for f in os.listdir(os.path.join(mdir, "demo")) if f.endswith(".go")]
        for f in demos:
            shutil.copy(os.path.join(mdir, "demo", f), os.path.join(wt, pkg, f))
        overlay = ""
        if pkg.startswith("cmd/"):
            open("/tmp/confirm_index.html", "w").write("<html></html>")
            json.dump({"Replace": {wt + "/web/dist/index.html": "/tmp/confirm_index.html"}}, open("/tmp/confirm_ov.json", "w"))
            overlay = "-overlay /tmp/confirm_ov.json "
        race = "-race " if " -race" in cmd else ""      # a data race only fails a demo under the detector
        test = "go test %s-tags verif %s-vet=off -count=1 -run '%s' ./%s/" % (race, overlay, runre, pkg)
        rc0, out0 = sh(test, cwd=wt)
        print("demo on unmodified tree: rc=%d" % rc0)
        if rc0 != 0:
            print(out0[-1500:])
        rc, out = sh("git apply %s || git apply -3 %s" % (os.path.join(mdir, "patch.diff"), os.path.join(mdir, "patch.diff")), cwd=wt)
        if rc:
            print("patch does not apply:", out)
            return 1
        rcb, outb = sh("go build ./internal/... && go vet ./%s/ >/dev/null 2>&1; true" % pkg, cwd=wt)
        for f in demos:
            os.remove(os.path.join(wt, pkg, f))
        rcs, outs = sh("go test %s-vet=off -count=1 ./internal/... %s" % (overlay, "./cmd/..." if overlay else ""), cwd=wt)
        if rcs != 0 and "close of closed channel" in outs:     # known flake of the unmodified suite (TestManagerMerging)
            rcs, outs = sh("go test %s-vet=off -count=1 ./internal/... %s" % (overlay, "./cmd/..." if overlay else ""), cwd=wt)
        print("suite with patch: rc=%d" % rcs)
        if rcs != 0:
            print(outs[-1500:])
        for f in demos:
            shutil.copy(os.path.join(mdir, "demo", f), os.path.join(wt, pkg, f))
        rc1, out1 = sh(test, cwd=wt)
        print("demo with patch: rc=%d" % rc1)
        ok = rc0 == 0 and rcs == 0 and rc1 != 0
        if ok:
            dst = os.path.join(V, "seeded", name)
            shutil.rmtree(dst, ignore_errors=True)
            os.makedirs(dst)
            for f in demos:
                os.remove(os.path.join(wt, pkg, f))
            open(os.path.join(dst, "patch.diff"), "w").write(sh("git diff HEAD", cwd=wt)[1])
            shutil.copytree(os.path.join(mdir, "demo"), os.path.join(dst, "demo"))
            meta2 = {"property": meta.get("property"), "summary": meta.get("summary"), "needs": meta.get("needs"),
                     "files": meta.get("files"), "demo_pkg": pkg, "demo_run": runre,
                     "confirmed": {"repo_head": sh("git -C %s rev-parse --short HEAD" % REPO)[1].strip(),
                                   "demo_unmodified": "pass", "suite_with_patch": "pass", "demo_with_patch": "fail",
                                   "cmd": test}}
            json.dump(meta2, open(os.path.join(dst, "meta.json"), "w"), indent=1)
            print("CONFIRMED -> seeded/%s" % name)
        else:
            print("NOT CONFIRMED")
        return 0 if ok else 1
    finally:
        sh("git -C %s worktree remove --force %s" % (REPO, wt))


def run(name, checks, tier="quick"):
    """apply the seeded change in a scratch worktree (never in /repo: other work may be reading it), run the checks with
    VERIF_REPO pointing there and the evidence redirected, remove the worktree"""
    d = os.path.join(V, "seeded", name)
    wt = "/tmp/mutrun_" + name
    sh("git -C %s worktree remove --force %s" % (REPO, wt))
    rc, out = sh("git -C %s worktree add -q --detach %s HEAD" % (REPO, wt))
    if rc:
        print(out)
        return 2
    res = {}
    try:
        rc, out = sh("git apply %s/patch.diff" % d, cwd=wt)
        if rc:
            print("patch does not apply to HEAD:", out)
            return 2
        ev = "/tmp/mutrun_ev_" + name
        os.makedirs(ev, exist_ok=True)
        for c in checks:
            rc, out = sh("cd %s && VERIF_REPO=%s VERIF_EVIDENCE=%s ./check %s --tier %s" % (V, wt, ev, c, tier), timeout=7200)
            viol = [l for l in out.splitlines() if l.startswith("VIOLATION") or l.startswith("  key=") or l.startswith("INFRA") or l.startswith("NONCONF")]
            res[c] = {"rc": rc, "lines": viol[:8]}
            print(name, c, "rc=%d" % rc)
            for l in viol[:8]:
                print("   ", l[:300])
        shutil.rmtree(ev, ignore_errors=True)
    finally:
        sh("git -C %s worktree remove --force %s" % (REPO, wt))
    return res


if __name__ == "__main__":
    if sys.argv[1] == "confirm":
        sys.exit(confirm(sys.argv[2], sys.argv[3]))
    elif sys.argv[1] == "run":
        tier = os.environ.get("MUT_TIER", "quick")
        run(sys.argv[2], sys.argv[3:], tier)

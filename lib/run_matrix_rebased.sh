#!/bin/sh
# the seeded changes that were rebased onto the current tree after later fix commits touched their lines
cd "$(dirname "$0")/.."
OUT=seeded/MATRIX_rebased.txt
: > $OUT.tmp
for n in ${MUTS:-C06-m1 C08-m2 C09-m1 C11-m1 C11-m3 C13-m1 C13-m4 C13-m8 C15-m1 C15-m4 C15-m5 C15-m6 C16-m4 C20-m5}; do
  [ -n "$MUTS" ] && OUT=seeded/MATRIX_rebased_more.txt
  id=${n%%-*}
  python3 lib/mutants.py run $n $id 2>&1 | grep -v KNOWN | cut -c1-240 >> $OUT.tmp
done
mv $OUT.tmp $OUT

#!/usr/bin/env python3
"""Generates /verif/MANIFEST.json from the table below (single source of truth)."""
import json
import os
import sys

sys.path.insert(0, os.path.dirname(os.path.abspath(__file__)))
V = os.path.dirname(os.path.dirname(os.path.abspath(__file__)))

CHECKS = {
    "C17": dict(
        category="model_checking", design="DESIGN.md §5 C17",
        technique="TLA+ set model (Bitmask.tla): TLC state graph replayed transition-by-transition on the three Go "
                  "containers + TLC trace validation of recorded walks (BitmaskTrace.tla)",
        text="TLC enumerates the complete state graph of the two-register set model over a 6-bit window (4096 states, "
             "151k transitions); every transition is executed on LongBitmask, ShortBitmask and ConnectedBitmask from "
             "three differently constructed representations of the pre-state at bases 0/60/124 (word boundaries), all "
             "observations compared with the model; random walks on persistent objects exercise chained operations and "
             "are validated by TLC against the model. Exhaustive per transition, sampled for chains.",
        note="Trusts TLC and the harness projection (IsSet scan of a bounded range). Masks wider than the window are "
             "reached only through translation by base and trailing-word construction variants."),
}

NOT_YET = {}


def main():
    all_ids = [json.loads(l)["id"] for l in open(os.path.join(V, "properties.jsonl"))]
    checks = []
    for pid in all_ids:
        if pid not in CHECKS:
            continue
        c = CHECKS[pid]
        checks.append({
            "property_id": pid,
            "quick_cmd": "./check %s --tier quick" % pid,
            "thorough_cmd": "./check %s --tier thorough" % pid,
            "evidence_file": "evidence/%s.json" % pid,
            "replay_cmd_template": "./check %s --replay {path}" % pid,
            "engine": "tlc+go-harness",
            "level_claimed": {"category": c["category"], "text": c["text"], "design_ref": c["design"]},
            "level_note": c["note"],
            "technique": c["technique"],
        })
    na = [{"property_id": pid, "reason": NOT_YET.get(pid, "check not built yet in this round; planned in DESIGN.md §5 (no technical obstacle)")}
          for pid in all_ids if pid not in CHECKS]
    hooks_commits = []
    hc = os.path.join(V, "HOOK_COMMITS.txt")
    if os.path.exists(hc):
        hooks_commits = [l.split()[0] for l in open(hc) if l.strip() and not l.startswith("#")]
    m = {
        "version": 1,
        "setup_cmd": "./setup.sh",
        "hooks": {
            "guard": "verif",
            "enable": "go test -tags verif -overlay <generated overlay.json> (harness files from /verif/harness are injected by overlay; "
                      "only the gate hooks live in /repo behind //go:build verif)",
            "baseline_off_cmd": "cd /repo && GOFLAGS=-mod=mod GOPROXY=off go test -vet=off -count=1 ./...",
            "source_commits": hooks_commits,
            "add_only": True,
        },
        "engines": [{
            "name": "tlc+go-harness", "path": "check",
            "serves_properties": [c["property_id"] for c in checks],
            "kind_free_text": "TLA+ specifications in spec/ checked with TLC; behaviours replayed into the Go code and recorded "
                              "Go traces validated by TLC (trace specifications *Trace.tla); python3 runner",
        }],
        "checks": checks,
        "not_applicable": na,
        "notes": "See DESIGN.md. Exit 0 held / 1 VIOLATION (real-code behaviour only) / 2 machinery problem. "
                 "Known findings: KNOWN_FINDINGS.txt.",
    }
    if not na:
        del m["not_applicable"]
    with open(os.path.join(V, "MANIFEST.json"), "w") as fh:
        json.dump(m, fh, indent=1)
    print("MANIFEST.json: %d checks, %d not claimed" % (len(checks), len(na)))


if __name__ == "__main__":
    main()

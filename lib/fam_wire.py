"""C05 / C08 - the "wire" family: capture environment (spec/Wire.tla), importer model (spec/Import.tla),
real builder driven by harness/wire, traces judged by spec/WireTrace.tla and spec/ImportTrace.tla."""
import concurrent.futures
import json
import os
import random
import threading
import time

from common import (Infra, go_test, harness_overlay, read_ndjson, run_tlc, tlc_must_pass, write_ndjson)

PKG = "internal/index/builder"

WIRE_DEFAULTS = {
    "NConv": 3, "MaxMsgs": 4, "MaxLen": 4, "MaxSeg": 3, "Protos": '{"tcp", "udp"}', "Fams": "{4, 6}",
    "MaxDup": 3, "MaxDisp": 2, "MaxSwap": 4, "MaxPerturb": 99, "MaxCuts": 3, "MinCuts": 0, "MaxAck": 3, "MaxBulk": 0, "MaxFrag": 0,
    "Dts": "{0, 1}", "BatchMode": '"any"', "MinBulk": 0, "WantCutAfterBulk": "FALSE", "SingleFileBatches": "FALSE",
}
REGIMES = {
    # everyday traffic: three conversations, reordering, duplicates, cuts, any batching
    "fast": {},
    # long-lived conversations: minutes between packets, never idle for five minutes
    "slow": {"Dts": "{0, 120000}", "MaxMsgs": 5, "MaxSwap": 1, "MaxDup": 2},
    # big segments: several units per segment, many segments in flight
    "deep": {"NConv": 2, "MaxMsgs": 3, "MaxLen": 6, "MaxSeg": 2, "MaxSwap": 6, "MaxDisp": 3, "MaxDup": 4},
    # snapshot regime: >= 100000 packets before the next packet of the schedule, chronological imports
    "bulk": {"NConv": 2, "MaxSeg": 2, "MaxDup": 1, "MaxDisp": 1, "MaxSwap": 1, "MaxCuts": 2, "MinCuts": 1,
             "MaxAck": 1, "MaxBulk": 1, "MinBulk": 1, "WantCutAfterBulk": "TRUE", "BatchMode": '"chrono"',
             "SingleFileBatches": "TRUE"},
    "bulkany": {"NConv": 2, "MaxSeg": 2, "MaxDup": 1, "MaxDisp": 1, "MaxSwap": 1, "MaxCuts": 2, "MinCuts": 1,
                "MaxAck": 1, "MaxBulk": 1, "MinBulk": 1, "WantCutAfterBulk": "TRUE", "BatchMode": '"any"'},
    "bulk2": {"NConv": 2, "MaxSeg": 2, "MaxDup": 1, "MaxDisp": 1, "MaxSwap": 1, "MaxCuts": 3, "MinCuts": 2,
              "MaxAck": 1, "MaxBulk": 2, "MinBulk": 2, "WantCutAfterBulk": "TRUE", "BatchMode": '"chrono"',
              "SingleFileBatches": "TRUE"},
    # long-lived UDP flows between one pair of hosts (one bucket of the reassembler's table): flows end and expire while
    # others, opened earlier, go on with gaps below the 5 minute timeout
    "udpslow": {"Protos": '{"udp"}', "Fams": "{4}", "Dts": "{0, 120000}", "MaxMsgs": 6, "MaxLen": 2, "MaxSwap": 0, "MaxDup": 0},
    # IPv4 packets split into two IP fragments (in order or reversed), next to reordering, duplicates and cuts
    "frag": {"Fams": "{4}", "MaxFrag": 4, "MaxLen": 4, "MaxSeg": 3, "MaxDup": 2, "MaxSwap": 2},
    # worlds for C08: exactly four capture files, batching left to Import.tla
    "world4": {"MaxCuts": 3, "MinCuts": 3, "BatchMode": '"none"', "MaxDup": 2, "MaxSwap": 2},
    "world4slow": {"MaxCuts": 3, "MinCuts": 3, "BatchMode": '"none"', "MaxDup": 1, "MaxSwap": 1, "Dts": "{0, 1, 120000}"},
    "world4bulk": {"NConv": 2, "MaxSeg": 2, "MaxDup": 1, "MaxDisp": 1, "MaxSwap": 1, "MaxCuts": 3, "MinCuts": 3,
                   "MaxAck": 1, "MaxBulk": 1, "MinBulk": 1, "WantCutAfterBulk": "TRUE", "BatchMode": '"none"'},
}


class _Sub:
    """Private scratch allocator so that several TLC runs can go in parallel threads."""
    _lock = threading.Lock()
    _n = 0

    def __init__(self, ctx):
        with _Sub._lock:
            _Sub._n += 1
            self.tag = "p%d_" % _Sub._n
        self.ctx = ctx
        self.n_tlc = 0

    def sub(self, name):
        return self.ctx.sub(self.tag + name)


def wire_cfg(consts, spec="GenSpec", inv="GenPrint"):
    lines = ["SPECIFICATION %s" % spec, "CONSTANTS"]
    for k, v in consts.items():
        lines.append("  %s = %s" % (k, v))
    lines.append("INVARIANT %s" % inv)
    return "\n".join(lines) + "\n"


def schedules_of(res):
    return [p for p in res.prints if isinstance(p, dict) and "wire" in p]


def generate(ctx, regime, want, depth, seeds, timeout=600):
    """TLC -simulate on WireGen under a regime; one run per seed, in parallel; the first `want` finished
    behaviours of every run are kept (behaviours that end without meeting the regime print nothing)."""
    num = want * (5 if "bulk" in regime else 2)
    consts = dict(WIRE_DEFAULTS)
    consts.update(REGIMES[regime])
    name = "WireGen_%s_run.cfg" % regime
    path = os.path.join(ctx.scratch, name)
    with open(path, "w") as fh:
        fh.write(wire_cfg(consts))

    def one(seed):
        return run_tlc(_Sub(ctx), "WireGen", name, files=[path], workers=1, timeout=timeout,
                       extra=["-simulate", "num=%d" % num, "-depth", str(depth), "-seed", str(seed)])
    out = []
    with concurrent.futures.ThreadPoolExecutor(max_workers=min(8, len(seeds))) as ex:
        for r in ex.map(one, seeds):
            if r.error or not r.finished:
                raise Infra("schedule generation (%s) failed:\n%s" % (regime, r.out[-3000:]))
            for s in schedules_of(r)[:want]:
                s["regime"] = regime
                out.append(s)
    ctx.n_tlc += len(seeds)
    return out


def group_key(s):
    return json.dumps([s["convs"], s["wire"], s["nfiles"]], sort_keys=True, separators=(",", ":"))


def number(schedules, first=1):
    """Assign sid and group (schedules with the same conversations and wire share capture files)."""
    groups = {}
    for i, s in enumerate(schedules):
        s["sid"] = first + i
        k = group_key(s)
        if k not in groups:
            groups[k] = "g%d" % (len(groups) + first)
        s["group"] = groups[k]
    return schedules


def run_harness(ctx, schedules, tag, par=14, timeout=1500, oneshot=True):
    d = ctx.sub("h_" + tag)
    inp = os.path.join(d, "in.ndjson")
    out = os.path.join(d, "wire_trace.ndjson")
    summ = os.path.join(d, "summary.json")
    write_ndjson(inp, schedules)
    ov = harness_overlay(ctx, PKG, "wire")
    rc, o = go_test(ctx, PKG, ov, "^TestVerifWire$", env_extra={
        "VERIF_IN": inp, "VERIF_OUT": out, "VERIF_SUMMARY": summ, "VERIF_SCRATCH": d, "VERIF_PAR": str(par),
        "VERIF_ONESHOT": "1" if oneshot else "0"},
        timeout=timeout)
    if not os.path.exists(summ):
        raise Infra("wire harness did not finish (rc=%s):\n%s" % (rc, o[-5000:]))
    summary = json.load(open(summ))
    if summary["fails"] or rc != 0:
        raise Infra("wire harness failures (rc=%s): %s\n%s" % (rc, summary["fails"][:5], o[-3000:]))
    rows = read_ndjson(out)
    return rows, summary


def validate(ctx, rows, module, cfg, chunks=12, timeout=1200):
    """TLC trace validation, rows split by schedule into chunks validated in parallel."""
    by = {}
    for r in rows:
        by.setdefault(r["sid"], []).append(r)
    sids = sorted(by)
    for sid in sids:
        by[sid].sort(key=lambda r: r["n"])
    nchunks = max(1, min(chunks, len(sids) // 8 or 1))
    parts = [[] for _ in range(nchunks)]
    for i, sid in enumerate(sids):
        parts[i % nchunks].extend(by[sid])
    paths = []
    for i, part in enumerate(parts):
        d = ctx.sub("v_%s_%d_%d" % (module, ctx.n_tlc, i))
        p = os.path.join(d, "wire_trace.ndjson")
        write_ndjson(p, part)
        paths.append((p, len(part)))

    def one(arg):
        p, n = arg
        res = run_tlc(_Sub(ctx), module, cfg, files=[p], workers=1, timeout=timeout)
        if res.error or not res.finished:
            raise Infra("trace validation (%s) failed to run:\n%s" % (module, res.out[-3000:]))
        done = [x for x in res.prints if "done" in x]
        if not done or done[-1]["done"] != n:
            raise Infra("trace not fully consumed by TLC (%s): %s of %d\n%s" % (module, done, n, res.out[-2000:]))
        return res
    fails, nonconf = [], []
    with concurrent.futures.ThreadPoolExecutor(max_workers=min(12, len(paths))) as ex:
        for res in ex.map(one, paths):
            for x in res.prints:
                if "fail" in x:
                    fails.append(x)
                elif "nonconf" in x:
                    nonconf.append(x)
    ctx.n_tlc += len(paths)
    return fails, nonconf


# ----------------------------------------------------------------------------- classification of findings

def conv_features(sched, conc, conv):
    f = {"proto": "tcp", "wrap": False, "dup": False, "swap": False, "bulk": False}
    f["bulk"] = any(p["k"] == "bulk" for p in sched["wire"])
    if conv >= 100 or conv < 1 or conv > len(sched["convs"]):
        f["proto"] = "bulk" if conv >= 100 else "?"
        return f
    f["proto"] = sched["convs"][conv - 1]["proto"]
    f["wrap"] = bool(conc.get("wrap") and conc["wrap"][conv - 1])
    mine = [p for p in sched["wire"] if p["c"] == conv]
    f["dup"] = any(p["dup"] for p in mine)
    f["swap"] = any(p["o"] != i for i, p in enumerate([p for p in mine if not p["dup"]]))
    # the 4-tuple of this conversation is used by two conversations one after the other: how long was it silent in between?
    alias = conc.get("alias") or []
    other = alias[conv - 1] if conv - 1 < len(alias) and alias[conv - 1] else next((i + 1 for i, a in enumerate(alias) if a == conv), 0)
    f["reuse"] = None
    if other:
        a, b = (other, conv) if alias[conv - 1] else (conv, other)
        f["reuse"] = min(p["at"] for p in sched["wire"] if p["c"] == b) - max(p["at"] for p in sched["wire"] if p["c"] == a)
    return f


def gapfill(sched, conv):
    """Some intermediate set of imported captures showed this conversation with a silence of >= 5 minutes
    (the capture holding the packets in between arrived later): the importer has split it there."""
    imported = set()
    for b in sched["batches"][:-1]:
        imported |= set(b["files"])
        ats = sorted(p["at"] for p in sched["wire"] if p["c"] == conv and p["file"] in imported)
        if any(b2 - a2 >= 300000 for a2, b2 in zip(ats, ats[1:])):
            return True
    return False


def snapshot_after_close(sched, conv):
    """Both FINs of this TCP conversation were captured before a bulk block (= before the snapshot the importer
    takes there) and a packet of it (the last ACK, a duplicate) after the block."""
    w = sched["wire"]
    for b, p in enumerate(w):
        if p["k"] != "bulk":
            continue
        before = {q["k"] for q in w[:b] if q["c"] == conv and not q["dup"]}
        if {"fin", "finack"} <= before and any(q["c"] == conv for q in w[b + 1:]):
            return True
    return False


def pert_name(f):
    return "+".join(n for n in ("dup", "swap") if f[n]) or "plain"


def index_rows(rows):
    head, byrow = {}, {}
    for r in rows:
        if r["n"] == 0:
            head[r["sid"]] = r
        byrow[(r["sid"], r["n"])] = r
    return head, byrow


def compact_replay(head, row, fail):
    s = head["sched"]
    return {"fail": fail, "schedule": {k: s[k] for k in ("sid", "convs", "wire", "nfiles", "batches", "regime") if k in s},
            "concretisation": head["conc"],
            "row": {k: row[k] for k in ("n", "files", "restart", "imported", "vis", "add", "upd", "rst", "used", "next",
                                        "snaps", "snapUsed", "err") if k in row},
            "how": "write the schedule as one line to a file and run harness/wire TestVerifWire with VERIF_IN/VERIF_OUT "
                   "(VERIF_SEED as recorded; VERIF_WIRE_AS_RECORDED=1 when the concretisation says overlap: the schedule carries "
                   "the capture file every packet was written to), then validate the trace with spec/WireTrace.tla or spec/ImportTrace.tla"}


def report_c05(ctx, rows, fails):
    head, byrow = index_rows(rows)
    for f in fails:
        h, row = head[f["sid"]], byrow[(f["sid"], f["n"])]
        ft = conv_features(h["sched"], h["conc"], f["conv"])
        if gapfill(h["sched"], f["conv"]):
            key = "C05.Visible:%s:gapfill" % ft["proto"]
        elif ft.get("reuse") is not None and ft["reuse"] < 300000:
            # (before the other classes: the two connections on one 4-tuple explain every kind of wrong payload of either)
            key = "C05.Visible:tcp:tuple-reuse"
        elif ft["wrap"] and (ft["dup"] or ft["swap"]) and f["fail"] in ("payload-c", "payload-s", "runs"):
            # (before snapshot-after-close: a conversation can be both, and the extra byte at the wrap is what is seen then)
            key = "C05.Visible:tcp:seqwrap"
        elif snapshot_after_close(h["sched"], f["conv"]) and f["fail"] in ("twice", "endpoints", "payload-c", "payload-s", "runs"):
            key = "C05.Visible:tcp:snapshot-after-close"
        else:
            key = "C05.%s:%s:%s%s" % (f["fail"], ft["proto"], pert_name(ft), ":bulk" if ft["bulk"] else "")
        what = "schedule %s (%s) batch %s conversation %s: %s: visible %s, expected %s" % (
            f["sid"], h["sched"].get("regime", "?"), f["n"], f["conv"], f["fail"], json.dumps(f["got"])[:300],
            json.dumps(f["want"])[:300])
        ctx.violation(key, what, compact_replay(h, row, f))


def report_c08(ctx, rows, fails):
    head, byrow = index_rows(rows)
    for f in fails:
        h, row = head[f["sid"]], byrow[(f["sid"], f["n"])]
        prev = byrow.get((f["sid"], f["n"] - 1), {"vis": []})
        quals = []
        if row.get("snapUsed"):
            quals.append("snapshot")
        if any(p["k"] == "bulk" for p in h["sched"]["wire"]) and not row.get("snapUsed"):
            quals.append("bulk")
        # the connections the failing predicate talks about
        convs = set()
        if f["fail"] == "SetDetermined":
            for side in ("got", "want"):
                for x in f.get(side) or []:
                    if isinstance(x, dict) and "conv" in x:
                        convs.add(x["conv"])
        elif f["fail"] == "OneIdPerConn":
            convs = {v["conv"] for v in row["vis"] if v["id"] in (f["got"] or [])}
        elif f["fail"] == "IdStable":
            convs = {v["conv"] for v in prev["vis"] if v["id"] == f["got"]}
        if convs and any(gapfill(h["sched"], c) for c in convs):
            quals = ["gapfill"]
        elif convs and row.get("snapUsed") and all(snapshot_after_close(h["sched"], c) for c in convs):
            quals = ["snapshot-after-close"]
        elif f["fail"] == "SetDetermined":
            fts = [conv_features(h["sched"], h["conc"], c) for c in convs]
            if fts and all(t["wrap"] and (t["dup"] or t["swap"]) for t in fts):
                quals.append("seqwrap")
        key = "C08.%s%s" % (f["fail"], "".join(":" + q for q in quals) or ":plain")
        what = "schedule %s (%s) batch %s files %s restart=%s: %s: got %s, want %s" % (
            f["sid"], h["sched"].get("regime", "?"), f["n"], row["files"], row["restart"], f["fail"],
            json.dumps(f["got"])[:300], json.dumps(f["want"])[:300])
        ctx.violation(key, what, compact_replay(h, row, f))


def note_nonconf(ctx, nonconf):
    seen = set()
    for x in nonconf:
        k = x["nonconf"]
        if k in seen:
            continue
        seen.add(k)
        ctx.nonconformance.append("step=%s/%s Import.tla does not predict the recorded import (%s): logged %s, model %s" % (
            x["sid"], x["n"], k, json.dumps(x["got"])[:200], json.dumps(x["want"])[:200]))


def regime_counts(rows):
    """Measured coverage of the regimes the property quantifies over."""
    c = {"imports": 0, "restart_keep": 0, "restart_drop": 0, "snapshot_created": 0, "snapshot_used": 0,
         "out_of_order_batches": 0, "reset": 0, "updated": 0, "multi_file_batches": 0, "prefix_rows": 0,
         "partial_prefix_rows": 0}
    seen_max, nfiles = {}, {}
    for r in rows:
        if r["n"] == 0:
            seen_max[r["sid"]] = 0
            nfiles[r["sid"]] = r["sched"]["nfiles"]
            continue
        c["imports"] += 1
        c["restart_keep"] += r["restart"] == "keep"
        c["restart_drop"] += r["restart"] == "drop"
        c["snapshot_created"] += r["snaps"] > 0
        c["snapshot_used"] += bool(r["snapUsed"])
        c["reset"] += len(r["rst"]) > 0
        c["updated"] += len(r["upd"]) > 0
        c["multi_file_batches"] += len(r["files"]) > 1
        c["out_of_order_batches"] += min(r["files"]) < seen_max.get(r["sid"], 0)
        seen_max[r["sid"]] = max(seen_max.get(r["sid"], 0), max(r["files"]))
        pre = r["imported"] == list(range(1, len(r["imported"]) + 1))
        c["prefix_rows"] += pre
        c["partial_prefix_rows"] += pre and len(r["imported"]) < nfiles.get(r["sid"], 0)
    return c


def sched_features(s):
    f = set()
    for cv in s["convs"]:
        f.add(cv["proto"] + str(cv["fam"]))
    if any(p["dup"] for p in s["wire"]):
        f.add("dup")
    if any(p["k"] == "bulk" for p in s["wire"]):
        f.add("bulk")
    if any(p["dt"] >= 10000 for p in s["wire"]):
        f.add("long")
    if s["nfiles"] > 1:
        f.add("cut")
    per = {}
    for p in s["wire"]:
        if not p["dup"]:
            per.setdefault(p["c"], []).append(p["o"])
    if any(o != sorted(o) for o in per.values()):
        f.add("swap")
    return f


def sample_of(rows, n=3):
    out = []
    for r in rows:
        if r["n"] > 0 and len(out) < n:
            out.append({k: r[k] for k in ("sid", "n", "files", "restart", "imported", "add", "upd", "rst", "next")}
                       | {"vis": [{k: v[k] for k in ("id", "conv", "proto", "c", "s", "runs", "caps")} for v in r["vis"][:2]]})
    return out


# ----------------------------------------------------------------------------- the binding binds

def _copy_schedule(rows, sid, new_sid):
    out = [json.loads(json.dumps(r)) for r in rows if r["sid"] == sid]
    out.sort(key=lambda r: r["n"])
    for r in out:
        r["sid"] = new_sid
        if r["n"] == 0:
            r["sched"]["sid"] = new_sid
    return out


def selftest(ctx, rows, failing_sids, module, cfg):
    """Corrupt recorded fields of a trace TLC accepted and require TLC to reject each corruption."""
    by = {}
    for r in rows:
        by.setdefault(r["sid"], []).append(r)
    want, traces = {}, []
    if module == "WireTrace":
        for sid, rs in sorted(by.items()):
            last = max(rs, key=lambda r: r["n"])
            if sid in failing_sids or last["n"] == 0 or not any(v["c"] or v["s"] for v in last["vis"]):
                continue
            a = _copy_schedule(rows, sid, 900001)
            v = next(v for v in a[-1]["vis"] if v["c"] or v["s"])
            side = "c" if v["c"] else "s"
            v[side] = v[side] + [[9, 0, 0]]
            want[900001] = "payload-" + side
            b = _copy_schedule(rows, sid, 900002)
            b[-1]["vis"] = b[-1]["vis"][1:]
            want[900002] = "missing"
            c = _copy_schedule(rows, sid, 900003)
            v = next(v for v in c[-1]["vis"] if v["runs"])
            v["runs"] = v["runs"] + [[1 - v["runs"][-1][0], 1]]
            want[900003] = "runs"
            traces = a + b + c
            break
    else:
        for sid, rs in sorted(by.items()):
            rs = sorted(rs, key=lambda r: r["n"])
            if sid in failing_sids or len(rs) < 3 or not rs[1]["vis"] or len(rs[2]["one"]) < 1:
                continue
            keep = {v["id"] for v in rs[1]["vis"]}
            a = _copy_schedule(rows, sid, 900001)
            v = next(v for v in a[2]["vis"] if v["id"] in keep)
            v["id"] = 7777
            want[900001] = "IdStable"
            b = _copy_schedule(rows, sid, 900002)
            b[2]["one"] = b[2]["one"][1:]
            want[900002] = "SetDetermined"
            c = _copy_schedule(rows, sid, 900003)
            extra = dict(c[2]["vis"][0])
            extra["id"] = c[2]["next"]
            c[2]["vis"].append(extra)
            want[900003] = "OneIdPerConn"
            d = _copy_schedule(rows, sid, 900004)
            d[1]["next"] += 1
            want[900004] = "NextIdFresh.count"
            traces = a + b + c + d
            break
    if not traces:
        raise Infra("selftest: no clean recorded schedule to corrupt")
    fails, _ = validate(ctx, traces, module, cfg, chunks=1)
    got = {}
    for f in fails:
        got.setdefault(f["sid"], set()).add(f["fail"])
    for sid, kind in want.items():
        if kind not in got.get(sid, set()):
            raise Infra("selftest: TLC accepted a corrupted trace (%s expected for corruption %d, got %s)" % (kind, sid, got.get(sid)))
    return len(want)


# ----------------------------------------------------------------------------- C05

def _lap(ctx, name):
    now = time.time()
    ctx.coverage.setdefault("phase_s", {})[name] = round(now - getattr(ctx, "_lap", ctx.t0), 1)
    ctx._lap = now


def run_c05(ctx):
    rng = random.Random(ctx.seed)
    quick = ctx.quick()
    only = [x for x in os.environ.get("VERIF_WIRE_ONLY", "").split(",") if x]      # debugging aid: regimes to run
    # (C)+(A) the tiny configuration, exhaustively: 1 conversation x 2 messages x 2 segments
    mc = tlc_must_pass(run_tlc(ctx, "Wire", "WireMC_dbg.cfg" if only else ("WireMCq.cfg" if quick else "WireMC.cfg"), workers=16, timeout=600), "WireMC")
    _lap(ctx, "tlc_exhaustive")
    exhaustive = schedules_of(mc)
    if len(exhaustive) < 10000 and not only:
        raise Infra("WireMC printed only %d schedules" % len(exhaustive))
    for s in exhaustive:
        s["regime"] = "exhaustive"
    n_ex = 1200 if quick else 8000
    picked = exhaustive if len(exhaustive) <= n_ex else rng.sample(exhaustive, n_ex)
    # (A) seeded simulation beyond
    base = ctx.seed * 100
    plan = ([("fast", 40, 2), ("slow", 30, 2), ("deep", 30, 1), ("frag", 30, 2), ("udpslow", 30, 2), ("bulk", 5, 2), ("bulkany", 2, 1)] if quick else
            [("fast", 200, 8), ("slow", 120, 6), ("deep", 120, 6), ("frag", 120, 6), ("udpslow", 120, 6), ("bulk", 6, 6), ("bulkany", 5, 4), ("bulk2", 3, 3)])
    sims = []
    for i, (regime, num, nseeds) in enumerate(plan):
        if only and regime not in only:
            continue
        sims += generate(ctx, regime, num, 500, [base + 10 * i + j for j in range(nseeds)])
    _lap(ctx, "tlc_simulate")
    scheds = number(picked + sims)
    rows, summary = run_harness(ctx, scheds, "c05", timeout=1000 if quick else 2400, oneshot=False)
    _lap(ctx, "real_builder")
    # (B) TLC: Visible = Expected
    fails, _ = validate(ctx, rows, "WireTrace", "WireTrace.cfg")
    _lap(ctx, "tlc_trace_validation")
    report_c05(ctx, rows, fails)
    n_self = selftest(ctx, rows, {f["sid"] for f in fails}, "WireTrace", "WireTrace.cfg")
    feats = {}
    for s in scheds:
        for f in sched_features(s):
            feats[f] = feats.get(f, 0) + 1
    distinct = len({group_key(s) for s in scheds})
    rc = regime_counts(rows)
    cov = {
        "states": mc.distinct, "transitions": mc.generated,
        "traces_validated_against_impl": len(scheds),
        "evaluations": rc["imports"],
        "distinct_nontrivial": distinct,
        "rule": "distinct (conversations, packet sequence) pairs whose captures were imported by the real builder and "
                "whose visible streams TLC compared with Wire.tla's ground truth; every one carries payload in at "
                "least one direction",
        "exhaustive_schedules_generated": len(exhaustive), "exhaustive_schedules_replayed": len(picked),
        "simulated_schedules": len(sims), "schedule_features": feats, "regimes": rc,
        "tlc_property_failures": len(fails), "harness_groups": summary["groups"],
        "selftest_corruptions_rejected": n_self,
        "phase_s": ctx.coverage.get("phase_s", {}),
        "samples": sample_of(rows),
    }
    return "model_checking", cov, [
        "conversations are well formed: handshake-complete TCP closed by a FIN exchange, UDP flows; no reuse of a 4-tuple",
        "no reordering across directions, displacement <= 3 positions, no conversation idle for >= 250 s, "
        "no long time step while a displaced segment is in flight",
        "duplicates are exact copies of data segments emitted before the conversation's last packet; UDP datagrams are "
        "neither duplicated nor reordered; no IP fragmentation",
        "expectation for partially imported captures only when the imported set is a chronological prefix",
        "quick tier: the tiny configuration allows one duplicate or one swap per behaviour (thorough: both) and is "
        "replayed as a seeded sample of 1200 of its schedules" if quick else
        "the tiny configuration is replayed as a seeded sample of 8000 of its schedules",
    ]


# ----------------------------------------------------------------------------- C08

def world_module(name, sched):
    pieces = sorted({((100 + p["m"]) if p["k"] == "bulk" else p["c"], p["file"]) for p in sched["wire"]})
    body = ", ".join("<<%d, %d>>" % pc for pc in pieces)
    return ("---- MODULE %s ----\nEXTENDS Import\nMCPieces == {%s}\n====\n" % (name, body)), pieces


def batchings_of(res):
    return [p["batches"] for p in res.prints if isinstance(p, dict) and "batches" in p]


def run_c08(ctx):
    rng = random.Random(ctx.seed)
    quick = ctx.quick()
    # (C) all batchings / arrival orders / restarts of 4 captures against the abstract importer
    mc = tlc_must_pass(run_tlc(ctx, "ImportMC", "ImportMC.cfg", workers=8, timeout=600), "ImportMC")
    _lap(ctx, "tlc_exhaustive")
    batchings = batchings_of(mc)
    if len(batchings) < 1000:
        raise Infra("ImportMC printed only %d histories" % len(batchings))
    states, trans = mc.distinct, mc.generated
    model_runs = ["ImportMC.cfg"]
    if not quick:
        # five captures; any numbering of new streams; and the seeded design fault, which TLC must reject
        for cfg in ("ImportMC5.cfg", "ImportMCnum.cfg"):
            r2 = tlc_must_pass(run_tlc(ctx, "ImportMC", cfg, workers=8, timeout=900), cfg)
            states += r2.distinct
            trans += r2.generated
            model_runs.append(cfg)
        bad = run_tlc(ctx, "ImportMC", "ImportMC_fault.cfg", workers=4, timeout=300)
        if not bad.invariant_violated:
            raise Infra("selftest: Import.tla's properties accept the seeded design fault (lookup only for the first "
                        "packet):\n" + bad.out[-2000:])
        model_runs.append("ImportMC_fault.cfg (rejected: %s)" % ",".join(bad.invariant_violated))
    # worlds: packet schedules with exactly four capture files (Wire.tla), batching left open
    base = ctx.seed * 100 + 50
    plan = ([("world4", 3, 1), ("world4slow", 2, 1), ("world4bulk", 2, 1)] if quick else
            [("world4", 4, 3), ("world4slow", 3, 2), ("world4bulk", 3, 3)])
    worlds = []
    for i, (regime, num, nseeds) in enumerate(plan):
        worlds += generate(ctx, regime, num, 500, [base + 10 * i + j for j in range(nseeds)])
    heavy = [w for w in worlds if w["regime"] == "world4bulk"]
    light = [w for w in worlds if w["regime"] != "world4bulk"]
    rng.shuffle(light)
    rng.shuffle(heavy)
    # the abstract importer is checked on every world (model level), in parallel
    cfg_text = ("SPECIFICATION Spec\nCONSTANTS\n  Pieces <- MCPieces\n  Restarts = {\"none\"}\n  AllNumberings = FALSE\n"
                "  LookupEveryOldPacket = TRUE\n"
                "INVARIANTS SetDetermined OneIdPerConn AllVisible NextIdFresh MasksSound\n"
                "PROPERTIES IdStable NewIdsFresh MasksRight\n")

    def check_world(arg):
        i, w = arg
        name = "ImportW%d" % i
        text, pieces = world_module(name, w)
        cfgp = os.path.join(ctx.scratch, name + ".cfg")
        with open(cfgp, "w") as fh:
            fh.write(cfg_text)
        res = run_tlc(_Sub(ctx), name, name + ".cfg", files=[cfgp], consts_tla={name + ".tla": text}, workers=1, timeout=300)
        return res
    with concurrent.futures.ThreadPoolExecutor(max_workers=8) as ex:
        for res in ex.map(check_world, list(enumerate(light + heavy))):
            tlc_must_pass(res, "Import.tla on a generated world")
            states += res.distinct
            trans += res.generated
    ctx.n_tlc += len(worlds)
    _lap(ctx, "tlc_worlds")
    # (A) thorough: every batching of the first two worlds, a seeded sample for the others; quick: seeded samples
    # (300 for the first world, 60 for the others); few for the 100000-packet worlds
    full, part, big = (0, 60, 3) if quick else (2, 200, 8)
    scheds = []
    for i, w in enumerate(light):
        chosen = batchings if i < full else rng.sample(batchings, part * (5 if i == 0 and quick else 1))
        for b in chosen:
            s = dict(w)
            s["batches"] = b
            scheds.append(s)
    for w in heavy[: (2 if quick else 9)]:
        for b in rng.sample(batchings, big):
            s = dict(w)
            s["batches"] = b
            scheds.append(s)
    # plus snapshot vectors with chronological imports (shared with C05)
    extra = []
    for i, (regime, num, nseeds) in enumerate([("bulk", 4, 2)] if quick else [("bulk", 6, 3), ("bulk2", 3, 2), ("bulkany", 4, 2)]):
        extra += generate(ctx, regime, num, 500, [base + 40 + 10 * i + j for j in range(nseeds)])
    scheds = number(scheds + extra)
    _lap(ctx, "tlc_simulate")
    rows, summary = run_harness(ctx, scheds, "c08", timeout=1000 if quick else 2400)
    _lap(ctx, "real_builder")
    # (B) TLC: SetDetermined / IdStable / OneIdPerConn / NextIdFresh on the recorded imports
    fails, nonconf = validate(ctx, rows, "ImportTrace", "ImportTrace.cfg")
    _lap(ctx, "tlc_trace_validation")
    report_c08(ctx, rows, fails)
    note_nonconf(ctx, nonconf)
    n_self = selftest(ctx, rows, {f["sid"] for f in fails} | {x["sid"] for x in nonconf}, "ImportTrace", "ImportTrace.cfg")
    rc = regime_counts(rows)
    distinct = len({(group_key(s), json.dumps(s["batches"], sort_keys=True)) for s in scheds})
    cov = {
        "states": states, "transitions": trans,
        "traces_validated_against_impl": len(scheds),
        "evaluations": rc["imports"],
        "distinct_nontrivial": distinct,
        "rule": "distinct (world, batching with arrival order and restarts) pairs executed on the real builder and "
                "compared by TLC with the real one-shot import of the same set; every world has connections that "
                "span capture files",
        "model_histories": len(batchings), "model_runs": model_runs, "worlds": len(worlds), "worlds_with_100000_packets": len(heavy),
        "regimes": rc, "tlc_property_failures": len(fails), "nonconforming_steps": len(nonconf),
        "selftest_corruptions_rejected": n_self,
        "harness_groups": summary["groups"], "phase_s": ctx.coverage.get("phase_s", {}), "samples": sample_of(rows),
    }
    return "model_checking", cov, [
        "captures are cut from one packet sequence (their time ranges do not overlap); a capture is imported once",
        "a service restart is a new builder.New on the data directory with the index files re-opened in the order the "
        "service had them (file-name order after a restart is C12's subject); 'drop' also removes the snapshot file",
        "captures reach the capture directory right before the import that names them",
        "worlds are well-formed conversations as in C05 (no 5 minute idle periods, no 4-tuple reuse)",
        "reference for SetDetermined is the real builder's one-shot import (differential); ground truth is C05's job",
        "OneIdPerConn after a set of captures that shows a conversation with a >= 5 minute hole: judged against the "
        "one-shot import of the same set (the importer splits at 5 minutes of silence by design)",
        "quick tier: seeded samples of the 1536 batchings per world" if quick else
        "all 1536 batchings for two worlds, seeded samples of 200 for the others",
    ]


def run(ctx):
    if ctx.pid == "C05":
        return run_c05(ctx)
    if ctx.pid == "C08":
        return run_c08(ctx)
    raise Infra("fam_wire serves C05 and C08, not %s" % ctx.pid)

"""C18 - regex length / suffix analysis vs. the exact bounded semantics of spec/Regex.tla.

(A) TLC enumerates expression trees (builder state machine of Regex.tla, several parameter sets) and draws
    random deeper ones (-simulate, seeds derived from VERIF_SEED); for each it prints the tree, its concrete
    syntax, the structural bounds and Lang(r, L).
    The Go harness (harness/regex) renders each tree, checks that the regex ENGINE accepts exactly Lang
    (machinery check, binds the specification's semantics to rsc.io/binaryregexp), calls the real
    AcceptedLength / ConstantSuffix and records the answers.
(B) TLC (RegexTrace.tla) recomputes Lang from the recorded tree and evaluates the property on the recorded
    answers.  Only a predicate that is false there is a violation.
"""
import concurrent.futures
import json
import os
import random

from common import (Infra, go_must_pass, go_test, harness_overlay, read_ndjson, run_tlc, write_ndjson)

PKG = "internal/tools/regexAnalysis"

# (name, cfg, kind)   kind: "mc" exhaustive builder graph, "sim" random generator
QUICK = [("wide1", "RegexWide1.cfg", "mc"), ("core", "RegexCoreQ.cfg", "mc"), ("fold", "RegexFold.cfg", "mc"), ("suffix", "RegexSuffixQ.cfg", "mc"),
         ("suffixloop", "RegexSuffixLoopQ.cfg", "mc")]
# the thorough tier starts with the quick sets (a row keeps the name of the first set it appears in), so that the
# smallest failing expression - and with it the key of a violation - is the same in both tiers whenever possible
THOROUGH = QUICK + [("wide2", "RegexWide2.cfg", "mc"), ("coreT", "RegexCoreT.cfg", "mc"), ("deep", "RegexDeep.cfg", "mc")]
COMMON = {n for n, _, _ in QUICK}
TRACE_CFG = {"ab/5": "RegexTrace.cfg", "Aa/4": "RegexTraceFold.cfg"}


class _Sub:
    """private scratch namespace for one parallel TLC run (run_tlc numbers its directories through ctx.n_tlc)"""

    def __init__(self, ctx, name):
        self.ctx, self.name, self.n_tlc = ctx, name, 0

    def sub(self, d):
        return self.ctx.sub(self.name + "_" + d)


def _group(row):
    return "".join(sorted(row["sigma"])) + "/" + str(row["L"])


def generate(ctx):
    quick = ctx.quick()
    jobs = [(n, c, k, None) for (n, c, k) in (QUICK if quick else THOROUGH)]
    nsim, num = (4, 150) if quick else (10, 1200)
    for i in range(nsim):
        jobs.append(("sim%d" % i, "RegexSimAll.cfg" if i % 4 == 3 else "RegexSim.cfg", "sim", int(ctx.seed) * 1000 + i + 1))
    mc_workers = 4 if quick else 6

    def one(job):
        name, cfg, kind, seed = job
        if kind == "mc":
            return job, run_tlc(_Sub(ctx, name), "Regex", cfg, workers=mc_workers, timeout=900, heap="3g")
        return job, run_tlc(_Sub(ctx, name), "Regex", cfg, workers=1, timeout=900, heap="2g",
                            extra=["-simulate", "num=%d" % num, "-depth", "8", "-seed", str(seed)])

    rows, seen, stats = [], set(), {}
    with concurrent.futures.ThreadPoolExecutor(max_workers=8) as ex:
        for job, res in ex.map(one, jobs):
            name, cfg, kind, seed = job
            if res.error or not res.finished or res.invariant_violated:
                raise Infra("generator %s (%s) failed (rc=%s):\n%s" % (name, cfg, res.rc, _tail(res.out)))
            got = [p for p in res.prints if "ast" in p]
            if any("unparsed" in p for p in res.prints):
                raise Infra("generator %s printed an unparsable line" % name)
            if kind == "mc" and len(got) != res.distinct:
                raise Infra("generator %s: %d rows for %d distinct states" % (name, len(got), res.distinct))
            bad = [p for p in got if p.get("sane") is not True]
            if bad:
                raise Infra("the specification's structural bounds disagree with its own Lang for %s" % bad[0]["re"])
            fresh = 0
            for p in got:
                k = (_group(p), p["re"])
                if k in seen:
                    continue
                seen.add(k)
                p["src"] = name if kind == "mc" else "sim"
                rows.append(p)
                fresh += 1
            stats[name] = {"states": res.distinct, "generated": res.generated, "rows": len(got), "new": fresh}
    return rows, stats


def _tail(out, n=3000):
    return "\n".join(l for l in out.splitlines() if "@@J" not in l)[-n:]


def validate(ctx, group, rows):
    """TLC evaluates the property on the recorded answers of one alphabet group."""
    d = ctx.sub("trace_" + group.replace("/", "_"))
    path = os.path.join(d, "regex_trace.ndjson")
    write_ndjson(path, rows)
    res = run_tlc(_Sub(ctx, "v" + group.replace("/", "_")), "RegexTrace", TRACE_CFG[group], files=[path], workers=8 if len(rows) > 2000 else 2, timeout=1500, heap="8g")
    if res.error or not res.finished or res.invariant_violated:
        raise Infra("trace validation failed to run (%s):\n%s" % (group, _tail(res.out)))
    if res.distinct != len(rows) + 1:
        raise Infra("trace not fully consumed by TLC (%s): %d states for %d rows" % (group, res.distinct, len(rows)))
    return res


def run(ctx):
    rows, stats = generate(ctx)
    if len(rows) < 300:
        raise Infra("too few generated expressions: %d" % len(rows))
    for g in {_group(p) for p in rows}:
        if g not in TRACE_CFG:
            raise Infra("no trace configuration for alphabet group %s" % g)

    # (A) the real code answers
    inp = os.path.join(ctx.scratch, "regex_in.ndjson")
    write_ndjson(inp, [{k: p[k] for k in ("ast", "re", "sigma", "L", "lang", "src")} for p in rows])
    out = os.path.join(ctx.scratch, "regex_out.json")
    trace = os.path.join(ctx.scratch, "regex_trace_all.ndjson")
    ov = harness_overlay(ctx, PKG, "regex")
    rc, o = go_test(ctx, PKG, ov, "^TestVerifRegex$", env_extra={"VERIF_IN": inp, "VERIF_OUT": out, "VERIF_TRACE": trace})
    go_must_pass(rc, o, "regex harness")
    summ = json.load(open(out))
    if summ["rows"] != len(rows):
        raise Infra("harness processed %d of %d rows" % (summ["rows"], len(rows)))
    if summ["machinery"]:
        raise Infra("the regex engine and the specification's semantics disagree (machinery, not a verdict):\n  "
                    + "\n  ".join(summ["machinery"][:10]))
    answers = read_ndjson(trace)
    if len(answers) != len(rows):
        raise Infra("trace has %d rows, expected %d" % (len(answers), len(rows)))

    # (B) TLC judges the recorded answers
    groups, slow = {}, []
    for p, a in zip(rows, answers):
        if a["re"] != p["re"]:
            raise Infra("trace row %d out of order" % a["id"])
        if "watchdog" in (a["errlen"], a["errsuf"]):
            # the analysis did not return within the harness' watchdog: nothing was computed, nothing to judge
            # (promptness is not part of C18); reported in the evidence, too many of them is a generator problem
            slow.append(a["re"])
            continue
        groups.setdefault(_group(p), []).append(a)
    if len(slow) > 20:
        raise Infra("%d expressions ran into the analysis watchdog, e.g. %s" % (len(slow), slow[:3]))
    judged = len(rows) - len(slow)
    by_id = {a["id"]: (p, a) for p, a in zip(rows, answers)}
    fails, oks = [], []
    with concurrent.futures.ThreadPoolExecutor(max_workers=2) as ex:
        futs = [ex.submit(validate, ctx, g, rs) for g, rs in sorted(groups.items())]
        for f in futs:
            res = f.result()
            conf = [p for p in res.prints if p.get("kind") == "conf"]
            if conf:
                raise Infra("recorded engine answer does not conform to the specification: %s" % conf[0])
            if any("unparsed" in p for p in res.prints):
                raise Infra("trace validation printed an unparsable line")
            fails += [p for p in res.prints if p.get("kind") == "fail"]
            oks += [p for p in res.prints if p.get("kind") == "ok"]
    if len({p["id"] for p in oks}) != judged:
        raise Infra("TLC judged %d of %d rows" % (len({p['id'] for p in oks}), judged))

    selftest = _selftest(ctx, groups.get("ab/5", []), oks, {f["id"] for f in fails})

    # key = failing predicate + regime.  The regime is either the one TLC computed (":infeasible-path") or the shape of
    # the smallest failing expression (letters and classes written x, assertions ^), so that a different defect of the
    # same predicate gets a different key.
    def rank(f):
        p = by_id[f["id"]][0]
        return (f["what"], p["src"] not in COMMON, p["src"] == "sim", p["size"], len(f["re"]), f["re"])
    fails.sort(key=rank)
    keyof, counts = {}, {}
    for f in fails:
        if f["what"] not in keyof:
            keyof[f["what"]] = "C18." + f["what"] + ("" if ":" in f["what"] else ":" + _skel(by_id[f["id"]][0]["ast"]))
        counts[keyof[f["what"]]] = counts.get(keyof[f["what"]], 0) + 1
    for f in fails:
        key = keyof[f["what"]]
        if any(v["key"] == key for v in ctx.violations):
            continue
        p, a = by_id[f["id"]]
        what = "%s: `%s` computed min=%s max=%s suffix=%r; specification: TrueMin=%s TrueMax=%s, witness/expected %s (%d expressions fail this way)" % (
            f["what"], f["re"], _inf(f["min"]), _inf(f["max"]), "".join(f["suffix"]), _inf(p["tmin"]), _inf(p["tmax"]),
            f["extra"], counts[key])
        ctx.violation(key, what, {"re": f["re"], "ast": p["ast"], "lang_upto_L": p["lang"], "L": p["L"], "sigma": p["sigma"],
                                  "computed": {"min": f["min"], "max": f["max"], "suffix": "".join(f["suffix"])},
                                  "predicate": f["what"], "detail": f["extra"], "source": p["src"],
                                  "others": [g["re"] for g in fails if g["what"] == f["what"]][1:6]})
    for v in ctx.violations:
        v["count"] = counts.get(v["key"], v["count"])

    nontrivial = sum(1 for p in rows if p["lang"] and _has_branch(p["ast"]))
    sim_rows = [p for p in rows if p["src"] == "sim"]
    cov = {
        "states": sum(s["states"] for n, s in stats.items() if not n.startswith("sim")),
        "transitions": sum(s["generated"] for n, s in stats.items() if not n.startswith("sim")),
        "generators": stats,
        "expressions": len(rows),
        "random_deeper_expressions": len(sim_rows),
        "max_size": max(p["size"] for p in rows), "max_depth": max(p["depth"] for p in rows),
        "max_branches": max(p["branches"] for p in rows),
        "traces_validated_against_impl": len(oks),
        "evaluations": 2 * len(rows),
        "engine_words_accepted": summ["engine_accepts"],
        "engine_matches_checked": sum((len(p["sigma"]) ** (p["L"] + 1) - 1) // (len(p["sigma"]) - 1) for p in rows),
        "distinct_nontrivial": nontrivial,
        "witness_min_attained": sum(1 for p in oks if p["minw"]),
        "witness_max_attained_finite": sum(1 for p in oks if p["maxw"]),
        "witness_nonempty_suffix": sum(1 for p in oks if p["sufw"]),
        "with_assertions": sum(1 for p in rows if p["assert"]),
        "predicate_failures": counts,
        "selftest_corrupted_rows_rejected": selftest,
        "analysis_watchdog_expired": slow,
        "rule": "every distinct expression (by concrete syntax) of the TLC state graphs of Regex.tla for the tier's parameter "
                "sets plus TLC -simulate random expressions; each is matched by the engine against all words of length <= L, "
                "analysed by the real code, and judged by TLC; distinct_nontrivial = expressions with a non-empty Lang(r,L) "
                "that contain a quantifier or an alternation (their program has a branch)",
        "samples": [{k: a[k] for k in ("re", "min", "max", "suffix")} for a in answers[:2] + answers[-3:]],
    }
    return "exploration", cov, [
        "alphabet {a,b} with words up to length 5 (case folding: {a,A} up to 4); longer matches only through the structural bounds",
        "the structural bounds are exact only for expressions without assertions; for expressions with assertions a bound "
        "beyond the word length is not judged for attainment",
        "regex semantics of the specification are bound to rsc.io/binaryregexp by an exhaustive anchored match on every "
        "word up to the length bound for every generated expression",
        "bytes >= 0x80, multi-line / dot-all flags, named classes and look-around are not generated"]


def _selftest(ctx, answers, oks, failing):
    """The trace checker must reject recorded answers that are wrong: corrupt one field of rows TLC accepted
    (bound off by one, a suffix letter no matched word ends with, engine count) and require the matching line."""
    rnd = random.Random(int(ctx.seed))
    ok = {p["id"]: p for p in oks}
    good = [a for a in answers if a["id"] not in failing and ok.get(a["id"], {}).get("n", 0) > 1]
    rnd.shuffle(good)
    bad, expect = [], {}

    def add(a, what, **chg):
        b = dict(a)
        b.update(chg)
        b["id"] = len(bad) + 1
        bad.append(b)
        expect[b["id"]] = what

    for a in good:
        o = ok[a["id"]]
        n = len(bad)
        if o["minw"] and n % 5 == 0:
            add(a, "MinTooLarge", min=a["min"] + 1)
        elif o["maxw"] and a["max"] >= 1 and n % 5 == 1:
            add(a, "MaxTooSmall", max=a["max"] - 1)
        elif o["minw"] and a["min"] >= 1 and n % 5 == 2:
            add(a, "MinNotAttained", min=a["min"] - 1)
        elif n % 5 == 3:
            add(a, "SuffixNotSuffix", suffix=a["suffix"] + ["a", "b"])     # no word ends with ...ab AND with the old suffix
        elif n % 5 == 4:
            add(a, "conf", engn=a["engn"] + 1)
        if len(bad) >= 40:
            break
    if len(bad) < 10:
        raise Infra("self-test: not enough accepted rows to corrupt")
    d = ctx.sub("selftest")
    path = os.path.join(d, "regex_trace.ndjson")
    write_ndjson(path, bad)
    res = run_tlc(_Sub(ctx, "selftest"), "RegexTrace", TRACE_CFG["ab/5"], files=[path], workers=2, timeout=600, heap="2g")
    if res.error or not res.finished or res.distinct != len(bad) + 1:
        raise Infra("self-test run failed:\n" + _tail(res.out))
    seen = {}
    for p in res.prints:
        if p.get("kind") == "fail":
            seen.setdefault(p["id"], set()).add(p["what"].split(":")[0])
        elif p.get("kind") == "conf":
            seen.setdefault(p["id"], set()).add("conf")
    missed = [(bad[i - 1]["re"], w) for i, w in expect.items() if w not in seen.get(i, set())]
    # a suffix corruption can be vacuous when every matched word happens to end with the new suffix; nothing else may be missed
    missed = [m for m in missed if m[1] != "SuffixNotSuffix"] + [m for m in missed if m[1] == "SuffixNotSuffix"][3:]
    if missed:
        raise Infra("self-test: the trace checker accepted corrupted answers: %s" % missed[:5])
    return len(expect)


def _inf(v):
    return "inf" if v == -1 else str(v)


def _skel(a):
    op, sub = a["op"], [_skel(x) for x in a["s"]]
    q = "?" if a["z"] == 1 else ""
    if not sub:
        return {"empty": "", "bol": "^", "eol": "^", "wb": "^"}.get(op, "x")
    if op == "cap":
        return "(" + sub[0] + ")"
    if op == "cat":
        return sub[0] + sub[1]
    if op == "alt":
        return "(?:" + sub[0] + "|" + sub[1] + ")"
    if op == "rep":
        return "(?:%s){%d,%s}%s" % (sub[0], a["n"], "" if a["m"] == -1 else a["m"], q)
    return "(?:" + sub[0] + ")" + {"star": "*", "plus": "+", "quest": "?"}[op] + q


def _has_branch(a):
    return a["op"] in ("star", "plus", "quest", "alt", "rep") or any(_has_branch(s) for s in a["s"])

#!/bin/sh
# runs the seeded changes of one round (e.g. m4) against the check(s) of their property; writes seeded/MATRIX_<round>.txt
# usage: sh lib/run_matrix_round.sh m4
cd "$(dirname "$0")/.."
R=$1
OUT=seeded/MATRIX_$R.txt
: > $OUT.tmp
for d in seeded/*-$R/; do
  n=$(basename $d)
  id=${n%%-*}
  case $n in
    C07-m2) id="C10";;
    C07-m3) id="C10 C13";;
    C01-m5) id="C07";;
    C04-m5) id="C03";;
    C10-m5) id="C02";;
    C01-m6) id="C01 C07";;
    C10-m6) id="C10 C02";;
    C08-m6) id="C10";;
    C08-m7) id="C10";;
    C01-m7) id="C01 C07";;
    C12-m7) id="C12 C15";;
    C16-m7) id="C16 C15";;
    C09-m7) id="C09 C16";;
    C10-m8) id="C10 C02";;          # not detected (admissible pages; DESIGN 10.11)
    C08-m8) id="C08";;              # needs the thorough tier (two restarts around a 100000-packet world): MUT_TIER=thorough
    C12-m8) id="C12";;
    C11-m6|C11-m7|C11-m8) continue;;   # obsolete: all three drop "t.referencedBy = ot.referencedBy" for a tag deleted and added again during its job; since the definition-number fix the result of such a job is dropped as a whole (demo passes with the change)
    C09-m5) continue;;
    C11-m2|C11-m4|C11-m5) continue;;   # obsolete for the same reason (the same line, earlier rounds)
  esac
  python3 lib/mutants.py run $n $id 2>&1 | grep -v KNOWN | cut -c1-240 >> $OUT.tmp
done
mv $OUT.tmp $OUT

#!/bin/sh
# runs every registered check (quick by default) with the given seeds on the current tree; prints one line per run.
# usage: sh lib/run_all.sh [tier] [seeds...]      (evidence goes to a scratch directory, not to /verif/evidence)
cd "$(dirname "$0")/.."
tier=${1:-quick}; shift
seeds=${*:-1}
export VERIF_EVIDENCE=$(mktemp -d /tmp/runall-ev-XXXXXX)
for s in $seeds; do
  for id in C01 C02 C03 C04 C05 C06 C07 C08 C09 C10 C11 C12 C13 C14 C15 C16 C17 C18 C19 C20; do
    t0=$(date +%s)
    ./check $id --tier $tier --seed $s > $VERIF_EVIDENCE/$id.$s.log 2>&1
    rc=$?
    echo "$id seed=$s tier=$tier rc=$rc $(( $(date +%s) - t0 ))s $(grep -c '^KNOWN-FINDING' $VERIF_EVIDENCE/$id.$s.log) known $(grep -c '^NONCONFORMANCE' $VERIF_EVIDENCE/$id.$s.log) nonconf"
    if [ $rc != 0 ]; then grep -v '^KNOWN-FINDING' $VERIF_EVIDENCE/$id.$s.log | head -c 1500; echo; fi
  done
done
rm -rf $VERIF_EVIDENCE

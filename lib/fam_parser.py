"""C14 - the query parser is total (spec/QueryGrammar.tla, spec/QueryGrammarTrace.tla, harness/parser).

TLC enumerates token sequences / values of the query grammar (with the malformed members of every
class) and computes DNFSize; the Go harness concretises them, mutates a fraction at byte level and
runs query.Parse under a watchdog (fresh process after every hang); TLC then parses the token
sequence the REAL lexer produced for every executed text, computes DNFSize and evaluates the
property predicates on the recorded verdicts."""
import base64
import collections
import concurrent.futures
import json
import os
import random
import subprocess
import time

import common
from common import Infra, read_ndjson, run_tlc, write_ndjson

CAP = 300        # = Cap of QueryGrammar.tla
VOLCAP = 2000    # = VolCap
PKG = "internal/query"

# (vk, alphabet, max symbols, headers)
VALUES_QUICK = [
    ("num", "raw", 3, "base"), ("num", "parts", 3, "base"), ("num", "parts", 2, "all"),
    ("time", "raw", 2, "keys"), ("time", "parts", 3, "base"),
    ("host", "raw", 3, "base"), ("host", "masks", 3, "base"), ("host", "masks", 2, "all"),
    ("proto", "raw", 3, "base"), ("data", "raw", 2, "keys"), ("tag", "raw", 3, "base"),
    ("sort", "raw", 3, "base"), ("limit", "raw", 3, "base"), ("group", "raw", 3, "base"),
]
VALUES_THOROUGH = [
    ("num", "raw", 4, "base"), ("num", "parts", 4, "base"), ("num", "parts", 3, "keys"), ("num", "parts", 2, "all"),
    ("time", "raw", 3, "keys"), ("time", "parts", 4, "base"), ("time", "parts", 2, "all"),
    ("host", "raw", 4, "base"), ("host", "masks", 3, "all"),
    ("proto", "raw", 4, "base"), ("proto", "raw", 2, "all"), ("data", "raw", 3, "base"), ("data", "raw", 2, "all"),
    ("tag", "raw", 3, "keys"), ("tag", "raw", 2, "all"),
    ("sort", "raw", 4, "base"), ("limit", "raw", 4, "base"), ("group", "raw", 4, "base"),
]


class _Sub:
    """private scratch namespace so that run_tlc can be used from several threads"""

    def __init__(self, ctx, name):
        self.n_tlc = 0
        self.base = ctx.sub(name)

    def sub(self, name):
        d = os.path.join(self.base, name)
        os.makedirs(d, exist_ok=True)
        return d


def _dbg(msg, t0):
    if os.environ.get("VERIF_DEBUG"):
        print("[C14 %6.1fs] %s" % (time.time() - t0, msg), flush=True)


def _cfg(mode, maxlen, seed, vk="num", alpha="raw", hdrs="base", gram=False, inv="Emit"):
    return ("SPECIFICATION Spec\nCONSTANTS\n  Mode = \"%s\"\n  MaxLen = %d\n  Seed = %d\n  VK = \"%s\"\n"
            "  Alpha = \"%s\"\n  Hdrs = \"%s\"\n  Gram = %s\nINVARIANT %s\n"
            % (mode, maxlen, seed, vk, alpha, hdrs, "TRUE" if gram else "FALSE", inv))


def _generate(ctx, jobs):
    """jobs: list of (name, cfg text, extra TLC args, workers).  Returns {name: (TlcResult, records)}."""
    def one(job):
        name, text, extra, workers = job
        sub = _Sub(ctx, "gen_" + name)
        cfg = os.path.join(sub.base, "QueryGrammar_%s.cfg" % name)
        with open(cfg, "w") as fh:
            fh.write(text)
        res = run_tlc(sub, "QueryGrammar", os.path.basename(cfg), files=[cfg], extra=extra, workers=workers,
                      timeout=900, heap="3g")
        if res.error or not res.finished or res.invariant_violated:
            raise Infra("generator run %s failed:\n%s" % (name, res.out[-3000:]))
        recs = [p for p in res.prints if "toks" in p]
        if any("unparsed" in p for p in res.prints):
            raise Infra("generator run %s: unparsable output line" % name)
        return name, res, recs
    out = {}
    with concurrent.futures.ThreadPoolExecutor(max_workers=6) as ex:
        for name, res, recs in ex.map(one, jobs):
            out[name] = (res, recs)
    return out


def _build(ctx):
    ov = common.harness_overlay(ctx, PKG, "parser")
    binpath = os.path.join(ctx.scratch, "query.test")
    cmd = ["go", "test", "-c", "-tags", "verif", "-overlay", ov, "-vet=off", "-o", binpath, "./" + PKG]
    p = subprocess.run(cmd, cwd=common.REPO, env=common.go_env(), stdout=subprocess.PIPE, stderr=subprocess.STDOUT,
                       text=True, errors="replace", timeout=600)
    if p.returncode != 0 or not os.path.exists(binpath):
        raise Infra("building the parser harness failed:\n" + p.stdout[-4000:])
    return binpath


def _last_row(path):
    try:
        with open(path, "rb") as fh:
            fh.seek(0, os.SEEK_END)
            size = fh.tell()
            fh.seek(max(0, size - (1 << 16)))
            lines = fh.read().splitlines()
        return json.loads(lines[-1]) if lines else None
    except (OSError, ValueError):
        return None


def _run_shard(ctx, binpath, inp, outp, budget_ms, flood, deadline):
    """Runs the harness over one input file; restarts it after every hang / crash.
    Returns (restarts, crashes, degraded level, truncated)."""
    env = common.go_env()
    env.update({"VERIF_IN": inp, "VERIF_OUT": outp, "VERIF_SEED": str(ctx.seed), "VERIF_TIER": ctx.tier,
                "VERIF_BUDGET_MS": str(budget_ms), "VERIF_INFLIGHT": outp + ".inflight",
                "VERIF_MUTPCT": os.environ.get("VERIF_MUTPCT", "30")})
    restarts = crashes = full_timeouts = reduced_timeouts = 0
    degraded = 0
    while True:
        if time.time() > deadline:
            return restarts, crashes, degraded, True
        try:
            p = subprocess.run([binpath, "-test.run", "^TestVerifParser$", "-test.timeout", "0"],
                               cwd=os.path.dirname(outp), env=env, stdout=subprocess.PIPE, stderr=subprocess.STDOUT,
                               text=True, errors="replace", timeout=max(30, deadline - time.time()))
        except subprocess.TimeoutExpired:
            return restarts, crashes, degraded, True
        if p.returncode == 0 and "PASS" in p.stdout:
            return restarts, crashes, degraded, False
        restarts += 1
        if p.returncode == 3:
            row = _last_row(outp)
            # a flood of hangs (one defect hit by thousands of inputs) must not eat the time budget: after
            # `flood` hangs under the full budget the rest runs with 250 ms, after 10 x flood more with 60 ms;
            # a time-out under a reduced budget is never a verdict ("inconclusive")
            if row and row.get("verdict") == "timeout" and row.get("budget", 0) >= 2000:
                full_timeouts += 1
                if full_timeouts >= flood and degraded == 0:
                    degraded = 1
                    env["VERIF_BUDGET_MS"] = env["VERIF_SHORT_MS"] = "250"
            elif row and row.get("verdict") == "timeout" and degraded == 1:
                reduced_timeouts += 1
                if reduced_timeouts >= 10 * flood:
                    degraded = 2
                    env["VERIF_BUDGET_MS"] = env["VERIF_SHORT_MS"] = "60"
            continue
        # the process died although every panic is recovered: fatal runtime error (stack overflow, out of
        # memory, ...) while the case named in the in-flight file was running -> an observation, not infra
        try:
            row = json.load(open(outp + ".inflight"))
        except (OSError, ValueError):
            raise Infra("parser harness died (rc=%s) without in-flight record:\n%s" % (p.returncode, p.stdout[-3000:]))
        last = _last_row(outp)
        if last and (last["id"], last["case"]) == (row["id"], row["case"]):
            raise Infra("parser harness died (rc=%s) outside a case:\n%s" % (p.returncode, p.stdout[-3000:]))
        crashes += 1
        fatal = [l for l in p.stdout.splitlines() if l.startswith("fatal error") or l.startswith("runtime:")]
        row["verdict"] = "crash"
        row["msg"] = json.dumps(("; ".join(fatal[:2]) or "exit status %s" % p.returncode)[:200])
        row["at"] = "runtime"
        with open(outp, "a") as fh:
            fh.write(json.dumps(row) + "\n")
        if crashes > 50:
            raise Infra("parser harness keeps dying:\n" + p.stdout[-3000:])


def _keys_of(row):
    return sorted({t["key"] for t in row.get("ltoks", []) if t.get("k") == "key"})


def run(ctx):
    quick = ctx.quick()
    rnd = random.Random(ctx.seed)
    t_start = time.time()

    # ------------------------------------------------------------------ (A) generation by TLC
    jobs = []
    for vk, alpha, n, hdrs in (VALUES_QUICK if quick else VALUES_THOROUGH):
        jobs.append(("v_%s_%s_%d_%s" % (vk, alpha, n, hdrs),
                     _cfg("value", n, ctx.seed, vk=vk, alpha=alpha, hdrs=hdrs), [], 2))
    jobs.append(("tok_all", _cfg("tokens", 4 if quick else 5, ctx.seed), [], 4))
    jobs.append(("tok_gram", _cfg("tokens", 5 if quick else 7, ctx.seed, gram=True), [], 4))
    jobs.append(("pairs", _cfg("pairs", 2, ctx.seed, hdrs="base" if quick else "all"), [], 2))
    nsim = 8 if quick else 60
    jobs.append(("sim_gram", _cfg("sim", 12, ctx.seed, gram=True, inv="EmitSim"),
                 ["-simulate", "num=%d" % nsim, "-depth", "12", "-seed", str(ctx.seed)], 1))
    jobs.append(("sim_gram_long", _cfg("sim", 18, ctx.seed, gram=True, inv="EmitSim"),
                 ["-simulate", "num=%d" % (nsim // 2), "-depth", "18", "-seed", str(ctx.seed + 1000)], 1))
    jobs.append(("sim_any", _cfg("sim", 9, ctx.seed, gram=False, inv="EmitSim"),
                 ["-simulate", "num=%d" % (nsim // 2), "-depth", "9", "-seed", str(ctx.seed + 2000)], 1))
    gen = _generate(ctx, jobs)
    _dbg("generation done", t_start)

    inputs, seen = [], set()
    per_job = {}
    states = transitions = 0
    sim_cap = 1500 if quick else 12000
    for name, _, _, _ in jobs:
        res, recs = gen[name]
        states += res.distinct
        transitions += res.generated
        if name.startswith("sim"):
            # the invariant is evaluated on every successor the simulator looks at: keep a seeded sample
            recs = sorted(recs, key=lambda r: json.dumps(r["toks"], sort_keys=True))
            rnd.shuffle(recs)
            recs = recs[:sim_cap]
        kept = 0
        for r in recs:
            k = json.dumps(r["toks"], sort_keys=True)
            if k in seen:
                continue
            seen.add(k)
            r["toks"] = list(r["toks"]) if not isinstance(r["toks"], dict) else []
            r["flat"] = list(r["flat"]) if not isinstance(r["flat"], dict) else []
            r["job"] = name
            inputs.append(r)
            kept += 1
        per_job[name] = kept
    if len(inputs) < 1000:
        raise Infra("generator produced only %d inputs" % len(inputs))
    # inputs beyond the size bound cost a process each: keep a seeded sample of them
    big = [r for r in inputs if r["syn"] and (r["size"] > CAP or r["vol"] > VOLCAP)]
    big_max = 60 if quick else 400
    dropped_big = 0
    if len(big) > big_max:
        drop = set(id(r) for r in rnd.sample(big, len(big) - big_max))
        dropped_big = len(drop)
        inputs = [r for r in inputs if id(r) not in drop]
    for i, r in enumerate(inputs):
        r["id"] = i
    by_id = {r["id"]: r for r in inputs}

    # ------------------------------------------------------------------ (B) the real parser under the watchdog
    _dbg("%d inputs (%d beyond bound kept, %d dropped)" % (len(inputs), len(big) - dropped_big, dropped_big), t_start)
    binpath = _build(ctx)
    _dbg("harness built", t_start)
    nshards = 6
    wd = ctx.sub("run")
    order = list(inputs)
    rnd.shuffle(order)
    shard_files = []
    for s in range(nshards):
        inp = os.path.join(wd, "in_%d.ndjson" % s)
        write_ndjson(inp, [{k: r[k] for k in ("id", "mode", "vk", "toks", "syn", "size", "vol", "wf")} for r in order[s::nshards]])
        shard_files.append((inp, os.path.join(wd, "out_%d.ndjson" % s)))
    deadline = t_start + (105 if quick else 800)
    flood = 3 if quick else 6
    with concurrent.futures.ThreadPoolExecutor(max_workers=nshards) as ex:
        stats = list(ex.map(lambda io: _run_shard(ctx, binpath, io[0], io[1], 2000, flood, deadline), shard_files))
    rows = []
    for _, outp in shard_files:
        rows.extend(read_ndjson(outp))
    _dbg("shards done: %s rows %d" % (stats, len(rows)), t_start)
    restarts = sum(s[0] for s in stats)
    crashes = sum(s[1] for s in stats)
    degraded = sum(1 for s in stats if s[2])
    truncated = sum(1 for s in stats if s[3])

    # Time-outs are re-run alone, up to two more times, under the full budget (other shards are gone by
    # then): only a case that never answers within the budget stays a time-out.  Candidates: time-outs under
    # the full budget first, then those that ran under a budget reduced by a flood of another defect
    # (two per place of the hang, most frequent place first), so that one defect cannot hide another.
    def beyond(r):
        g = by_id[r["id"]]
        return (not r["mut"]) and g["syn"] and (g["size"] > CAP or g["vol"] > VOLCAP)
    cand = [r for r in rows if r["verdict"] == "timeout" and r["budget"] >= 2000]
    reduced = [r for r in rows if r["verdict"] == "timeout" and r["budget"] < 2000 and not beyond(r)]
    freq = collections.Counter(r["at"] for r in reduced)
    per_at = collections.Counter()
    confirm = []
    order_c = sorted(cand, key=lambda r: (len(r["text64"]), r["id"], r["case"])) + \
        sorted(reduced, key=lambda r: (-freq[r["at"]], r["at"], r["mut"], -by_id[r["id"]]["size"], len(r["text64"]),
                                       r["id"], r["case"]))   # (the larger forms are the slower ones)
    for r in order_c:
        if per_at[r["at"]] < 2 and len(confirm) < (8 if quick else 20):
            per_at[r["at"]] += 1
            confirm.append(r)
    confirmed = 0
    for r in confirm:
        inp = os.path.join(wd, "confirm_in.ndjson")
        outp = os.path.join(wd, "confirm_out_%d_%d.ndjson" % (r["id"], r["case"]))
        write_ndjson(inp, [{"id": r["id"], "case": r["case"], "text64": r["text64"], "toks": [], "mode": "replay",
                            "vk": "", "syn": False, "size": 0, "wf": "unknown"}])
        again = None
        for attempt in (2, 3):      # up to two more runs; any answer within the budget counts
            if os.path.exists(outp):
                os.remove(outp)
            _run_shard(ctx, binpath, inp, outp, 2000, 99, time.time() + 60)
            got = read_ndjson(outp) if os.path.exists(outp) else []
            if not got:
                raise Infra("confirmation run wrote nothing")
            again = got[0]
            r["attempts"] = attempt
            if again["verdict"] != "timeout":
                break
        if again["verdict"] == "timeout":
            confirmed += 1
            r["budget"] = again["budget"]
        else:                       # it did return when run alone: take that observation
            for k in ("verdict", "ms", "cpu", "same", "nconds", "at", "msg", "budget"):
                r[k] = again[k]
    for r in cand:
        if r["verdict"] == "timeout" and not r.get("attempts"):
            r["budget"] = 1999      # not re-run (flood): inconclusive, never a verdict

    _dbg("confirmation done (%d of %d)" % (confirmed, len(confirm)), t_start)
    # ------------------------------------------------------------------ (C) TLC judges the recorded rows
    def odd(r):
        return r["verdict"] not in ("ok", "err") or not r["same"] or r.get("cpu", 0) >= 500
    anomalous = [r for r in rows if odd(r)]
    normal = [r for r in rows if not odd(r)]
    nmax = 50000 if quick else 150000
    if len(normal) > nmax:
        normal = rnd.sample(normal, nmax)
    judged = anomalous + normal
    trace = []
    for r in judged:
        g = by_id[r["id"]]
        trace.append({"id": r["id"], "case": r["case"], "canon": bool(r["canon"]), "budget": r["budget"],
                      "verdict": r["verdict"], "same": bool(r["same"]), "nconds": r["nconds"], "ms": r["ms"], "cpu": r.get("cpu", 0),
                      "lexok": bool(r["lexok"]), "ltoks": r["ltoks"] or [],
                      "gflat": g["flat"] if r["canon"] else [], "gwf": g["wf"]})
    tpath = os.path.join(wd, "parser_trace.ndjson")
    write_ndjson(tpath, trace)
    tres = run_tlc(ctx, "QueryGrammarTrace", "QueryGrammarTrace.cfg", files=[tpath], workers=12,
                   timeout=600 if quick else 1500, heap="6g")
    if tres.error or not tres.finished:
        raise Infra("trace evaluation failed to run:\n" + tres.out[-3000:])
    _dbg("trace evaluation done (%d rows)" % len(trace), t_start)
    consumed = sum(p["done"] for p in tres.prints if "done" in p)
    if consumed != len(trace):
        raise Infra("trace not fully consumed by TLC: %d of %d\n%s" % (consumed, len(trace), tres.out[-2000:]))
    row_of = {(r["id"], r["case"]): r for r in judged}
    fails = [p for p in tres.prints if p.get("cls") == "fail"]
    infos = collections.Counter(p["what"] for p in tres.prints if p.get("cls") == "info")
    ncs = [p for p in tres.prints if p.get("cls") == "nc"]

    slow_obs = sorted(([row_of[(p["id"], p["case"])]["cpu"], p["size"], p["vol"],
                        row_of[(p["id"], p["case"])]["show"][:70]]
                       for p in tres.prints if p.get("cls") == "info" and p["what"] == "slow"), reverse=True)
    examples = collections.defaultdict(list)
    for f in sorted(fails, key=lambda f: (row_of[(f["id"], f["case"])]["mut"], row_of[(f["id"], f["case"])]["budget"] < 2000,
                                          len(row_of[(f["id"], f["case"])]["text64"]), f["id"], f["case"])):
        r = row_of[(f["id"], f["case"])]
        if f["what"] == "panic":
            key = "panic@" + r["at"]
        elif f["what"] == "hang":
            key = "hang@" + r["at"]
        elif f["what"] == "nondet":
            key = "nondet:" + "+".join(_keys_of(r)[:4])
        else:
            key = f["what"] + "@" + r["at"]
        examples[key].append((f, r))
    for key, lst in examples.items():
        f, r = lst[0]
        g = by_id[r["id"]]
        what = "%s on %s (DNFSize %s by TLC on the lexed tokens, budget %d ms%s; %d cases with this signature): %s" % (
            {"panic": "query.Parse panicked", "hang": "query.Parse did not return",
             "nondet": "two parses of the same text differ", "crash": "the process died"}.get(f["what"], f["what"]),
            r["show"], f["size"], r["budget"], ", mutated input" if r["mut"] else "", len(lst), r["msg"])
        replay = {"text": r["show"], "text64": r["text64"], "verdict": r["verdict"], "at": r["at"], "msg": r["msg"],
                  "mutated": r["mut"], "generator_tokens": g["toks"], "generator_mode": g["mode"], "size": f["size"],
                  "others": [x[1]["show"] for x in lst[1:6]]}
        for _ in lst:
            ctx.violation(key, what, replay)
    ran = len({r["id"] for r in rows}) / float(len(inputs))
    if truncated and not fails and ran < 0.5:
        raise Infra("parser harness exceeded its time budget without any finding (%d restarts, %d rows, %.0f%% of "
                    "the inputs)" % (restarts, len(rows), 100 * ran))
    nc_kinds = collections.Counter(p["what"] for p in ncs)
    for what, n in sorted(nc_kinds.items()):
        ex = next(row_of[(p["id"], p["case"])] for p in ncs if p["what"] == what)
        ctx.nonconformance.append("grammar-model:%s x%d e.g. %s -> %s %s" % (what, n, ex["show"], ex["verdict"], ex["msg"]))

    verdicts = collections.Counter(r["verdict"] for r in rows)
    ok_canon = [r for r in rows if r["canon"] and r["verdict"] == "ok" and by_id[r["id"]]["size"] >= 2]
    sizes = collections.Counter()
    for r in inputs:
        if r["syn"]:
            s = r["size"]
            sizes["0-1" if s <= 1 else "2-16" if s <= 16 else "17-100" if s <= 100 else ">300" if s > CAP
                  else "101-300" if r["vol"] <= VOLCAP else "101-300 but >%d literals" % VOLCAP] += 1
    slow = sorted((r for r in rows if r["verdict"] in ("ok", "err")), key=lambda r: -r["ms"])[:3]
    cov = {
        "states": states, "transitions": transitions,
        "traces_validated_against_impl": len(trace),
        "evaluations": len(rows),
        "distinct_nontrivial": len({r["text64"] for r in ok_canon}),
        "rule": "evaluations = texts run through query.Parse under the watchdog (canonical, re-spaced/re-cased and "
                "byte-mutated concretisations of TLC-generated token sequences); distinct_nontrivial = distinct "
                "canonical texts the real parser accepted whose DNFSize (TLC) is >= 2; traces_validated = rows whose "
                "lexed token sequence TLC parsed and judged (all anomalous rows + a seeded sample of the others)",
        "generated_inputs": len(inputs), "per_generator_run": per_job, "dropped_beyond_bound": dropped_big,
        "grammatical_by_dnfsize": dict(sizes),
        "verdicts": dict(verdicts), "mutated_cases": sum(1 for r in rows if r["mut"]),
        "shards_truncated_by_time_budget": truncated, "inputs_run_fraction": round(ran, 3), "process_restarts": restarts, "process_crashes": crashes, "shards_degraded_after_flood": degraded,
        "timeouts_confirmed_by_rerun": confirmed,
        "skipped_beyond_bound": infos.get("skipped", 0),
        "beyond_bound_observations": [row_of[(p["id"], p["case"])]["show"][:100] for p in tres.prints
                                      if p.get("cls") == "info" and p["what"] == "skipped"][:3], "inconclusive_reduced_budget": infos.get("inconclusive", 0),
        "nonconformance": dict(nc_kinds),
        "slowest_returned_ms": [[r["ms"], r["show"][:80]] for r in slow],
        "answers_over_500ms_cpu": len(slow_obs), "slowest_cpu_ms_size_volume": slow_obs[:5],
        "samples": [{"text": r["show"][:120], "verdict": r["verdict"], "ms": r["ms"], "nconds": r["nconds"]}
                    for r in rnd.sample(rows, min(4, len(rows)))],
    }
    return "exploration", cov, [
        "token sequences exhaustively up to %d kinds (any order) / %d kinds (grammatical), values up to 2-4 symbols per "
        "sub-grammar, longer ones by seeded simulation; arbitrary byte strings only as 1-3 byte-level mutations of those"
        % ((4, 5) if quick else (5, 7)),
        "moderate size = DNFSize <= %d conjuncts and DNFVolume <= %d literals in the largest intermediate form "
        "(the final Clean costs ~ conjuncts^2 x literals per conjunct: 300 x 42 literals needs 2-4 s and is recorded "
        "as an observation, not a violation)" % (CAP, VOLCAP),
        "promptness = 2 s of CPU time of the parsing thread on this machine (hard stop 17 s wall clock), confirmed by up to two more runs alone; DNFSize is an upper bound "
        "(conjunct-level cleaning is ignored)",
        "'equivalent' = structurally equal Conditions/Sorting/Limit/Grouping, time durations modulo the shift of the "
        "reference time",
        "regular-expression validity of data values is not modelled (wf unknown)"]

"""C04 - payload filters vs. plain regular-expression matching (spec/DataMatch.tla)."""
import concurrent.futures
import json
import os
import random
import re

from common import (Infra, go_must_pass, go_test, harness_overlay, read_ndjson, run_tlc, tlc_must_pass, write_ndjson)

PKG = "internal/index"


def run(ctx):
    rng = random.Random(ctx.seed)
    res = tlc_must_pass(run_tlc(ctx, "DataMatchGen", "DataMatchGen.cfg", workers=1, timeout=300), "DataMatchGen")
    shapes = [p for p in res.prints if "conds" in p]
    if len(shapes) < 100:
        raise Infra("too few shapes: %d" % len(shapes))
    if ctx.quick():
        inst, nstreams = 3, 10
    else:
        inst, nstreams = 20, 14
    inp = os.path.join(ctx.scratch, "dm_in.json")
    with open(inp, "w") as fh:
        json.dump({"shapes": shapes}, fh)
    out = os.path.join(ctx.scratch, "dm_rows_all.ndjson")
    ov = harness_overlay(ctx, PKG, "datamatch")
    rc, o = go_test(ctx, PKG, ov, "^TestVerifDataMatch$", env_extra={"VERIF_IN": inp, "VERIF_OUT": out, "VERIF_STREAMS": str(nstreams),
                                                                     "VERIF_INSTANCES": str(inst)}, timeout=1500)
    go_must_pass(rc, o, "datamatch harness")
    skipped = re.findall(r"VERIF-SKIPPED (\d+) (.*)", o)
    skip_examples = dict(re.findall(r"VERIF-SKIP-EXAMPLE (.*?): (.*)", o))
    rows = read_ndjson(out)
    for r in [x for x in rows if "panic" in x]:
        ctx.violation("C04.SearchPanics:%s" % r["feat"], "the search panics (%s) for %s" % (r["panic"][:200], r["text"]), {"row": r})
    for r in [x for x in rows if "searcherr" in x]:
        ctx.violation("C04.SearchFails:%s" % r["feat"], "the search fails (%s) for %s" % (r["searcherr"][:200], r["text"]), {"row": r})
    rows = [x for x in rows if "panic" not in x and "searcherr" not in x]
    if len(rows) < 1000:
        raise Infra("too few rows: %d (skipped: %s)" % (len(rows), skipped))
    nproc = 12
    chunks = [rows[i::nproc] for i in range(nproc)]
    fails, infra, consumed = [], [], 0

    def validate(i):
        d = ctx.sub("dmchunk%d" % i)
        p = os.path.join(d, "datamatch_rows.ndjson")
        write_ndjson(p, chunks[i])
        return i, run_tlc(ctx, "DataMatchTrace", "DataMatchTrace.cfg", files=[p], workers=1, timeout=1500)
    with concurrent.futures.ThreadPoolExecutor(max_workers=nproc) as ex:
        for i, r in ex.map(validate, range(nproc)):
            if r.error or not r.finished:
                raise Infra("datamatch trace validation failed:\n" + r.out[-3000:])
            done = [p for p in r.prints if "done" in p]
            if not done or done[-1]["done"] != len(chunks[i]):
                raise Infra("datamatch chunk %d not consumed" % i)
            consumed += len(chunks[i])
            fails += [p for p in r.prints if p.get("kind") == "fail"]
            infra += [p for p in r.prints if p.get("kind") == "infra"]
    if infra:
        raise Infra("reference walker deviates from the specification: %s" % infra[0])
    by = {(r["case"], r["stream"]): r for r in rows}
    for f in fails:
        r = by[(f["case"], f["stream"])]
        shape = "+".join("%s%s" % ("!" if c["inv"] else "", "".join(e["d"] for e in c["els"])) for cj in r["conjs"] for c in cj["conds"])
        ctx.violation("%s:%s:reps=%d:%s" % (f["what"], f["feat"], len(r["reps"]), shape),
                      "%s for %s on payload %s" % (f["what"], f["text"], json.dumps(r["reps"])[:300]),
                      {"row": r})
    feats = {}
    for r in rows:
        feats[r["feat"]] = feats.get(r["feat"], 0) + 1
    decided = sum(1 for r in rows if r["real"])
    cov = {
        "evaluations": len(rows), "distinct_nontrivial": len({(r["case"]) for r in rows if r["real"]}),
        "rule": "one evaluation = one (query, stream) pair: the query instantiates a TLC-enumerated shape (conditions x elements x directions x "
                "inversion x representations x selector x sharing x capture) with seeded random expressions and alternating payload chunks; TLC "
                "re-derives the specified walk from the plain binaryregexp results and compares verdicts; non-trivial = distinct queries that "
                "select at least one stream",
        "samples": [{k: rows[i][k] for k in ("text", "feat", "reps", "steps", "real")} for i in (0, len(rows) // 2)],
        "shapes": len(shapes), "rows_validated_by_tlc": consumed, "matching_rows": decided, "feature_classes": feats,
        "skipped": [{"n": int(n), "why": w, "example": skip_examples.get(w.replace("search: ", "", 1), "")} for n, w in skipped],
    }
    return "exploration", cov, ["plain matching = rsc.io/binaryregexp without any shortcut, evaluated by a reference walker whose every step TLC re-derives",
                                "sequences only where exactly one representation is searched (DESIGN.md C04 scope decision)",
                                "alphabet {a,b,c}, chunks of 1-6 bytes, at most 5 chunks per representation"]

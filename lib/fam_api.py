"""HTTP-level pass of the Manager family (C11; settings of C12): TLC-generated call sequences of ManagerGen.tla sent through the
real router of cmd/pkappa2 (harness/api), validated by spec/ApiTrace.tla with the validity conditions of Manager.tla."""
import json
import os

from common import Infra, go_test, harness_overlay, read_ndjson, run_tlc, write_ndjson

PKG = "cmd/pkappa2"

GEN_API = [
    {"TagNames": '{"tag/a", "tag/b", "mark/m"}', "ConvNames": "{}", "MaxCalls": 14, "MaxViews": 0, "Menu": '"tags"', "Invalid": "TRUE",
     "Extra": '{"rename", "color", "settings"}'},
    {"TagNames": '{"tag/a", "service/c", "generated/g"}', "ConvNames": "{}", "MaxCalls": 14, "MaxViews": 0, "Menu": '"subs"', "Invalid": "TRUE",
     "Extra": '{"rename", "color"}'},
]

API_CALLS = ("AddTag", "DelTag", "UpdQuery", "UpdName", "UpdColor", "MarkAdd", "MarkDel", "SetConverters", "AddHook", "DelHook",
             "AddEndpoint", "DelEndpoint", "SetConfig", "ApiImport")

REGRESS = [
    {"id": "a-empty-parameters", "steps": [
        {"a": "ApiImport", "k": 1},
        {"a": "AddTag", "name": "tag/a", "def": {"k": "P", "n": 80, "s": [], "t": ""}, "color": ""},
        {"a": "AddTag", "name": "tag/a", "def": {"k": "P", "n": 80, "s": [], "t": ""}, "color": "#111111"},
        {"a": "AddTag", "name": "", "def": {"k": "P", "n": 80, "s": [], "t": ""}, "color": "#111111"},
        {"a": "UpdColor", "name": "tag/a", "color": ""}, {"a": "UpdName", "name": "tag/a", "new": ""},
        {"a": "UpdName", "name": "tag/a", "new": "tag/"}, {"a": "UpdName", "name": "tag/a", "new": "mark/a"},
        {"a": "AddTag", "name": "generated/g", "def": {"k": "M", "n": 0, "s": [0], "t": ""}, "color": "#222222"},
        {"a": "UpdQuery", "name": "generated/g", "def": {"k": "P", "n": 80, "s": [], "t": ""}},
        {"a": "MarkAdd", "name": "generated/g", "ids": [1]}, {"a": "MarkAdd", "name": "generated/g", "ids": [7]}, {"a": "MarkAdd", "name": "generated/g", "ids": []},
        {"a": "MarkDel", "name": "tag/a", "ids": [0]}, {"a": "SetConverters", "name": "tag/a", "convs": []}, {"a": "SetConverters", "name": "tag/a", "convs": ["ghost"]},
        {"a": "AddHook", "what": ""}, {"a": "AddEndpoint", "what": ""}, {"a": "AddEndpoint", "what": "nocolon"}, {"a": "AddEndpoint", "what": "127.0.0.1:1"},
        {"a": "AddEndpoint", "what": "127.0.0.1:1"}, {"a": "DelEndpoint", "what": "127.0.0.1:2"}, {"a": "SetConfig", "k": 1}, {"a": "SetConfig", "k": 0},
        {"a": "UpdName", "name": "tag/a", "new": "tag/b"}, {"a": "AddTag", "name": "tag/c", "def": {"k": "R", "n": 0, "s": [], "t": "tag/b"}, "color": "#333333"},
        {"a": "UpdName", "name": "tag/b", "new": "tag/d"}, {"a": "DelTag", "name": "tag/b"}, {"a": "UpdName", "name": "tag/c", "new": "tag/b"},
        {"a": "DelTag", "name": "tag/c"}, {"a": "DelTag", "name": "tag/b"}, {"a": "DelTag", "name": "tag/b"}]},
    # an id of -1 stands for 2^64-1 (harness/api): no such stream, the call has to be rejected
    {"id": "a-largest-stream-id", "steps": [
        {"a": "ApiImport", "k": 1},
        {"a": "AddTag", "name": "mark/m", "def": {"k": "M", "n": 0, "s": [0], "t": ""}, "color": "#444444"},
        {"a": "MarkAdd", "name": "mark/m", "ids": [-1]}, {"a": "MarkDel", "name": "mark/m", "ids": [-1]},
        {"a": "MarkDel", "name": "mark/m", "ids": [-1, 0]}, {"a": "MarkAdd", "name": "mark/m", "ids": [-1, 0]},
        {"a": "MarkAdd", "name": "mark/m", "ids": [1]}]},
    # "<ff>" stands for the byte 0xff: names, colours and URLs that are no valid UTF-8 cannot be stored (the state file is JSON):
    # they have to be rejected, or the tag comes back under another name after a restart
    {"id": "a-text-that-is-not-utf8", "steps": [
        {"a": "ApiImport", "k": 1},
        {"a": "AddTag", "name": "tag/bad<ff>", "def": {"k": "P", "n": 80, "s": [], "t": ""}, "color": "#111111"},
        {"a": "AddTag", "name": "tag/good", "def": {"k": "P", "n": 80, "s": [], "t": ""}, "color": "#11<ff>"},
        {"a": "AddTag", "name": "tag/good", "def": {"k": "P", "n": 80, "s": [], "t": ""}, "color": "#111111"},
        {"a": "UpdName", "name": "tag/good", "new": "tag/worse<ff>"},
        {"a": "UpdColor", "name": "tag/good", "color": "<ff>"},
        {"a": "AddHook", "what": "http://127.0.0.1:9/<ff>"}]},
]


def api_schedule(sid, hist):
    steps = []
    for ei, e in enumerate(hist):
        if e["a"] not in API_CALLS:
            continue
        st = {"a": e["a"], "k": e.get("k", 0), "name": e.get("name", ""), "ids": list(e.get("ids", [])), "new": "", "color": "",
              "convs": list(e.get("convs", [])), "what": e.get("what", "")}
        if e["a"] in ("AddTag", "UpdQuery"):
            st["def"] = e["def"]
        if e["a"] == "AddTag":
            st["color"] = "" if ei % 11 == 5 else "#%06x" % (ei * 4099 % 0xffffff)     # the HTTP layer demands a colour: sometimes leave it out
        if e["a"] == "UpdName":
            st["new"] = e["v"]
        if e["a"] == "UpdColor":
            st["color"] = e["what"]
            st["what"] = ""
        steps.append(st)
    return {"id": sid, "steps": steps}


def norm(sc):
    for st in sc["steps"]:
        st.setdefault("k", 0)
        st.setdefault("name", "")
        st.setdefault("ids", [])
        st.setdefault("new", "")
        st.setdefault("color", "")
        st.setdefault("convs", [])
        st.setdefault("what", "")
    return sc


def api_pass(ctx, generate, pid="C11"):
    """returns a coverage dict; violations / nonconformances are recorded on ctx"""
    nseeds, per = (3, 8) if ctx.quick() else (8, 40)
    scheds = [norm(json.loads(json.dumps(s))) for s in REGRESS]
    for ci, consts in enumerate(GEN_API):
        hs = generate(ctx, consts, 40, per, 45, [ctx.seed * 1000 + 500 + 100 * ci + i for i in range(nseeds)])
        scheds += [api_schedule("a%d_%d" % (ci, i), h) for i, h in enumerate(hs)]
    sin = os.path.join(ctx.scratch, "api_sched.json")
    trace = os.path.join(ctx.scratch, "api_trace_raw.ndjson")
    with open(sin, "w") as fh:
        json.dump(scheds, fh)
    ov = harness_overlay(ctx, PKG, "api", web_dist=True)
    rc, out = go_test(ctx, PKG, ov, "^TestVerifApi$", env_extra={"VERIF_IN": sin, "VERIF_TRACE": trace}, timeout=900)
    rows = read_ndjson(trace) if os.path.exists(trace) else []
    by_sid = {s["id"]: s for s in scheds}
    if rc != 0:
        if "panic:" in out or "fatal error:" in out:
            last = rows[-1] if rows else {"sid": scheds[0]["id"], "n": 0, "ev": {"a": "?"}}
            ctx.violation("api-crash@%s" % last["ev"]["a"], "the service process crashed while serving the HTTP API (after %s step %d): %s" % (
                last["sid"], last["n"], out[-1500:]), {"schedule": by_sid.get(last["sid"]), "output": out[-4000:]})
            return {"api_rows": len(rows), "api_crash": True}
        if "[build failed]" in out:
            raise Infra("api harness does not build against the current tree:\n" + out[-4000:])
        if "does not become idle" in out:
            last = rows[-1] if rows else {"sid": "?", "n": 0, "ev": {"a": "?"}}
            ctx.violation("api-hang@%s" % last["ev"]["a"], "the service does not become idle after an HTTP call (%s step %d)" % (last["sid"], last["n"]),
                          {"schedule": by_sid.get(last["sid"]), "output": out[-3000:]})
            return {"api_rows": len(rows), "api_hang": True}
        raise Infra("api harness failed:\n" + out[-4000:])
    dead = [r for r in rows if r["body"].startswith("NOT-IDLE")]
    for r in dead:
        ctx.violation("api-hang@%s" % r["ev"]["a"], "the service does not become idle after %s %s (schedule %s step %d)" % (r["method"], r["target"], r["sid"], r["n"]),
                      {"schedule": by_sid.get(r["sid"]), "row": r})
    rows = [r for r in rows if not r["body"].startswith("NOT-IDLE")]
    path = os.path.join(ctx.scratch, "api_trace.ndjson")
    write_ndjson(path, rows)
    cfg = os.path.join(ctx.scratch, "ApiTrace_run.cfg")
    with open(cfg, "w") as fh:
        fh.write("SPECIFICATION Spec0\nCONSTANTS\n  Caps <- ACaps\n  Conns <- AConns\n  Pieces <- APieces\n  Port <- APort\n"
                 "  TagNames = {}\n  ConvNames = {}\nINVARIANTS Done\n")
    res = run_tlc(ctx, "ApiTrace", "ApiTrace_run.cfg", files=[path, cfg], workers=1, timeout=900)
    if res.error or not res.finished:
        raise Infra("api trace validation did not run to completion:\n" + res.out[-4000:])
    done = [p for p in res.prints if "done" in p]
    if not done or done[-1]["done"] != len(rows):
        raise Infra("api trace not fully consumed: %s of %d rows\n%s" % (done, len(rows), res.out[-3000:]))
    fails = [p for p in res.prints if p.get("kind") == "fail"]
    nonconfs = [p for p in res.prints if p.get("kind") == "nonconf"]
    if [f for f in fails if f["what"] == "api-observation-failed"]:
        raise Infra("api observation failed: %s" % fails[0])
    seen = set()
    for f in fails:
        key = "%s@http:%s" % (f["what"], f["a"])
        if key in seen:
            continue
        seen.add(key)
        row = next((r for r in rows if r["sid"] == f["sid"] and r["n"] == f["n"]), None)
        ctx.violation(key, "%s fails for %s %s -> %s (schedule %s step %d)" % (f["what"], row and row["method"], f["info"], f["status"], f["sid"], f["n"]),
                      {"schedule": by_sid.get(f["sid"]), "row": row})
    for n in sorted({(n["what"], n["a"]) for n in nonconfs}):
        ex = next(x for x in nonconfs if (x["what"], x["a"]) == n)
        ctx.nonconformance.append("http step=%s what=%s (%d rows), e.g. %s -> %s" % (n[1], n[0], sum(1 for x in nonconfs if (x["what"], x["a"]) == n), ex["info"][:160], ex["status"]))
    acts = {}
    for r in rows:
        k = "%s:%s" % (r["ev"]["a"], "2xx" if 200 <= r["status"] < 300 else "4xx" if 400 <= r["status"] < 500 else str(r["status"]))
        acts[k] = acts.get(k, 0) + 1
    return {"api_schedules": len(scheds), "api_rows_validated_by_tlc": len(rows), "api_calls": acts, "api_nonconforming_rows": len(nonconfs)}

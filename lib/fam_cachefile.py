"""C15 - the converter cache file vs. the map model (spec/CacheFile.tla).

(C) bounded exhaustive TLC over the two-layer model (repaired design and design as found),
(A) TLC-generated operation sequences (every sequence of length K, long weighted random ones, some over
    a 9 MiB list so that compaction happens) replayed on the real cacheFile by harness/cachefile,
(B) what the real code read back after every operation validated by TLC (spec/CacheFileTrace.tla);
    truncation of the last record is enumerated at every Truncate step (fault enumeration)."""
import concurrent.futures
import json
import os
import random
import re
import shutil
import tempfile
import time

from common import (SPEC, Infra, go_must_pass, go_test, harness_overlay, read_ndjson, run_tlc,
                    tlc_must_pass, write_ndjson)

KNOWN_KEYS = {"invalidate-then-reopen", "partial-last-record-open-fails"}


def _cfg(ctx, base, name, subst):
    text = open(os.path.join(SPEC, base)).read()
    for pat, rep in subst.items():
        text, n = re.subn(pat, rep, text)
        if n != 1:
            raise Infra("cfg template %s: pattern %r matched %d times" % (base, pat, n))
    path = os.path.join(ctx.scratch, name)
    with open(path, "w") as fh:
        fh.write(text)
    return path


def _mc(ctx, base, maxrecs, timeout):
    name = base.replace(".cfg", "_run.cfg")
    cfg = _cfg(ctx, base, name, {r"MaxRecs = \d+": "MaxRecs = %d" % maxrecs})
    return tlc_must_pass(run_tlc(ctx, "CacheFile", name, files=[cfg], workers=12, timeout=timeout), base)


def _witness(ctx, maxrecs):
    """The bound of the exhaustive run must contain a state in which the next Store compacts."""
    cfg = _cfg(ctx, "CacheFileMC_witness.cfg", "CacheFileMC_witness_run.cfg", {r"MaxRecs = \d+": "MaxRecs = %d" % maxrecs})
    res = run_tlc(ctx, "CacheFile", "CacheFileMC_witness_run.cfg", files=[cfg], workers=2, timeout=300)
    if "NoCompactPending" not in res.invariant_violated:
        raise Infra("vacuity: no state with a pending compaction inside the model bound\n" + res.out[-1500:])
    return True


def selftest(ctx, chunk_path):
    """DESIGN 2.4: a corrupted field and a removed step in a recorded trace must be rejected by TLC."""
    traces, cur = [], []
    with open(chunk_path) as fh:
        for line in fh:
            r = json.loads(line)
            if r["n"] == 0 and cur:
                traces.append(cur)
                cur = []
            cur.append(r)
            if len(traces) >= 4000:
                break
    pick = None
    for tr in traces:
        if (len(tr) >= 3 and tr[1]["ev"] == "Store" and tr[2]["ev"] == "Store" and tr[1]["id"] != tr[2]["id"]
                and all(r["err"] == "" for r in tr[:3])):
            pick = tr[:3]
            break
    if pick is None:
        raise Infra("selftest: no Store,Store trace prefix found")
    sid = pick[1]["id"]
    corrupt = json.loads(json.dumps(pick))
    corrupt[2]["obs"][sid]["fp"] = "0:1:deadbeef00:0:\"\""           # stream sid reads other chunks after the 2nd Store
    missing = [json.loads(json.dumps(pick[0])), json.loads(json.dumps(pick[2]))]
    missing[1]["n"] = 1                                              # the first Store is not in the log
    verdicts = {}
    for name, rows, expect in (("base", pick, None), ("corrupt_field", corrupt, "wrong-chunks"),
                               ("missing_step", missing, "phantom")):
        d = ctx.sub("selftest_" + name)
        path = os.path.join(d, "cachefile_trace.ndjson")
        write_ndjson(path, rows)
        res = run_tlc(ctx, "CacheFileTrace", "CacheFileTrace.cfg", files=[path], workers=1, timeout=300)
        if res.error or not res.finished:
            raise Infra("selftest TLC run failed:\n" + res.out[-2000:])
        got = sorted({p["fail"] for p in res.prints if "fail" in p})
        if expect is None and got:
            raise Infra("selftest: unmodified trace prefix rejected: %s" % got)
        if expect is not None and expect not in got:
            raise Infra("selftest: %s not rejected by TLC (fails: %s)" % (name, got))
        verdicts[name] = got
    return verdicts


def _ev(op, id=0, lst="-", ids=(), part=False):
    return {"op": op, "id": id, "list": lst, "ids": sorted(ids), "part": part}


def regress_behaviours():
    """Hand-written operation sequences for regimes that must always be present (inputs only; the
    expectation is still TLC's)."""
    S, I, R, O, T = (lambda i, l: _ev("Store", i, l)), (lambda *s: _ev("Invalidate", ids=s)), \
        _ev("Reset"), _ev("Reopen"), (lambda p: _ev("Truncate", part=p))
    small = [
        [S(0, "A"), I(0), O],                                   # invalidate-then-reopen, minimal
        [S(0, "A"), S(0, "B"), I(0), O, S(1, "C"), O],          # overwritten, invalidated, reopened
        [S(0, "A"), S(1, "B"), T(True), S(2, "C"), O],          # partly written last record
        [S(0, "A"), S(1, "B"), T(False), S(1, "C"), O],         # last record gone at its boundary
        [S(0, "A"), I(0), S(0, "B"), T(True), O],               # truncation uncovers an invalidated record
        [S(0, "A"), S(0, "B"), T(True), O],                     # truncation uncovers an overwritten record
        [S(0, "A"), S(1, "B"), S(2, "C"), I(1), S(1, "A"), O, I(0, 2), S(0, "C"), O, R, O, S(2, "B"), O],
        [S(1, "A"), S(1, "A"), S(1, "A"), O, I(1), S(1, "B"), O],
    ]
    huge = [
        # two invalidated 9 MiB records cross 16 MiB / 50 %: the next Store compacts
        [S(0, "H"), S(1, "H"), S(2, "A"), I(0, 1), S(0, "B"), S(1, "A"), O, I(2), S(2, "H"), O],
        [S(2, "A"), S(0, "H"), S(1, "B"), S(2, "H"), I(0), I(2), S(0, "A"), I(1), S(1, "H"), T(True), O],
        [S(0, "H"), S(0, "H"), S(0, "H"), I(0), S(1, "A"), O, S(0, "B")],
        # the Store that compacts also REPLACES a record that the compaction moves (it sits behind the first free region),
        # and another live record ends up where the replaced one was
        [S(0, "H"), S(1, "A"), S(2, "H"), S(0, "H"), I(2), S(1, "B"), O, S(2, "A"), O],
        [S(0, "H"), S(1, "A"), S(2, "H"), S(0, "H"), I(2), S(0, "B"), O, S(2, "B")],
        [S(1, "H"), S(0, "A"), S(2, "H"), S(1, "H"), S(2, "B"), S(0, "B"), S(1, "A"), O],
    ]
    return [("regress", b) for b in small] + [("huge", b) for b in huge]


def generate(ctx, quick):
    """-> list of (kind, ops)"""
    rnd = random.Random(ctx.seed)
    res = []
    gen_stats = {}
    # every sequence of length K
    K = 3 if quick else 4
    cfg = _cfg(ctx, "CacheFileGen_exh.cfg", "CacheFileGen_exh_run.cfg", {r"MaxLen = \d+": "MaxLen = %d" % K})
    r = tlc_must_pass(run_tlc(ctx, "CacheFileGen", "CacheFileGen_exh_run.cfg", files=[cfg], workers=1, timeout=900,
                              heap="8g"), "CacheFileGen exhaustive")
    exh = [p["ops"] for p in r.prints if "ops" in p]
    if len(exh) < 19 ** (K - 1):
        raise Infra("exhaustive generator printed only %d sequences" % len(exh))
    gen_stats["exhaustive_len"] = K
    gen_stats["exhaustive_sequences"] = len(exh)
    gen_stats["exhaustive_states"] = r.distinct
    res += [("exh", ops) for ops in exh]

    def sim(lists, n, depth, seed):
        cfg = _cfg(ctx, "CacheFileGen_sim.cfg", "CacheFileGen_sim_run.cfg",
                   {r"MaxLen = \d+": "MaxLen = %d" % depth, r'Lists = \{[^}]*\}': "Lists = {%s}" % lists})
        rr = run_tlc(ctx, "CacheFileGen", "CacheFileGen_sim_run.cfg", files=[cfg], workers=1, timeout=600,
                     extra=["-simulate", "num=%d" % n, "-depth", str(depth + 1), "-seed", str(seed)])
        if rr.error or not rr.finished:
            raise Infra("generator simulation failed:\n" + rr.out[-3000:])
        got = [p for p in rr.prints if "ops" in p]
        if len(got) < n * 0.9:
            raise Infra("generator simulation printed %d of %d behaviours" % (len(got), n))
        return got

    n_small, n_huge_pool, n_huge = (300, 150, 10) if quick else (3000, 1200, 60)
    small = sim('"A", "B", "C"', n_small, 14 if quick else 16, ctx.seed * 7 + 1)
    res += [("sim", p["ops"]) for p in small]
    pool = sim('"A", "B", "H"', n_huge_pool, 12, ctx.seed * 7 + 2)
    # behaviours in which the model compacts at a Store come first, then the rest of the pool
    pool.sort(key=lambda p: -min(p["nc"], 2))
    gen_stats["huge_pool_with_compaction"] = sum(1 for p in pool if p["nc"] > 0)
    res += [("huge", p["ops"]) for p in pool[:n_huge]]
    res += regress_behaviours()
    gen_stats["sampled"] = len(small)
    gen_stats["huge"] = n_huge
    return res, gen_stats


def validate(ctx, chunk_paths, chunk_rows):
    """One TLC per chunk of recorded traces, in parallel; returns (fails, nonconf, dropped, skips)."""
    jobs = [(p, n) for p, n in zip(chunk_paths, chunk_rows) if n > 0]

    def one(job):
        path, n = job
        res = run_tlc(ctx, "CacheFileTrace", "CacheFileTrace.cfg", files=[path], workers=1, timeout=1100, heap="3g")
        return res, n

    fails, nonconf, dropped, skips = [], [], set(), []
    with concurrent.futures.ThreadPoolExecutor(max_workers=len(jobs)) as ex:
        futs = []
        for job in jobs:
            futs.append(ex.submit(one, job))
            time.sleep(0.2)          # run_tlc numbers its scratch dirs from ctx.n_tlc: start them one after another
        for fu in futs:
            res, n = fu.result()
            if res.error or not res.finished:
                raise Infra("trace validation failed to run:\n" + res.out[-3000:])
            done = [p for p in res.prints if "done" in p]
            if not done or done[-1]["done"] != n:
                raise Infra("trace not fully consumed by TLC: %s of %d\n%s" % (done, n, res.out[-2000:]))
            dropped |= set(done[-1]["dropped"])
            for p in res.prints:
                if "harness" in p:
                    raise Infra("harness error in trace %s row %s: %s" % (p["tr"], p["n"], p["harness"]))
                if "unparsed" in p:
                    raise Infra("unparsable TLC print: %s" % p["unparsed"][:300])
                if "fail" in p:
                    fails.append(p)
                if "nonconf" in p:
                    nonconf.append(p)
                if "skip" in p:
                    skips.append(p)
    return fails, nonconf, dropped, skips


def trace_rows(chunk_path, tr):
    """the recorded rows of one trace (only read for reporting)"""
    res = []
    needle = '{"tr":%d,' % tr
    with open(chunk_path) as fh:
        for line in fh:
            if line.startswith(needle):
                res.append(json.loads(line))
    return res


def run(ctx):
    quick = ctx.quick()
    # ---- (C) bounded exhaustive model checking: repaired design, and the design as found with its
    #      two named exemptions (KnownResurrect, KnownOpenFail)
    mc_fixed = _mc(ctx, "CacheFileMC.cfg", 5 if quick else 6, 600)
    mc_asis = _mc(ctx, "CacheFileMC_asis.cfg", 3 if quick else 4, 600)
    _witness(ctx, 5 if quick else 6)

    # ---- (A) behaviours from TLC, replayed on the real cache file
    behaviours, gstats = generate(ctx, quick)
    bpath = os.path.join(ctx.scratch, "cachefile_behaviours.ndjson")
    brows = [{"tr": i, "kind": k, "ops": ops} for i, (k, ops) in enumerate(behaviours)]
    write_ndjson(bpath, brows)
    out = os.path.join(ctx.scratch, "cachefile_out.json")
    tdir = ctx.sub("traces")
    # the cache files themselves live on tmpfs when there is one: Close() fsyncs, and the truncation
    # enumeration closes hundreds of thousands of files (2 ms each on disk, 30 us on tmpfs)
    cdir = None
    if os.path.isdir("/dev/shm") and os.access("/dev/shm", os.W_OK):
        cdir = tempfile.mkdtemp(prefix="verif-C15-", dir="/dev/shm")
    try:
        return _run2(ctx, quick, mc_fixed, mc_asis, behaviours, gstats, bpath, brows, out, tdir,
                     cdir or ctx.sub("cachefiles"))
    finally:
        if cdir:
            shutil.rmtree(cdir, ignore_errors=True)


def _run2(ctx, quick, mc_fixed, mc_asis, behaviours, gstats, bpath, brows, out, tdir, cdir):
    nchunks = 6 if quick else 13
    ov = harness_overlay(ctx, "internal/index/converters", "cachefile")
    rc, o = go_test(ctx, "internal/index/converters", ov, "^TestVerifCacheFile$", timeout=1100, env_extra={
        "VERIF_IN": bpath, "VERIF_TRACE_DIR": tdir, "VERIF_OUT": out, "VERIF_DIR": cdir,
        "VERIF_CHUNKS": str(nchunks), "VERIF_PAR": "12",
        # cuts of the last record probed at every Truncate step: every byte of records up to `all` bytes
        # (first Truncate of a trace), else the structural boundaries plus a seeded sample
        "VERIF_PROBES": ("exh:all=0;sample=3|sim:all=0;sample=3|regress:all=0;sample=8|huge:all=0;sample=2" if quick else
                         "exh:all=0;sample=3|sim:all=4096;sample=8|regress:all=4096;sample=8|huge:all=1;sample=6")})
    if rc != 0:
        # the process died inside the cache file code (a record length read from a corrupted file and allocated, an
        # index out of range ...): that is the code under test failing, not the driver
        m = re.search(r"^(fatal error: [^\n]*|panic: [^\n]*)\n.*?\ngoroutine \d+[^\n]*\[running\]:\n((?:[^\n]+\n)+)", o, re.M | re.S)
        if m and "converters.(*cacheFile)." in m.group(2) and "zz_verif" in m.group(2):
            fn = re.search(r"converters\.\(\*cacheFile\)\.(\w+)", m.group(2)).group(1)
            ctx.violation("C15.crash@%s" % fn, "the process died in cacheFile.%s while the harness replayed its operation sequences: %s" % (fn, m.group(1)[:200]),
                          {"output": m.group(0)[:3000]})
            return "exploration", {"evaluations": 0, "distinct_nontrivial": 0, "rule": "the harness run was cut short by a crash inside the code under test",
                                   "crash": m.group(1)[:200]}, []
    go_must_pass(rc, o, "cachefile harness")
    summ = json.load(open(out))
    if summ["traces"] != len(behaviours) or sum(summ["chunk_rows"]) != summ["rows"]:
        raise Infra("harness output incomplete: %s traces / %s rows" % (summ["traces"], summ["rows"]))
    chunk_paths = [os.path.join(tdir, "chunk%d" % k, "cachefile_trace.ndjson") for k in range(nchunks)]

    # ---- (B) TLC validates every recorded row
    fails, nonconf, dropped, skips = validate(ctx, chunk_paths, summ["chunk_rows"])

    # ---- the binding binds: TLC must reject a corrupted / shortened recording (its premise - the unmodified
    # recording is accepted - only holds when the code behaved, so it runs only then)
    st = selftest(ctx, chunk_paths[0]) if not fails else {"skipped": "the recorded traces already fail"}
    by_key = {}
    for f in fails:
        what = f["fail"]
        key = what if what in KNOWN_KEYS else "C15.%s@%s" % (what, f["ev"])
        by_key.setdefault(key, []).append(f)
    for key, fs in sorted(by_key.items()):
        fs.sort(key=lambda f: (len(brows[f["tr"]]["ops"]), f["n"], f["tr"]))
        f = fs[0]
        tr = trace_rows(chunk_paths[f["tr"] % nchunks], f["tr"])
        what = "%s at %s (trace %d row %d, id %s: want %s, got %s); %d failing rows in %d traces" % (
            f["fail"], f["ev"], f["tr"], f["n"], f["id"], f["want"], f["got"], len(fs), len({x["tr"] for x in fs}))
        ctx.violation(key, what, {
            "tlc": f, "behaviour": brows[f["tr"]], "seed": ctx.seed, "tier": ctx.tier,
            "concretisation": {"rids": tr[0].get("rids"), "lists": tr[0].get("desc")},
            "row": next(({k: v for k, v in r.items() if k != "dict"} for r in tr if r["n"] == f["n"]), None),
            "how": "VERIF_IN=<file with this behaviour line> go test -overlay ... -run TestVerifCacheFile "
                   "./internal/index/converters, then TLC CacheFileTrace on the recorded rows"})
    def acct(a):
        return "fileSize=%s freeSize=%s freeStart=%s table=%s" % (
            a["fileSize"], a["freeSize"], a["freeStart"],
            [[a["info"][k]["off"], a["info"][k]["size"]] for k in sorted(a["info"])])
    for n in nonconf[:3]:
        ctx.nonconformance.append("file-layer model contradicted at %s (trace %s row %s, %s): observed %s; "
                                  "as-found model %s; repaired model %s" % (
                                      n["nonconf"], n["tr"], n["n"], n["kind"], acct(n["obs"]),
                                      acct(n["asis"]), acct(n["fixed"])))
    for k in skips[:3]:
        ctx.nonconformance.append("truncation step skipped in trace %s row %s: %s" % (k["tr"], k["n"], k["skip"]))
    if len(nonconf) > 3:
        ctx.nonconformance.append("... %d more file-layer nonconformances" % (len(nonconf) - 3))

    # ---- measured coverage (counters kept by the harness while recording)
    if not fails:        # vacuity control (only meaningful when the code behaved)
        if summ["compactions_at_store"] == 0:
            raise Infra("no replayed behaviour reached compaction at a Store")
        if summ["probes_partial"] == 0 or summ["truncation_steps"] == 0:
            raise Infra("no truncation was exercised")
    sample_tr = trace_rows(chunk_paths[(len(behaviours) - 1) % nchunks], len(behaviours) - 1)
    cov = {
        "states": mc_fixed.distinct, "transitions": mc_fixed.generated,
        "states_as_found_design": mc_asis.distinct, "transitions_as_found_design": mc_asis.generated,
        "model_bound": "at most %d (repaired) / %d (as found) records in the file, 3 ids, 3 lists, any number of operations"
                       % ((5, 3) if quick else (6, 4)),
        "traces_validated_against_impl": summ["traces"],
        "trace_rows_validated_by_tlc": summ["rows"],
        "evaluations": summ["rows"] * 3,
        "distinct_nontrivial": summ["distinct_transitions"],
        "rule": "every operation sequence of length %d (TLC breadth-first over CacheFileGen.tla) plus TLC -simulate "
                "sequences (weighted, 12-16 operations; one group over a 9 MiB list), replayed on the real cacheFile; "
                "after every operation every id is read through Data, DataForSearch, Contains and validated by TLC; "
                "evaluations = per-id read-backs checked; distinct_nontrivial = distinct (operation, arguments, "
                "observed map before, observed map after) tuples" % gstats["exhaustive_len"],
        "exhaustive": True,
        "generator": gstats,
        "truncation_probes": summ["probes"], "truncation_probes_partial": summ["probes_partial"],
        "truncation_steps": summ["truncation_steps"], "truncated_record_lengths": summ["record_lengths_truncated"],
        "compactions_at_store_observed": summ["compactions_at_store"],
        "compactions_at_load_observed": summ["compactions_at_load"],
        "rows_with_file_over_9MiB": summ["big_rows"],
        "open_failures_observed": summ["open_failures"], "op_errors_observed": summ["op_errors"],
        "ops": summ["ops"], "list_shapes": summ["shapes"],
        "file_layer_model_contradicted": sorted(dropped),
        "file_layer_nonconformances": len(nonconf),
        "failing_rows": len(fails), "truncations_skipped": len(skips),
        "selftest_rejections": st, "compaction_reachable_in_model_bound": True,
        "samples": [{k: v for k, v in r.items() if k != "dict"} for r in sample_tr[:3]],
    }
    return "model_checking", cov, [
        "chunk times and stream start times are whole microseconds; empty-content chunks are not generated",
        "stream ids below 2^20 (three per behaviour, several id sets crossing bitmask word boundaries)",
        "truncation only inside the last record (every byte for records up to 4096 bytes in the thorough tier, "
        "boundaries plus a seeded sample otherwise); cuts inside the 8 byte file header are not enumerated",
        "single-threaded use of one cacheFile (locking is not part of C15)",
        "the bounded exhaustive run bounds the number of records in the file, not the number of operations"]

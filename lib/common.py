"""Shared machinery of the /verif runner: scratch dirs, TLC, go test with overlay,
known findings, verdicts, evidence.  Standard library only."""
import json
import os
import re
import shutil
import subprocess
import threading
import sys
import tempfile
import time

VERIF = os.path.dirname(os.path.dirname(os.path.abspath(__file__)))
REPO = os.environ.get("VERIF_REPO", "/repo")
SPEC = os.path.join(VERIF, "spec")
HARNESS = os.path.join(VERIF, "harness")
EVIDENCE = os.environ.get("VERIF_EVIDENCE", os.path.join(VERIF, "evidence"))   # redirected when trying seeded changes
KNOWN = os.path.join(VERIF, "KNOWN_FINDINGS.txt")
TLA_CP = "/opt/veriftools/tla/tla2tools.jar:/opt/veriftools/tla/CommunityModules-deps.jar"


class Infra(Exception):
    """Machinery problem (exit 2) - never a violation."""


class Ctx:
    def __init__(self, pid, tier, seed):
        self.pid = pid
        self.tier = tier
        self.seed = seed
        self.t0 = time.time()
        self.scratch = tempfile.mkdtemp(prefix="verif-%s-" % pid)
        self.violations = []      # dicts: key, what, replay(dict)
        self.notes = []
        self.coverage = {}
        self.assumptions = []
        self.nonconformance = []
        self.n_tlc = 0

    def quick(self):
        return self.tier != "thorough"

    def sub(self, name):
        d = os.path.join(self.scratch, name)
        os.makedirs(d, exist_ok=True)
        return d

    def violation(self, key, what, replay=None):
        """Record a property violation observed on the real code.
        key: narrow signature used for KNOWN_FINDINGS matching."""
        for v in self.violations:
            if v["key"] == key:
                v["count"] += 1
                return
        self.violations.append({"key": key, "what": what, "replay": replay or {}, "count": 1})

    def cleanup(self):
        shutil.rmtree(self.scratch, ignore_errors=True)


# ----------------------------------------------------------------------------- TLC

def go_env():
    env = dict(os.environ)
    env["GOFLAGS"] = "-mod=mod"
    env["GOPROXY"] = "off"
    env.pop("GOSUMDB", None)
    env.pop("GOTOOLCHAIN", None)
    env.setdefault("GOCACHE", os.path.expanduser("~/.cache/go-build"))
    return env


class TlcResult:
    def __init__(self, out, rc):
        self.out = out
        self.rc = rc
        m = re.findall(r"(\d+) states generated, (\d+) distinct states found", out)
        self.generated = int(m[-1][0]) if m else 0
        self.distinct = int(m[-1][1]) if m else 0
        self.prints = []          # parsed JSON payloads of lines starting with @@J
        for line in out.splitlines():
            i = line.find("@@J")
            if i >= 0:
                s = line[i + 3:].strip()
                # PrintT of a string prints it with quotes and escapes
                if s.endswith('"'):
                    s = s[:-1]
                try:
                    self.prints.append(json.loads(s.replace('\\"', '"').replace("\\\\", "\\")))
                except Exception:
                    try:
                        self.prints.append(json.loads(s))
                    except Exception:
                        self.prints.append({"unparsed": s})
        self.invariant_violated = re.findall(r"Invariant (\S+) is violated", out)
        self.action_prop_violated = re.findall(r"Action property (\S+) is violated", out)
        self.temporal_violated = "Temporal properties were violated" in out
        self.deadlock = "Deadlock reached" in out
        self.finished = "Model checking completed" in out or "Finished in" in out
        self.error = None
        if re.search(r"Error: (?!Invariant|Action property|Temporal|Deadlock|The behavior|The following)", out):
            m = re.search(r"Error: (.*)", out)
            self.error = m.group(1) if m else "error"
        self.postcondition_failed = "is violated" in out and "ostcondition" in out

    def ok(self):
        return (self.finished and not self.invariant_violated and not self.action_prop_violated
                and not self.temporal_violated and not self.error and not self.deadlock)


_TLC_LOCK = threading.Lock()


def run_tlc(ctx, module, cfg, files=None, extra=None, workers="auto", timeout=600,
            consts_tla=None, heap=None, deadlock=False, depth_first=False):
    """Run TLC on spec/<module>.tla with spec/<cfg> in a private scratch copy.
    files: extra files (abs paths) to copy next to the spec (e.g. trace ndjson).
    consts_tla: dict name->text of generated TLA modules to write."""
    with _TLC_LOCK:          # (several runs may be started from parallel threads)
        ctx.n_tlc += 1
        wd = ctx.sub("tlc%d" % ctx.n_tlc)
    for f in os.listdir(SPEC):
        if f.endswith(".tla") or f.endswith(".cfg"):
            shutil.copy(os.path.join(SPEC, f), wd)
    for f in files or []:
        shutil.copy(f, wd)
    for name, text in (consts_tla or {}).items():
        with open(os.path.join(wd, name), "w") as fh:
            fh.write(text)
    tmp = os.path.join(wd, "tmp")
    os.makedirs(tmp, exist_ok=True)
    jopts = ["-XX:+UseParallelGC", "-Xss512m", "-Djava.io.tmpdir=" + tmp]
    if not heap:
        # the JVM default is a quarter of the RAM per process; a dozen trace validations in parallel were OOM-killed
        # (62 GB machine, 5.5 GB resident each).  Single-worker runs are trace validations / generators: 4 GB is plenty.
        heap = "4g" if str(workers) == "1" else "14g"
    if heap:
        jopts.append("-Xmx" + heap)
    if depth_first:
        jopts.append("-Dtlc2.tool.queue.IStateQueue=StateDeque")
    cmd = ["java"] + jopts + ["-cp", TLA_CP, "tlc2.TLC", "-metadir", os.path.join(wd, "meta"),
                              "-noGenerateSpecTE", "-workers", str(workers), "-config", cfg]
    if not deadlock:
        cmd.append("-deadlock")
    cmd += list(extra or [])
    cmd.append(module)
    env = dict(os.environ)
    env.pop("JAVA_TOOL_OPTIONS", None)
    try:
        p = subprocess.run(cmd, cwd=wd, env=env, stdout=subprocess.PIPE, stderr=subprocess.STDOUT,
                           timeout=timeout, text=True, errors="replace")
    except subprocess.TimeoutExpired as e:
        out = e.stdout if isinstance(e.stdout, str) else (e.stdout or b"").decode("utf8", "replace")
        raise Infra("TLC timeout after %ss on %s/%s\n%s" % (timeout, module, cfg, out[-2000:]))
    res = TlcResult(p.stdout, p.returncode)
    with open(os.path.join(wd, "tlc.out"), "w") as fh:
        fh.write(p.stdout)
    res.wd = wd
    return res


def tlc_must_pass(res, what):
    if not res.ok():
        raise Infra("TLC run failed (%s): rc=%s\n%s" % (what, res.rc, res.out[-4000:]))
    return res


# ----------------------------------------------------------------------------- go test with overlay

def make_overlay(ctx, mapping, name="overlay.json", web_dist=False):
    """mapping: {repo-relative destination path: absolute source path}"""
    rep = {}
    for dst, src in mapping.items():
        rep[os.path.join(REPO, dst)] = src
    if web_dist:
        ph = os.path.join(ctx.scratch, "index.html")
        with open(ph, "w") as fh:
            fh.write("<html>verif placeholder</html>\n")
        rep[os.path.join(REPO, "web/dist/index.html")] = ph
    path = os.path.join(ctx.scratch, name)
    with open(path, "w") as fh:
        json.dump({"Replace": rep}, fh)
    return path


def harness_overlay(ctx, pkg_rel, harness_dir, web_dist=False, extra=None):
    """Inject every .go file of /verif/harness/<harness_dir> into /repo/<pkg_rel>."""
    src = os.path.join(HARNESS, harness_dir)
    mapping = {}
    for f in sorted(os.listdir(src)):
        if f.endswith(".go"):
            mapping[os.path.join(pkg_rel, "zz_verif_" + f)] = os.path.join(src, f)
    mapping.update(extra or {})
    return make_overlay(ctx, mapping, name="overlay_%s.json" % harness_dir.replace("/", "_"), web_dist=web_dist)


def go_test(ctx, pkg_rel, overlay, run, env_extra=None, tags="verif", race=False, timeout=1200,
            go_timeout=None, count=1):
    cmd = ["go", "test", "-tags", tags, "-overlay", overlay, "-count=%d" % count, "-vet=off",
           "-run", run, "-timeout", go_timeout or ("%ds" % max(60, timeout - 10))]
    if race:
        cmd.append("-race")
    cmd += ["-v", "./" + pkg_rel]
    env = go_env()
    env["VERIF_SEED"] = str(ctx.seed)
    env["VERIF_TIER"] = ctx.tier
    env.update(env_extra or {})
    try:
        p = subprocess.run(cmd, cwd=REPO, env=env, stdout=subprocess.PIPE, stderr=subprocess.STDOUT,
                           timeout=timeout, text=True, errors="replace")
    except subprocess.TimeoutExpired as e:
        out = e.stdout if isinstance(e.stdout, str) else (e.stdout or b"").decode("utf8", "replace")
        raise Infra("go test timeout (%s %s)\n%s" % (pkg_rel, run, out[-3000:]))
    return p.returncode, p.stdout


def go_must_pass(rc, out, what):
    if rc != 0 or "\nok " not in "\n" + out and "PASS" not in out:
        raise Infra("harness run failed (%s): rc=%s\n%s" % (what, rc, out[-6000:]))


def read_ndjson(path):
    res = []
    with open(path) as fh:
        for line in fh:
            line = line.strip()
            if line:
                res.append(json.loads(line))
    return res


def write_ndjson(path, rows):
    with open(path, "w") as fh:
        for r in rows:
            fh.write(json.dumps(r, sort_keys=True, separators=(",", ":")))
            fh.write("\n")


# ----------------------------------------------------------------------------- known findings

def load_known():
    findings, fixed = {}, []
    if os.path.exists(KNOWN):
        for line in open(KNOWN):
            line = line.strip()
            if not line or line.startswith("#"):
                continue
            m = re.match(r"finding:\s+property=(\S+)\s+key=(\S+)\s+(.*)", line)
            if m:
                findings[(m.group(1), m.group(2))] = m.group(3)
                continue
            m = re.match(r"fixed:\s+property=(\S+)\s+(\S+)\s+(.*)", line)
            if m:
                fixed.append((m.group(1), m.group(2), m.group(3)))
    return findings, fixed


# ----------------------------------------------------------------------------- finish

def finish(ctx, level, coverage, assumptions=None):
    findings, _ = load_known()
    new = []
    for v in ctx.violations:
        if (ctx.pid, v["key"]) in findings:
            print("KNOWN-FINDING: property=%s key=%s %s" % (ctx.pid, v["key"], findings[(ctx.pid, v["key"])]))
        else:
            new.append(v)
    for n in ctx.nonconformance:
        print("NONCONFORMANCE property=%s %s" % (ctx.pid, n))
    os.makedirs(EVIDENCE, exist_ok=True)
    rdir = os.path.join(EVIDENCE, "replays", ctx.pid)
    if os.path.isdir(rdir):
        shutil.rmtree(rdir, ignore_errors=True)
    for i, v in enumerate(new):
        os.makedirs(rdir, exist_ok=True)
        path = os.path.join(rdir, "violation_%d.json" % i)
        with open(path, "w") as fh:
            json.dump({"property": ctx.pid, "key": v["key"], "what": v["what"], "seed": ctx.seed,
                       "tier": ctx.tier, "replay": v["replay"]}, fh, indent=1, default=str)
        print("VIOLATION property=%s replay=%s" % (ctx.pid, path))
        print("  key=%s %s" % (v["key"], v["what"]))
    cov = dict(coverage)
    cov.setdefault("known_findings_seen", sorted(v["key"] for v in ctx.violations if (ctx.pid, v["key"]) in findings))
    ev = {
        "property_id": ctx.pid,
        "tier": "thorough" if ctx.tier == "thorough" else "quick",
        "seed": int(ctx.seed),
        "level": level,
        "coverage": cov,
        "assumptions": list(assumptions or []) + ctx.assumptions,
        "wall_s": round(time.time() - ctx.t0, 2),
        "violations": len(new),
    }
    with open(os.path.join(EVIDENCE, ctx.pid + ".json"), "w") as fh:
        json.dump(ev, fh, indent=1, default=str)
    ctx.cleanup()
    return 1 if new else 0

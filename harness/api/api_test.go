package main

// HTTP-level conformance of the tag / settings API (C11, settings part of C12), injected into cmd/pkappa2 by
// `go test -overlay`, never committed to /repo.
//
// Input : VERIF_IN    json list of schedules; a schedule is a list of API calls printed by TLC from spec/ManagerGen.tla
//                     (job steps of the schedules are ignored here: the service runs free, the harness waits for idle
//                     before every call so that what it observes does not depend on timing)
// Output: VERIF_TRACE ndjson, one row per call: the literal request, status, body, and what GET /api/tags,
//                     /api/webhooks, /api/pcap-over-ip, /api/config, /api/status.json show afterwards.
//                     Validated by spec/ApiTrace.tla (the validity conditions are those of spec/Manager.tla).
//
// The router is the real setupRouter(); requests go through net/http/httptest.

import (
	"bufio"
	"encoding/json"
	"fmt"
	"io"
	"net"
	"net/http"
	"net/http/httptest"
	"net/url"
	"os"
	"path/filepath"
	"sort"
	"strconv"
	"strings"
	"testing"
	"time"

	"github.com/gopacket/gopacket"
	"github.com/gopacket/gopacket/layers"
	"github.com/gopacket/gopacket/pcapgo"
	"github.com/spq/pkappa2/internal/index/manager"
)

type aDef struct {
	K string `json:"k"`
	N int    `json:"n"`
	S []int  `json:"s"`
	T string `json:"t"`
}

type aStep struct {
	A     string   `json:"a"`
	K     int      `json:"k"`
	Name  string   `json:"name"`
	Def   *aDef    `json:"def,omitempty"`
	IDs   []int    `json:"ids"`
	New   string   `json:"new"`
	Color string   `json:"color"`
	Convs []string `json:"convs"`
	What  string   `json:"what"`
}

type aSched struct {
	ID    string  `json:"id"`
	Steps []aStep `json:"steps"`
}

type aTag struct {
	Def        aDef     `json:"def"`
	Text       string   `json:"text"`
	Color      string   `json:"color"`
	Referenced bool     `json:"referenced"`
	Convs      []string `json:"convs"`
	Matching   int      `json:"matching"`
	Uncertain  int      `json:"uncertain"`
}

type aObs struct {
	Tags    map[string]aTag `json:"tags"`
	Hooks   []string        `json:"hooks"`
	Eps     []string        `json:"eps"`
	Cfg     bool            `json:"cfg"`
	Streams int             `json:"streams"`
	Err     string          `json:"err"`
}

type aRow struct {
	Sid    string `json:"sid"`
	N      int    `json:"n"`
	Ev     aStep  `json:"ev"`
	Method string `json:"method"`
	Target string `json:"target"`
	Status int    `json:"status"`
	Body   string `json:"body"`
	Obs    aObs   `json:"obs"`
}

// ---- the world of spec/ManagerMC.tla (3 captures, 3 UDP connections), as in harness/manager/world_test.go
var aPieces = map[int][]int{1: {1, 2}, 2: {2, 3}, 3: {1}}
var aPort = map[int]int{1: 80, 2: 81, 3: 80}
var aT0 = time.Date(2021, 3, 4, 5, 6, 0, 0, time.UTC)

func aWriteCapture(dir string, k int) (string, error) {
	name := fmt.Sprintf("cap%d.pcap", k)
	f, err := os.Create(filepath.Join(dir, name))
	if err != nil {
		return "", err
	}
	defer f.Close()
	pw := pcapgo.NewWriter(f)
	if err := pw.WriteFileHeader(65536, layers.LinkTypeIPv4); err != nil {
		return "", err
	}
	for c := 1; c <= 3; c++ {
		has := false
		for _, kk := range aPieces[c] {
			has = has || kk == k
		}
		if !has {
			continue
		}
		ip := layers.IPv4{Version: 4, TTL: 64, Protocol: layers.IPProtocolUDP, SrcIP: net.IPv4(10, 0, 0, byte(c)).To4(), DstIP: net.IPv4(10, 0, 1, 1).To4()}
		udp := layers.UDP{SrcPort: layers.UDPPort(1000 + c), DstPort: layers.UDPPort(aPort[c])}
		if err := udp.SetNetworkLayerForChecksum(&ip); err != nil {
			return "", err
		}
		buf := gopacket.NewSerializeBuffer()
		if err := gopacket.SerializeLayers(buf, gopacket.SerializeOptions{ComputeChecksums: true, FixLengths: true}, &ip, &udp,
			gopacket.Payload([]byte(fmt.Sprintf("MARK%d;", k)))); err != nil {
			return "", err
		}
		data := buf.Bytes()
		ts := aT0.Add(time.Duration(k)*10*time.Second + time.Duration(c)*50*time.Millisecond)
		if err := pw.WritePacket(gopacket.CaptureInfo{Timestamp: ts, CaptureLength: len(data), Length: len(data)}, data); err != nil {
			return "", err
		}
	}
	return name, nil
}

func aTagFilter(name string, neg bool) string {
	typ, sub, _ := strings.Cut(name, "/")
	p := ""
	if neg {
		p = "-"
	}
	return fmt.Sprintf("%s%s:%s", p, typ, sub)
}

func (d aDef) query() string {
	switch d.K {
	case "P":
		return fmt.Sprintf("sport:%d", d.N)
	case "D":
		return fmt.Sprintf(`cdata:"MARK%d;"`, d.N)
	case "C":
		return `cdata:"CONV:"`
	case "L":
		return fmt.Sprintf(`ltime:"%s:"`, aT0.Add(time.Duration(d.N)*10*time.Second-5*time.Second).Format("2006-01-02 150405"))
	case "I", "M":
		if len(d.S) == 0 {
			return "id:-1"
		}
		parts := []string{}
		for _, i := range d.S {
			parts = append(parts, strconv.Itoa(i))
		}
		return "id:" + strings.Join(parts, ",")
	case "R":
		return aTagFilter(d.T, false)
	case "N":
		return aTagFilter(d.T, true)
	case "S":
		typ, sub, _ := strings.Cut(d.T, "/")
		return fmt.Sprintf("@sub:%s:%s sport:@sub:sport@", typ, sub)
	case "X":
		return "id:(("
	}
	return "id:-1"
}

func aDefOfText(name, q string, known map[string]aDef) aDef {
	if strings.HasPrefix(name, "mark/") || strings.HasPrefix(name, "generated/") {
		if q == "..." { // GET /api/tags hides the id list of mark tags
			return aDef{K: "M", S: []int{}}
		}
		ids := []int{}
		if strings.HasPrefix(q, "id:") && q != "id:-1" {
			for _, p := range strings.Split(q[3:], ",") {
				if i, err := strconv.Atoi(p); err == nil {
					ids = append(ids, i)
				}
			}
		}
		if strings.HasPrefix(q, "id:") {
			return aDef{K: "M", S: ids}
		}
	}
	if d, ok := known[q]; ok {
		return d
	}
	return aDef{K: "?", T: q, S: []int{}}
}

type aClient struct {
	t   *testing.T
	srv *httptest.Server
}

func (c *aClient) do(method, target, body string) (int, string) {
	req, err := http.NewRequest(method, c.srv.URL+target, strings.NewReader(body))
	if err != nil {
		c.t.Fatalf("request %s %s: %v", method, target, err)
	}
	resp, err := c.srv.Client().Do(req)
	if err != nil {
		return -1, err.Error()
	}
	defer resp.Body.Close()
	b, _ := io.ReadAll(resp.Body)
	return resp.StatusCode, string(b)
}

func (c *aClient) getJSON(target string, v any) error {
	st, body := c.do("GET", target, "")
	if st != 200 {
		return fmt.Errorf("GET %s: %d %s", target, st, body)
	}
	return json.Unmarshal([]byte(body), v)
}

func (c *aClient) observe(known map[string]aDef) aObs {
	o := aObs{Tags: map[string]aTag{}, Hooks: []string{}, Eps: []string{}}
	var tags []manager.TagInfo
	if err := c.getJSON("/api/tags", &tags); err != nil {
		o.Err = err.Error()
		return o
	}
	for _, ti := range tags {
		cv := append([]string{}, ti.Converters...)
		sort.Strings(cv)
		o.Tags[ti.Name] = aTag{Def: aDefOfText(ti.Name, ti.Definition, known), Text: ti.Definition, Color: ti.Color, Referenced: ti.Referenced,
			Convs: cv, Matching: int(ti.MatchingCount), Uncertain: int(ti.UncertainCount)}
	}
	if err := c.getJSON("/api/webhooks", &o.Hooks); err != nil {
		o.Err = err.Error()
		return o
	}
	if o.Hooks == nil {
		o.Hooks = []string{}
	}
	var eps []manager.PcapOverIPEndpointInfo
	if err := c.getJSON("/api/pcap-over-ip", &eps); err != nil {
		o.Err = err.Error()
		return o
	}
	for _, e := range eps {
		o.Eps = append(o.Eps, e.Address)
	}
	var cfg manager.Config
	if err := c.getJSON("/api/config", &cfg); err != nil {
		o.Err = err.Error()
		return o
	}
	o.Cfg = cfg.AutoInsertLimitToQuery
	var st manager.Statistics
	if err := c.getJSON("/api/status.json", &st); err != nil {
		o.Err = err.Error()
		return o
	}
	o.Streams = st.StreamCount
	return o
}

// wait until nothing runs and every tag is decided: what is observed then does not depend on timing
func (c *aClient) idle() error {
	deadline := time.Now().Add(20 * time.Second)
	for {
		var st manager.Statistics
		if err := c.getJSON("/api/status.json", &st); err != nil {
			return err
		}
		var tags []manager.TagInfo
		if err := c.getJSON("/api/tags", &tags); err != nil {
			return err
		}
		unc := 0
		for _, ti := range tags {
			unc += int(ti.UncertainCount)
		}
		if st.ImportJobCount == 0 && !st.TaggingJobRunning && !st.MergeJobRunning && !st.ConverterJobRunning && unc == 0 {
			return nil
		}
		if time.Now().After(deadline) {
			return fmt.Errorf("service does not become idle: %+v, %d uncertain", st, unc)
		}
		time.Sleep(2 * time.Millisecond)
	}
}

func aRequest(st aStep, known map[string]aDef) (method, target, body string, ok bool) {
	q := url.Values{}
	// "<ff>" in a name, colour or URL of a schedule stands for the byte 0xff (no valid UTF-8; the trace is JSON and cannot carry it)
	raw := func(s string) string { return strings.ReplaceAll(s, "<ff>", "\xff") }
	st.Name, st.New, st.Color, st.What = raw(st.Name), raw(st.New), raw(st.Color), raw(st.What)
	switch st.A {
	case "AddTag":
		text := st.Def.query()
		known[text] = *st.Def
		q.Set("name", st.Name)
		q.Set("color", st.Color)
		return "PUT", "/api/tags?" + q.Encode(), text, true
	case "DelTag":
		q.Set("name", st.Name)
		return "DELETE", "/api/tags?" + q.Encode(), "", true
	case "UpdQuery":
		text := st.Def.query()
		known[text] = *st.Def
		q.Set("name", st.Name)
		q.Set("method", "change_query")
		q.Set("query", text)
		return "PATCH", "/api/tags?" + q.Encode(), "", true
	case "UpdName":
		q.Set("name", st.Name)
		q.Set("method", "change_name")
		q.Set("new_name", st.New)
		return "PATCH", "/api/tags?" + q.Encode(), "", true
	case "UpdColor":
		q.Set("name", st.Name)
		q.Set("method", "change_color")
		q.Set("color", st.Color)
		return "PATCH", "/api/tags?" + q.Encode(), "", true
	case "MarkAdd", "MarkDel":
		q.Set("name", st.Name)
		q.Set("method", map[string]string{"MarkAdd": "mark_add", "MarkDel": "mark_del"}[st.A])
		for _, i := range st.IDs {
			if i < 0 { // stands for the largest id the API parses (the specification's integers are small)
				q.Add("stream", "18446744073709551615")
				continue
			}
			q.Add("stream", strconv.Itoa(i))
		}
		return "PATCH", "/api/tags?" + q.Encode(), "", true
	case "SetConverters":
		q.Set("name", st.Name)
		q.Set("method", "converter_set")
		for _, c := range st.Convs {
			q.Add("converters", c)
		}
		return "PATCH", "/api/tags?" + q.Encode(), "", true
	case "AddHook", "DelHook":
		q.Set("url", st.What)
		return map[string]string{"AddHook": "PUT", "DelHook": "DELETE"}[st.A], "/api/webhooks?" + q.Encode(), "", true
	case "AddEndpoint", "DelEndpoint":
		q.Set("address", st.What)
		return map[string]string{"AddEndpoint": "PUT", "DelEndpoint": "DELETE"}[st.A], "/api/pcap-over-ip?" + q.Encode(), "", true
	case "SetConfig":
		return "POST", "/api/config", fmt.Sprintf(`{"AutoInsertLimitToQuery":%v}`, st.K == 1), true
	}
	return "", "", "", false
}

func TestVerifApi(t *testing.T) {
	in := os.Getenv("VERIF_IN")
	if in == "" {
		t.Skip("VERIF_IN not set")
	}
	raw, err := os.ReadFile(in)
	if err != nil {
		t.Fatal(err)
	}
	var scheds []aSched
	if err := json.Unmarshal(raw, &scheds); err != nil {
		t.Fatal(err)
	}
	out, err := os.Create(os.Getenv("VERIF_TRACE"))
	if err != nil {
		t.Fatal(err)
	}
	defer out.Close()
	bw := bufio.NewWriterSize(out, 1<<20)
	defer bw.Flush()
	calls := 0
	for si, sc := range scheds {
		root := filepath.Join(t.TempDir(), fmt.Sprintf("s%d", si))
		dirs := map[string]string{}
		for _, d := range []string{"pcap", "index", "snapshot", "state", "converter"} {
			dirs[d] = filepath.Join(root, d) + "/"
			if err := os.MkdirAll(dirs[d], 0o755); err != nil {
				t.Fatal(err)
			}
		}
		mgr, err := manager.New(dirs["pcap"], dirs["index"], dirs["snapshot"], dirs["state"], dirs["converter"], "")
		if err != nil {
			t.Fatalf("manager.New: %v", err)
		}
		srv := httptest.NewServer(setupRouter(mgr, nil, nil))
		c := &aClient{t: t, srv: srv}
		known := map[string]aDef{}
		n := 0
		emit := func(ev aStep, method, target string, status int, body string) {
			if ev.IDs == nil {
				ev.IDs = []int{}
			}
			if ev.Convs == nil {
				ev.Convs = []string{}
			}
			if ev.Def == nil {
				ev.Def = &aDef{S: []int{}}
			}
			if ev.Def.S == nil {
				ev.Def.S = []int{}
			}
			if len(body) > 300 {
				body = body[:300]
			}
			row := aRow{Sid: sc.ID, N: n, Ev: ev, Method: method, Target: target, Status: status, Body: body, Obs: c.observe(known)}
			js, err := json.Marshal(row)
			if err != nil {
				t.Fatal(err)
			}
			bw.Write(js)
			bw.WriteByte('\n')
			n++
		}
		emit(aStep{A: "Init"}, "", "", 200, "")
		imported := map[int]bool{}
		for _, st := range sc.Steps {
			if st.A == "ApiImport" {
				if imported[st.K] {
					continue
				}
				imported[st.K] = true
				name, err := aWriteCapture(dirs["pcap"], st.K)
				if err != nil {
					t.Fatal(err)
				}
				mgr.ImportPcaps([]string{name})
				if err := c.idle(); err != nil {
					t.Fatalf("schedule %s: %v", sc.ID, err)
				}
				emit(st, "", "", 200, "")
				continue
			}
			method, target, body, ok := aRequest(st, known)
			if !ok {
				continue // job steps, views, crashes: not part of the HTTP API
			}
			if err := c.idle(); err != nil {
				t.Fatalf("schedule %s before %s: %v", sc.ID, st.A, err)
			}
			status, rbody := c.do(method, target, body)
			if err := c.idle(); err != nil {
				// the service loop may be dead or stuck: say so in the trace and give up on this schedule
				emitDead := aRow{Sid: sc.ID, N: n, Ev: st, Method: method, Target: target, Status: status, Body: "NOT-IDLE: " + err.Error(),
					Obs: aObs{Tags: map[string]aTag{}, Hooks: []string{}, Eps: []string{}, Err: "not idle"}}
				js, _ := json.Marshal(emitDead)
				bw.Write(js)
				bw.WriteByte('\n')
				break
			}
			calls++
			emit(st, method, target, status, rbody)
		}
		srv.Close()
		done := make(chan struct{})
		go func() { mgr.Close(); close(done) }()
		select {
		case <-done:
		case <-time.After(5 * time.Second):
		}
		os.RemoveAll(root)
	}
	t.Logf("VERIF-SUMMARY schedules=%d calls=%d", len(scheds), calls)
}

package regexanalysis

// C18 conformance harness (injected by `go test -overlay`, never committed to /repo).
// Input : VERIF_IN    = ndjson rows printed by TLC from spec/Regex.tla
//                       (ast, re, sigma, L, lang = every word of length <= L the expression matches)
// Output: VERIF_TRACE = ndjson, one row per expression: what the real AcceptedLength and
//                       ConstantSuffix answered (validated by spec/RegexTrace.tla)
//         VERIF_OUT   = json summary; "machinery" lists disagreements between the specification's
//                       regex semantics and the regex engine (never a verdict about the analysis).
//
// The harness renders, matches and records; it does not judge the analysis.

import (
	"bufio"
	"encoding/json"
	"fmt"
	"math"
	"os"
	"runtime"
	"sort"
	"strconv"
	"strings"
	"sync"
	"testing"
	"time"

	"rsc.io/binaryregexp"
)

type vAst struct {
	Op string `json:"op"`
	C  string `json:"c"`
	N  int    `json:"n"`
	M  int    `json:"m"`
	Z  int    `json:"z"`
	S  []vAst `json:"s"`
}

type vRow struct {
	Ast   vAst     `json:"ast"`
	Re    string   `json:"re"`
	Sigma []string `json:"sigma"`
	L     int      `json:"L"`
	Lang  []string `json:"lang"`
	Src   string   `json:"src"`
}

type vOut struct {
	ID     int      `json:"id"`
	Ast    vAst     `json:"ast"`
	Re     string   `json:"re"`
	Min    int64    `json:"min"` // -1 = math.MaxUint ("no finite bound")
	Max    int64    `json:"max"`
	Suffix []string `json:"suffix"` // one string per byte
	ErrLen string   `json:"errlen"`
	ErrSuf string   `json:"errsuf"`
	EngN   int      `json:"engn"` // number of words of length <= L the engine accepts (anchored)
	Src    string   `json:"src"`
}

// concrete syntax of an expression tree (must agree with Render in spec/Regex.tla)
func vRender(a vAst) string {
	q := ""
	if a.Z == 1 {
		q = "?"
	}
	g := func(x vAst) string { return "(?:" + vRender(x) + ")" }
	switch a.Op {
	case "lit":
		return a.C
	case "fold":
		return "(?i:" + a.C + ")"
	case "class":
		return "[ab]"
	case "any":
		return "."
	case "empty":
		return "(?:)"
	case "bol":
		return "^"
	case "eol":
		return "$"
	case "wb":
		return `\b`
	case "nomatch":
		return `[^\x00-\x{10FFFF}]`
	case "cap":
		return "(?P<v>" + vRender(a.S[0]) + ")"
	case "cat":
		return vRender(a.S[0]) + vRender(a.S[1])
	case "alt":
		return "(?:" + vRender(a.S[0]) + "|" + vRender(a.S[1]) + ")"
	case "star":
		return g(a.S[0]) + "*" + q
	case "plus":
		return g(a.S[0]) + "+" + q
	case "quest":
		return g(a.S[0]) + "?" + q
	case "rep":
		s := g(a.S[0]) + "{" + strconv.Itoa(a.N)
		if a.M == -1 {
			s += ","
		} else if a.M != a.N {
			s += "," + strconv.Itoa(a.M)
		}
		return s + "}" + q
	}
	panic("unknown op " + a.Op)
}

func vWords(sigma []string, l int) []string {
	res := []string{""}
	last := []string{""}
	for k := 1; k <= l; k++ {
		next := make([]string, 0, len(last)*len(sigma))
		for _, w := range last {
			for _, c := range sigma {
				next = append(next, w+c)
			}
		}
		res = append(res, next...)
		last = next
	}
	return res
}

const vWatchdog = 10 * time.Second

func vLen(v uint) int64 {
	if v == math.MaxUint {
		return -1
	}
	if v > 1<<40 {
		return 1 << 40
	}
	return int64(v)
}

func TestVerifRegex(t *testing.T) {
	in := os.Getenv("VERIF_IN")
	if in == "" {
		t.Skip("VERIF_IN not set")
	}
	fh, err := os.Open(in)
	if err != nil {
		t.Fatal(err)
	}
	defer fh.Close()
	rows := []vRow{}
	sc := bufio.NewScanner(fh)
	sc.Buffer(make([]byte, 1<<20), 1<<26)
	for sc.Scan() {
		if len(sc.Bytes()) == 0 {
			continue
		}
		r := vRow{}
		if err := json.Unmarshal(sc.Bytes(), &r); err != nil {
			t.Fatalf("bad input row: %v", err)
		}
		rows = append(rows, r)
	}
	if err := sc.Err(); err != nil {
		t.Fatal(err)
	}

	outs := make([]vOut, len(rows))
	machinery := make([][]string, len(rows))
	wordCache := sync.Map{}
	wg := sync.WaitGroup{}
	nw := runtime.NumCPU()
	for w := 0; w < nw; w++ {
		wg.Add(1)
		go func(w int) {
			defer wg.Done()
			for i := w; i < len(rows); i += nw {
				outs[i], machinery[i] = vOne(i+1, rows[i], &wordCache)
			}
		}(w)
	}
	wg.Wait()

	tf, err := os.Create(os.Getenv("VERIF_TRACE"))
	if err != nil {
		t.Fatal(err)
	}
	bw := bufio.NewWriter(tf)
	enc := json.NewEncoder(bw)
	mach := []string{}
	nEngine := 0
	for i := range outs {
		if err := enc.Encode(outs[i]); err != nil {
			t.Fatal(err)
		}
		nEngine += outs[i].EngN
		if len(mach) < 50 {
			mach = append(mach, machinery[i]...)
		}
	}
	bw.Flush()
	tf.Close()

	summ := map[string]interface{}{
		"rows": len(rows), "machinery": mach, "engine_accepts": nEngine,
	}
	b, _ := json.Marshal(summ)
	if err := os.WriteFile(os.Getenv("VERIF_OUT"), b, 0o644); err != nil {
		t.Fatal(err)
	}
}

func vOne(id int, r vRow, wordCache *sync.Map) (o vOut, mach []string) {
	o = vOut{ID: id, Ast: r.Ast, Suffix: []string{}, Src: r.Src}
	defer func() {
		if p := recover(); p != nil {
			mach = append(mach, fmt.Sprintf("row %d %q: panic %v", id, r.Re, p))
		}
	}()
	re := vRender(r.Ast)
	o.Re = re
	if re != r.Re {
		mach = append(mach, fmt.Sprintf("row %d: harness renders %q, specification renders %q", id, re, r.Re))
		return
	}
	// 1. bind the specification's semantics to the engine: anchored match on every word of length <= L
	eng, err := binaryregexp.Compile("^(?:" + re + ")$")
	if err != nil {
		mach = append(mach, fmt.Sprintf("row %d: engine rejects %q: %v", id, re, err))
		return
	}
	key := strings.Join(r.Sigma, "") + "/" + strconv.Itoa(r.L)
	wv, ok := wordCache.Load(key)
	if !ok {
		wv, _ = wordCache.LoadOrStore(key, vWords(r.Sigma, r.L))
	}
	words := wv.([]string)
	want := append([]string(nil), r.Lang...)
	sort.Strings(want)
	got := []string{}
	for _, w := range words {
		if eng.MatchString(w) {
			got = append(got, w)
		}
	}
	sort.Strings(got)
	o.EngN = len(got)
	if strings.Join(got, ",") != strings.Join(want, ",") || len(got) != len(want) {
		mach = append(mach, fmt.Sprintf("row %d %q: engine accepts %v, specification Lang = %v", id, re, got, want))
	}
	// 2. the real analysis (under a watchdog: the suffix walk has no memoisation and can take exponential time)
	type lenRes struct {
		al  AcceptedLengths
		err error
	}
	lc := make(chan lenRes, 1)
	go func() {
		al, err := AcceptedLength(re)
		lc <- lenRes{al, err}
	}()
	select {
	case lr := <-lc:
		if lr.err != nil {
			o.ErrLen = lr.err.Error()
		}
		o.Min, o.Max = vLen(lr.al.MinLength), vLen(lr.al.MaxLength)
	case <-time.After(vWatchdog):
		o.ErrLen = "watchdog"
	}
	type sufRes struct {
		suf []byte
		err error
	}
	scn := make(chan sufRes, 1)
	go func() {
		suf, err := ConstantSuffix(re)
		scn <- sufRes{suf, err}
	}()
	suf := []byte(nil)
	select {
	case sr := <-scn:
		if sr.err != nil {
			o.ErrSuf = sr.err.Error()
		}
		suf = sr.suf
	case <-time.After(vWatchdog):
		o.ErrSuf = "watchdog"
	}
	for _, b := range suf {
		o.Suffix = append(o.Suffix, string(rune(b)))
	}
	return
}

package converters

// C15 conformance harness (injected by `go test -overlay`, never committed to /repo).
//
// Input : VERIF_IN    = ndjson, one behaviour of spec/CacheFileGen.tla per line
//                       {"tr":n,"kind":"exh|sim|huge|regress","ops":[{"op","id","list","ids","part"}..]}
// Output: VERIF_TRACE = ndjson, one row per executed operation with what EVERY stream id reads back
//                       after it (Data, DataForSearch, Contains), StreamCount, the file length and the
//                       cache file's accounting fields; validated by spec/CacheFileTrace.tla
//         VERIF_OUT   = json summary (counters only)
//
// The harness is deliberately dumb: it concretises abstract ids / chunk lists (seeded), drives the
// real cacheFile, and copies what it sees.  It never compares anything with an expectation.

import (
	"bufio"
	"crypto/sha1"
	"encoding/hex"
	"encoding/json"
	"fmt"
	"math/rand"
	"os"
	"path/filepath"
	"runtime"
	"sort"
	"strconv"
	"strings"
	"sync"
	"sync/atomic"
	"testing"
	"time"

	"github.com/spq/pkappa2/internal/index"
	"github.com/spq/pkappa2/internal/tools/bitmask"
)

type vOp struct {
	Op   string `json:"op"`
	ID   int    `json:"id"`
	List string `json:"list"`
	IDs  []int  `json:"ids"`
	Part bool   `json:"part"`
}

type vBehaviour struct {
	Tr   int    `json:"tr"`
	Kind string `json:"kind"`
	Ops  []vOp  `json:"ops"`
}

type vObs struct {
	C     bool     `json:"c"`     // Contains
	A     bool     `json:"a"`     // Data returned a non-nil chunk list
	Ok    bool     `json:"ok"`    // DataForSearch's present flag
	Fp    string   `json:"fp"`    // fingerprint of Data's chunk list (direction, length, bytes, time in us, content type)
	Cb    uint64   `json:"cb"`    // Data's client byte count
	Sb    uint64   `json:"sb"`    // Data's server byte count
	Sizes [][2]int `json:"sizes"` // DataForSearch's cumulative sizes
	Cfp   string   `json:"cfp"`   // fingerprint of DataForSearch's client bytes
	Sfp   string   `json:"sfp"`   // ... server bytes
	Scb   uint64   `json:"scb"`
	Ssb   uint64   `json:"ssb"`
	Err   string   `json:"err"`
}

type vDict struct {
	Fp   string `json:"fp"`
	Dirs []int  `json:"dirs"`
	Lens []int  `json:"lens"`
	Cfp  string `json:"cfp"`
	Sfp  string `json:"sfp"`
}

type vAcct struct {
	FileSize  int64      `json:"fileSize"`
	FreeSize  int64      `json:"freeSize"`
	FreeStart int64      `json:"freeStart"`
	Info      [][2]int64 `json:"info"`  // per abstract id [offset, size], [-1,0] if absent
	Extra     int        `json:"extra"` // table entries for ids the behaviour never used
}

type vRow struct {
	Tr     int               `json:"tr"`
	N      int               `json:"n"`
	Ev     string            `json:"ev"`
	Kind   string            `json:"kind"`
	ID     int               `json:"id"`
	List   string            `json:"list"`
	IDs    []int             `json:"ids"`
	Cut    int64             `json:"cut"`    // Truncate/Probe: bytes of the last record that were kept
	RecLen int64             `json:"reclen"` // Truncate/Probe: length of the last record
	Err    string            `json:"err"`
	Inval  []int             `json:"inval"` // Invalidate: returned bitmask (abstract ids; 1000+x for foreign id x)
	Obs    []vObs            `json:"obs"`
	Count  uint64            `json:"count"`
	Flen   int64             `json:"flen"` // os.Stat size of the cache file
	Acct   vAcct             `json:"acct"`
	Dict   map[string]vDict  `json:"dict"`           // Open row: the concretisation of the abstract lists
	Rids   []uint64          `json:"rids,omitempty"` // Open row: real stream ids
	Desc   map[string]string `json:"desc,omitempty"`
}

var vEpoch = time.Date(2025, 1, 1, 0, 0, 0, 0, time.UTC)

func vHash(b []byte) string {
	h := sha1.Sum(b)
	return strconv.Itoa(len(b)) + ":" + hex.EncodeToString(h[:5])
}

func vFpData(data []index.Data) string {
	if data == nil {
		return "nil"
	}
	if len(data) == 0 {
		return "[]"
	}
	parts := make([]string, 0, len(data))
	for _, d := range data {
		s := fmt.Sprintf("%d:%s:%d:%q", int(d.Direction), vHash(d.Content), d.Time.Sub(vEpoch).Microseconds(), d.ContentType)
		if ns := d.Time.Nanosecond() % 1000; ns != 0 {
			s += fmt.Sprintf("+%dns", ns)
		}
		parts = append(parts, s)
	}
	j := strings.Join(parts, ";")
	if len(j) <= 200 {
		return j
	}
	h := sha1.Sum([]byte(j))
	return fmt.Sprintf("sha1:%s:n=%d", hex.EncodeToString(h[:10]), len(data))
}

// what a read must return for a stored list: the same chunks with their times cut to the microsecond
func vStoredAs(data []index.Data) []index.Data {
	if data == nil {
		return nil
	}
	res := make([]index.Data, 0, len(data))
	for _, d := range data {
		if len(d.Content) == 0 {
			continue // (a chunk without content is not stored)
		}
		d.Time = d.Time.Truncate(time.Microsecond)
		res = append(res, d)
	}
	return res
}

func vDictOf(data []index.Data) vDict {
	data = vStoredAs(data)
	d := vDict{Fp: vFpData(data), Dirs: []int{}, Lens: []int{}}
	var c, s []byte
	for _, x := range data {
		d.Dirs = append(d.Dirs, int(x.Direction))
		d.Lens = append(d.Lens, len(x.Content))
		if x.Direction == index.DirectionClientToServer {
			c = append(c, x.Content...)
		} else {
			s = append(s, x.Content...)
		}
	}
	d.Cfp, d.Sfp = vHash(c), vHash(s)
	return d
}

// ---------------------------------------------------------------- concretisation (seeded)

var vIDSets = [][3]uint64{{0, 1, 2}, {1, 63, 64}, {5, 127, 128}, {2, 4095, 70000}, {0, 65, 1000000}, {7, 8, 9}}

var vContentTypes = []string{"text/plain", "application/json", "x", "image/png; charset=utf-8",
	strings.Repeat("long/type-", 20), "ünï/cödé", "a/b"}

var vBoundarySizes = []int{1, 2, 127, 128, 129, 255, 256, 4095, 4096, 4097, 16383, 16384, 16385, 32768, 65536, 70000}

const vHugeSize = 9 * 1024 * 1024

func vRandBytes(rng *rand.Rand, n int) []byte {
	b := make([]byte, n)
	rng.Read(b)
	return b
}

// one concrete chunk list; kind selects how heavy the shapes may be
func vMakeList(rng *rand.Rand, kind string, huge bool, allowEmpty bool) ([]index.Data, string) {
	dir := func(b bool) index.Direction {
		if b {
			return index.DirectionServerToClient
		}
		return index.DirectionClientToServer
	}
	var dirs []index.Direction
	var sizes []int
	shape := ""
	if huge {
		shape = "huge"
		switch rng.Intn(3) {
		case 0:
			dirs = []index.Direction{dir(rng.Intn(2) == 0)}
			sizes = []int{vHugeSize}
		case 1:
			dirs = []index.Direction{dir(rng.Intn(2) == 0), dir(rng.Intn(2) == 0)}
			sizes = []int{1 + rng.Intn(50), vHugeSize}
		default:
			dirs = []index.Direction{dir(rng.Intn(2) == 0), dir(rng.Intn(2) == 0)}
			sizes = []int{vHugeSize, 1 + rng.Intn(50)}
		}
	} else {
		nshapes := 8
		if kind == "exh" {
			nshapes = 6
		}
		sh := rng.Intn(nshapes)
		if sh == 4 && !allowEmpty {
			sh = 1
		}
		small := func() int { return 1 + rng.Intn(40) }
		switch sh {
		case 0:
			shape = "alternating"
			n := 2 + rng.Intn(5)
			for i := 0; i < n; i++ {
				dirs = append(dirs, dir(i%2 == 1))
				sizes = append(sizes, small())
			}
		case 1:
			shape = "runs"
			n := 3 + rng.Intn(8)
			d := rng.Intn(2) == 0
			for i := 0; i < n; i++ {
				if rng.Intn(3) == 0 {
					d = !d
				}
				dirs = append(dirs, dir(d))
				sizes = append(sizes, small())
			}
		case 2:
			shape = "server-first"
			n := 1 + rng.Intn(5)
			dirs = append(dirs, index.DirectionServerToClient)
			sizes = append(sizes, small())
			for i := 1; i < n; i++ {
				dirs = append(dirs, dir(rng.Intn(2) == 0))
				sizes = append(sizes, small())
			}
		case 3:
			shape = "single"
			dirs = []index.Direction{dir(rng.Intn(2) == 0)}
			sizes = []int{small()}
		case 4:
			shape = "empty"
		case 5:
			shape = "many"
			n := 9 + rng.Intn(62)
			if kind == "exh" {
				n = 9 + rng.Intn(10)
			}
			d := rng.Intn(2) == 0
			for i := 0; i < n; i++ {
				if rng.Intn(2) == 0 {
					d = !d
				}
				dirs = append(dirs, dir(d))
				sizes = append(sizes, 1+rng.Intn(6))
			}
		case 7:
			// a converter may say nothing in a packet: chunks without content (the file format has no place for them,
			// a read returns the list without them)
			shape = "with-empty-chunks"
			n := 2 + rng.Intn(5)
			for i := 0; i < n; i++ {
				dirs = append(dirs, dir(rng.Intn(2) == 0))
				if rng.Intn(3) == 0 || i == n-1 {
					sizes = append(sizes, 0)
				} else {
					sizes = append(sizes, small())
				}
			}
		default:
			shape = "boundary-sizes"
			n := 1 + rng.Intn(4)
			for i := 0; i < n; i++ {
				dirs = append(dirs, dir(rng.Intn(2) == 0))
				sizes = append(sizes, vBoundarySizes[rng.Intn(len(vBoundarySizes))])
			}
		}
	}
	// times: monotone / equal / non-monotonic / big jumps / before the epoch of the stream: whole microseconds;
	// sub-microsecond: monotone with nanosecond parts (a read returns them cut to the microsecond)
	tp := rng.Intn(7)
	tnames := []string{"monotone", "equal", "non-monotonic", "big-jumps", "starts-early", "sub-microsecond", "sub-microsecond-back-and-forth"}
	loc := time.UTC
	if rng.Intn(3) == 0 {
		loc = time.FixedZone("x", 3600*(rng.Intn(25)-12))
	}
	t := vEpoch.Add(time.Duration(rng.Intn(3000000)) * time.Microsecond)
	if tp == 4 {
		t = vEpoch.Add(-time.Duration(1+rng.Intn(7200000000)) * time.Microsecond)
	}
	// content types: none / all the same / arbitrary subsets of up to 3 types
	cp := rng.Intn(4)
	cts := []string{}
	for k := 1 + rng.Intn(3); k > 0; k-- {
		cts = append(cts, vContentTypes[rng.Intn(len(vContentTypes))])
	}
	data := []index.Data{}
	for i := range dirs {
		switch tp {
		case 0, 4:
			t = t.Add(time.Duration(rng.Intn(5000000)) * time.Microsecond)
		case 1:
		case 2:
			t = t.Add(time.Duration(rng.Intn(4000001)-2000000) * time.Microsecond)
		case 3:
			t = t.Add(time.Duration(rng.Int63n(3*3600*1000000)) * time.Microsecond)
		case 5:
			t = t.Add(time.Duration(rng.Intn(5000000)) * time.Nanosecond)
		case 6:
			t = t.Add(time.Duration(rng.Intn(4000001)-2000000) * time.Nanosecond)
		}
		ct := ""
		switch cp {
		case 1:
			ct = cts[0]
		case 2, 3:
			if rng.Intn(2) == 0 {
				ct = cts[rng.Intn(len(cts))]
			}
		}
		data = append(data, index.Data{Direction: dirs[i], Content: vRandBytes(rng, sizes[i]), Time: t.In(loc), ContentType: ct})
	}
	return data, shape + "/" + tnames[tp] + "/ct" + strconv.Itoa(cp)
}

// ---------------------------------------------------------------- driver

type vRun struct {
	b        vBehaviour
	rng      *rand.Rand
	dir      string
	path     string
	rids     [3]uint64
	t0       [3]time.Time
	lists    map[string][]index.Data
	cf       *cacheFile
	rows     []vRow
	n        int
	tailID   int // abstract id of the stream whose record is the last one in the file, -1 if unknown
	probes   string
	stat     *vStats
	fullDone bool
}

type vStats struct {
	sync.Mutex
	Traces, Rows, Probes, ProbesPartial, Truncs, OpenFailures, OpErrors, Skipped int
	CompactStore, CompactLoad, BigRows                                           int
	Ops                                                                          map[string]int
	Shapes                                                                       map[string]int
	RecLens                                                                      map[int64]bool
	Trans                                                                        map[string]bool
	ChunkRows                                                                    []int
}

// counters over the rows of one finished trace (measured coverage, no verdicts)
func (st *vStats) account(rows []vRow) {
	st.Lock()
	defer st.Unlock()
	st.Traces++
	st.Rows += len(rows)
	names := func(r *vRow, fp2name map[string]string) string {
		res := ""
		for _, o := range r.Obs {
			if !o.C {
				res += "-"
			} else if n, ok := fp2name[o.Fp]; ok {
				res += n
			} else {
				res += "?"
			}
		}
		return res
	}
	fp2name := map[string]string{}
	var prev *vRow
	for i := range rows {
		r := &rows[i]
		st.Ops[r.Ev]++
		if r.N == 0 {
			for k, v := range r.Dict {
				fp2name[v.Fp] = k
			}
		}
		if r.Err != "" {
			if r.Ev == "Reopen" || r.Ev == "Truncate" || r.Ev == "Probe" || r.Ev == "Open" {
				st.OpenFailures++
			} else if r.Ev == "Store" || r.Ev == "Reset" {
				st.OpErrors++
			}
		}
		if r.Ev == "Probe" {
			st.Probes++
			if r.Cut > 0 {
				st.ProbesPartial++
			}
			st.RecLens[r.RecLen] = true
			continue
		}
		if r.Ev == "Truncate" {
			st.Truncs++
		}
		if len(r.Obs) == 0 {
			continue
		}
		if r.Flen > 9*1024*1024 {
			st.BigRows++
		}
		if prev != nil {
			if r.Ev == "Store" && r.Err == "" && r.Acct.FileSize < prev.Acct.FileSize+r.Acct.Info[r.ID][1]+streamHeaderSize {
				st.CompactStore++
			}
			if r.Ev == "Reopen" && r.Acct.FileSize < prev.Acct.FileSize {
				st.CompactLoad++
			}
			st.Trans[fmt.Sprintf("%s/%d/%s/%v/%s/%s", r.Ev, r.ID, r.List, r.IDs, names(prev, fp2name), names(r, fp2name))] = true
		}
		prev = r
	}
}

func (r *vRun) observe(cf *cacheFile, path string, row *vRow) {
	row.Obs = []vObs{}
	for i := 0; i < 3; i++ {
		o := vObs{Sizes: [][2]int{}}
		func() {
			// a read that panics (a record that does not parse) is an answer like an error: recorded, judged by the specification
			defer func() {
				if p := recover(); p != nil {
					o.Err += fmt.Sprintf(" panic: %v", p)
				}
			}()
			o.C = cf.Contains(r.rids[i])
			data, cb, sb, err := cf.data(r.rids[i], r.t0[i])
			if err != nil {
				o.Err = "Data: " + err.Error()
			}
			o.A = data != nil
			o.Fp = vFpData(data)
			o.Cb, o.Sb = cb, sb
			sd, sizes, scb, ssb, ok, err := cf.DataForSearch(r.rids[i])
			if err != nil {
				o.Err += " DataForSearch: " + err.Error()
			}
			o.Ok = ok
			if sizes != nil {
				o.Sizes = sizes
			}
			o.Cfp, o.Sfp = vHash(sd[0]), vHash(sd[1])
			o.Scb, o.Ssb = scb, ssb
		}()
		row.Obs = append(row.Obs, o)
	}
	row.Count = cf.StreamCount()
	if st, err := os.Stat(path); err == nil {
		row.Flen = st.Size()
	} else {
		row.Flen = -1
	}
	a := vAcct{FileSize: cf.fileSize, FreeSize: cf.freeSize, FreeStart: cf.freeStart, Info: [][2]int64{}}
	known := 0
	for i := 0; i < 3; i++ {
		if info, ok := cf.streamInfos[r.rids[i]]; ok {
			a.Info = append(a.Info, [2]int64{info.offset, int64(info.size)})
			known++
		} else {
			a.Info = append(a.Info, [2]int64{-1, 0})
		}
	}
	a.Extra = len(cf.streamInfos) - known
	row.Acct = a
}

func (r *vRun) newRow(ev string) *vRow {
	r.rows = append(r.rows, vRow{Tr: r.b.Tr, N: r.n, Ev: ev, Kind: r.b.Kind, List: "-", IDs: []int{}, Inval: []int{}, Obs: []vObs{},
		Acct: vAcct{Info: [][2]int64{}}, Dict: map[string]vDict{}})
	r.n++
	return &r.rows[len(r.rows)-1]
}

func (r *vRun) absID(real uint64) int {
	for i, x := range r.rids {
		if x == real {
			return i
		}
	}
	return 1000 + int(real%1000000)
}

// NewCacheFile does not close the file when it returns an error; thousands of failing opens (code as
// found + partly written records) would exhaust the descriptors.  The os.File finalizer closes them.
var vFailedOpens int64

func vOpenFailed() {
	if atomic.AddInt64(&vFailedOpens, 1)%256 == 0 {
		runtime.GC()
	}
}

// cut points inside the last record (0 <= n < reclen) that are probed on copies of the file
func (r *vRun) cuts(recLen int64) []int64 {
	all := map[int64]bool{}
	add := func(n int64) {
		if n >= 0 && n < recLen {
			all[n] = true
		}
	}
	// VERIF_PROBES = "all=<every byte if the record is at most this long>;sample=<seeded extra cuts>"
	limit, sample := int64(0), 0
	for _, kv := range strings.Split(r.probes, ";") {
		p := strings.SplitN(kv, "=", 2)
		if len(p) != 2 {
			continue
		}
		v, _ := strconv.Atoi(p[1])
		switch p[0] {
		case "all":
			limit = int64(v)
		case "sample":
			sample = v
		}
	}
	if r.fullDone {
		limit = 0
	}
	if recLen <= limit {
		for n := int64(0); n < recLen; n++ {
			add(n)
		}
	} else {
		// the structural boundaries of a record plus a seeded sample
		for _, n := range []int64{0, 1, 7, 8, 9, 10, 11, recLen - 1, recLen - 2, recLen - 3} {
			add(n)
		}
		for k := 0; k < sample; k++ {
			add(r.rng.Int63n(recLen))
		}
		if limit > 0 { // thorough tier on a long record: every byte of the first and last 512
			for n := int64(0); n < 512; n++ {
				add(n)
				add(recLen - 1 - n)
			}
		}
	}
	res := make([]int64, 0, len(all))
	for n := range all {
		res = append(res, n)
	}
	sort.Slice(res, func(i, j int) bool { return res[i] < res[j] })
	return res
}

func (r *vRun) run() {
	b := r.b
	r.rids = vIDSets[r.rng.Intn(len(vIDSets))]
	for i := 0; i < 3; i++ {
		r.t0[i] = vEpoch.Add(time.Duration(i-1)*time.Hour + time.Duration(r.rng.Intn(1000000))*time.Microsecond)
	}
	// concretise the abstract lists used by this behaviour
	r.lists = map[string][]index.Data{}
	dict := map[string]vDict{}
	desc := map[string]string{}
	names := []string{}
	seen := map[string]bool{}
	for _, op := range b.Ops {
		if op.Op == "Store" && !seen[op.List] {
			seen[op.List] = true
			names = append(names, op.List)
		}
	}
	sort.Strings(names)
	fps := map[string]bool{}
	for _, name := range names {
		for {
			data, d := vMakeList(r.rng, b.Kind, name == "H", true)
			fp := vFpData(vStoredAs(data))
			if fps[fp] {
				continue
			}
			fps[fp] = true
			r.lists[name] = data
			dict[name] = vDictOf(data)
			desc[name] = d
			break
		}
	}
	r.stat.Lock()
	for _, d := range desc {
		for k, part := range strings.Split(d, "/") {
			r.stat.Shapes[[]string{"shape:", "times:", "types:"}[k]+part]++
		}
	}
	r.stat.Unlock()

	r.path = filepath.Join(r.dir, fmt.Sprintf("t%d.cache", b.Tr))
	os.Remove(r.path)
	defer os.Remove(r.path)
	r.tailID = -1

	row := r.newRow("Open")
	row.Dict, row.Rids, row.Desc = dict, r.rids[:], desc
	cf, err := NewCacheFile(r.path)
	if err != nil {
		row.Err = err.Error()
		return
	}
	r.cf = cf
	r.observe(cf, r.path, row)

	for _, op := range b.Ops {
		switch op.Op {
		case "Store":
			row := r.newRow("Store")
			row.ID, row.List = op.ID, op.List
			r.tailID = op.ID
			if err := r.cf.setData(r.rids[op.ID], r.t0[op.ID], r.lists[op.List]); err != nil {
				row.Err = err.Error()
				r.tailID = -1
			}
			r.observe(r.cf, r.path, row)
		case "Invalidate":
			row := r.newRow("Invalidate")
			row.IDs = append([]int{}, op.IDs...)
			bm := bitmask.LongBitmask{}
			for _, i := range op.IDs {
				bm.Set(uint(r.rids[i]))
			}
			res := r.cf.InvalidateChangedStreams(&bm)
			for x := uint(0); res.Next(&x); x++ {
				row.Inval = append(row.Inval, r.absID(uint64(x)))
			}
			sort.Ints(row.Inval)
			r.tailID = -1
			r.observe(r.cf, r.path, row)
		case "Reset":
			row := r.newRow("Reset")
			if err := r.cf.Reset(); err != nil {
				row.Err = err.Error()
			}
			r.tailID = -1
			r.observe(r.cf, r.path, row)
		case "Reopen":
			row := r.newRow("Reopen")
			if err := r.cf.Close(); err != nil {
				row.Err = "Close: " + err.Error()
				return
			}
			cf, err := NewCacheFile(r.path)
			if err != nil {
				row.Err = err.Error()
				r.cf = nil
				return
			}
			r.cf = cf
			r.observe(r.cf, r.path, row)
		case "Truncate":
			if r.tailID < 0 {
				r.stat.Lock()
				r.stat.Skipped++
				r.stat.Unlock()
				continue
			}
			info, ok := r.cf.streamInfos[r.rids[r.tailID]]
			if !ok {
				// nothing to cut: the code under test lost the entry (shows up in the rows before)
				row := r.newRow("Skip")
				row.Err = "last stored stream has no table entry"
				continue
			}
			base, recLen := info.offset-streamHeaderSize, int64(info.size)+streamHeaderSize
			if err := r.cf.Close(); err != nil {
				row := r.newRow("HarnessError")
				row.Err = "Close: " + err.Error()
				return
			}
			r.cf = nil
			content, err := os.ReadFile(r.path)
			if err == nil && base+recLen != int64(len(content)) {
				row := r.newRow("Skip")
				row.Err = fmt.Sprintf("last record [%d,+%d) does not end at the file end %d", base, recLen, len(content))
				return
			}
			if err != nil {
				row := r.newRow("HarnessError")
				row.Err = fmt.Sprintf("last record [%d,+%d) does not end at the file end %d (%v)", base, recLen, len(content), err)
				return
			}
			// fault enumeration: every probed cut of the last record on a copy of the file
			cuts := r.cuts(recLen)
			r.fullDone = true // every byte only at the first Truncate of a trace
			for _, n := range cuts {
				row := r.newRow("Probe")
				row.ID, row.Cut, row.RecLen = r.tailID, n, recLen
				pp := r.path + ".probe"
				if err := os.WriteFile(pp, content[:base+n], 0644); err != nil {
					row.Ev, row.Err = "HarnessError", err.Error()
					return
				}
				pcf, err := NewCacheFile(pp)
				if err != nil {
					row.Err = err.Error()
					vOpenFailed()
				} else {
					r.observe(pcf, pp, row)
					pcf.Close()
				}
				os.Remove(pp)
			}
			content = nil
			// the step itself
			n := int64(0)
			if op.Part {
				n = 1 + r.rng.Int63n(recLen-1)
			}
			row := r.newRow("Truncate")
			row.ID, row.Cut, row.RecLen = r.tailID, n, recLen
			r.tailID = -1
			if err := os.Truncate(r.path, base+n); err != nil {
				row.Ev, row.Err = "HarnessError", err.Error()
				return
			}
			cf, err := NewCacheFile(r.path)
			if err != nil {
				row.Err = err.Error()
				return
			}
			r.cf = cf
			r.observe(r.cf, r.path, row)
		default:
			row := r.newRow("HarnessError")
			row.Err = "unknown op " + op.Op
			return
		}
	}
}

func TestVerifCacheFile(t *testing.T) {
	in, traceDir, outPath := os.Getenv("VERIF_IN"), os.Getenv("VERIF_TRACE_DIR"), os.Getenv("VERIF_OUT")
	if in == "" {
		t.Skip("VERIF_IN not set")
	}
	seed, _ := strconv.ParseInt(os.Getenv("VERIF_SEED"), 10, 64)
	dir := os.Getenv("VERIF_DIR")
	if dir == "" {
		dir = t.TempDir()
	}
	// probes per behaviour kind, e.g. "exh:all=0;sample=3|sim:all=4096;sample=8|huge:all=0;sample=2"
	probes := map[string]string{}
	for _, kv := range strings.Split(os.Getenv("VERIF_PROBES"), "|") {
		p := strings.SplitN(kv, ":", 2)
		if len(p) == 2 {
			probes[p[0]] = p[1]
		}
	}
	workers, _ := strconv.Atoi(os.Getenv("VERIF_PAR"))
	if workers <= 0 {
		workers = 8
	}
	nchunks, _ := strconv.Atoi(os.Getenv("VERIF_CHUNKS"))
	if nchunks <= 0 {
		nchunks = 1
	}

	fh, err := os.Open(in)
	if err != nil {
		t.Fatal(err)
	}
	defer fh.Close()
	var bs []vBehaviour
	sc := bufio.NewScanner(fh)
	sc.Buffer(make([]byte, 1<<20), 1<<26)
	for sc.Scan() {
		if len(strings.TrimSpace(sc.Text())) == 0 {
			continue
		}
		var b vBehaviour
		if err := json.Unmarshal(sc.Bytes(), &b); err != nil {
			t.Fatalf("bad behaviour line: %v", err)
		}
		bs = append(bs, b)
	}

	// the rows of one trace stay together; traces are spread over nchunks files (one TLC run each)
	type chunk struct {
		sync.Mutex
		f *os.File
		w *bufio.Writer
	}
	chunks := make([]*chunk, nchunks)
	for k := range chunks {
		d := filepath.Join(traceDir, fmt.Sprintf("chunk%d", k))
		if err := os.MkdirAll(d, 0755); err != nil {
			t.Fatal(err)
		}
		f, err := os.Create(filepath.Join(d, "cachefile_trace.ndjson"))
		if err != nil {
			t.Fatal(err)
		}
		chunks[k] = &chunk{f: f, w: bufio.NewWriterSize(f, 1<<20)}
	}
	stat := &vStats{Ops: map[string]int{}, Shapes: map[string]int{}, RecLens: map[int64]bool{}, Trans: map[string]bool{},
		ChunkRows: make([]int, nchunks)}

	jobs := make(chan vBehaviour)
	var wg sync.WaitGroup
	// at most four behaviours with a 9 MiB list at a time (memory, tmpfs), the others in parallel
	hugeSem := make(chan struct{}, 4)
	for k := 0; k < workers; k++ {
		wg.Add(1)
		go func() {
			defer wg.Done()
			for b := range jobs {
				r := &vRun{b: b, rng: rand.New(rand.NewSource(seed*1000003 + int64(b.Tr)*7919 + 17)), dir: dir, stat: stat}
				r.probes = probes[b.Kind]
				if r.probes == "" {
					r.probes = "all=0;sample=3"
				}
				if b.Kind == "huge" {
					hugeSem <- struct{}{}
				}
				r.run()
				if r.cf != nil {
					r.cf.Close()
				}
				if b.Kind == "huge" {
					<-hugeSem
				}
				c := chunks[b.Tr%nchunks]
				c.Lock()
				enc := json.NewEncoder(c.w)
				for i := range r.rows {
					if err := enc.Encode(&r.rows[i]); err != nil {
						t.Errorf("encode: %v", err)
					}
				}
				c.Unlock()
				stat.account(r.rows)
				stat.Lock()
				stat.ChunkRows[b.Tr%nchunks] += len(r.rows)
				stat.Unlock()
			}
		}()
	}
	for _, b := range bs {
		jobs <- b
	}
	close(jobs)
	wg.Wait()
	for _, c := range chunks {
		if err := c.w.Flush(); err != nil {
			t.Fatal(err)
		}
		c.f.Close()
	}

	summ := map[string]interface{}{
		"traces": stat.Traces, "rows": stat.Rows, "probes": stat.Probes, "probes_partial": stat.ProbesPartial,
		"truncation_steps": stat.Truncs, "open_failures": stat.OpenFailures, "op_errors": stat.OpErrors,
		"skipped_ops": stat.Skipped, "ops": stat.Ops, "shapes": stat.Shapes, "chunk_rows": stat.ChunkRows,
		"compactions_at_store": stat.CompactStore, "compactions_at_load": stat.CompactLoad, "big_rows": stat.BigRows,
		"record_lengths_truncated": len(stat.RecLens), "distinct_transitions": len(stat.Trans),
	}
	js, _ := json.MarshalIndent(summ, "", " ")
	if err := os.WriteFile(outPath, js, 0644); err != nil {
		t.Fatal(err)
	}
}

package main

// C19 conformance harness (injected into cmd/pkappa2 by `go test -overlay`, never committed to /repo).
//
// Input : VERIF_IN    json {seqs: [[abstract request...]...], scheds: [two-uploader schedules printed by TLC]}
//                     (abstract requests are printed by TLC from spec/UploadGen.tla, schedules from spec/Upload.tla)
// Output: VERIF_TRACE ndjson, one row per request (or per concurrent pair): literal path, status, file system of
//                     the three zones before/after, new files inside, changes outside, arrival events, names handed
//                     to the importer, which stored files the response body shows.  Validated by spec/UploadTrace.tla.
//         VERIF_OUT   json summary (counts only; no verdicts are taken here).
//
// The router is the real setupRouter() served by net/http/httptest; requests are written as raw HTTP/1.1 so that the
// request target reaches the server byte for byte.  The only thing put between the server and the router is a
// wrapper that counts running handlers and, for requests carrying X-Verif-Gate, hands the request body to the
// handler in steps chosen by the schedule (open / half / fin / abort).

import (
	"bufio"
	"bytes"
	"crypto/sha256"
	"encoding/hex"
	"encoding/json"
	"fmt"
	"io"
	"log"
	"math/rand"
	"net"
	"net/http"
	"net/http/httptest"
	"os"
	"path/filepath"
	"sort"
	"strconv"
	"strings"
	"sync"
	"sync/atomic"
	"testing"
	"time"

	"github.com/spq/pkappa2/internal/index/manager"
)

// ----------------------------------------------------------------------------- input

type vReq struct {
	Op  string `json:"op"`
	Cls string `json:"cls"`
	Nm  string `json:"nm"`
	Ext string `json:"ext"`
	V   int    `json:"v"`
	K   int    `json:"k"`
}

type vSched struct {
	Steps  [][2]string     `json:"steps"` // [uploader, open|half|fin|abort]
	Pre    bool            `json:"pre"`
	PlainA bool            `json:"plainA"`
	PlainB bool            `json:"plainB"`
	HasExp bool            `json:"hasExp"`
	Exp    map[string]bool `json:"exp"`
	ID     int             `json:"id"`
}

type vInput struct {
	Seqs     [][]vReq `json:"seqs"`
	Scheds   []vSched `json:"scheds"`
	PairReps int      `json:"pairReps"`
}

// ----------------------------------------------------------------------------- trace rows

type vFile struct {
	N string `json:"n"`
	C string `json:"c"`
}
type vRead struct {
	Z string `json:"z"`
	N string `json:"n"`
}
type vFS struct {
	Inside []vFile `json:"inside"`
	Base   string  `json:"base"`
	Outer  string  `json:"outer"`
}
type vRow struct {
	W      int      `json:"w"`
	N      int      `json:"n"`
	Op     string   `json:"op"`
	Cls    string   `json:"cls"`
	Var    int      `json:"var"`
	Path   string   `json:"path"`
	Name   string   `json:"name"` // the literal file name an ordinary ("plain") spelling denotes
	Ext    string   `json:"ext"`
	Body   string   `json:"body"` // digest of the request body
	Status int      `json:"status"`
	Pre    vFS      `json:"pre"`
	Post   vFS      `json:"post"`
	Events int      `json:"events"`
	Queued []string `json:"queued"`
	Reads  []vRead  `json:"reads"`
	// diagnostics (not read by the specification)
	Created []string `json:"created"`
	Outside []string `json:"outside"`
	// pairs
	Path2   string   `json:"path2"`
	Cls2    string   `json:"cls2"`
	Body2   string   `json:"body2"`
	Status2 int      `json:"status2"`
	Same    bool     `json:"same"`
	Sched   []string `json:"sched"`
	SchedID int      `json:"schedid"`
	HasExp  bool     `json:"hasexp"`
	ExpA    bool     `json:"expa"`
	ExpB    bool     `json:"expb"`
}

func vq(s string) string {
	q := strconv.QuoteToASCII(s)
	return q[1 : len(q)-1]
}

func vDigest(b []byte) string {
	h := sha256.Sum256(b)
	return fmt.Sprintf("%d:%s", len(b), hex.EncodeToString(h[:8]))
}

// ----------------------------------------------------------------------------- log capture / events

type vLogBuf struct {
	mu    sync.Mutex
	buf   bytes.Buffer
	lines []string
}

func (l *vLogBuf) Write(p []byte) (int, error) {
	l.mu.Lock()
	defer l.mu.Unlock()
	l.buf.Write(p)
	for {
		i := bytes.IndexByte(l.buf.Bytes(), '\n')
		if i < 0 {
			break
		}
		l.lines = append(l.lines, string(l.buf.Next(i+1)))
	}
	return len(p), nil
}

// names handed to the importer since the last call: one "readPackets(%q) failed" line per queued
// entry (all uploaded bodies are deliberately not captures, so each entry is tried exactly once)
func (l *vLogBuf) takeQueued() []string {
	l.mu.Lock()
	defer l.mu.Unlock()
	res := []string{}
	for _, ln := range l.lines {
		i := strings.Index(ln, "readPackets(")
		if i < 0 {
			continue
		}
		rest := ln[i+len("readPackets("):]
		qp, err := strconv.QuotedPrefix(rest)
		if err != nil {
			res = append(res, "<unparsed>")
			continue
		}
		s, _ := strconv.Unquote(qp)
		res = append(res, s)
	}
	l.lines = l.lines[:0]
	return res
}

// ----------------------------------------------------------------------------- gates

type vGate struct {
	waiting chan struct{}
	cmd     chan string
	done    chan struct{}
	half    int
}

type vBody struct {
	rc      io.ReadCloser
	g       *vGate
	allowed int
	all     bool
	aborted bool
}

func (b *vBody) Read(p []byte) (int, error) {
	for !b.all && b.allowed == 0 {
		if b.aborted {
			return 0, io.ErrUnexpectedEOF
		}
		b.g.waiting <- struct{}{}
		switch <-b.g.cmd {
		case "half":
			b.allowed = b.g.half
		case "fin":
			b.all = true
		case "abort":
			b.aborted = true
			return 0, io.ErrUnexpectedEOF
		}
	}
	if !b.all && len(p) > b.allowed {
		p = p[:b.allowed]
	}
	n, err := b.rc.Read(p)
	if !b.all {
		b.allowed -= n
	}
	return n, err
}
func (b *vBody) Close() error { return b.rc.Close() }

// ----------------------------------------------------------------------------- world

type vWorld struct {
	id      int
	root    string // T
	capture string // T/base/pcap
	mgr     *manager.Manager
	srv     *httptest.Server
	active  int64
	gates   sync.Map
	arrived int64
	evDone  chan struct{}
	closeL  func()
	stems   map[string]string
	rot     map[string]int // class -> rotation of its spelling table in this world
	nreq    int
	rnd     *rand.Rand
}

var vLog = &vLogBuf{}

func vMust(t *testing.T, err error) {
	t.Helper()
	if err != nil {
		t.Fatalf("harness: %v", err)
	}
}

func vNewWorld(t *testing.T, id int, tmp string, rnd *rand.Rand) *vWorld {
	w := &vWorld{id: id, rnd: rnd, stems: map[string]string{}, rot: map[string]int{}}
	root, err := os.MkdirTemp(tmp, fmt.Sprintf("w%d-", id))
	vMust(t, err)
	w.root = root
	w.capture = filepath.Join(root, "base", "pcap")
	for _, d := range []string{"base/pcap/sub", "base/index", "base/state", "base/snapshot", "base/outside", "base/pcapx",
		"outside", "mgr/index", "mgr/snapshot", "mgr/state", "mgr/converter", "mgr/watch"} {
		vMust(t, os.MkdirAll(filepath.Join(root, d), 0755))
	}
	sent := func(rel string) {
		tok := fmt.Sprintf("VERIF-SENTINEL-%d-%s-%08x\n", id, rel, rnd.Uint32())
		vMust(t, os.WriteFile(filepath.Join(root, rel), []byte(tok), 0644))
	}
	for _, e := range []string{".pcap", ".pcapng"} {
		for _, d := range []string{"base", "base/index", "base/state", "base/outside", "base/pcapx", "outside", "."} {
			sent(d + "/secret" + e)
		}
	}
	sent("base/pcap/seed.pcap")
	sent("base/pcap/sub/inner.pcap")
	w.stems["secret"] = "secret"
	w.stems["seed"] = "seed"
	w.stems["n1"] = fmt.Sprintf("w%da%04x", id, rnd.Intn(1<<16))
	w.stems["n2"] = fmt.Sprintf("w%db%04x", id, rnd.Intn(1<<16))

	*baseDir = filepath.Join(root, "base")
	*pcapDir = "pcap"
	*userPassword = ""
	*pcapPassword = ""
	mgr, err := manager.New(w.capture+"/", filepath.Join(root, "mgr/index")+"/", filepath.Join(root, "mgr/snapshot")+"/",
		filepath.Join(root, "mgr/state")+"/", filepath.Join(root, "mgr/converter")+"/", filepath.Join(root, "mgr/watch")+"/")
	vMust(t, err)
	w.mgr = mgr
	ch, closeL := mgr.Listen()
	w.closeL = closeL
	w.evDone = make(chan struct{})
	go func() {
		defer close(w.evDone)
		for e := range ch {
			if e.Type == "pcapArrived" {
				atomic.AddInt64(&w.arrived, 1)
			}
		}
	}()
	router := setupRouter(mgr, nil, nil)
	w.srv = httptest.NewServer(http.HandlerFunc(func(rw http.ResponseWriter, r *http.Request) {
		atomic.AddInt64(&w.active, 1)
		defer atomic.AddInt64(&w.active, -1)
		if id := r.Header.Get("X-Verif-Gate"); id != "" {
			if g, ok := w.gates.Load(id); ok {
				gate := g.(*vGate)
				r.Body = &vBody{rc: r.Body, g: gate}
				defer close(gate.done)
			}
		}
		router.ServeHTTP(rw, r)
	}))
	return w
}

func (w *vWorld) close() {
	w.srv.Close()
	w.closeL()
	w.mgr.Close()
	select {
	case <-w.evDone:
	case <-time.After(5 * time.Second):
	}
	os.RemoveAll(w.root)
}

// wait until no handler runs and the importer has worked off its queue
func (w *vWorld) quiesce(t *testing.T) {
	deadline := time.Now().Add(20 * time.Second)
	for {
		if atomic.LoadInt64(&w.active) == 0 && w.mgr.Status().ImportJobCount == 0 && atomic.LoadInt64(&w.active) == 0 {
			return
		}
		if time.Now().After(deadline) {
			t.Fatalf("harness: world %d does not come to rest", w.id)
		}
		time.Sleep(200 * time.Microsecond)
	}
}

// ---- file system observation

type vScan struct {
	fs      vFS
	inside  map[string]string // name -> digest
	outside map[string]string // zone/rel -> digest
	content map[string][]byte // "zone\x00name" -> content (for matching response bodies)
}

func (w *vWorld) scan(t *testing.T) *vScan {
	s := &vScan{inside: map[string]string{}, outside: map[string]string{}, content: map[string][]byte{}}
	mgrDir := filepath.Join(w.root, "mgr")
	baseD := filepath.Join(w.root, "base")
	err := filepath.Walk(w.root, func(p string, info os.FileInfo, err error) error {
		if err != nil {
			return err
		}
		if p == mgrDir {
			return filepath.SkipDir
		}
		if p == w.root {
			return nil
		}
		var zone, rel string
		switch {
		case p == w.capture || strings.HasPrefix(p, w.capture+"/"):
			zone, rel = "inside", strings.TrimPrefix(strings.TrimPrefix(p, w.capture), "/")
		case p == baseD || strings.HasPrefix(p, baseD+"/"):
			zone, rel = "base", strings.TrimPrefix(strings.TrimPrefix(p, baseD), "/")
		default:
			zone, rel = "outer", strings.TrimPrefix(p, w.root+"/")
		}
		var dg string
		if info.IsDir() {
			if zone == "inside" {
				return nil // directories inside are implied by their files
			}
			dg = "dir"
		} else if info.Mode().IsRegular() {
			b, err := os.ReadFile(p)
			if err != nil {
				return err
			}
			dg = vDigest(b)
			if len(b) > 0 {
				s.content[zone+"\x00"+rel] = b
			}
		} else {
			dg = "special:" + info.Mode().String()
		}
		if zone == "inside" {
			s.inside[rel] = dg
		} else {
			s.outside[zone+"/"+rel] = dg
		}
		return nil
	})
	vMust(t, err)
	names := make([]string, 0, len(s.inside))
	for n := range s.inside {
		names = append(names, n)
	}
	sort.Strings(names)
	s.fs.Inside = []vFile{}
	for _, n := range names {
		s.fs.Inside = append(s.fs.Inside, vFile{N: vq(n), C: s.inside[n]})
	}
	for _, z := range []string{"base", "outer"} {
		keys := []string{}
		for k := range s.outside {
			if strings.HasPrefix(k, z+"/") {
				keys = append(keys, k)
			}
		}
		sort.Strings(keys)
		h := sha256.New()
		for _, k := range keys {
			fmt.Fprintf(h, "%q=%s\n", k, s.outside[k])
		}
		d := z + ":" + hex.EncodeToString(h.Sum(nil)[:10])
		if z == "base" {
			s.fs.Base = d
		} else {
			s.fs.Outer = d
		}
	}
	return s
}

func vDiff(a, b *vScan) (created, outside []string) {
	created, outside = []string{}, []string{}
	for n := range b.inside {
		if _, ok := a.inside[n]; !ok {
			created = append(created, vq(n))
		}
	}
	for k, d := range b.outside {
		if a.outside[k] != d {
			outside = append(outside, vq(k))
		}
	}
	for k := range a.outside {
		if _, ok := b.outside[k]; !ok {
			outside = append(outside, vq(k)+" (removed)")
		}
	}
	sort.Strings(created)
	sort.Strings(outside)
	return
}

// ---- raw HTTP

type vResp struct {
	status int
	body   []byte
}

func (w *vWorld) raw(method, target string, body []byte, gate string) vResp {
	conn, err := net.DialTimeout("tcp", w.srv.Listener.Addr().String(), 5*time.Second)
	if err != nil {
		return vResp{status: -1}
	}
	defer conn.Close()
	_ = conn.SetDeadline(time.Now().Add(60 * time.Second))
	var b bytes.Buffer
	fmt.Fprintf(&b, "%s %s HTTP/1.1\r\nHost: verif\r\nConnection: close\r\n", method, target)
	if gate != "" {
		fmt.Fprintf(&b, "X-Verif-Gate: %s\r\n", gate)
	}
	if method == "POST" {
		fmt.Fprintf(&b, "Content-Type: application/octet-stream\r\nContent-Length: %d\r\n", len(body))
	}
	b.WriteString("\r\n")
	b.Write(body)
	if _, err := conn.Write(b.Bytes()); err != nil {
		// the server may answer and close before everything is written; still try to read the answer
		_ = err
	}
	resp, err := http.ReadResponse(bufio.NewReader(conn), nil)
	if err != nil {
		return vResp{status: 0}
	}
	defer resp.Body.Close()
	rb, _ := io.ReadAll(resp.Body)
	return vResp{status: resp.StatusCode, body: rb}
}

// ---- concretisation: abstract path class -> literal spellings

func vEncAll(s string) string {
	var b strings.Builder
	for i := 0; i < len(s); i++ {
		fmt.Fprintf(&b, "%%%02x", s[i])
	}
	return b.String()
}

// templates: {F} file name, {S} stem, {E} suffix with dot, {e} suffix without dot, {T} temp root, {t} temp root with %2F
var vTemplates = map[string][]string{
	"plain":     {"{F}"},
	"enc_plain": {"{f1}", "{S}%2E{e}", "{S}%2e{e}", "{S}.%70cap{ng}", "{fall}", "{S}%2Epca%70{ng}"},
	"dot_before": {"./{F}", "../{F}", "../../{F}", "../outside/{F}", "../index/{F}", "../../outside/{F}", "../pcapx/{F}",
		"sub/../../{F}", ".../{F}", "../state/{F}"},
	"dot_after": {"{F}/.", "{F}/..", "{F}/../{F}", "x/../{F}", "sub/{F}", "{F}/../../secret.pcap", "sub/../{F}", "{F}/",
		"sub/../../outside/{F}"},
	"enc_slash": {"..%2F{F}", "..%2f..%2f{F}", "..%2Foutside%2F{F}", "..%2Findex%2F{F}", "..%2F..%2Foutside%2F{F}", "sub%2F{F}",
		"sub%2F..%2F..%2F{F}", "..%2Fpcapx%2F{F}", "%2F{F}", "../outside%2F{F}", "..%2Foutside/{F}", "..%2F.%2Foutside%2F{F}"},
	"enc_backslash": {"..%5C{F}", "..%5c..%5c{F}", "..\\{F}", "..%5Coutside%5C{F}", "..\\outside\\{F}", "%5C{F}", "sub%5C{F}",
		"..%5C/{F}", "..%5C..%2Foutside%2F{F}"},
	"enc_dot": {"%2e%2e/{F}", "%2E%2E%2F{F}", ".%2e/{F}", "%2e./outside/{F}", "%2e%2e%2foutside%2f{F}", "%2e/{F}",
		"%2e%2e%2f%2e%2e%2foutside%2f{F}", "%2e%2e%5c{F}", "%2E%2E%2Findex%2F{F}", ".%2E%2Foutside%2F{F}"},
	"double_enc": {"..%252F{F}", "%252e%252e%252f{F}", "..%25252F{F}", "%252e%252e/{F}", "..%252Foutside%252F{F}",
		"%25%32%65%25%32%65%25%32%66{F}", "..%255c{F}", "{S}%252e{e}", "..%25%32%46outside%25%32%46{F}"},
	"absolute": {"{T}/outside/{F}", "{t}%2Foutside%2F{F}", "/{F}", "%2F%2F{F}", "{t}%2Fbase%2Fpcap%2F{F}", "/etc/{F}",
		"file:%2F%2F{t}%2F{F}", "C:%5C{F}", "{T}/{F}", "%2Ftmp%2F{F}", "{t}%2F{F}"},
	"empty_seg": {"//{F}", "/{F}", ".//{F}", "{F}//", "sub//{F}", "..//{F}", "/../{F}", "%2F%2F{F}", "/..%2Foutside%2F{F}"},
	"odd_suffix": {"{S}{E}.", "{S}{E}x", "{S}.PCAP", "{S}{E}%20", "{S}{E}/", "{S}.pcap.pcapng", "{E}", "{S}.pcapngng", "{S}.txt",
		"{S}.pcap.txt", "{S}..pcap", "{S}{E}~", "..{e}", "..{E}", "{S}{E}.pcap", "{S}.pcapng.pcap", "..%2Foutside%2F{S}{E}.", "{S}"},
	"long": {"{L200}{E}", "{L249}{E}", "{L250}{E}", "{L251}{E}", "{L300}{E}", "{L1024}{E}", "{L5000}{E}", "..%2Foutside%2F{L300}{E}",
		"{L70000}{E}", "{D300}{F}"},
	"nul": {"{S}%00{E}", "%00{F}", "{F}%00", "..%00/{F}", "{S}\x00{E}", "..%2F%00{F}", "{S}{E}%00.txt", "%00/../{F}",
		"..%2Foutside%2F{S}%00{E}", "..%2Foutside%2F{F}%00"},
	"bad_escape": {"{S}%zz{E}", "{S}%{E}", "{S}%2{E}", "%{F}", "{S}%u002e{e}", "{F}%", "..%c0%af{F}", "%%32%65{F}",
		"..%2Foutside%2F{S}%zz{E}", "..%2Foutside%2F{F}%"},
	"unicode": {"%c0%ae%c0%ae%c0%af{F}", "%e2%80%a5/{F}", "%ef%bc%8f{F}", "..%ef%bc%8f{F}", "%ff{F}", "{S}\xc3\xa9{E}",
		"..%e2%88%95{F}", "..%e2%81%84{F}", "{S}%c3%a9{E}", "..%2Foutside%2F{S}%c3%a9{E}"},
	"query": {"{F}?x=../y.pcap", "../x?{F}", "{S}?{E}", "{F}#frag", "{F};a=b", "x.txt?/{F}", "{F}?", "..;/{F}",
		"..%2Foutside%2F{F}?a=b", "{S}%3F{E}", "{S}%23{E}"},
}

func (w *vWorld) spell(cls string, v int, stem, ext string) (string, int) {
	tpls := vTemplates[cls]
	if len(tpls) == 0 {
		tpls = vTemplates["plain"]
	}
	// the abstract variant number selects the spelling; the seed rotates the table so that over
	// several seeds every spelling meets every stem/suffix/position in a sequence
	rot, ok := w.rot[cls]
	if !ok {
		rot = w.rnd.Intn(len(tpls))
		w.rot[cls] = rot
	}
	idx := (v + rot) % len(tpls)
	s := tpls[idx]
	E := "." + ext
	F := stem + E
	ng := ""
	if ext == "pcapng" {
		ng = "ng"
	}
	pad := func(n int) string {
		if n <= len(stem) {
			return stem
		}
		return stem + strings.Repeat("x", n-len(stem))
	}
	for _, n := range []int{200, 249, 250, 251, 300, 1024, 5000, 70000} {
		// {Ln}: a name of n characters before the suffix
		s = strings.ReplaceAll(s, fmt.Sprintf("{L%d}", n), pad(n))
	}
	s = strings.ReplaceAll(s, "{D300}", strings.Repeat("../", 100))
	r := strings.NewReplacer("{F}", F, "{S}", stem, "{E}", E, "{e}", ext, "{ng}", ng, "{T}", w.root,
		"{t}", strings.ReplaceAll(w.root, "/", "%2F"), "{f1}", fmt.Sprintf("%%%02x", F[0])+F[1:], "{fall}", vEncAll(F))
	return r.Replace(s), idx
}

// ----------------------------------------------------------------------------- driver

type vRun struct {
	t       *testing.T
	in      vInput
	rnd     *rand.Rand
	tmp     string
	out     *bufio.Writer
	nworld  int
	rows    int
	stats   map[string]int
	tplSeen map[string]bool
}

func (r *vRun) emit(row *vRow) {
	if row.Queued == nil {
		row.Queued = []string{}
	}
	if row.Reads == nil {
		row.Reads = []vRead{}
	}
	if row.Created == nil {
		row.Created = []string{}
	}
	if row.Outside == nil {
		row.Outside = []string{}
	}
	if row.Sched == nil {
		row.Sched = []string{}
	}
	b, err := json.Marshal(row)
	vMust(r.t, err)
	r.out.Write(b)
	r.out.WriteByte('\n')
	r.rows++
}

func (r *vRun) newWorld() *vWorld {
	r.nworld++
	return vNewWorld(r.t, r.nworld, r.tmp, r.rnd)
}

func (w *vWorld) body(tag string) []byte {
	if tag == "s" && w.rnd.Intn(8) == 0 {
		return []byte{} // an empty capture is a file like any other: its name is taken afterwards
	}
	var b bytes.Buffer
	fmt.Fprintf(&b, "VB-%d-%d-%s-%08x-%08x\n", w.id, w.nreq, tag, w.rnd.Uint32(), w.rnd.Uint32())
	n := 0
	switch w.rnd.Intn(10) {
	case 0:
		n = 70000 + w.rnd.Intn(5000)
	case 1, 2, 3:
		n = w.rnd.Intn(2000)
	default:
		n = w.rnd.Intn(64)
	}
	for i := 0; i < n; i++ {
		b.WriteByte(byte('a' + w.rnd.Intn(26)))
	}
	return b.Bytes()
}

// events and importer lines since the last observation; waits (bounded) until both agree, because an
// event may be delivered by a helper goroutine of the manager a moment after the service loop emitted it
func (w *vWorld) takeEvents(queued int) int {
	deadline := time.Now().Add(2 * time.Second)
	for atomic.LoadInt64(&w.arrived) < int64(queued) && time.Now().Before(deadline) {
		time.Sleep(100 * time.Microsecond)
	}
	for i := 0; i < 3; i++ {
		time.Sleep(50 * time.Microsecond)
	}
	return int(atomic.SwapInt64(&w.arrived, 0))
}

func vReads(s *vScan, body []byte) []vRead {
	res := []vRead{}
	keys := []string{}
	for k := range s.content {
		keys = append(keys, k)
	}
	sort.Strings(keys)
	for _, k := range keys {
		if len(s.content[k]) != 0 && bytes.Contains(body, s.content[k]) { // (an empty file cannot be recognised in a response)
			i := strings.IndexByte(k, 0)
			res = append(res, vRead{Z: k[:i], N: vq(k[i+1:])})
		}
	}
	return res
}

func (r *vRun) single(w *vWorld, q vReq, pre *vScan) *vScan {
	stem := w.stems[q.Nm]
	tail, idx := w.spell(q.Cls, q.V, stem, q.Ext)
	r.tplSeen[fmt.Sprintf("%s/%s/%d", q.Op, q.Cls, idx)] = true
	row := &vRow{W: w.id, N: w.nreq, Op: q.Op, Cls: q.Cls, Var: idx, Name: vq(stem + "." + q.Ext), Ext: q.Ext, Pre: pre.fs}
	w.nreq++
	var resp vResp
	if q.Op == "download" {
		target := "/api/download/pcap/" + tail
		row.Path = vq(target)
		resp = w.raw("GET", target, nil, "")
		row.Body = ""
	} else {
		target := "/upload/" + tail
		row.Path = vq(target)
		body := w.body("s")
		row.Body = vDigest(body)
		resp = w.raw("POST", target, body, "")
	}
	w.quiesce(r.t)
	row.Status = resp.status
	row.Queued = []string{}
	for _, n := range vLog.takeQueued() {
		row.Queued = append(row.Queued, vq(n))
	}
	row.Events = w.takeEvents(len(row.Queued))
	post := w.scan(r.t)
	row.Post = post.fs
	row.Created, row.Outside = vDiff(pre, post)
	if q.Op == "download" {
		row.Reads = vReads(pre, resp.body)
	}
	r.stats[fmt.Sprintf("%s.%s.%d", q.Op, q.Cls, resp.status)]++
	if q.Op == "upload" && resp.status == 200 {
		r.stats["upload.accepted"]++
	}
	if q.Op == "download" && len(row.Reads) > 0 {
		r.stats["download.served"]++
	}
	r.emit(row)
	return post
}

func (r *vRun) pair(w *vWorld, q vReq, sc vSched, pre *vScan) *vScan {
	stem := w.stems[q.Nm]
	plain := stem + "." + q.Ext
	if sc.Pre {
		// the contested name is stored beforehand by an ordinary upload (recorded as its own row)
		pre = r.single(w, vReq{Op: "upload", Cls: "plain", Nm: q.Nm, Ext: q.Ext}, pre)
	}
	alt := q.Cls
	if alt == "plain" {
		alt = "enc_plain"
	}
	altTail, _ := w.spell(alt, q.V, stem, q.Ext)
	tails := map[string]string{"A": plain, "B": plain}
	clss := map[string]string{"A": "plain", "B": "plain"}
	if !sc.PlainA {
		tails["A"], clss["A"] = altTail, alt
	}
	if !sc.PlainB {
		tails["B"], clss["B"] = altTail, alt
	}
	bodies := map[string][]byte{"A": w.body("A"), "B": w.body("B")}
	gates := map[string]*vGate{}
	results := map[string]chan vResp{}
	answered := map[string]chan struct{}{}
	for _, u := range []string{"A", "B"} {
		gates[u] = &vGate{waiting: make(chan struct{}), cmd: make(chan string), done: make(chan struct{}), half: len(bodies[u]) / 2}
		w.gates.Store(fmt.Sprintf("g%d%s", w.nreq, u), gates[u])
		results[u] = make(chan vResp, 1)
		answered[u] = make(chan struct{})
	}
	_, exists := pre.inside[plain]
	row := &vRow{W: w.id, N: w.nreq, Op: "pair", Cls: clss["A"], Cls2: clss["B"], Name: vq(plain), Ext: q.Ext, Pre: pre.fs,
		Path: vq("/upload/" + tails["A"]), Path2: vq("/upload/" + tails["B"]), Same: tails["A"] == tails["B"],
		Body: vDigest(bodies["A"]), Body2: vDigest(bodies["B"]), SchedID: sc.ID,
		HasExp: sc.HasExp && clss["A"] == "plain" && clss["B"] == "plain" && (sc.Pre || !exists),
		ExpA:   sc.Exp["A"], ExpB: sc.Exp["B"]}
	nreq := w.nreq
	w.nreq++
	step := func(u, what string) {
		g := gates[u]
		wait := func() {
			select {
			case <-g.waiting:
			case <-g.done:
			case <-answered[u]: // answered without reaching the router (malformed request line)
			case <-time.After(20 * time.Second):
				r.t.Fatalf("harness: schedule step %s/%s never arrives (world %d)", u, what, w.id)
			}
		}
		switch what {
		case "open":
			go func() {
				results[u] <- w.raw("POST", "/upload/"+tails[u], bodies[u], fmt.Sprintf("g%d%s", nreq, u))
				close(answered[u])
			}()
			wait()
		case "half":
			select {
			case g.cmd <- "half":
				wait()
			case <-g.done:
			case <-answered[u]:
			}
		case "fin", "abort":
			select {
			case g.cmd <- what:
				select {
				case <-g.done:
				case <-time.After(20 * time.Second):
					r.t.Fatalf("harness: handler of %s does not return (world %d)", u, w.id)
				}
			case <-g.done:
			case <-answered[u]:
			}
		}
	}
	for _, s := range sc.Steps {
		row.Sched = append(row.Sched, s[0]+":"+s[1])
		step(s[0], s[1])
	}
	// the server may make more of a path than the schedule's model run did (a re-spelled path the model
	// refused at open is stored literally by the server): let such an upload run to its end
	for _, u := range []string{"A", "B"} {
		select {
		case <-gates[u].done:
		case <-answered[u]:
		default:
			row.Sched = append(row.Sched, u+":fin*")
			step(u, "fin")
		}
	}
	st := map[string]int{}
	for _, u := range []string{"A", "B"} {
		select {
		case resp := <-results[u]:
			st[u] = resp.status
		case <-time.After(20 * time.Second):
			r.t.Fatalf("harness: no answer for uploader %s (world %d)", u, w.id)
		}
	}
	w.quiesce(r.t)
	row.Status, row.Status2 = st["A"], st["B"]
	for _, n := range vLog.takeQueued() {
		row.Queued = append(row.Queued, vq(n))
	}
	row.Events = w.takeEvents(len(row.Queued))
	post := w.scan(r.t)
	row.Post = post.fs
	row.Created, row.Outside = vDiff(pre, post)
	r.stats[fmt.Sprintf("pair.%d.%d", st["A"], st["B"])]++
	r.stats["pair.rows"]++
	r.emit(row)
	return post
}

// the names handed to the importer are read from the importer's log; if an arrival event is seen for an
// ordinary upload but no log line is recognised, the log format has changed and the harness is blind
func (r *vRun) calibrate() {
	w := r.newWorld()
	defer w.close()
	vLog.takeQueued()
	resp := w.raw("POST", "/upload/calibrate.pcap", []byte("VB-calibrate\n"), "")
	w.quiesce(r.t)
	deadline := time.Now().Add(2 * time.Second)
	for resp.status == 200 && atomic.LoadInt64(&w.arrived) == 0 && time.Now().Before(deadline) {
		time.Sleep(time.Millisecond)
	}
	q := vLog.takeQueued()
	if atomic.LoadInt64(&w.arrived) > 0 && len(q) == 0 {
		r.t.Fatalf("harness: arrival event seen but the importer's log line was not recognised")
	}
}

func (r *vRun) sequence(seq []vReq) {
	w := r.newWorld()
	defer w.close()
	vLog.takeQueued()
	cur := w.scan(r.t)
	for _, q := range seq {
		if q.Op == "pair" {
			if len(r.in.Scheds) == 0 {
				continue
			}
			cur = r.pair(w, q, r.in.Scheds[q.K%len(r.in.Scheds)], cur)
		} else {
			cur = r.single(w, q, cur)
		}
	}
}

func TestVerifUpload(t *testing.T) {
	inPath := os.Getenv("VERIF_IN")
	if inPath == "" {
		t.Skip("VERIF_IN not set")
	}
	raw, err := os.ReadFile(inPath)
	vMust(t, err)
	var in vInput
	vMust(t, json.Unmarshal(raw, &in))
	seed, _ := strconv.ParseInt(os.Getenv("VERIF_SEED"), 10, 64)
	tf, err := os.Create(os.Getenv("VERIF_TRACE"))
	vMust(t, err)
	defer tf.Close()
	r := &vRun{t: t, in: in, rnd: rand.New(rand.NewSource(seed*7919 + 19)), out: bufio.NewWriterSize(tf, 1<<20),
		stats: map[string]int{}, tplSeen: map[string]bool{}}
	r.tmp = os.Getenv("VERIF_TMP")
	if r.tmp == "" {
		r.tmp = t.TempDir()
	}
	log.SetOutput(vLog)
	defer log.SetOutput(os.Stderr)

	t0 := time.Now()
	r.calibrate()
	for _, seq := range in.Seqs {
		r.sequence(seq)
	}
	// every two-uploader schedule of the model, several times, each in a fresh world
	for rep := 0; rep < in.PairReps; rep++ {
		for i := 0; i < len(in.Scheds); i += 4 {
			seq := []vReq{}
			for j := i; j < i+4 && j < len(in.Scheds); j++ {
				nm := "n1"
				if j%2 == 1 {
					nm = "n2"
				}
				ext := "pcap"
				if (j/2)%2 == 1 {
					ext = "pcapng"
				}
				classes := []string{"enc_plain", "enc_slash", "enc_dot", "odd_suffix", "long", "unicode"}
				seq = append(seq, vReq{Op: "pair", Cls: classes[r.rnd.Intn(len(classes))], Nm: nm, Ext: ext, V: r.rnd.Intn(8), K: j})
			}
			r.sequence(seq)
		}
	}
	vMust(t, r.out.Flush())
	sum := map[string]any{"rows": r.rows, "worlds": r.nworld, "stats": r.stats, "templates_exercised": len(r.tplSeen),
		"seconds": time.Since(t0).Seconds()}
	ntpl := 0
	for _, v := range vTemplates {
		ntpl += 2 * len(v) // each spelling is used by uploads and by downloads
	}
	sum["templates_total"] = ntpl
	b, _ := json.MarshalIndent(sum, "", " ")
	vMust(t, os.WriteFile(os.Getenv("VERIF_OUT"), b, 0644))
}

package bitmask

// C17 conformance harness (injected by `go test -overlay`, never committed to /repo).
// Input : VERIF_IN  = ndjson transition table printed by TLC from spec/Bitmask.tla
// Output: VERIF_OUT = json summary with mismatches; VERIF_TRACE = ndjson traces of
//         sampled walks for validation by spec/BitmaskTrace.tla.

import (
	"bufio"
	"encoding/json"
	"fmt"
	"math/rand"
	"os"
	"sort"
	"strconv"
	"testing"
)

type vTrans struct {
	Op  string `json:"op"`
	Arg int    `json:"arg"`
	Val bool   `json:"val"`
	Res bool   `json:"res"`
	A   []int  `json:"a"`
	B   []int  `json:"b"`
	A2  []int  `json:"a2"`
	B2  []int  `json:"b2"`
}

func vKey(s []int) int {
	k := 0
	for _, b := range s {
		k |= 1 << uint(b)
	}
	return k
}

// ---- uniform wrapper over the three representations

type vRep interface {
	name() string
	set(uint)
	unset(uint)
	flip(uint)
	or(vRep)
	and(vRep)
	sub(vRep)
	xor(vRep)
	cp() vRep
	shrink() bool
	inject(uint, bool)
	extract(uint) (bool, bool)
	isSet(uint) bool
	ones() int
	length() int
	zero() bool
	equal(vRep) bool
	next(uint) (int, bool)
}

type vLong struct{ m LongBitmask }

func (r *vLong) name() string        { return "Long" }
func (r *vLong) set(b uint)          { r.m.Set(b) }
func (r *vLong) unset(b uint)        { r.m.Unset(b) }
func (r *vLong) flip(b uint)         { r.m.Flip(b) }
func (r *vLong) or(o vRep)           { r.m.Or(o.(*vLong).m) }
func (r *vLong) and(o vRep)          { r.m.And(o.(*vLong).m) }
func (r *vLong) sub(o vRep)          { r.m.Sub(o.(*vLong).m) }
func (r *vLong) xor(o vRep)          { r.m.Xor(o.(*vLong).m) }
func (r *vLong) cp() vRep            { return &vLong{r.m.Copy()} }
func (r *vLong) shrink() bool        { r.m.Shrink(); return true }
func (r *vLong) inject(b uint, v bool) { r.m.Inject(b, v) }
func (r *vLong) extract(uint) (bool, bool) { return false, false }
func (r *vLong) isSet(b uint) bool   { return r.m.IsSet(b) }
func (r *vLong) ones() int           { return r.m.OnesCount() }
func (r *vLong) length() int         { return r.m.Len() }
func (r *vLong) zero() bool          { return r.m.IsZero() }
func (r *vLong) equal(o vRep) bool   { return r.m.Equal(o.(*vLong).m) }
func (r *vLong) next(from uint) (int, bool) {
	b := from
	if r.m.Next(&b) {
		return int(b), true
	}
	return -1, true
}

type vShort struct{ m ShortBitmask }

func (r *vShort) name() string        { return "Short" }
func (r *vShort) set(b uint)          { r.m.Set(b) }
func (r *vShort) unset(b uint)        { r.m.Unset(b) }
func (r *vShort) flip(b uint)         { r.m.Flip(b) }
func (r *vShort) or(o vRep)           { r.m.Or(o.(*vShort).m) }
func (r *vShort) and(o vRep)          { r.m.And(o.(*vShort).m) }
func (r *vShort) sub(o vRep)          { r.m.Sub(o.(*vShort).m) }
func (r *vShort) xor(o vRep)          { r.m.Xor(o.(*vShort).m) }
func (r *vShort) cp() vRep            { return &vShort{r.m.Copy()} }
func (r *vShort) shrink() bool        { r.m.Shrink(); return true }
func (r *vShort) inject(b uint, v bool) { r.m.Inject(b, v) }
func (r *vShort) extract(b uint) (bool, bool) { return r.m.Extract(b), true }
func (r *vShort) isSet(b uint) bool   { return r.m.IsSet(b) }
func (r *vShort) ones() int           { return r.m.OnesCount() }
func (r *vShort) length() int         { return r.m.Len() }
func (r *vShort) zero() bool          { return r.m.IsZero() }
func (r *vShort) equal(o vRep) bool   { return r.m.Equal(o.(*vShort).m) }
func (r *vShort) next(uint) (int, bool) { return 0, false }

type vConn struct{ m ConnectedBitmask }

func (r *vConn) name() string        { return "Connected" }
func (r *vConn) set(b uint)          { r.m.Set(b) }
func (r *vConn) unset(b uint)        { r.m.Unset(b) }
func (r *vConn) flip(b uint)         { r.m.Flip(b) }
func (r *vConn) or(o vRep)           { r.m.Or(o.(*vConn).m) }
func (r *vConn) and(o vRep)          { r.m.And(o.(*vConn).m) }
func (r *vConn) sub(o vRep)          { r.m.Sub(o.(*vConn).m) }
func (r *vConn) xor(o vRep)          { r.m.Xor(o.(*vConn).m) }
func (r *vConn) cp() vRep            { return &vConn{r.m.Copy()} }
func (r *vConn) shrink() bool        { return false }
func (r *vConn) inject(b uint, v bool) { r.m.Inject(b, v) }
func (r *vConn) extract(b uint) (bool, bool) { return r.m.Extract(b), true }
func (r *vConn) isSet(b uint) bool   { return r.m.IsSet(b) }
func (r *vConn) ones() int           { return r.m.OnesCount() }
func (r *vConn) length() int         { return r.m.Len() }
func (r *vConn) zero() bool          { return r.m.IsZero() }
func (r *vConn) equal(o vRep) bool   { return r.m.Equal(o.(*vConn).m) }
func (r *vConn) next(uint) (int, bool) { return 0, false }

func vNew(kind int) vRep {
	switch kind {
	case 0:
		return &vLong{}
	case 1:
		return &vShort{}
	}
	return &vConn{}
}

// canonical construction: ascending Set calls on a fresh mask
func vBuild(kind int, set []int, base int) vRep {
	r := vNew(kind)
	for _, b := range set {
		r.set(uint(base + b))
	}
	return r
}

// alternative construction orders, to reach different internal representations of the same set
func vBuildVariant(kind int, set []int, base int, variant int, W int) vRep {
	r := vNew(kind)
	switch variant {
	case 0:
		for _, b := range set {
			r.set(uint(base + b))
		}
	case 1: // descending
		for i := len(set) - 1; i >= 0; i-- {
			r.set(uint(base + set[i]))
		}
	case 2: // fill the window (and one word beyond) then unset the complement
		in := map[int]bool{}
		for _, b := range set {
			in[b] = true
		}
		r.set(uint(base + W + 64))
		for b := 0; b < W; b++ {
			r.set(uint(base + b))
		}
		for b := 0; b < W; b++ {
			if !in[b] {
				r.unset(uint(base + b))
			}
		}
		r.unset(uint(base + W + 64))
		for _, b := range set { // (elements above the window: the far bit)
			if b >= W {
				r.set(uint(base + b))
			}
		}
	}
	return r
}

type vMismatch struct {
	Key   string      `json:"key"`
	What  string      `json:"what"`
	Mode  string      `json:"mode"`
	Base  int         `json:"base"`
	Trace interface{} `json:"trace,omitempty"`
}

type vObs struct {
	A     []int `json:"a"`
	B     []int `json:"b"`
	Len   int   `json:"len"`
	Ones  int   `json:"ones"`
	Zero  bool  `json:"zero"`
	Res   bool  `json:"res"`
	Sup   bool  `json:"sup"`
	EqC   bool  `json:"eqc"`
	EqAB  bool  `json:"eqab"`
	Next  []int `json:"next"`
	Panic string `json:"panic"`
}

func vScan(r vRep, base, W int) []int {
	res := []int{}
	lo := 0
	hi := base + W + 150
	for b := lo; b < hi; b++ {
		if r.isSet(uint(b)) {
			res = append(res, b-base)
		}
	}
	return res
}

func vEqInts(a, b []int) bool {
	if len(a) != len(b) {
		return false
	}
	for i := range a {
		if a[i] != b[i] {
			return false
		}
	}
	return true
}

// apply one operation on (a,b) of one representation; returns new a,b, result, supported, panic text
func vApply(kind int, a, b vRep, t *vTrans, base int, expA2 []int) (na, nb vRep, res bool, sup bool, pan string) {
	na, nb, sup = a, b, true
	defer func() {
		if r := recover(); r != nil {
			pan = fmt.Sprint(r)
		}
	}()
	bit := uint(base + t.Arg)
	switch t.Op {
	case "Set":
		a.set(bit)
	case "Unset":
		a.unset(bit)
	case "Flip":
		a.flip(bit)
	case "Or":
		a.or(b)
	case "And":
		a.and(b)
	case "Sub":
		a.sub(b)
	case "Xor":
		a.xor(b)
	case "Copy":
		nb = a.cp()
	case "Swap":
		na, nb = b, a
	case "Shrink":
		sup = a.shrink()
	case "Inject":
		a.inject(bit, t.Val)
	case "Extract":
		res, sup = a.extract(bit)
		if !sup {
			// representation has no Extract: rebuild the register canonically from the model's result
			na = vBuild(kind, expA2, base)
		}
	default:
		panic("unknown op " + t.Op)
	}
	return
}

func vObserve(kind int, a, b vRep, expA, expB []int, base, W int) (o vObs) {
	defer func() {
		if r := recover(); r != nil {
			o.Panic = fmt.Sprint(r)
		}
	}()
	o.A = vScan(a, base, W)
	o.B = vScan(b, base, W)
	o.Len = a.length()
	if o.Len != 0 {
		o.Len -= base
	}
	o.Ones = a.ones()
	o.Zero = a.zero()
	canon := vBuild(kind, expA, base)
	o.EqC = a.equal(canon) && canon.equal(a)
	o.EqAB = a.equal(b)
	o.Next = []int{}
	for f := 0; f <= W; f++ {
		n, ok := a.next(uint(base + f))
		if !ok {
			break
		}
		if n >= 0 {
			n -= base
		}
		o.Next = append(o.Next, n)
	}
	return
}

// harness-side comparison with the model's expectation (table row from TLC)
func vCheck(kind int, o vObs, t *vTrans, res, sup bool, pan string, W int) (string, string) {
	nm := []string{"Long", "Short", "Connected"}[kind]
	k := func(what string) string { return nm + "." + t.Op + ":" + what }
	if pan != "" {
		return k("panic"), pan
	}
	if o.Panic != "" {
		return k("observe-panic"), o.Panic
	}
	if !vEqInts(o.A, t.A2) {
		return k("bits"), fmt.Sprintf("A=%v want %v", o.A, t.A2)
	}
	if !vEqInts(o.B, t.B2) {
		return k("bits-b"), fmt.Sprintf("B=%v want %v", o.B, t.B2)
	}
	if t.Op == "Extract" && sup && res != t.Res {
		return k("result"), fmt.Sprintf("Extract returned %v want %v", res, t.Res)
	}
	wantLen := 0
	if len(t.A2) > 0 {
		wantLen = t.A2[len(t.A2)-1] + 1
	}
	if o.Len != wantLen {
		return k("len"), fmt.Sprintf("Len=%d want %d", o.Len, wantLen)
	}
	if o.Ones != len(t.A2) {
		return k("ones"), fmt.Sprintf("OnesCount=%d want %d", o.Ones, len(t.A2))
	}
	if o.Zero != (len(t.A2) == 0) {
		return k("zero"), fmt.Sprintf("IsZero=%v", o.Zero)
	}
	if !o.EqC {
		return k("equal-canon"), fmt.Sprintf("Equal(canonical mask of %v) is false", t.A2)
	}
	if o.EqAB != vEqInts(t.A2, t.B2) {
		return k("equal-ab"), fmt.Sprintf("Equal(A,B)=%v for A=%v B=%v", o.EqAB, t.A2, t.B2)
	}
	for f, n := range o.Next {
		want := -1
		for _, x := range t.A2 {
			if x >= f {
				want = x
				break
			}
		}
		if n != want {
			return k("next"), fmt.Sprintf("Next(%d)=%d want %d", f, n, want)
		}
	}
	return "", ""
}

func TestVerifBitmask(t *testing.T) {
	in := os.Getenv("VERIF_IN")
	if in == "" {
		t.Skip("VERIF_IN not set")
	}
	W, _ := strconv.Atoi(os.Getenv("VERIF_W"))
	seed, _ := strconv.ParseInt(os.Getenv("VERIF_SEED"), 10, 64)
	nWalks, _ := strconv.Atoi(os.Getenv("VERIF_WALKS"))
	walkLen, _ := strconv.Atoi(os.Getenv("VERIF_WALKLEN"))
	nTraced, _ := strconv.Atoi(os.Getenv("VERIF_TRACED"))
	rng := rand.New(rand.NewSource(seed))

	f, err := os.Open(in)
	if err != nil {
		t.Fatal(err)
	}
	var table []vTrans
	sc := bufio.NewScanner(f)
	sc.Buffer(make([]byte, 1<<20), 1<<20)
	for sc.Scan() {
		var tr vTrans
		if err := json.Unmarshal(sc.Bytes(), &tr); err != nil {
			t.Fatal(err)
		}
		for _, p := range []*[]int{&tr.A, &tr.B, &tr.A2, &tr.B2} {
			sort.Ints(*p)
			if *p == nil {
				*p = []int{}
			}
		}
		table = append(table, tr)
	}
	f.Close()
	byState := map[[2]int][]int{}
	for i := range table {
		// (rows with the far bit are replayed one by one only: its position drifts under chained Inject / Extract)
		far := false
		for _, p := range [][]int{table[i].A, table[i].B, table[i].A2, table[i].B2} {
			far = far || (len(p) > 0 && p[len(p)-1] >= 64)
		}
		if far {
			continue
		}
		k := [2]int{vKey(table[i].A), vKey(table[i].B)}
		byState[k] = append(byState[k], i)
	}

	bases := []int{0, 60, 124}
	mism := map[string]*vMismatch{}
	mcount := map[string]int{}
	report := func(key, what, mode string, base int, trace interface{}) {
		mcount[key]++
		if _, ok := mism[key]; !ok {
			mism[key] = &vMismatch{Key: key, What: what, Mode: mode, Base: base, Trace: trace}
		}
	}
	evals := 0
	opsSeen := map[string]bool{}

	// (A1) every transition of the model's state graph, from every construction variant, at every base
	for ti := range table {
		tr := &table[ti]
		for _, base := range bases {
			for variant := 0; variant < 3; variant++ {
				for kind := 0; kind < 3; kind++ {
					a := vBuildVariant(kind, tr.A, base, variant, W)
					b := vBuildVariant(kind, tr.B, base, (variant+1)%3, W)
					na, nb, res, sup, pan := vApply(kind, a, b, tr, base, tr.A2)
					o := vObserve(kind, na, nb, tr.A2, tr.B2, base, W)
					evals++
					if key, what := vCheck(kind, o, tr, res, sup, pan, W); key != "" {
						report(key, what, "transition", base, map[string]interface{}{"variant": variant, "t": tr})
					}
				}
			}
		}
		opsSeen[tr.Op] = true
	}

	// (A2) random walks through the model's graph on persistent objects (chained operations)
	tracef, _ := os.Create(os.Getenv("VERIF_TRACE"))
	tw := bufio.NewWriter(tracef)
	walkSteps := 0
	distinctWalkTrans := map[int]bool{}
	for w := 0; w < nWalks; w++ {
		base := bases[rng.Intn(len(bases))]
		var regs [3][2]vRep
		dead := [3]bool{}
		for k := 0; k < 3; k++ {
			regs[k] = [2]vRep{vNew(k), vNew(k)}
		}
		cur := [2]int{0, 0}
		var hist []*vTrans
		for n := 0; n < walkLen; n++ {
			cands := byState[cur]
			ti := cands[rng.Intn(len(cands))]
			tr := &table[ti]
			// bias: prefer binary/shift operations over single-bit ones
			for tries := 0; tries < 2 && (tr.Op == "Set" || tr.Op == "Unset" || tr.Op == "Shrink"); tries++ {
				ti = cands[rng.Intn(len(cands))]
				tr = &table[ti]
			}
			distinctWalkTrans[ti] = true
			hist = append(hist, tr)
			row := map[string]interface{}{"tr": w, "n": n, "op": tr.Op, "arg": tr.Arg, "val": tr.Val, "base": base}
			obs := map[string]vObs{}
			for kind := 0; kind < 3; kind++ {
				if dead[kind] {
					continue
				}
				na, nb, res, sup, pan := vApply(kind, regs[kind][0], regs[kind][1], tr, base, tr.A2)
				regs[kind] = [2]vRep{na, nb}
				o := vObserve(kind, na, nb, tr.A2, tr.B2, base, W)
				o.Res, o.Sup = res, sup
				if pan != "" {
					o.Panic = pan
				}
				walkSteps++
				obs[[]string{"Long", "Short", "Connected"}[kind]] = o
				if key, what := vCheck(kind, o, tr, res, sup, pan, W); key != "" {
					h := append([]*vTrans(nil), hist...)
					report(key, what, "walk", base, h)
					dead[kind] = true // representation is broken from here on; stop following it
				}
			}
			row["obs"] = obs
			if w < nTraced {
				js, _ := json.Marshal(row)
				tw.Write(js)
				tw.WriteByte('\n')
			}
			cur = [2]int{vKey(tr.A2), vKey(tr.B2)}
		}
	}
	tw.Flush()
	tracef.Close()

	var ml []*vMismatch
	for _, m := range mism {
		ml = append(ml, m)
	}
	sort.Slice(ml, func(i, j int) bool { return ml[i].Key < ml[j].Key })
	ops := []string{}
	for o := range opsSeen {
		ops = append(ops, o)
	}
	sort.Strings(ops)
	out := map[string]interface{}{
		"transitions": len(table), "evaluations": evals, "walks": nWalks, "walk_steps": walkSteps,
		"distinct_walk_transitions": len(distinctWalkTrans), "ops": ops,
		"mismatches": ml, "mismatch_counts": mcount,
	}
	js, _ := json.MarshalIndent(out, "", " ")
	if err := os.WriteFile(os.Getenv("VERIF_OUT"), js, 0o644); err != nil {
		t.Fatal(err)
	}
}

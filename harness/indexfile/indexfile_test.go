package index

// C01 / C07 conformance harness (injected by `go test -overlay`, never committed to /repo).
//
// Input : VERIF_IN    = ndjson of vectors printed by TLC from spec/IndexFileMC.tla (C01) or
//                       spec/IndexFileMergeMC.tla (C07), annotated by the runner (variant, fill, rep)
// Output: VERIF_TRACE = ndjson, one row per written file (C01) / per merge (C07) with what was
//                       written (abstraction of the streams.Stream values handed to AddStream) and
//                       EVERY observation made on the re-opened file(s); validated by spec/IndexFileTrace.tla
//         VERIF_OUT   = json summary (counts)
//
// The harness is an identity recorder: it never computes an expectation of its own except the
// abstraction of what it wrote; all comparisons are made by TLC.

import (
	"crypto/sha1"
	"encoding/hex"
	"encoding/json"
	"fmt"
	"math/rand"
	"net"
	"os"
	"path/filepath"
	"sort"
	"strconv"
	"strings"
	"sync"
	"time"

	"github.com/gopacket/gopacket"
	"github.com/gopacket/gopacket/reassembly"
	"github.com/spq/pkappa2/internal/index/streams"
	pcapmetadata "github.com/spq/pkappa2/internal/tools/pcapMetadata"
)

// ---------------------------------------------------------------- vectors (abstract, from TLC)

type vPkt struct {
	T   int `json:"t"`
	Cap int `json:"cap"`
	Idx int `json:"idx"`
	Dir int `json:"dir"`
}
type vDat struct {
	Pk int `json:"pk"`
	Sz int `json:"sz"`
}
type vStream struct {
	ID    int    `json:"id"`
	Fam   string `json:"fam"`
	C     int    `json:"c"`
	S     int    `json:"s"`
	Cp    int    `json:"cp"`
	Sp    int    `json:"sp"`
	Proto string `json:"proto"`
	Pkts  []vPkt `json:"pkts"`
	Data  []vDat `json:"data"`
}
type vOp struct {
	Op      string    `json:"op"`
	From    int       `json:"from"`
	Streams []vStream `json:"streams"`
}
type vVector struct {
	Vec     string    `json:"vec"`
	Name    string    `json:"name"`
	Regimes []string  `json:"regimes"`
	Streams []vStream `json:"streams"`
	Ops     []vOp     `json:"ops"`
	Variant string    `json:"variant"` // "A" | "B": choice among equally good concretisations
	Fill    bool      `json:"fill"`    // scale host-group capacity back to 16384 / 4096 with filler hosts
	Rep     int       `json:"rep"`     // every packet without payload stands for Rep packets (SkipSat 2 -> 255)
	Random  int       `json:"random"`  // >0: seeded random stream set(s) instead of a TLC vector
	Big     bool      `json:"big"`     // random set with > 16384 hosts
	Seed    int64     `json:"seed"`
}

// ---------------------------------------------------------------- records (abstract, to TLC)

type vRec struct {
	ID    string   `json:"id"`
	Ch    string   `json:"ch"`
	Sh    string   `json:"sh"`
	Cp    int      `json:"cp"`
	Sp    int      `json:"sp"`
	Proto string   `json:"proto"`
	First string   `json:"first"`
	Last  string   `json:"last"`
	Cb    int      `json:"cb"`
	Sb    int      `json:"sb"`
	C     string   `json:"c"`    // digest of the client payload
	S     string   `json:"s"`    // digest of the server payload
	Runs  string   `json:"runs"` // sequence of direction changes, e.g. "CSC"
	Npk   int      `json:"npk"`
	Pkts  string   `json:"pkts"` // digest of the packet references (file, index, direction)
	Pk1   string   `json:"pk1"`  // first packet reference
	Grp   string   `json:"grp"`  // read side only: family and rank of the host group inside its family ("v4#1")
	Gf    string   `json:"gf"`   // ... the family
	Gr    int      `json:"gr"`   // ... the rank
	Gx    bool     `json:"gx"`   // ... a host index of the stream lies outside the group's table
	Feat  []string `json:"feat"` // written side only: features used for narrow signatures
	Err   string   `json:"err"`
}

func (r vRec) same(o vRec) bool {
	return r.ID == o.ID && r.Ch == o.Ch && r.Sh == o.Sh && r.Cp == o.Cp && r.Sp == o.Sp && r.Proto == o.Proto &&
		r.First == o.First && r.Last == o.Last && r.Cb == o.Cb && r.Sb == o.Sb && r.C == o.C && r.S == o.S &&
		r.Runs == o.Runs && r.Npk == o.Npk && r.Pkts == o.Pkts && r.Pk1 == o.Pk1 && r.Err == o.Err
}

const vTimeFmt = "2006-01-02T15:04:05.000000000Z"

func vDigest(h []byte, n int) string {
	return fmt.Sprintf("%d:%s", n, hex.EncodeToString(h[:8]))
}

type vStreamC struct { // a concrete stream handed to AddStream
	s      *streams.Stream
	id     uint64
	filler bool
	w      vRec
}

// the abstraction of a streams.Stream: what the property says must come back
func vAbs(s *streams.Stream, id uint64) vRec {
	r := vRec{ID: strconv.FormatUint(id, 10), Ch: net.IP(s.ClientAddr).String(), Sh: net.IP(s.ServerAddr).String(),
		Cp: int(s.ClientPort), Sp: int(s.ServerPort), Proto: "TCP", Feat: []string{}}
	if s.Flags&streams.StreamFlagsProtocol == streams.StreamFlagsProtocolUDP {
		r.Proto = "UDP"
	}
	r.First = s.Packets[0].Timestamp.UTC().Format(vTimeFmt)
	r.Last = s.Packets[len(s.Packets)-1].Timestamp.UTC().Format(vTimeFmt)
	hc, hs := sha1.New(), sha1.New()
	runs := []byte{}
	split := false
	for _, d := range s.Data {
		dir := s.PacketDirections[d.PacketIndex]
		if len(d.Bytes) > 65535 {
			split = true
		}
		if len(d.Bytes) == 0 {
			continue
		}
		ch := byte('C')
		if dir == reassembly.TCPDirClientToServer {
			hc.Write(d.Bytes)
			r.Cb += len(d.Bytes)
		} else {
			hs.Write(d.Bytes)
			r.Sb += len(d.Bytes)
			ch = 'S'
		}
		if len(runs) == 0 || runs[len(runs)-1] != ch {
			runs = append(runs, ch)
		}
	}
	r.C, r.S, r.Runs = vDigest(hc.Sum(nil), r.Cb), vDigest(hs.Sum(nil), r.Sb), string(runs)
	hp := sha1.New()
	big, caps := false, map[string]bool{}
	for i, p := range s.Packets {
		pmd := pcapmetadata.FromPacketMetadata(&p)
		d := 0
		if s.PacketDirections[i] != reassembly.TCPDirClientToServer {
			d = 1
		}
		ref := fmt.Sprintf("%s:%d:%d", pmd.PcapInfo.Filename, pmd.Index, d)
		if i == 0 {
			r.Pk1 = ref
		}
		if pmd.Index >= 1<<32 {
			big = true
		}
		caps[pmd.PcapInfo.Filename] = true
		hp.Write([]byte(ref + "\n"))
	}
	r.Npk = len(s.Packets)
	r.Pkts = vDigest(hp.Sum(nil), r.Npk)
	if split {
		r.Feat = append(r.Feat, "split")
	}
	if s.Packets[len(s.Packets)-1].Timestamp.Sub(s.Packets[0].Timestamp) >= (time.Microsecond << 32) {
		r.Feat = append(r.Feat, "wrap")
	}
	if big {
		r.Feat = append(r.Feat, "bigidx")
	}
	if len(caps) > 1 {
		r.Feat = append(r.Feat, "captures")
	}
	if len(s.Packets) > 256 {
		r.Feat = append(r.Feat, "longrun")
	}
	return r
}

// everything the property lists, observed on a stream of a re-opened file
func vObserve(st *Stream) (r vRec) {
	r.Feat = []string{}
	defer func() {
		if e := recover(); e != nil {
			r.Err = "panic: " + strings.SplitN(fmt.Sprint(e), "\n", 2)[0]
		}
	}()
	r.ID = strconv.FormatUint(st.ID(), 10)
	hgs := st.r.hostGroups
	if int(st.HostGroup) < len(hgs) {
		rank := 0
		for g := 0; g < int(st.HostGroup); g++ {
			if hgs[g].hostSize == hgs[st.HostGroup].hostSize {
				rank++
			}
		}
		fam := "v4"
		if hgs[st.HostGroup].hostSize == 16 {
			fam = "v6"
		}
		r.Grp, r.Gf, r.Gr = fmt.Sprintf("%s#%d", fam, rank), fam, rank
		r.Gx = int(st.ClientHost) >= hgs[st.HostGroup].hostCount || int(st.ServerHost) >= hgs[st.HostGroup].hostCount
	}
	r.Ch = st.ClientHostIP()
	r.Sh = st.ServerHostIP()
	r.Cp, r.Sp = int(st.ClientPort), int(st.ServerPort)
	r.Proto = st.Protocol()
	r.First = st.FirstPacket().UTC().Format(vTimeFmt)
	r.Last = st.LastPacket().UTC().Format(vTimeFmt)
	r.Cb, r.Sb = int(st.ClientBytes), int(st.ServerBytes)
	data, err := st.Data()
	if err != nil {
		r.Err = "Data: " + err.Error()
		return
	}
	hc, hs := sha1.New(), sha1.New()
	nc, ns := 0, 0
	runs := []byte{}
	for _, d := range data {
		if len(d.Content) == 0 {
			continue
		}
		ch := byte('C')
		if d.Direction == DirectionClientToServer {
			hc.Write(d.Content)
			nc += len(d.Content)
		} else {
			hs.Write(d.Content)
			ns += len(d.Content)
			ch = 'S'
		}
		if len(runs) == 0 || runs[len(runs)-1] != ch {
			runs = append(runs, ch)
		}
	}
	r.C, r.S, r.Runs = vDigest(hc.Sum(nil), nc), vDigest(hs.Sum(nil), ns), string(runs)
	pkts, err := st.Packets()
	if err != nil {
		r.Err = "Packets: " + err.Error()
		return
	}
	hp := sha1.New()
	for i, p := range pkts {
		ref := fmt.Sprintf("%s:%d:%d", p.PcapFilename, p.PcapIndex, int(p.Direction))
		if i == 0 {
			r.Pk1 = ref
		}
		hp.Write([]byte(ref + "\n"))
	}
	r.Npk = len(pkts)
	r.Pkts = vDigest(hp.Sum(nil), r.Npk)
	return
}

// ---------------------------------------------------------------- concretisation (Appendix B of DESIGN.md)

var vT0 = time.Date(2020, 1, 1, 12, 0, 0, 0, time.UTC)

const (
	vRealCapV4 = 16384
	vRealCapV6 = 4096
	vModelCap4 = 4 // CapBytes 7, 2-byte hosts
	vModelCap6 = 2 // CapBytes 7, 4-byte hosts
)

type vConc struct {
	variant string
	rep     int
	rng     *rand.Rand
	pcaps   map[string]*pcapmetadata.PcapInfo
	hostB   map[string][]byte
}

func vNewConc(variant string, rep int, seed int64) *vConc {
	if rep < 1 {
		rep = 1
	}
	return &vConc{variant: variant, rep: rep, rng: rand.New(rand.NewSource(seed)), pcaps: map[string]*pcapmetadata.PcapInfo{}, hostB: map[string][]byte{}}
}

func (c *vConc) pcap(name string) *pcapmetadata.PcapInfo {
	if p, ok := c.pcaps[name]; ok {
		return p
	}
	p := &pcapmetadata.PcapInfo{Filename: name, Filesize: 123, PacketTimestampMin: vT0, PacketTimestampMax: vT0.Add(24 * time.Hour), ParseTime: vT0.Add(48 * time.Hour), PacketCount: 1 << 20}
	c.pcaps[name] = p
	return p
}

// model host -> address.  Variant A: overlapping byte windows in an order that puts 1.2.3.4 next to
// 5.6.7.8 (so a byte-wise, unaligned search would find 3.4.5.6 inside them); variant B: random
// addresses over a three-letter byte alphabet (many incidental overlaps).
func (c *vConc) host(fam string, h int) []byte {
	key := fam + strconv.Itoa(h)
	if b, ok := c.hostB[key]; ok {
		return b
	}
	n := 4
	if fam == "v6" {
		n = 16
	}
	b := make([]byte, n)
	if c.variant == "A" {
		order := []int{0, 4, 2, 1, 3, 5, 6, 7, 8, 9}
		w := order[h%len(order)] * (n / 4)
		for i := range b {
			b[i] = byte(1 + w + i)
		}
	} else {
		for {
			for i := range b {
				b[i] = byte(11 + c.rng.Intn(3))
			}
			if fam == "v6" {
				b[0] = 0xfd
			}
			dup := false
			for _, o := range c.hostB {
				if string(o) == string(b) {
					dup = true
				}
			}
			if !dup {
				break
			}
		}
	}
	c.hostB[key] = b
	return b
}

func (c *vConc) id(id int) uint64 {
	if c.variant == "B" {
		return uint64(id)<<33 + 7
	}
	return uint64(id)
}

// model time units (half seconds, 8 per tick) -> real time; a tick is 2^30 microseconds
func (c *vConc) time(t int) time.Time {
	return vT0.Add(time.Duration(t%8)*500*time.Millisecond + time.Duration(t/8)*(time.Microsecond<<30))
}

// model packet index (ImportSplit 2) -> real index: high part * 2^32 + low part (variant B: right below the boundary)
func (c *vConc) index(idx, j int) uint64 {
	base := uint64(0)
	if c.variant == "B" {
		base = 1<<32 - 512
	}
	return uint64(idx/2)<<32 + base + uint64(idx%2)*256 + uint64(j)
}

// model data units (MaxData 2 <-> 65535 bytes)
func (c *vConc) size(sz int) int {
	k := 23
	if c.variant == "B" {
		k = []int{1, 32768, 65534}[c.rng.Intn(3)]
	}
	return (sz/2)*65535 + (sz%2)*k
}

func vPayload(rng *rand.Rand, n int, marker string) []byte {
	b := make([]byte, n)
	rng.Read(b)
	copy(b, marker)
	return b
}

func (c *vConc) stream(v *vStream, version int) vStreamC {
	s := &streams.Stream{
		ClientAddr: c.host(v.Fam, v.C), ServerAddr: c.host(v.Fam, v.S),
		ClientPort: uint16(v.Cp), ServerPort: uint16(v.Sp), Flags: streams.StreamFlagsProtocolTCP | streams.StreamFlagsComplete,
	}
	if v.Proto == "UDP" {
		s.Flags = streams.StreamFlagsProtocolUDP
	}
	hasData := map[int]bool{}
	for _, d := range v.Data {
		hasData[d.Pk] = true
	}
	pos := map[int]int{} // model packet position -> real packet position (of its first copy)
	for i, p := range v.Pkts {
		n := 1
		if !hasData[i+1] {
			n = c.rep
		}
		pos[i+1] = len(s.Packets)
		for j := 0; j < n; j++ {
			ci := gopacket.CaptureInfo{Timestamp: c.time(p.T), CaptureLength: 60, Length: 60}
			pcapmetadata.AddPcapMetadata(&ci, c.pcap(fmt.Sprintf("cap%d.pcap", p.Cap)), c.index(p.Idx, j))
			s.Packets = append(s.Packets, ci)
			dir := reassembly.TCPDirClientToServer
			if p.Dir == 1 {
				dir = reassembly.TCPDirServerToClient
			}
			s.PacketDirections = append(s.PacketDirections, dir)
		}
	}
	for k, d := range v.Data {
		s.Data = append(s.Data, streams.StreamData{
			Bytes:       vPayload(c.rng, c.size(d.Sz), fmt.Sprintf("<S%dV%dK%d>", v.ID, version, k)),
			PacketIndex: uint64(pos[d.Pk]),
		})
	}
	id := c.id(v.ID)
	return vStreamC{s: s, id: id, w: vAbs(s, id)}
}

// filler streams: two new hosts each, so that the first group of the family has exactly the
// model's capacity left (16384-4 v4 hosts / 4096-2 v6 hosts)
func (c *vConc) fillers(fam string, at time.Time, version int) []vStreamC {
	n := (vRealCapV4 - vModelCap4) / 2
	if fam == "v6" {
		n = (vRealCapV6 - vModelCap6) / 2
	}
	res := make([]vStreamC, 0, n)
	pc := c.pcap("fill.pcap")
	if c.variant == "B" {
		pc = c.pcap("a_fill.pcap")
	}
	for i := 0; i < n; i++ {
		mk := func(k int) []byte {
			if fam == "v4" {
				return []byte{10, byte(k >> 16), byte(k >> 8), byte(k)}
			}
			b := make([]byte, 16)
			b[0], b[1], b[13], b[14], b[15] = 0x20, 0x01, byte(k>>16), byte(k>>8), byte(k)
			return b
		}
		s := &streams.Stream{ClientAddr: mk(2 * i), ServerAddr: mk(2*i + 1), ClientPort: uint16(20000 + i%1000), ServerPort: 443,
			Flags: streams.StreamFlagsProtocolTCP | streams.StreamFlagsComplete}
		off := uint64(0)
		if fam == "v6" {
			off = 1 << 20
		}
		ci := gopacket.CaptureInfo{Timestamp: at.Add(time.Duration(i) * time.Microsecond), CaptureLength: 60, Length: 60}
		pcapmetadata.AddPcapMetadata(&ci, pc, off+uint64(i))
		s.Packets = []gopacket.CaptureInfo{ci}
		s.PacketDirections = []reassembly.TCPFlowDirection{reassembly.TCPDirClientToServer}
		s.Data = []streams.StreamData{{Bytes: []byte(fmt.Sprintf("f%d.%d", i, version)), PacketIndex: 0}}
		// distinct ids per file of a stack: fillers of an older file stay visible after a merge, so that every
		// host of every (remapped) group is read back through some stream
		id := uint64(1_000_000)*uint64(version) + off + uint64(i)
		res = append(res, vStreamC{s: s, id: id, filler: true, w: vAbs(s, id)})
	}
	return res
}

// the AddStream sequence of one file: the vector's streams, with the fillers of a family right
// before the first stream of that family (so that host groups are created in the model's order)
func (c *vConc) file(vs []vStream, fill bool, version int) []vStreamC {
	res := []vStreamC{}
	seen := map[string]bool{}
	for i := range vs {
		if fill && !seen[vs[i].Fam] {
			seen[vs[i].Fam] = true
			res = append(res, c.fillers(vs[i].Fam, c.time(vs[0].Pkts[0].T), version)...)
		}
		res = append(res, c.stream(&vs[i], version))
	}
	return res
}

// ---------------------------------------------------------------- writing and reading back

func vWriteFile(dir string, cs []vStreamC) (r *Reader, err error) {
	defer func() {
		if e := recover(); e != nil {
			err = fmt.Errorf("panic: %v", strings.SplitN(fmt.Sprint(e), "\n", 2)[0])
		}
	}()
	fn := filepath.Join(dir, fmt.Sprintf("w%d.idx", vFileNo()))
	w, err := NewWriter(fn)
	if err != nil {
		return nil, err
	}
	for i := range cs {
		ok, err := w.AddStream(cs[i].s, cs[i].id)
		if err != nil {
			return nil, err
		}
		if !ok {
			return nil, fmt.Errorf("AddStream refused stream %d", cs[i].id)
		}
	}
	r0, err := w.Finalize()
	if err != nil {
		return nil, err
	}
	r0.Close()
	return NewReader(fn) // a fresh reader on the finished file
}

var (
	vFileMtx sync.Mutex
	vFileCnt int
)

func vFileNo() int {
	vFileMtx.Lock()
	defer vFileMtx.Unlock()
	vFileCnt++
	return vFileCnt
}

type vLookup struct {
	Key   string `json:"key"`
	Found bool   `json:"found"`
	Rec   vRec   `json:"rec"`
}

type vFileRow struct {
	Tr      int       `json:"tr"`
	Kind    string    `json:"kind"`
	Name    string    `json:"name"`
	Src     string    `json:"src"`
	Regimes []string  `json:"regimes"`
	Err     string    `json:"err"`
	Written []vRec    `json:"written"`
	All     []vRec    `json:"all"`
	ByID    []vLookup `json:"byid"`
	BySrc   []vLookup `json:"bysrc"`
	ProbeID []vLookup `json:"probeid"`
	ProbeSr []vLookup `json:"probesrc"`
	IDs     []string  `json:"ids"`
	NIDs    int       `json:"nids"`
	NAll    int       `json:"nall"`
	NWrit   int       `json:"nwritten"`
	Min     string    `json:"min"`
	Max     string    `json:"max"`
	WMin    string    `json:"wmin"`
	WMax    string    `json:"wmax"`
	NFill   int       `json:"nfill"`
	FillOK  int       `json:"fillok"`
	FillBad string    `json:"fillbad"`
	FillGrp string    `json:"fillgrp"`
}

var vNoRec = vRec{Feat: []string{}}

func vSplitRef(ref string) (string, uint64) {
	p := strings.Split(ref, ":")
	idx, _ := strconv.ParseUint(p[1], 10, 64)
	return p[0], idx
}

// all observations of C01 on one file
func vReadBack(row *vFileRow, r *Reader, cs []vStreamC) {
	defer func() {
		if e := recover(); e != nil {
			row.Err = "panic: " + strings.SplitN(fmt.Sprint(e), "\n", 2)[0]
		}
	}()
	byID := map[uint64]*vStreamC{}
	firstSrc := map[string]bool{}
	wmin, wmax := ^uint64(0), uint64(0)
	for i := range cs {
		byID[cs[i].id] = &cs[i]
		firstSrc[cs[i].w.Pk1[:strings.LastIndex(cs[i].w.Pk1, ":")]] = true
		if cs[i].id < wmin {
			wmin = cs[i].id
		}
		if cs[i].id > wmax {
			wmax = cs[i].id
		}
		if cs[i].filler {
			row.NFill++
		} else {
			row.Written = append(row.Written, cs[i].w)
		}
	}
	row.NWrit = len(cs)
	row.WMin, row.WMax = strconv.FormatUint(wmin, 10), strconv.FormatUint(wmax, 10)
	row.Min, row.Max = strconv.FormatUint(r.MinStreamID(), 10), strconv.FormatUint(r.MaxStreamID(), 10)
	fillOK := map[uint64]int{}
	fillBad := func(c *vStreamC, how string, o vRec) {
		if row.FillBad == "" {
			js, _ := json.Marshal(o)
			row.FillBad = fmt.Sprintf("filler %d via %s: %s", c.id, how, js)
			row.FillGrp = o.Grp
		}
	}
	// AllStreams
	err := r.AllStreams(func(st *Stream) error {
		row.NAll++
		o := vObserve(st)
		c := byID[st.ID()]
		if c != nil && c.filler {
			if o.same(c.w) {
				fillOK[c.id]++
			} else {
				fillBad(c, "AllStreams", o)
			}
			return nil
		}
		row.All = append(row.All, o)
		return nil
	})
	if err != nil {
		row.Err = "AllStreams: " + err.Error()
		return
	}
	// StreamIDs
	ids := r.StreamIDs()
	row.NIDs = len(ids)
	for id, idx := range ids {
		c := byID[id]
		if c == nil || !c.filler {
			row.IDs = append(row.IDs, strconv.FormatUint(id, 10))
		}
		if st, err := r.StreamByID(id); err != nil || st == nil || st.Index() != idx {
			row.Err = fmt.Sprintf("StreamIDs()[%d] = %d disagrees with StreamByID", id, idx)
		}
	}
	sort.Strings(row.IDs)
	// stored ids and sources
	for i := range cs {
		c := &cs[i]
		lk := vLookup{Key: c.w.ID, Rec: vNoRec}
		st, err := r.StreamByID(c.id)
		if err != nil {
			lk.Rec.Err = "StreamByID: " + err.Error()
		} else if st != nil {
			lk.Found, lk.Rec = true, vObserve(st)
		}
		fn, idx := vSplitRef(c.w.Pk1)
		ls := vLookup{Key: fmt.Sprintf("%s:%d", fn, idx), Rec: vNoRec}
		st, err = r.StreamByFirstPacketSource(fn, idx)
		if err != nil {
			ls.Rec.Err = "StreamByFirstPacketSource: " + err.Error()
		} else if st != nil {
			ls.Found, ls.Rec = true, vObserve(st)
		}
		if c.filler {
			if lk.Found && lk.Rec.same(c.w) {
				fillOK[c.id]++
			} else {
				fillBad(c, "StreamByID", lk.Rec)
			}
			if ls.Found && ls.Rec.same(c.w) {
				fillOK[c.id]++
			} else {
				fillBad(c, "StreamByFirstPacketSource", ls.Rec)
			}
			continue
		}
		row.ByID = append(row.ByID, lk)
		row.BySrc = append(row.BySrc, ls)
	}
	for _, n := range fillOK {
		if n == 3 {
			row.FillOK++
		}
	}
	// unstored ids
	probe := map[uint64]bool{0: true, wmax + 1: true, wmax + 1<<40: true}
	if wmin > 0 {
		probe[wmin-1] = true
	}
	for i := range cs {
		if !cs[i].filler || i%997 == 0 {
			probe[cs[i].id+1] = true
			if cs[i].id > 0 {
				probe[cs[i].id-1] = true
			}
		}
	}
	pids := []uint64{}
	for id := range probe {
		if byID[id] == nil {
			pids = append(pids, id)
		}
	}
	sort.Slice(pids, func(a, b int) bool { return pids[a] < pids[b] })
	for _, id := range pids {
		lk := vLookup{Key: strconv.FormatUint(id, 10), Rec: vNoRec}
		st, err := r.StreamByID(id)
		if err != nil {
			lk.Rec.Err = "StreamByID: " + err.Error()
		} else if st != nil {
			lk.Found, lk.Rec = true, vObserve(st)
		}
		row.ProbeID = append(row.ProbeID, lk)
	}
	// unstored sources: neighbours of first packets, packets that are not the first of their stream, unknown captures
	type src struct {
		fn  string
		idx uint64
	}
	psrc := map[src]bool{{"nofile.pcap", 0}: true, {"", 0}: true, {"zzzz.pcap", 1 << 33}: true}
	for i := range cs {
		if cs[i].filler && i%997 != 0 {
			continue
		}
		fn, idx := vSplitRef(cs[i].w.Pk1)
		psrc[src{fn, idx + 1}] = true
		psrc[src{fn, idx + 1<<32}] = true
		psrc[src{fn + "x", idx}] = true
		if idx > 0 {
			psrc[src{fn, idx - 1}] = true
		}
		for _, p := range cs[i].s.Packets[1:] {
			pmd := pcapmetadata.FromPacketMetadata(&p)
			psrc[src{pmd.PcapInfo.Filename, pmd.Index}] = true
		}
	}
	pl := []src{}
	for s := range psrc {
		if !firstSrc[fmt.Sprintf("%s:%d", s.fn, s.idx)] {
			pl = append(pl, s)
		}
	}
	sort.Slice(pl, func(a, b int) bool { return pl[a].fn < pl[b].fn || pl[a].fn == pl[b].fn && pl[a].idx < pl[b].idx })
	if len(pl) > 60 {
		pl = pl[:60]
	}
	for _, s := range pl {
		lk := vLookup{Key: fmt.Sprintf("%s:%d", s.fn, s.idx), Rec: vNoRec}
		st, err := r.StreamByFirstPacketSource(s.fn, s.idx)
		if err != nil {
			lk.Rec.Err = "StreamByFirstPacketSource: " + err.Error()
		} else if st != nil {
			lk.Found, lk.Rec = true, vObserve(st)
		}
		row.ProbeSr = append(row.ProbeSr, lk)
	}
}

func vNewFileRow(name, src string, regimes []string) *vFileRow {
	if regimes == nil {
		regimes = []string{}
	}
	return &vFileRow{Kind: "file", Name: name, Src: src, Regimes: regimes, Written: []vRec{}, All: []vRec{}, ByID: []vLookup{}, BySrc: []vLookup{},
		ProbeID: []vLookup{}, ProbeSr: []vLookup{}, IDs: []string{}}
}

func vRunFile(dir, name, src string, regimes []string, cs []vStreamC) *vFileRow {
	row := vNewFileRow(name, src, regimes)
	r, err := vWriteFile(dir, cs)
	if err != nil {
		row.Err = "write/open: " + err.Error()
		for i := range cs {
			if !cs[i].filler {
				row.Written = append(row.Written, cs[i].w)
			}
		}
		return row
	}
	vReadBack(row, r, cs)
	r.Close()
	os.Remove(r.Filename())
	return row
}

package index

// C01 / C07 harness, part 2: seeded random stream sets, stacks and merges, search battery, driver.

import (
	"bufio"
	"context"
	"crypto/sha1"
	"encoding/json"
	"fmt"
	"math/rand"
	"os"
	"regexp"
	"sort"
	"strconv"
	"strings"
	"sync"
	"testing"
	"time"

	"github.com/gopacket/gopacket"
	"github.com/gopacket/gopacket/reassembly"
	"github.com/spq/pkappa2/internal/index/streams"
	"github.com/spq/pkappa2/internal/query"
	pcapmetadata "github.com/spq/pkappa2/internal/tools/pcapMetadata"
)

// ---------------------------------------------------------------- seeded random stream sets (C01 (B), second half)

type vRandGen struct {
	rng    *rand.Rand
	conc   *vConc
	nextIx map[string]uint64
	usedID map[uint64]bool
	ping   bool // the next stream is a ping-pong session
}

func vNewRandGen(seed int64) *vRandGen {
	g := &vRandGen{rng: rand.New(rand.NewSource(seed)), nextIx: map[string]uint64{}, usedID: map[uint64]bool{}}
	g.conc = vNewConc("B", 1, seed)
	return g
}

var vGaps = []time.Duration{0, 0, time.Microsecond, 999 * time.Nanosecond, 10 * time.Millisecond, 49999 * time.Microsecond, 50 * time.Millisecond,
	51 * time.Millisecond, time.Second, 90 * time.Second, (time.Microsecond << 32) - time.Microsecond, time.Microsecond << 32,
	(time.Microsecond << 32) + time.Microsecond, (time.Microsecond << 31), (time.Microsecond << 33) + 7*time.Second, 3 * (time.Microsecond << 32)}
var vSizes = []int{-1, -1, -1, 0, 1, 1, 2, 100, 1460, 65534, 65535, 65536, 65537, 131070, 131071, 200000}

func (g *vRandGen) host(fam string, pool int) []byte {
	n := 4
	if fam == "v6" {
		n = 16
	}
	// deterministic pool member k: bytes over a tiny alphabet so that addresses overlap byte-wise
	k := g.rng.Intn(pool)
	b := make([]byte, n)
	r := rand.New(rand.NewSource(int64(k)*7919 + int64(n)))
	for i := range b {
		b[i] = byte(1 + r.Intn(3))
	}
	b[n-1] = byte(k)
	b[n-2] = byte(k >> 8)
	return b
}

func (g *vRandGen) newID(mode int, i int, base uint64) uint64 {
	for {
		var id uint64
		switch mode {
		case 0:
			id = base + uint64(i)
		case 1:
			id = base + uint64(1000-i)*3
		default:
			id = uint64(g.rng.Int63()) >> uint(g.rng.Intn(50))
		}
		if !g.usedID[id] {
			g.usedID[id] = true
			return id
		}
		mode = 2
	}
}

func (g *vRandGen) stream(id uint64, pool int, start time.Time, caps []string, long bool) vStreamC {
	rng := g.rng
	fam := []string{"v4", "v4", "v6"}[rng.Intn(3)]
	s := &streams.Stream{ClientAddr: g.host(fam, pool), ServerAddr: g.host(fam, pool), ClientPort: uint16(rng.Intn(65536)), ServerPort: uint16(rng.Intn(65536)),
		Flags: streams.StreamFlagsProtocolTCP | streams.StreamFlagsComplete}
	if rng.Intn(3) == 0 {
		s.Flags = streams.StreamFlagsProtocolUDP
	}
	np := 1 + rng.Intn(10)
	if long {
		np = 250 + rng.Intn(400)
	}
	// a long interactive session: thousands of direction changes, a few bytes each - the segmentation information of the
	// stream alone is larger than the 4 KiB buffers the writer and the merger copy it through
	pingpong := (long && rng.Intn(3) == 0) || g.ping
	g.ping = false
	if pingpong {
		np = 4400 + rng.Intn(1200)
	}
	t := start
	cap := caps[rng.Intn(len(caps))]
	sparseData := (long && !pingpong) || rng.Intn(3) == 0
	for i := 0; i < np; i++ {
		if i > 0 {
			gap := vGaps[rng.Intn(len(vGaps))]
			if long && rng.Intn(20) != 0 {
				gap = time.Duration(rng.Intn(3)) * 20 * time.Millisecond
			}
			t = t.Add(gap)
			if rng.Intn(12) == 0 {
				cap = caps[rng.Intn(len(caps))]
			}
		}
		ix := g.nextIx[cap]
		g.nextIx[cap] = ix + 1 + uint64(rng.Intn(3))
		ci := gopacket.CaptureInfo{Timestamp: t, CaptureLength: 60, Length: 60}
		pcapmetadata.AddPcapMetadata(&ci, g.conc.pcap(cap), ix)
		s.Packets = append(s.Packets, ci)
		dir := reassembly.TCPDirClientToServer
		if rng.Intn(2) == 0 {
			dir = reassembly.TCPDirServerToClient
		}
		if pingpong && i%2 == 1 {
			dir = reassembly.TCPDirServerToClient
		} else if pingpong {
			dir = reassembly.TCPDirClientToServer
		}
		s.PacketDirections = append(s.PacketDirections, dir)
		sz := vSizes[rng.Intn(len(vSizes))]
		if sparseData && rng.Intn(4) != 0 {
			sz = -1
		}
		if pingpong {
			sz = 1 + rng.Intn(3)
		}
		if sz >= 0 {
			s.Data = append(s.Data, streams.StreamData{Bytes: vPayload(rng, sz, fmt.Sprintf("<R%d.%d>", id, i)), PacketIndex: uint64(i)})
		}
	}
	// re-ordered TCP segments: the payload order differs from the packet order
	if len(s.Data) >= 2 && rng.Intn(5) == 0 {
		i := rng.Intn(len(s.Data) - 1)
		s.Data[i], s.Data[i+1] = s.Data[i+1], s.Data[i]
	}
	return vStreamC{s: s, id: id, w: vAbs(s, id)}
}

func (g *vRandGen) set(big bool) []vStreamC {
	rng := g.rng
	g.usedID = map[uint64]bool{}
	caps := [][]string{{"one.pcap"}, {"a.pcap", "b.pcap"}, {"b.pcap", "a.pcap", "dir/c.pcap", "a.pcap.1"}}[rng.Intn(3)]
	for _, c := range caps {
		g.nextIx[c] = []uint64{0, 0, 1<<32 - 3, 5 << 32, 1<<33 - 1, 1<<32 - 300}[rng.Intn(6)]
	}
	n := 1 + rng.Intn(12)
	pool := []int{1, 2, 5, 40, 300}[rng.Intn(5)]
	if big {
		n, pool = 8300+rng.Intn(200), 40000
	}
	mode := rng.Intn(3)
	base := uint64(rng.Intn(1000))
	if rng.Intn(4) == 0 {
		base = uint64(rng.Int63())
	}
	res := []vStreamC{}
	t := vT0.Add(time.Duration(rng.Intn(4)) * time.Second)
	for i := 0; i < n; i++ {
		// start times: bursts, steps of seconds in both directions (reference second re-basing)
		switch rng.Intn(6) {
		case 0:
			t = t.Add(-time.Duration(rng.Intn(3000)) * time.Millisecond)
		case 1:
			t = t.Add(time.Duration(rng.Intn(3000)) * time.Millisecond)
		case 2:
			t = t.Add(time.Duration(rng.Intn(1000)) * time.Nanosecond)
		case 3:
			t = t.Add(-time.Hour)
		}
		long := !big && rng.Intn(25) == 0
		if big {
			// keep the big set cheap: short streams
			s := g.stream(g.newID(mode, i, base), pool, t, caps, false)
			res = append(res, s)
			continue
		}
		res = append(res, g.stream(g.newID(mode, i, base), pool, t, caps, long))
	}
	return res
}

// ---------------------------------------------------------------- C07: stacks, merges, searches

type vSearchRes struct {
	Q    string   `json:"q"`
	Qk   string   `json:"qk"` // the query with its values blanked (narrow signature)
	Host bool     `json:"host"` // the query filters or sorts by host
	IDs  []string `json:"ids"`
	Keys []string `json:"keys"`
	More bool     `json:"more"`
	Err  string   `json:"err"`
}
type vStackObs struct {
	Files    int          `json:"files"`
	Multi    bool         `json:"multi"` // some file of the stack has a second host group of an address family
	Visible  []vRec       `json:"visible"`
	Via      []vRec       `json:"viasearch"`
	NFill    int          `json:"nfill"`
	FillDig  string       `json:"filldig"`
	Searches []vSearchRes `json:"searches"`
	Err      string       `json:"err"`
}
type vMergeRow struct {
	Tr      int       `json:"tr"`
	Kind    string    `json:"kind"`
	Name    string    `json:"name"`
	Src     string    `json:"src"`
	Regimes []string  `json:"regimes"`
	Step    int       `json:"step"`
	From    int       `json:"from"`
	NMerged int       `json:"nmerged"`
	Err     string    `json:"err"`
	Pushed  [][]vRec  `json:"pushed"`
	FillExp string    `json:"fillexpect"`
	NFillEx int       `json:"nfillexpect"`
	Before  vStackObs `json:"before"`
	After   vStackObs `json:"after"`
	Inputs  string    `json:"inputs"` // "" or how an input file changed while it was merged
}

func vIsFiller(id uint64) bool { return id >= 1_000_000 && id < 6_000_000 }

func vCompact(l []string) []string {
	if len(l) <= 40 {
		if l == nil {
			return []string{}
		}
		return l
	}
	h := sha1.New()
	for _, x := range l {
		h.Write([]byte(x + "\n"))
	}
	return []string{"#" + vDigest(h.Sum(nil), len(l))}
}

func vRecsDigest(m map[uint64]vRec) (string, int) {
	ids := []uint64{}
	for id := range m {
		ids = append(ids, id)
	}
	sort.Slice(ids, func(a, b int) bool { return ids[a] < ids[b] })
	h := sha1.New()
	for _, id := range ids {
		r := m[id]
		r.Grp, r.Gf, r.Gr, r.Gx, r.Feat = "", "", 0, false, nil
		js, _ := json.Marshal(r)
		h.Write(js)
	}
	return vDigest(h.Sum(nil), len(ids)), len(ids)
}

func vSortKey(st *Stream, key query.SortingKey) string {
	switch key {
	case query.SortingKeyID:
		return strconv.FormatUint(st.ID(), 10)
	case query.SortingKeyFirstPacketTime:
		return st.FirstPacket().UTC().Format(vTimeFmt)
	case query.SortingKeyLastPacketTime:
		return st.LastPacket().UTC().Format(vTimeFmt)
	case query.SortingKeyClientHost:
		return st.ClientHostIP()
	case query.SortingKeyServerHost:
		return st.ServerHostIP()
	case query.SortingKeyClientPort:
		return strconv.Itoa(int(st.ClientPort))
	case query.SortingKeyServerPort:
		return strconv.Itoa(int(st.ServerPort))
	case query.SortingKeyClientBytes:
		return strconv.FormatUint(st.ClientBytes, 10)
	case query.SortingKeyServerBytes:
		return strconv.FormatUint(st.ServerBytes, 10)
	}
	return "?"
}

func vSearch(stack []*Reader, q string) (res vSearchRes, sts []*Stream) {
	res = vSearchRes{Q: q, Qk: vQueryKind(q), Host: strings.Contains(q, "host"), IDs: []string{}, Keys: []string{}}
	defer func() {
		if e := recover(); e != nil {
			res.Err = "panic: " + strings.SplitN(fmt.Sprint(e), "\n", 2)[0]
		}
	}()
	pq, err := query.Parse(q)
	if err != nil {
		res.Err = "parse: " + err.Error()
		return
	}
	limit := uint(0)
	if pq.Limit != nil {
		limit = *pq.Limit
	}
	sts, more, _, err := SearchStreams(context.Background(), stack, nil, pq.ReferenceTime, pq.Conditions, pq.Grouping, pq.Sorting, limit, 0, nil, nil, false)
	if err != nil {
		res.Err = "search: " + err.Error()
		return
	}
	res.More = more
	key := query.SortingKeyFirstPacketTime
	multi := len(pq.Sorting) > 1
	if len(pq.Sorting) >= 1 {
		key = pq.Sorting[0].Key
	}
	ids, keys := []string{}, []string{}
	for _, st := range sts {
		ids = append(ids, strconv.FormatUint(st.ID(), 10))
		k := vSortKey(st, key)
		if multi {
			k += "/" + vSortKey(st, pq.Sorting[1].Key)
		}
		keys = append(keys, k)
	}
	// ties: the order among streams with equal sort keys is not part of the claim, and when the limit cut the
	// result, the streams sharing the last key may be exchanged for others with the same key
	for a := 0; a < len(keys); {
		b := a
		for b < len(keys) && keys[b] == keys[a] {
			b++
		}
		sort.Strings(ids[a:b])
		if b == len(keys) && limit != 0 && more {
			ids = ids[:a]
		}
		a = b
	}
	res.IDs, res.Keys = vCompact(ids), vCompact(keys)
	return
}

var vValueRe = regexp.MustCompile(`"[^"]*"|[0-9a-fA-F:.]*[0-9][0-9a-fA-F:.]*`)

func vQueryKind(q string) string {
	return strings.Join(strings.Fields(vValueRe.ReplaceAllStringFunc(q, func(m string) string {
		if strings.HasPrefix(m, ":") {
			return ":N"
		}
		return "N"
	})), "_")
}

func vObserveStack(stack []*Reader, queries []string) (o vStackObs) {
	o = vStackObs{Files: len(stack), Visible: []vRec{}, Via: []vRec{}, Searches: []vSearchRes{}}
	defer func() {
		if e := recover(); e != nil {
			o.Err = "panic: " + strings.SplitN(fmt.Sprint(e), "\n", 2)[0]
		}
	}()
	for _, r := range stack {
		n := map[int]int{}
		for _, hg := range r.hostGroups {
			n[hg.hostSize]++
			if n[hg.hostSize] > 1 {
				o.Multi = true
			}
		}
	}
	// direct: newest file wins per id
	vis := map[uint64]vRec{}
	fill := map[uint64]vRec{}
	for i := len(stack) - 1; i >= 0; i-- {
		for id := range stack[i].StreamIDs() {
			if _, ok := vis[id]; ok {
				continue
			}
			if _, ok := fill[id]; ok {
				continue
			}
			st, err := stack[i].StreamByID(id)
			if err != nil || st == nil {
				o.Err = fmt.Sprintf("StreamByID(%d) on file %d: %v", id, i, err)
				return
			}
			if vIsFiller(id) {
				fill[id] = vObserve(st)
			} else {
				vis[id] = vObserve(st)
			}
		}
	}
	ids := []uint64{}
	for id := range vis {
		ids = append(ids, id)
	}
	sort.Slice(ids, func(a, b int) bool { return ids[a] < ids[b] })
	for _, id := range ids {
		o.Visible = append(o.Visible, vis[id])
	}
	o.FillDig, o.NFill = vRecsDigest(fill)
	// through the search engine
	_, sts := vSearch(stack, "sort:id")
	viaFill := map[uint64]vRec{}
	for _, st := range sts {
		if vIsFiller(st.ID()) {
			viaFill[st.ID()] = vObserve(st)
		} else {
			o.Via = append(o.Via, vObserve(st))
		}
	}
	if d, n := vRecsDigest(viaFill); d != o.FillDig || n != o.NFill {
		o.Err = fmt.Sprintf("filler streams through search (%d, %s) differ from direct reading (%d, %s)", n, d, o.NFill, o.FillDig)
	}
	for _, q := range queries {
		r, _ := vSearch(stack, q)
		o.Searches = append(o.Searches, r)
	}
	return
}

// the search battery: fixed sorts/limits plus filters on values that occur in the pushed streams
func vQueries(pushed [][]vStreamC, rng *rand.Rand) []string {
	for i := range pushed {
		if len(pushed[i]) > 2000 {
			// tens of thousands of hosts: host *filters* cost minutes in the search engine (buildSearchObjects);
			// keep the sorts, which are what merging rewrites
			return []string{"sort:id", "sort:ftime", "sort:-ltime", "sort:chost", "sort:-shost", "sort:shost limit:2", "sort:-chost limit:3",
				"sort:ftime limit:2", "sort:-ltime,id limit:2", "sbytes:65536: sort:ltime", "cport:1001 sort:id", "id:1:3 sort:-ftime"}
		}
	}
	qs := []string{"sort:id", "sort:-id", "sort:ftime", "sort:-ftime", "sort:ltime", "sort:-ltime", "sort:chost", "sort:-shost", "sort:cport",
		"sort:sbytes", "sort:-cbytes", "sort:ftime limit:2", "sort:-ltime limit:2", "sort:ltime limit:1", "sort:-ftime limit:3", "sort:id limit:1",
		"sort:shost limit:2", "sort:ftime,id", "sort:-ltime,id limit:2", "protocol:tcp sort:ftime", "protocol:udp sort:-ltime",
		"cbytes:30: sort:id", "sbytes:65536: sort:ltime", "sbytes::65535 sort:-ftime limit:2",
		fmt.Sprintf(`ltime:"%s:" sort:ltime`, vT0.Add(10*time.Minute).Format("2006-01-02 1504")),
		fmt.Sprintf(`ltime:":%s" sort:-ltime`, vT0.Add(10*time.Minute).Format("2006-01-02 1504")),
		fmt.Sprintf(`ftime:":%s" sort:ftime`, vT0.Add(1*time.Minute).Format("2006-01-02 1504")),
		fmt.Sprintf(`ftime:"%s:" sort:id`, vT0.Add(-30*time.Minute).Format("2006-01-02 1504")),
	}
	var all []*vStreamC
	for i := range pushed {
		for j := range pushed[i] {
			if !pushed[i][j].filler {
				all = append(all, &pushed[i][j])
			}
		}
	}
	for n := 0; n < 6 && len(all) > 0; n++ {
		c := all[rng.Intn(len(all))]
		switch n {
		case 0:
			qs = append(qs, fmt.Sprintf("chost:%s sort:ftime", c.w.Ch))
		case 1:
			qs = append(qs, fmt.Sprintf("shost:%s sort:-id", c.w.Sh))
		case 2:
			qs = append(qs, fmt.Sprintf("cport:%d sort:ltime", c.w.Cp))
		case 3:
			qs = append(qs, fmt.Sprintf("id:%s", c.w.ID))
		case 4:
			qs = append(qs, fmt.Sprintf("host:%s sort:shost", c.w.Ch))
		case 5:
			qs = append(qs, fmt.Sprintf("id:%s: sort:ftime limit:2", c.w.ID))
		}
	}
	for v := 1; v <= len(pushed) && v <= 3; v++ {
		qs = append(qs, fmt.Sprintf(`cdata:"V%dK" sort:id`, v), fmt.Sprintf(`sdata:"V%dK1>" sort:-ftime`, v))
	}
	return qs
}

// runs one C07 scenario: ops = pushes (stream lists) and merges (from k, 1-based)
func vRunStack(dir, name, src string, regimes []string, ops []vOp, build func(op *vOp, version int) []vStreamC, rng *rand.Rand) []*vMergeRow {
	rows := []*vMergeRow{}
	stack := []*Reader{}
	pushed := [][]vStreamC{}
	defer func() {
		for _, r := range stack {
			r.Close()
			os.Remove(r.Filename())
		}
	}()
	if regimes == nil {
		regimes = []string{}
	}
	for step := range ops {
		op := &ops[step]
		if op.Op == "push" {
			cs := build(op, len(pushed)+1)
			r, err := vWriteFile(dir, cs)
			if err != nil {
				rows = append(rows, &vMergeRow{Kind: "merge", Name: name, Src: src, Regimes: regimes, Step: step, Err: "push: " + err.Error(), Pushed: [][]vRec{},
					Before: vStackObs{Visible: []vRec{}, Via: []vRec{}, Searches: []vSearchRes{}}, After: vStackObs{Visible: []vRec{}, Via: []vRec{}, Searches: []vSearchRes{}}})
				return rows
			}
			stack = append(stack, r)
			pushed = append(pushed, cs)
			continue
		}
		row := &vMergeRow{Kind: "merge", Name: name, Src: src, Regimes: regimes, Step: step, From: op.From, Pushed: [][]vRec{}}
		rows = append(rows, row)
		expFill := map[uint64]vRec{}
		for _, cs := range pushed {
			recs := []vRec{}
			for i := range cs {
				if cs[i].filler {
					expFill[cs[i].id] = cs[i].w
				} else {
					recs = append(recs, cs[i].w)
				}
			}
			row.Pushed = append(row.Pushed, recs)
		}
		row.FillExp, row.NFillEx = vRecsDigest(expFill)
		queries := vQueries(pushed, rand.New(rand.NewSource(int64(step)+rng.Int63())))
		row.Before = vObserveStack(stack, queries)
		k := op.From - 1
		inputs := stack[k:]
		inBefore := make([]vStackObs, len(inputs))
		for i, r := range inputs {
			inBefore[i] = vObserveStack([]*Reader{r}, nil)
		}
		merged, err := func() (m []*Reader, err error) {
			defer func() {
				if e := recover(); e != nil {
					err = fmt.Errorf("panic: %v", strings.SplitN(fmt.Sprint(e), "\n", 2)[0])
				}
			}()
			return Merge(dir, inputs)
		}()
		if err != nil {
			row.Err = "Merge: " + err.Error()
			row.After = vStackObs{Visible: []vRec{}, Via: []vRec{}, Searches: []vSearchRes{}}
			return rows
		}
		row.NMerged = len(merged)
		// the input files are still open (views may hold them): reading them must give the same answers as before
		for i, r := range inputs {
			a := vObserveStack([]*Reader{r}, nil)
			ja, _ := json.Marshal(a)
			jb, _ := json.Marshal(inBefore[i])
			if string(ja) != string(jb) && row.Inputs == "" {
				row.Inputs = fmt.Sprintf("input file %d of %d reads differently after Merge", i+1, len(inputs))
			}
		}
		newStack := append(append([]*Reader{}, stack[:k]...), merged...)
		row.After = vObserveStack(newStack, queries)
		for _, r := range inputs {
			r.Close()
			os.Remove(r.Filename())
		}
		stack = newStack
	}
	return rows
}

// seeded random stacks for C07: 2-4 files over a small id pool, random hosts/times/payload, random merges
func vRandomStackOps(g *vRandGen) ([]vOp, func(op *vOp, version int) []vStreamC) {
	rng := g.rng
	nFiles := 2 + rng.Intn(3)
	pool := []int{2, 5, 40}[rng.Intn(3)]
	idPool := []uint64{}
	for i := 0; i < 3+rng.Intn(8); i++ {
		idPool = append(idPool, uint64(rng.Intn(30)))
	}
	caps := []string{"a.pcap", "b.pcap"}
	g.nextIx["a.pcap"], g.nextIx["b.pcap"] = 0, 1<<32-20
	files := [][]vStreamC{}
	withPing := rng.Intn(4) == 0
	// every fifth stack has a newer file whose streams start within the first second of the unix epoch (a capture from a
	// device whose clock was never set): its reference second is 0, which is a time like any other
	epochFile := -1
	if rng.Intn(5) == 0 {
		epochFile = 1 + rng.Intn(nFiles-1)
	}
	for f := 0; f < nFiles; f++ {
		t := vT0.Add(time.Duration(rng.Intn(7)-3) * time.Second)
		if f == epochFile {
			t = time.Unix(0, 0).UTC()
		}
		cs := []vStreamC{}
		used := map[uint64]bool{}
		for _, id := range idPool {
			if rng.Intn(2) == 0 || used[id] {
				continue
			}
			used[id] = true
			t2 := t.Add(time.Duration(rng.Intn(5000)-2000) * time.Millisecond)
			if f == epochFile {
				t2 = t.Add(time.Duration(rng.Intn(900)) * time.Millisecond)
			}
			// every fourth stack has a ping-pong stream in its oldest file, with further streams copied after it
			g.ping = withPing && f == 0 && len(cs) == 0
			cs = append(cs, g.stream(id, pool, t2, caps, false))
		}
		if len(cs) == 0 {
			cs = append(cs, g.stream(idPool[0], pool, t, caps, false))
		}
		_ = epochFile
		files = append(files, cs)
	}
	ops := []vOp{}
	depth, pushedN := 0, 0
	for pushedN < nFiles {
		ops = append(ops, vOp{Op: "push"})
		pushedN++
		depth++
		if depth >= 2 && rng.Intn(3) == 0 {
			k := 1 + rng.Intn(depth)
			ops = append(ops, vOp{Op: "merge", From: k})
			depth = k
		}
	}
	ops = append(ops, vOp{Op: "merge", From: 1 + rng.Intn(depth)})
	return ops, func(op *vOp, version int) []vStreamC { return files[version-1] }
}

// ---------------------------------------------------------------- driver

func TestVerifIndexFile(t *testing.T) {
	in := os.Getenv("VERIF_IN")
	if in == "" {
		t.Skip("VERIF_IN not set")
	}
	time.Local = time.UTC
	f, err := os.Open(in)
	if err != nil {
		t.Fatal(err)
	}
	var vecs []vVector
	sc := bufio.NewScanner(f)
	sc.Buffer(make([]byte, 1<<24), 1<<24)
	for sc.Scan() {
		var v vVector
		if err := json.Unmarshal(sc.Bytes(), &v); err != nil {
			t.Fatal(err)
		}
		vecs = append(vecs, v)
	}
	f.Close()
	dir, err := os.MkdirTemp(os.Getenv("VERIF_TMP"), "idx")
	if err != nil {
		t.Fatal(err)
	}
	defer os.RemoveAll(dir)
	par, _ := strconv.Atoi(os.Getenv("VERIF_PAR"))
	if par < 1 {
		par = 8
	}

	type result struct {
		files  []*vFileRow
		merges []*vMergeRow
	}
	results := make([]result, len(vecs))
	elapsed := make([]float64, len(vecs))
	var wg sync.WaitGroup
	sem := make(chan struct{}, par)
	for vi := range vecs {
		wg.Add(1)
		sem <- struct{}{}
		go func(vi int) {
			defer wg.Done()
			defer func() { <-sem }()
			v := &vecs[vi]
			res := &results[vi]
			t0 := time.Now()
			defer func() { elapsed[vi] = time.Since(t0).Seconds() }()
			switch {
			case v.Vec == "c01" && v.Random > 0:
				g := vNewRandGen(v.Seed)
				for n := 0; n < v.Random; n++ {
					cs := g.set(v.Big)
					name := fmt.Sprintf("%s/%d", v.Name, n)
					regs := []string{"random"}
					if v.Big {
						regs = []string{"random-many-hosts"}
					}
					row := vRunFile(dir, name, "rand", regs, cs)
					if v.Big {
						// keep the trace small: the ordinary streams of the big set are summarised like fillers
						vSummarise(row)
					}
					res.files = append(res.files, row)
				}
			case v.Vec == "c01":
				c := vNewConc(v.Variant, v.Rep, v.Seed)
				cs := c.file(v.Streams, v.Fill, 1)
				res.files = append(res.files, vRunFile(dir, v.Name, "tlc", v.Regimes, cs))
			case v.Vec == "c07" && v.Random > 0:
				g := vNewRandGen(v.Seed)
				for n := 0; n < v.Random; n++ {
					ops, build := vRandomStackOps(g)
					res.merges = append(res.merges, vRunStack(dir, fmt.Sprintf("%s/%d", v.Name, n), "rand", []string{"random"}, ops, build, g.rng)...)
				}
			case v.Vec == "c07":
				c := vNewConc(v.Variant, v.Rep, v.Seed)
				build := func(op *vOp, version int) []vStreamC { return c.file(op.Streams, v.Fill, version) }
				res.merges = append(res.merges, vRunStack(dir, v.Name, "tlc", v.Regimes, v.Ops, build, c.rng)...)
			}
		}(vi)
	}
	wg.Wait()

	tf, err := os.Create(os.Getenv("VERIF_TRACE"))
	if err != nil {
		t.Fatal(err)
	}
	tw := bufio.NewWriterSize(tf, 1<<20)
	tr, nFiles, nMerges, nStreams, nFill := 0, 0, 0, 0, 0
	for _, res := range results {
		for _, row := range res.files {
			tr++
			row.Tr = tr
			nFiles++
			nStreams += row.NWrit
			nFill += row.NFill
			js, _ := json.Marshal(row)
			tw.Write(js)
			tw.WriteByte('\n')
		}
		for _, row := range res.merges {
			tr++
			row.Tr = tr
			nMerges++
			nStreams += len(row.Before.Visible) + row.Before.NFill
			js, _ := json.Marshal(row)
			tw.Write(js)
			tw.WriteByte('\n')
		}
	}
	tw.Flush()
	tf.Close()
	order := make([]int, len(vecs))
	for i := range order {
		order[i] = i
	}
	sort.Slice(order, func(a, b int) bool { return elapsed[order[a]] > elapsed[order[b]] })
	slow := []string{}
	total := 0.0
	for i, vi := range order {
		total += elapsed[vi]
		if i < 8 {
			slow = append(slow, fmt.Sprintf("%s %.1fs", vecs[vi].Name, elapsed[vi]))
		}
	}
	out := map[string]interface{}{"slowest": slow, "cpu_s": total, "vectors": len(vecs), "rows": tr, "files": nFiles, "merges": nMerges, "streams": nStreams, "fillers": nFill}
	js, _ := json.MarshalIndent(out, "", " ")
	if err := os.WriteFile(os.Getenv("VERIF_OUT"), js, 0o644); err != nil {
		t.Fatal(err)
	}
}

// for very large random sets: compare in place (identity with the input) and keep only mismatching
// streams plus a sample in the row
func vSummarise(row *vFileRow) {
	w := map[string]vRec{}
	for _, r := range row.Written {
		w[r.ID] = r
	}
	keep := map[string]bool{}
	n := 0
	for _, r := range row.Written {
		if n%500 == 0 {
			keep[r.ID] = true
		}
		n++
	}
	okc := map[string]int{}
	note := func(id string, o vRec, found bool, how string) {
		if found && o.same(w[id]) {
			okc[id]++
			return
		}
		keep[id] = true
		if row.FillBad == "" {
			js, _ := json.Marshal(o)
			row.FillBad = fmt.Sprintf("stream %s via %s: %s", id, how, js)
			row.FillGrp = o.Grp
		}
	}
	for _, r := range row.All {
		note(r.ID, r, true, "AllStreams")
	}
	for _, l := range row.ByID {
		note(l.Key, l.Rec, l.Found, "StreamByID")
	}
	for i, l := range row.BySrc {
		note(row.Written[i].ID, l.Rec, l.Found, "StreamByFirstPacketSource")
	}
	fw, fa, fi, fs, ids := []vRec{}, []vRec{}, []vLookup{}, []vLookup{}, []string{}
	for i, r := range row.Written {
		if keep[r.ID] {
			fw = append(fw, r)
			fi = append(fi, row.ByID[i])
			fs = append(fs, row.BySrc[i])
			ids = append(ids, r.ID)
		} else {
			row.NFill++
			if okc[r.ID] == 3 {
				row.FillOK++
			}
		}
	}
	for _, r := range row.All {
		if keep[r.ID] {
			fa = append(fa, r)
		}
	}
	sort.Strings(ids)
	row.Written, row.All, row.ByID, row.BySrc, row.IDs = fw, fa, fi, fs, ids
	if len(row.ProbeID) > 40 {
		row.ProbeID = row.ProbeID[:40]
	}
}

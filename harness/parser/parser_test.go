package query

// C14 harness (injected by `go test -overlay`, never committed to /repo).
//
// Input : VERIF_IN   = ndjson, one generated token sequence per line (printed by TLC from
//                      spec/QueryGrammar.tla: toks, flat, syn, size, wf, mode, vk) plus "id".
// Output: VERIF_OUT  = ndjson, one row per executed case (appended; rows already present are
//                      skipped, so the driver can restart the process after a hang).
//
// Every case runs query.Parse in a child goroutine under a watchdog (budget = CPU time of the
// parsing thread, so that a busy machine cannot fake a hang).  A goroutine that never returns
// cannot be killed: the row is written, and the process exits with status 3; the
// driver starts a fresh process that continues behind the last row.
//
// The harness judges nothing.  It records what the real parser did (returned / panicked /
// did not return within the budget, where it was at that moment, whether parsing twice gave
// the same structures) and the token sequence the REAL lexer produced for the text; the size
// precondition and the verdicts are evaluated by TLC (spec/QueryGrammarTrace.tla).

import (
	"bufio"
	"encoding/base64"
	"encoding/json"
	"fmt"
	"math/rand"
	"os"
	"reflect"
	"runtime"
	"runtime/debug"
	"strconv"
	"strings"
	"syscall"
	"testing"
	"time"

	"github.com/alecthomas/participle/v2/lexer"
)

type vpTok struct {
	K    string `json:"k"`
	Key  string `json:"key"`
	Sub  string `json:"sub"`
	Conv string `json:"conv"`
	Q    string `json:"q"`
	Txt  string `json:"txt"`
	N    int    `json:"n"`
	Wf   string `json:"wf"`
}

type vpIn struct {
	ID   int     `json:"id"`
	Mode string  `json:"mode"`
	Vk   string  `json:"vk"`
	Toks []vpTok `json:"toks"`
	Syn  bool    `json:"syn"`
	Size int     `json:"size"`
	Vol  int     `json:"vol"`
	Wf   string  `json:"wf"`
	// replay of a recorded case: the exact text, base64
	Text64 string `json:"text64"`
	Case   int    `json:"case"`
}

type vpLTok struct {
	K   string `json:"k"`
	Key string `json:"key"`
	N   int    `json:"n"`
}

type vpRow struct {
	ID      int      `json:"id"`
	Case    int      `json:"case"`
	Mut     bool     `json:"mut"`
	Canon   bool     `json:"canon"`
	Budget  int      `json:"budget"`
	Verdict string   `json:"verdict"` // ok | err | panic | timeout (crash: set by the driver)
	Ms      int      `json:"ms"`
	CPU     int      `json:"cpu"` // ms of CPU time of the parsing thread
	Same    bool     `json:"same"`
	NConds  int      `json:"nconds"`
	LexOK   bool     `json:"lexok"`
	LToks   []vpLTok `json:"ltoks"`
	At      string   `json:"at"`
	Msg     string   `json:"msg"`
	Text64  string   `json:"text64"`
	Show    string   `json:"show"`
}

const vpCap, vpVolCap = 300, 2000

func vpExpand(s string) string {
	s = strings.ReplaceAll(s, "<DQ>", `"`)
	s = strings.ReplaceAll(s, "<BS>", `\`)
	s = strings.ReplaceAll(s, "<MU>", "µ")
	return s
}

// ---- concretisation: abstract token -> text

func vpValue(t vpTok, forceQuote bool) string {
	if t.Q == "x" {
		return `"` // unterminated quote: the value token is :" and nothing else
	}
	txt := vpExpand(t.Txt)
	need := txt == "" || strings.ContainsAny(txt, " \t\n\r\\") || strings.HasPrefix(txt, `"`) || strings.HasSuffix(txt, ")")
	if need || forceQuote || t.Q == "q" {
		return `"` + strings.ReplaceAll(txt, `"`, `""`) + `"`
	}
	return txt
}

func vpCase(s string, rng *rand.Rand) string {
	if rng == nil {
		return s
	}
	b := []byte(s)
	for i := range b {
		if rng.Intn(3) == 0 && b[i] >= 'a' && b[i] <= 'z' {
			b[i] -= 32
		}
	}
	return string(b)
}

// rng == nil: canonical form
func vpTokText(t vpTok, rng *rand.Rand) string {
	sep, fq := ":", false
	if rng != nil {
		if rng.Intn(3) == 0 {
			sep = "="
		}
		fq = rng.Intn(4) == 0
	}
	switch t.K {
	case "neg":
		if rng != nil && rng.Intn(2) == 0 {
			return "!"
		}
		return "-"
	case "lp":
		return "("
	case "rp":
		return ")"
	case "or", "and", "then":
		return vpCase(t.K, rng)
	case "term":
		s := ""
		if t.Sub != "" {
			s += "@" + t.Sub + ":"
		}
		s += vpCase(t.Key, rng)
		if t.Conv != "" {
			s += "." + t.Conv
		}
		return s + sep + vpValue(t, fq)
	case "ctl":
		return vpCase(t.Key, rng) + sep + vpValue(t, fq)
	case "keyonly":
		return t.Key
	case "valonly":
		return sep + vpValue(t, fq)
	case "subonly":
		return "@a:"
	case "convonly":
		return ".b64"
	}
	return "?"
}

func vpText(toks []vpTok, rng *rand.Rand) string {
	var sb strings.Builder
	seps := []string{"", " ", " ", "  ", "\t", "\n", " \r\n"}
	for i, t := range toks {
		if i > 0 {
			if rng == nil {
				sb.WriteString(" ")
			} else {
				sb.WriteString(seps[rng.Intn(len(seps))])
			}
		}
		sb.WriteString(vpTokText(t, rng))
	}
	return sb.String()
}

// canonical text lexes to exactly the generator's tokens unless
//   - an unterminated quote is followed by another double quote (QuotedValue then spans both),
//   - a value starts with a double quote (the QuotedValue pattern cannot express it: :"""a" is lexed
//     as the empty value :"" followed by garbage),
//   - a converter suffix stands alone (ConverterName extends to the next ':' or '=', blanks included)
func vpCanonSafe(toks []vpTok) bool {
	open := false
	for _, t := range toks {
		if t.K == "convonly" || (t.Q != "x" && strings.HasPrefix(vpExpand(t.Txt), `"`)) {
			return false
		}
		if open && (t.K == "term" || t.K == "ctl" || t.K == "valonly") {
			if strings.Contains(vpValue(t, false), `"`) {
				return false
			}
		}
		if t.Q == "x" && (t.K == "term" || t.K == "ctl") {
			open = true
		}
	}
	return true
}

// ---- byte-level mutation

var vpInteresting = []byte("\"\"():=-!@@,,/\\+ .0159azAZ{}[]*?|^$\x00\xff\n\t'")

func vpMutate(s string, rng *rand.Rand) string {
	b := []byte(s)
	for n := 1 + rng.Intn(3); n > 0; n-- {
		if len(b) == 0 {
			b = append(b, vpInteresting[rng.Intn(len(vpInteresting))])
			continue
		}
		p := rng.Intn(len(b))
		switch rng.Intn(9) {
		case 0, 1:
			b[p] = vpInteresting[rng.Intn(len(vpInteresting))]
		case 2:
			b = append(b[:p], append([]byte{vpInteresting[rng.Intn(len(vpInteresting))]}, b[p:]...)...)
		case 3:
			b = append(b[:p], b[p+1:]...)
		case 4:
			l := 1 + rng.Intn(8)
			if p+l > len(b) {
				l = len(b) - p
			}
			b = append(b[:p+l], append(append([]byte(nil), b[p:p+l]...), b[p+l:]...)...)
		case 5:
			l := 1 + rng.Intn(6)
			if p+l > len(b) {
				l = len(b) - p
			}
			b = append(b[:p], b[p+l:]...)
		case 6:
			if p+1 < len(b) {
				b[p], b[p+1] = b[p+1], b[p]
			}
		case 7:
			b = b[:p]
		case 8:
			b = append(b[:p], append([]byte{byte(rng.Intn(256))}, b[p:]...)...)
		}
	}
	return string(b)
}

// ---- projection of the real lexer's output to the token kinds of the specification

var vpSymNames = func() map[lexer.TokenType]string {
	return lexer.SymbolsByRune(parser.Lexer())
}()

func vpLex(q string) (toks []vpLTok, ok bool) {
	defer func() {
		if r := recover(); r != nil {
			toks, ok = []vpLTok{}, false
		}
	}()
	lt, err := parser.Lex("", strings.NewReader(q))
	if err != nil {
		return []vpLTok{}, false
	}
	res := []vpLTok{}
	for _, t := range lt {
		if t.EOF() {
			continue
		}
		k := ""
		key := ""
		n := 0
		switch vpSymNames[t.Type] {
		case "whitespace":
			continue
		case "Negation":
			k = "neg"
		case "SubQuery":
			k = "sub"
		case "Key":
			k, key = "key", strings.ToLower(t.Value)
		case "ConverterName":
			k = "conv"
		case "SortKey":
			k = "sortkey"
		case "LimitKey":
			k = "limitkey"
		case "GroupKey":
			k = "groupkey"
		case "OperatorOr":
			k = "or"
		case "OperatorAnd":
			k = "and"
		case "OperatorThen":
			k = "then"
		case "BracketOpen":
			k = "lp"
		case "BracketClose":
			k = "rp"
		case "QuotedValue", "UnquotedValue":
			k, n = "val", 1+strings.Count(t.Value, ",")
		default:
			k = "other"
		}
		res = append(res, vpLTok{K: k, Key: key, N: n})
	}
	return res, true
}

// ---- running the parser under a watchdog

type vpResult struct {
	q     *Query
	err   error
	panic string
	at    string
	took  time.Duration
	cpu   time.Duration
}

// first frame of package query below the panic (or at the top of a running goroutine),
// the harness's own functions excluded
func vpFrame(stack string, afterPanic bool) string {
	const pkg = "internal/query."
	seen := !afterPanic
	for _, l := range strings.Split(stack, "\n") {
		if strings.HasPrefix(l, "panic(") || strings.HasPrefix(l, "runtime.gopanic") {
			seen = true
			continue
		}
		i := strings.Index(l, pkg)
		if !seen || i < 0 || strings.HasPrefix(l, "\t") {
			continue
		}
		f := l[i+len(pkg):]
		if j := strings.LastIndex(f, "("); j > 0 {
			f = f[:j]
		}
		f = strings.NewReplacer("(*", "", ")", "").Replace(f)
		if strings.HasPrefix(f, "vp") || strings.HasPrefix(f, "TestVerif") {
			continue
		}
		return f
	}
	return "unknown"
}

//go:noinline
func vpParseChild(q string, tid chan<- int, out chan<- vpResult) {
	// the budget is CPU time of the thread that parses: the goroutine stays on one thread
	runtime.LockOSThread()
	defer runtime.UnlockOSThread()
	tid <- syscall.Gettid()
	defer func() {
		if r := recover(); r != nil {
			msg := fmt.Sprint(r)
			out <- vpResult{panic: msg, at: vpFrame(string(debug.Stack()), true)}
		}
	}()
	t0 := time.Now()
	c0, _ := vpThreadCPU(syscall.Gettid())
	qq, err := Parse(q)
	c1, _ := vpThreadCPU(syscall.Gettid())
	out <- vpResult{q: qq, err: err, took: time.Since(t0), cpu: c1 - c0}
}

// where is the child goroutine right now
func vpWhere() string {
	buf := make([]byte, 1<<20)
	n := runtime.Stack(buf, true)
	for _, g := range strings.Split(string(buf[:n]), "\n\n") {
		if strings.Contains(g, "vpParseChild") {
			return vpFrame(g, false)
		}
	}
	return "unknown"
}

// time the thread has spent on a CPU (ns), first field of /proc/self/task/<tid>/schedstat
func vpThreadCPU(tid int) (time.Duration, bool) {
	b, err := os.ReadFile(fmt.Sprintf("/proc/self/task/%d/schedstat", tid))
	if err != nil {
		return 0, false
	}
	f := strings.Fields(string(b))
	if len(f) == 0 {
		return 0, false
	}
	ns, err := strconv.ParseInt(f[0], 10, 64)
	return time.Duration(ns), err == nil
}

// Runs query.Parse in a child goroutine.  The watchdog fires when the parsing thread has used
// `budget` of CPU time (so that a busy machine does not turn a prompt answer into a time-out);
// wall clock is the fallback when the thread clock cannot be read, and a hard stop at 8 x budget
// + 1 s (starved = true: no statement about the parser).
func vpRun(q string, budget time.Duration) (res vpResult, returned bool, starved bool) {
	out := make(chan vpResult, 1)
	tidc := make(chan int, 1)
	go vpParseChild(q, tidc, out)
	tid := <-tidc
	cpu0, haveCPU := vpThreadCPU(tid)
	t0 := time.Now()
	poll := 5 * time.Millisecond
	for {
		select {
		case r := <-out:
			return r, true, false
		case <-time.After(poll):
		}
		if poll < 40*time.Millisecond {
			poll *= 2
		}
		wall := time.Since(t0)
		used := wall
		if haveCPU {
			if c, ok := vpThreadCPU(tid); ok {
				used = c - cpu0
			}
		}
		if used >= budget {
			return vpResult{at: vpWhere()}, false, false
		}
		if wall >= 8*budget+time.Second {
			return vpResult{at: vpWhere()}, false, true
		}
	}
}

// Two parses are compared structurally.  The only legitimate difference is the reference time
// (time.Now() at each Parse): the Duration of a TimeCondition built from an absolute time is
// "time - referenceTime", so Durations may differ by a small integer multiple of the shift of
// the reference time (the multiple is the number of absolute operands, up to sign).
func vpSame(a, b vpResult) bool {
	if (a.err != nil) != (b.err != nil) {
		return false
	}
	if a.err != nil {
		return a.err.Error() == b.err.Error()
	}
	// (wall clock readings: Parse subtracts the reference time from wall-clock-only times)
	shift := b.q.ReferenceTime.UnixNano() - a.q.ReferenceTime.UnixNano()
	if len(a.q.Conditions) != len(b.q.Conditions) {
		return false
	}
	for i := range a.q.Conditions {
		ca, cb := a.q.Conditions[i], b.q.Conditions[i]
		if len(ca) != len(cb) {
			return false
		}
		for j := range ca {
			ta, ok1 := ca[j].(*TimeCondition)
			tb, ok2 := cb[j].(*TimeCondition)
			if !ok1 || !ok2 {
				continue
			}
			d := int64(tb.Duration - ta.Duration)
			if d != 0 && shift != 0 && d%shift == 0 && d/shift >= -16 && d/shift <= 16 {
				tb.Duration = ta.Duration
			}
		}
	}
	return reflect.DeepEqual(a.q.Conditions, b.q.Conditions) &&
		reflect.DeepEqual(a.q.Sorting, b.q.Sorting) &&
		reflect.DeepEqual(a.q.Limit, b.q.Limit) &&
		reflect.DeepEqual(a.q.Grouping, b.q.Grouping)
}

func vpShow(s string) string {
	q := strconv.QuoteToASCII(s)
	if len(q) > 240 {
		q = q[:240] + "..."
	}
	return q
}

func vpEnvInt(name string, def int) int {
	if v, err := strconv.Atoi(os.Getenv(name)); err == nil {
		return v
	}
	return def
}

func TestVerifParser(t *testing.T) {
	inPath, outPath := os.Getenv("VERIF_IN"), os.Getenv("VERIF_OUT")
	if inPath == "" || outPath == "" {
		t.Skip("VERIF_IN / VERIF_OUT not set")
	}
	seed := int64(vpEnvInt("VERIF_SEED", 1))
	mutPct := vpEnvInt("VERIF_MUTPCT", 30)
	budget := time.Duration(vpEnvInt("VERIF_BUDGET_MS", 2000)) * time.Millisecond
	short := time.Duration(vpEnvInt("VERIF_SHORT_MS", 300)) * time.Millisecond

	done := map[[2]int]bool{}
	if f, err := os.Open(outPath); err == nil {
		sc := bufio.NewScanner(f)
		sc.Buffer(make([]byte, 1<<22), 1<<22)
		for sc.Scan() {
			var r vpRow
			if json.Unmarshal(sc.Bytes(), &r) == nil {
				done[[2]int{r.ID, r.Case}] = true
			}
		}
		f.Close()
	}
	out, err := os.OpenFile(outPath, os.O_APPEND|os.O_CREATE|os.O_WRONLY, 0o644)
	if err != nil {
		t.Fatal(err)
	}
	defer out.Close()
	emit := func(r vpRow) {
		b, err := json.Marshal(r)
		if err != nil {
			t.Fatal(err)
		}
		out.Write(append(b, '\n'))
	}

	in, err := os.Open(inPath)
	if err != nil {
		t.Fatal(err)
	}
	defer in.Close()
	sc := bufio.NewScanner(in)
	sc.Buffer(make([]byte, 1<<22), 1<<22)
	for sc.Scan() {
		var rec vpIn
		if err := json.Unmarshal(sc.Bytes(), &rec); err != nil {
			t.Fatalf("bad input line: %v", err)
		}
		rng := rand.New(rand.NewSource(seed*1000003 + int64(rec.ID)))
		type cs struct {
			n     int
			text  string
			mut   bool
			canon bool
		}
		cases := []cs{}
		if rec.Text64 != "" {
			b, _ := base64.StdEncoding.DecodeString(rec.Text64)
			cases = append(cases, cs{rec.Case, string(b), true, false})
		} else {
			canon := vpText(rec.Toks, nil)
			cases = append(cases, cs{0, canon, false, vpCanonSafe(rec.Toks)})
			big := rec.Syn && (rec.Size > vpCap || rec.Vol > vpVolCap)
			varied := vpText(rec.Toks, rng)
			r1, r2, r3 := rng.Intn(100), rng.Intn(100), rng.Intn(2)
			if !big && (rec.Mode != "value" || r1 < 30) {
				cases = append(cases, cs{1, varied, false, false})
			}
			if !big && r2 < mutPct {
				base := canon
				if r3 == 1 {
					base = varied
				}
				cases = append(cases, cs{2, vpMutate(base, rng), true, false})
			}
		}
		for _, c := range cases {
			if done[[2]int{rec.ID, c.n}] {
				continue
			}
			b := budget
			if rec.Text64 == "" && rec.Syn && (rec.Size > vpCap || rec.Vol > vpVolCap) {
				b = short
			}
			row := vpRow{ID: rec.ID, Case: c.n, Mut: c.mut, Canon: c.canon, Budget: int(b / time.Millisecond),
				Text64: base64.StdEncoding.EncodeToString([]byte(c.text)), Show: vpShow(c.text), Same: true}
			row.LToks, row.LexOK = vpLex(c.text)
			if p := os.Getenv("VERIF_INFLIGHT"); p != "" {
				// a fatal runtime error (stack overflow, out of memory) kills the process: the driver
				// then finds the case that was running here
				row.Verdict = "inflight"
				if b, err := json.Marshal(row); err == nil {
					os.WriteFile(p, b, 0o644)
				}
				row.Verdict = ""
			}
			r1, returned, starved := vpRun(c.text, b)
			switch {
			case !returned:
				row.Verdict, row.At, row.Ms = "timeout", r1.at, int(b/time.Millisecond)
				if starved {
					row.Budget = 0 // the thread did not get its CPU time: inconclusive
				}
			case r1.panic != "":
				row.Verdict, row.At, row.Msg = "panic", r1.at, r1.panic
			default:
				row.Ms, row.CPU = int(r1.took/time.Millisecond), int(r1.cpu/time.Millisecond)
				if r1.err != nil {
					row.Verdict, row.Msg = "err", r1.err.Error()
				} else {
					row.Verdict, row.NConds = "ok", len(r1.q.Conditions)
				}
				r2, returned2, starved2 := vpRun(c.text, b)
				switch {
				case !returned2:
					row.Verdict, row.At, row.Ms = "timeout", r2.at, int(b/time.Millisecond)
					returned = false
					if starved2 {
						row.Budget = 0
					}
				case r2.panic != "":
					row.Verdict, row.At, row.Msg = "panic", r2.at, r2.panic
				default:
					row.Same = vpSame(r1, r2)
				}
			}
			if len(row.Msg) > 200 {
				row.Msg = row.Msg[:200]
			}
			row.Msg = strconv.QuoteToASCII(row.Msg)
			emit(row)
			if !returned {
				// the child goroutine is still running and cannot be stopped
				out.Sync()
				out.Close()
				os.Exit(3)
			}
		}
	}
	if err := sc.Err(); err != nil {
		t.Fatal(err)
	}
}

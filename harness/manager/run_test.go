package manager

// Schedule interpreter: replays TLC-generated behaviours of spec/Manager.tla on the real
// Manager through the verif hooks and records one ndjson row per step (DESIGN.md App. A).

import (
	"bufio"
	"crypto/md5"
	"encoding/json"
	"fmt"
	"os"
	"path/filepath"
	"runtime"
	"sort"
	"strings"
	"testing"
	"time"

	"github.com/spq/pkappa2/internal/index"
)

type vStep struct {
	A    string `json:"a"`
	K    int    `json:"k"`
	Name string `json:"name,omitempty"`
	Def  *vDef  `json:"def,omitempty"`
	IDs  []int  `json:"ids,omitempty"`
	V    string `json:"v,omitempty"`
	New  string `json:"new,omitempty"`
	Color string `json:"color,omitempty"`
	Convs []string `json:"convs"`
	What  string   `json:"what,omitempty"`
	Cut   int      `json:"cut,omitempty"`
}

type vSchedule struct {
	ID    string  `json:"id"`
	Steps []vStep `json:"steps"`
	Settle bool   `json:"settle"`
	Convs []string `json:"convs"`
}

type vRow struct {
	Tr   int     `json:"tr"`
	Sid  string  `json:"sid"`
	N    int     `json:"n"`
	Ev   vStep   `json:"ev"`
	Res  string  `json:"res"`
	Msg  string  `json:"msg"`
	St   *vState `json:"st"`
	Obs  *vObs   `json:"obs"`
	NoViewConvert bool `json:"noViewConvert"`
	Pre     *vState  `json:"pre,omitempty"`
	PreVis  []vEntry `json:"preVis,omitempty"`
	Order   []string `json:"order,omitempty"`
	ExpTags map[string]vTagSt `json:"expTags,omitempty"`
	ExpSettings *vSettings `json:"expSettings,omitempty"`
	Lost    []int    `json:"lost"`
	Last    bool     `json:"last"`
	Evs     []vEvent `json:"evs,omitempty"` // what a listener was told since the previous row
	Ms   int64   `json:"ms"`
}

const vWait = 8 * time.Second

func vNewScenario(t *testing.T, base string, w *vWorld, convs []string, free bool) (*vScenario, error) {
	s := &vScenario{w: w, dirs: map[string]string{"base": base}, fileIDs: map[string]string{}, fileCont: map[string][]vEntry{},
		defs: map[string]vDef{}, views: map[string]*View{}, viewFirst: map[string]string{}, convNames: convs, orphanFlag: map[string]bool{}, partial: map[string]bool{}}
	for _, d := range []string{"pcap", "index", "snapshot", "state", "converter", "watch"} {
		s.dirs[d] = filepath.Join(base, d) + "/"
		if err := os.MkdirAll(s.dirs[d], 0o755); err != nil {
			return nil, err
		}
	}
	for _, c := range convs {
		if err := os.WriteFile(filepath.Join(s.dirs["converter"], c+".py"), []byte(vConverterScript), 0o775); err != nil {
			return nil, err
		}
	}
	s.ctl = vNewCtl(free)
	vInstallCtl(s.ctl)
	return s, s.open()
}

func (s *vScenario) open() error {
	mgr, err := New(s.dirs["pcap"], s.dirs["index"], s.dirs["snapshot"], s.dirs["state"], s.dirs["converter"], "")
	if err != nil {
		return err
	}
	s.mgr = mgr
	if err := s.sync(); err != nil {
		return err
	}
	s.listen()
	return s.sync()
}

// The converter answers "CONV:" + the client payload.  It has one quirk, as converters written by users have: the first
// time it sees a payload that contains MARK2; it answers with a chunk whose time stamp has a zone suffix (which the
// service rejects), and otherwise follows the protocol; asked again, it answers properly.  The service kills the
// process after such a chunk and tries the stream again; no other stream may get that answer.
const vConverterScript = `#!/usr/bin/python3
import base64, hashlib, json, os, sys, tempfile
seen_dir = os.path.join(tempfile.gettempdir(), "verifconv-" + hashlib.md5(os.path.abspath(__file__).encode()).hexdigest())
lines = []
while 1:
    line = sys.stdin.readline()
    if line == "":
        break
    line = line.strip()
    if line != "":
        lines.append(json.loads(line))
        continue
    out = b"CONV:"
    for l in lines[1:]:
        if l.get("Direction") == "client-to-server":
            out += base64.b64decode(l.get("Content", ""))
    stamp = "2021-03-04T05:06:07.000001"
    if b"MARK2;" in out:
        os.makedirs(seen_dir, exist_ok=True)
        mark = os.path.join(seen_dir, hashlib.md5(out).hexdigest())
        if not os.path.exists(mark):
            open(mark, "w").close()
            stamp += "+00:00"
    print(json.dumps({"Direction": "client-to-server", "Content": base64.b64encode(out).decode(), "Time": stamp}))
    print()
    print("{}", flush=True)
    lines = []
`

func vRemoveBase(base string, convs []string) {
	os.RemoveAll(base)
	for _, c := range convs {
		os.RemoveAll(vConverterSeenDir(filepath.Join(base, "converter", c+".py")))
	}
}

func vConverterSeenDir(script string) string {
	abs, _ := filepath.Abs(script)
	return filepath.Join(os.TempDir(), fmt.Sprintf("verifconv-%x", md5.Sum([]byte(abs))))
}

// after a closure ran: every job whose flag is set must be parked at its start hook or its gate.
// A flag that stays set although no job goroutine ever shows up is not a harness problem: it is
// recorded (the projected state then has the flag without a job) and not waited for again.
func (s *vScenario) waitJobs() error {
	st := s.mgr.Status()
	want := map[string]bool{"import": st.ImportJobCount > 0, "tag": st.TaggingJobRunning, "merge": st.MergeJobRunning, "conv": st.ConverterJobRunning}
	for _, k := range vKinds {
		if want[k] && !s.orphanFlag[k] && !s.ctl.waitParked(k, vWait) {
			s.orphanFlag[k] = true
		}
	}
	return nil
}

func vErrRes(err error) (string, string) {
	if err != nil {
		return "err", err.Error()
	}
	return "ok", ""
}

func (s *vScenario) exec(st vStep) (res, msg string, fatal error) {
	mgr := s.mgr
	guard := func(f func() error) (string, string, error) {
		type r struct {
			err error
			pan any
		}
		c := make(chan r, 1)
		go func() {
			defer func() {
				if p := recover(); p != nil {
					c <- r{pan: p}
				}
			}()
			c <- r{err: f()}
		}()
		select {
		case x := <-c:
			if x.pan != nil {
				return "panic", fmt.Sprint(x.pan), nil
			}
			a, b := vErrRes(x.err)
			return a, b, nil
		case <-time.After(vWait):
			return "hang", "call did not return", fmt.Errorf("API call %s hangs", st.A)
		}
	}
	switch st.A {
	case "ApiImport":
		name, err := vWriteCapture(s.dirs["pcap"], s.w, st.K)
		if err != nil {
			return "", "", err
		}
		mgr.ImportPcaps([]string{name})
		return "ok", "", s.sync()
	case "ImportCompute", "TagCompute", "MergeCompute", "ConvCompute":
		kind := strings.ToLower(strings.TrimSuffix(st.A, "Compute"))
		if s.ctl.phaseOf(kind) != "start" {
			return "skip", "no " + kind + " job at start", nil
		}
		if err := s.ctl.compute(kind, 30*time.Second); err != nil {
			if os.Getenv("VERIF_DUMP") == "1" {
				buf := make([]byte, 1<<20)
				os.Stderr.Write(buf[:runtime.Stack(buf, true)])
			}
			return "", "", err
		}
		return "ok", "", nil
	case "MergeFail": // environment fault: the output file of the merge cannot be created (a directory is in its place)
		if s.ctl.phaseOf("merge") != "start" {
			return "skip", "no merge job at start", nil
		}
		in := s.ctl.inst("merge")
		idxs := in.start[1].([]*index.Reader)
		base := strings.TrimSuffix(filepath.Base(idxs[len(idxs)-1].Filename()), ".idx")
		block := filepath.Join(s.dirs["index"], base+".m0.idx")
		if err := os.Mkdir(block, 0o755); err != nil {
			return "", "", err
		}
		err := s.ctl.compute("merge", 30*time.Second)
		os.Remove(block)
		if err != nil {
			return "", "", err
		}
		if e, _ := in.result[1].(error); e == nil {
			return "", "", fmt.Errorf("the merge did not fail although its output name was blocked")
		}
		in.fault = true
		return "ok", "", nil
	case "ImportDone", "TagDone", "MergeDone", "ConvDone":
		kind := strings.ToLower(strings.TrimSuffix(st.A, "Done"))
		if s.ctl.phaseOf(kind) != "gate" {
			return "skip", "no " + kind + " job at gate", nil
		}
		if err := s.ctl.done(kind, vWait); err != nil {
			return "", "", err
		}
		return "ok", "", s.sync()
	case "AddTag":
		q := st.Def.query()
		s.defs[q] = *st.Def
		return guard(func() error { return mgr.AddTag(st.Name, st.Color, q) })
	case "DelTag":
		return guard(func() error { return mgr.DelTag(st.Name) })
	case "UpdQuery":
		q := st.Def.query()
		s.defs[q] = *st.Def
		return guard(func() error { return mgr.UpdateTag(st.Name, UpdateTagOperationUpdateQuery(q)) })
	case "UpdColor":
		return guard(func() error { return mgr.UpdateTag(st.Name, UpdateTagOperationUpdateColor(st.Color)) })
	case "UpdName":
		return guard(func() error { return mgr.UpdateTag(st.Name, UpdateTagOperationUpdateName(st.New)) })
	case "MarkAdd":
		ids := []uint64{}
		for _, i := range st.IDs {
			ids = append(ids, uint64(i))
		}
		return guard(func() error { return mgr.UpdateTag(st.Name, UpdateTagOperationMarkAddStream(ids)) })
	case "MarkDel":
		ids := []uint64{}
		for _, i := range st.IDs {
			ids = append(ids, uint64(i))
		}
		return guard(func() error { return mgr.UpdateTag(st.Name, UpdateTagOperationMarkDelStream(ids)) })
	case "SetConverters":
		if st.Convs == nil {
			st.Convs = []string{}
		}
		return guard(func() error { return mgr.UpdateTag(st.Name, UpdateTagOperationSetConverter(append([]string{}, st.Convs...))) })
	case "ConvReset":
		return guard(func() error { return mgr.ResetConverter(st.Convs[0]) })
	case "ConvRemove", "ConvAdd":
		// the converter directory changes; the manager notices through fsnotify (additions after a 500 ms debounce)
		path := filepath.Join(s.dirs["converter"], st.Convs[0]+".py")
		_, statErr := os.Stat(path)
		if st.A == "ConvRemove" {
			if statErr != nil {
				return "skip", "no such converter file", nil
			}
			if err := os.Remove(path); err != nil {
				return "", "", err
			}
		} else {
			if statErr == nil {
				return "skip", "converter file exists", nil
			}
			if err := os.WriteFile(path, []byte(vConverterScript), 0o775); err != nil {
				return "", "", err
			}
		}
		want := st.A == "ConvAdd"
		for d := time.Now().Add(5 * time.Second); time.Now().Before(d); time.Sleep(10 * time.Millisecond) {
			have := false
			for _, cs := range mgr.ListConverters() {
				have = have || cs.Name == st.Convs[0]
			}
			if have == want {
				return "ok", "", s.sync()
			}
		}
		return "", "", fmt.Errorf("%s %s: the manager did not notice the change of the converter directory", st.A, st.Convs[0])
	case "AddHook":
		return guard(func() error { return mgr.AddPcapProcessorWebhook(st.What) })
	case "DelHook":
		return guard(func() error { return mgr.DelPcapProcessorWebhook(st.What) })
	case "AddEndpoint":
		return guard(func() error { return mgr.AddPcapOverIPEndpoint(st.What) })
	case "DelEndpoint":
		return guard(func() error { return mgr.DelPcapOverIPEndpoint(st.What) })
	case "SetConfig":
		return guard(func() error { return mgr.SetConfig(Config{AutoInsertLimitToQuery: st.K == 1}) })
	case "ViewConvert":
		v, ok := s.views[st.V]
		if !ok {
			return "skip", "no such view", nil
		}
		s.viewConverted = true
		sc, err := v.Stream(uint64(st.K))
		if err != nil || sc.Stream() == nil {
			return "skip", "no such stream in view", nil
		}
		if _, err := sc.Data(st.Convs[0]); err != nil {
			// the converter's quirk (see vConverterScript): the first answer for such a payload is rejected; ask again
			if _, err := sc.Data(st.Convs[0]); err != nil {
				return "err", err.Error(), nil
			}
		}
		return "ok", "", s.sync()
	case "ViewOpen":
		v := mgr.GetView()
		if err := v.fetch(); err != nil {
			return "err", err.Error(), nil
		}
		s.views[st.V] = &v
		return "ok", "", nil
	case "ViewRelease":
		v, ok := s.views[st.V]
		if !ok {
			return "skip", "no such view", nil
		}
		v.Release()
		delete(s.views, st.V)
		delete(s.viewFirst, st.V)
		return "ok", "", s.sync()
	case "EndSettle":
		return "ok", "", nil
	case "Sleep": // wall-clock time passes (K milliseconds); nothing else happens
		time.Sleep(time.Duration(st.K) * time.Millisecond)
		return "ok", "", nil
	}
	return "", "", fmt.Errorf("unknown step %q", st.A)
}

// which job step would the deterministic settle policy take next? ("" = none)
func (s *vScenario) nextSettleStep() string {
	for _, k := range vKinds {
		switch s.ctl.phaseOf(k) {
		case "start":
			return strings.ToUpper(k[:1]) + k[1:] + "Compute"
		case "gate":
			return strings.ToUpper(k[:1]) + k[1:] + "Done"
		}
	}
	return ""
}

// the process is "killed": nothing of the old Manager may run any more.  Jobs parked at a hook stay parked for good
// (their goroutines leak until the test binary exits), views are dropped, the converter processes are stopped.
func (s *vScenario) abandon() {
	for vn := range s.views {
		delete(s.views, vn)
		delete(s.viewFirst, vn)
	}
	c := make(chan struct{})
	go func() { s.mgr.Close(); close(c) }()
	select {
	case <-c:
	case <-time.After(5 * time.Second):
	}
	s.stopListening()
}

func (s *vScenario) stopListening() {
	if s.evStop != nil {
		close(s.evStop)
		s.evStop, s.evCh = nil, nil
	}
}

func (s *vScenario) close() {
	// drain whatever is still parked so that the goroutines can finish
	for i := 0; i < 200; i++ {
		a := s.nextSettleStep()
		if a == "" {
			break
		}
		if _, _, err := s.exec(vStep{A: a}); err != nil {
			break
		}
		s.waitJobs()
	}
	for _, v := range s.views {
		v.Release()
	}
	if s.sync() == nil {
		c := make(chan struct{})
		go func() { s.mgr.Close(); close(c) }()
		select {
		case <-c:
		case <-time.After(5 * time.Second):
		}
	}
	s.stopListening()
	vInstallCtl(nil)
}

func TestVerifManager(t *testing.T) {
	in := os.Getenv("VERIF_IN")
	if in == "" {
		t.Skip("VERIF_IN not set")
	}
	raw, err := os.ReadFile(in)
	if err != nil {
		t.Fatal(err)
	}
	var scheds []vSchedule
	if err := json.Unmarshal(raw, &scheds); err != nil {
		t.Fatal(err)
	}
	out, err := os.Create(os.Getenv("VERIF_TRACE"))
	if err != nil {
		t.Fatal(err)
	}
	defer out.Close()
	bw := bufio.NewWriterSize(out, 1<<20)
	defer bw.Flush()
	world := vDefaultWorld
	if wf := os.Getenv("VERIF_WORLD"); wf != "" {
		b, err := os.ReadFile(wf)
		if err != nil {
			t.Fatal(err)
		}
		if err := json.Unmarshal(b, &world); err != nil {
			t.Fatal(err)
		}
	}
	free := os.Getenv("VERIF_FREE") == "1"
	summary := map[string]int{}
	for tr, sc := range scheds {
		base := filepath.Join(t.TempDir(), fmt.Sprintf("s%d", tr))
		s, err := vNewScenario(t, base, &world, sc.Convs, free)
		if err != nil {
			t.Fatalf("schedule %s: setup: %v", sc.ID, err)
		}
		mkEmit := func(s *vScenario, sid string, n int) func(ev vStep, res, msg string, t0 time.Time, extra func(*vRow)) bool {
			return func(ev vStep, res, msg string, t0 time.Time, extra func(*vRow)) bool {
				if ev.Convs == nil {
					ev.Convs = []string{} // the TLC Json module does not accept null
				}
				evs, everr := s.takeEvents()
				st, err := s.project()
				if err == nil {
					err = everr
				}
				if err != nil {
					js, _ := json.Marshal(vRow{Tr: tr, Sid: sid, N: n, Ev: ev, Res: "infra", Msg: err.Error()})
					bw.Write(js)
					bw.WriteByte('\n')
					summary["infra"]++
					return false
				}
				s.trackStateFile(st)
				obs := s.observe(st)
				row := vRow{Tr: tr, Sid: sid, N: n, Ev: ev, Res: res, Msg: msg, St: st, Obs: obs, Ms: time.Since(t0).Milliseconds(), NoViewConvert: !s.viewConverted,
					Lost: append([]int{}, s.lost...), Evs: evs}
				if extra != nil {
					extra(&row)
				}
				js, err := json.Marshal(row)
				if err != nil {
					t.Fatal(err)
				}
				bw.Write(js)
				bw.WriteByte('\n')
				bw.Flush()
				n++
				return true
			}
		}
		emit0 := mkEmit(s, sc.ID, 0)
		n := 0
		emit := func(ev vStep, res, msg string, t0 time.Time) bool {
			n++
			return emit0(ev, res, msg, t0, nil)
		}
		abandoned := false
		bases := []string{}
		ok := emit(vStep{A: "Init"}, "ok", "", time.Now())
		steps := append([]vStep(nil), sc.Steps...)
		for i := 0; ok && i < len(steps)+400; i++ {
			var ev vStep
			if i < len(steps) {
				ev = steps[i]
			} else if sc.Settle {
				a := s.nextSettleStep()
				if a == "" {
					break
				}
				ev = vStep{A: a}
			} else {
				break
			}
			if ev.Convs == nil {
				ev.Convs = []string{}
			}
			t0 := time.Now()
			var res, msg string
			var fatal error
			if ev.A == "Crash" {
				res, msg, fatal = s.crash(ev, n)
			} else if ev.A == "Restart" {
				// a process kill in the middle of the schedule: the directory as it is now is what a new Manager finds;
				// the rest of the schedule runs on that new Manager (Restart action of spec/Manager.tla)
				if free {
					continue
				}
				what := ev.What
				if what == "" {
					what = "none"
				}
				if _, _, fatal = s.crash(vStep{A: "Crash", What: what, Cut: ev.Cut}, n); fatal == nil {
					c := s.crashes[len(s.crashes)-1]
					s.crashes = s.crashes[:len(s.crashes)-1]
					s.abandon()
					ns, r2, m2 := s.restartOn(c, free)
					cev := vStep{A: "CrashRestart", What: map[bool]string{true: "kill", false: what}[what == "none"], Cut: ev.Cut, K: n, Convs: []string{}}
					if ns == nil {
						row := vRow{Tr: tr, Sid: sc.ID, N: n, Ev: cev, Res: r2, Msg: m2, Pre: c.Pre, PreVis: c.PreVis, Order: c.Order, ExpTags: c.ExpTags, Lost: []int{}}
						js, _ := json.Marshal(row)
						bw.Write(js)
						bw.WriteByte('\n')
						bw.Flush()
						summary["restart-"+r2]++
						abandoned = true
						vRemoveBase(c.Base, sc.Convs)
						break
					}
					ns.crashes = s.crashes
					oldBase := s.dirs["base"]
					s = ns
					bases = append(bases, oldBase)
					emit0 = mkEmit(s, sc.ID, n)
					fatal = s.waitJobs()
					if fatal == nil {
						n++
						ok = emit0(cev, "ok", "", t0, func(r *vRow) { r.Pre, r.PreVis, r.Order, r.ExpTags, r.ExpSettings = c.Pre, c.PreVis, c.Order, c.ExpTags, c.ExpSettings })
						summary["kill-restart"]++
						continue
					}
				}
			} else {
				res, msg, fatal = s.exec(ev)
			}
			if res == "hang" {
				// the manager goroutine is stuck: nothing can be projected any more and Close would block
				js, _ := json.Marshal(vRow{Tr: tr, Sid: sc.ID, N: n, Ev: ev, Res: "hang", Msg: msg})
				bw.Write(js)
				bw.WriteByte('\n')
				bw.Flush()
				summary["hang"]++
				abandoned = true
				break
			}
			if fatal == nil && !free {
				fatal = s.waitJobs()
			}
			if fatal != nil {
				js, _ := json.Marshal(vRow{Tr: tr, Sid: sc.ID, N: n, Ev: ev, Res: "fatal", Msg: fatal.Error()})
				bw.Write(js)
				bw.WriteByte('\n')
				summary["fatal"]++
				ok = false
				break
			}
			summary[res]++
			ok = emit(ev, res, msg, t0)
			if res == "panic" || res == "hang" {
				break
			}
		}
		// C09: with the deterministic settle policy the schedule must come to rest; a schedule whose job steps never end
		// is cut after the step budget and says so
		if ok && !abandoned && sc.Settle && !free {
			if a := s.nextSettleStep(); a == "" {
				emit0(vStep{A: "EndSettle", Convs: []string{}}, "ok", "", time.Now(), func(r *vRow) { r.Last = true })
			} else {
				emit0(vStep{A: "SettleExhausted", Convs: []string{}}, "ok", "next would be "+a, time.Now(), nil)
			}
		}
		if !abandoned {
			s.close()
		} else {
			vInstallCtl(nil)
		}
		// C12: restart on every crash copy taken during the scenario, observe, settle
		for _, c := range s.crashes {
			c := c
			ns, res, msg := s.restartOn(c, free)
			cev := vStep{A: "CrashRestart", What: c.What, Cut: c.Cut, K: c.AtStep}
			fill := func(r *vRow) { r.Pre, r.PreVis, r.Order, r.ExpTags, r.ExpSettings = c.Pre, c.PreVis, c.Order, c.ExpTags, c.ExpSettings }
			sid := fmt.Sprintf("%s#c%d", sc.ID, c.K)
			if ns == nil {
				row := vRow{Tr: tr, Sid: sid, N: 0, Ev: cev, Res: res, Msg: msg + " | " + c.Note, Lost: []int{}}
				row.Ev.Convs = []string{}
				fill(&row)
				js, _ := json.Marshal(row)
				bw.Write(js)
				bw.WriteByte('\n')
				bw.Flush()
				summary["restart-"+res]++
				if res == "hang" {
					vInstallCtl(nil)
				}
				vRemoveBase(c.Base, sc.Convs)
				continue
			}
			cemit := mkEmit(ns, sid, 0)
			ok := ns.waitJobs() == nil && cemit(cev, res, c.Note, time.Now(), fill)
			for i := 0; ok && i < 300; i++ {
				a := ns.nextSettleStep()
				if a == "" {
					break
				}
				ev := vStep{A: a}
				r2, m2, fatal := ns.exec(ev)
				if fatal == nil {
					fatal = ns.waitJobs()
				}
				if fatal != nil {
					summary["fatal"]++
					break
				}
				ok = cemit(ev, r2, m2, time.Now(), nil)
			}
			if ok {
				cemit(vStep{A: "EndSettle"}, "ok", "", time.Now(), func(r *vRow) { r.Last = true })
			}
			ns.close()
			vRemoveBase(c.Base, sc.Convs)
		}
		os.RemoveAll(base)
		for _, b := range append(bases, base, s.dirs["base"]) {
			os.RemoveAll(b)
			for _, c := range sc.Convs {
				os.RemoveAll(vConverterSeenDir(filepath.Join(b, "converter", c+".py")))
			}
		}
		os.RemoveAll(s.dirs["base"])
	}
	keys := []string{}
	for k := range summary {
		keys = append(keys, k)
	}
	sort.Strings(keys)
	for _, k := range keys {
		t.Logf("VERIF-SUMMARY %s=%d", k, summary[k])
	}
}

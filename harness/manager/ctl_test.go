package manager

// Gate controller for the verif hooks (DESIGN.md Appendix F) and the projection
// of the manager's state into the variables of spec/Manager.tla.

import (
	"context"
	"fmt"
	"os"
	"path/filepath"
	"sort"
	"strconv"
	"strings"
	"sync"
	"sync/atomic"
	"time"

	"github.com/spq/pkappa2/internal/index"
	"github.com/spq/pkappa2/internal/index/converters"
	"github.com/spq/pkappa2/internal/query"
	"github.com/spq/pkappa2/internal/tools/bitmask"
)

var vKinds = []string{"import", "tag", "merge", "conv"}

type vInst struct {
	kind   string
	phase  string // "start" | "computing" | "gate" | "posting"
	start  []any
	result []any
	extra  [2][]int
	fault  bool // the harness made this job fail (MergeFail)
	goStart chan struct{}
	goDone  chan struct{}
	posted  chan struct{}
}

type vCtl struct {
	mu       sync.Mutex
	cond     *sync.Cond
	cur      map[string]*vInst // latest instance per kind (start/computing/gate)
	posting  map[string]*vInst // instance whose completion closure is being sent
	free     bool              // no gating at all (C20 free-running mode)
	slow     time.Duration     // free-running mode: delay before a job posts its completion
	nStarted map[string]int
}

func vNewCtl(free bool) *vCtl {
	c := &vCtl{cur: map[string]*vInst{}, posting: map[string]*vInst{}, free: free, nStarted: map[string]int{}}
	if ms, err := strconv.Atoi(os.Getenv("VERIF_SLOW_MS")); err == nil && free {
		c.slow = time.Duration(ms) * time.Millisecond
	}
	c.cond = sync.NewCond(&c.mu)
	return c
}

// The current controller is read by the hook in the job goroutines.  An atomic pointer, not a mutex: a mutex that the
// job goroutine unlocks and the harness locks later would order the job's accesses before everything the harness does
// next and hide data races from the race detector (C20).  An atomic load only synchronises with the store it reads.
var vCurCtl atomic.Pointer[vCtl]

var vHookOnce sync.Once

func vInstallCtl(c *vCtl) {
	vCurCtl.Store(c)
	// the hook variable itself is written once, before any manager goroutine exists
	vHookOnce.Do(func() {
		VerifHook = func(kind string, phase int, args ...any) {
			if ctl := vCurCtl.Load(); ctl != nil {
				ctl.hook(kind, phase, args)
			}
		}
	})
}

func (c *vCtl) hook(kind string, phase int, args []any) {
	if c.free {
		// free-running mode: no gate and no synchronisation of any kind (see vCurCtl).  A plain sleep before the job posts
		// its completion keeps the job "in flight" a little longer - after its reads of shared state, before the send that
		// orders them - so that the closures of other jobs and API calls overlap it (time.Sleep orders nothing).
		if phase == 0 && c.slow > 0 {
			// different lengths per kind so that the completion of one job falls into the flight of another
			mult := map[string]int{"import": 1, "tag": 3, "merge": 2, "conv": 2}[kind]
			time.Sleep(c.slow * time.Duration(mult+int(time.Now().UnixNano()/1000)%2))
		}
		return
	}
	switch phase {
	case -1:
		in := &vInst{kind: kind, phase: "start", start: args, goStart: make(chan struct{}), goDone: make(chan struct{}), posted: make(chan struct{})}
		if kind == "tag" {
			t := args[1].(*tag)
			in.extra = [2][]int{vBits(t.Uncertain), vBits(t.Matches)}
		}
		c.mu.Lock()
		c.cur[kind] = in
		c.nStarted[kind]++
		c.cond.Broadcast()
		c.mu.Unlock()
		<-in.goStart
	case 0:
		c.mu.Lock()
		in := c.cur[kind]
		in.result = args
		in.phase = "gate"
		c.cond.Broadcast()
		c.mu.Unlock()
		<-in.goDone
	case 1:
		c.mu.Lock()
		in := c.posting[kind]
		delete(c.posting, kind)
		c.mu.Unlock()
		if in != nil {
			close(in.posted)
		}
	}
}

func (c *vCtl) phaseOf(kind string) string {
	c.mu.Lock()
	defer c.mu.Unlock()
	if in := c.cur[kind]; in != nil {
		return in.phase
	}
	return "none"
}

func (c *vCtl) inst(kind string) *vInst {
	c.mu.Lock()
	defer c.mu.Unlock()
	return c.cur[kind]
}

// wait until the job of this kind is parked at its start hook or at its gate
func (c *vCtl) waitParked(kind string, d time.Duration) bool {
	deadline := time.Now().Add(d)
	c.mu.Lock()
	defer c.mu.Unlock()
	for {
		if in := c.cur[kind]; in != nil && (in.phase == "start" || in.phase == "gate") {
			return true
		}
		if time.Now().After(deadline) {
			return false
		}
		t := time.AfterFunc(20*time.Millisecond, func() { c.mu.Lock(); c.cond.Broadcast(); c.mu.Unlock() })
		c.cond.Wait()
		t.Stop()
	}
}

// Compute step: release the start hook, wait for the gate
func (c *vCtl) compute(kind string, d time.Duration) error {
	c.mu.Lock()
	in := c.cur[kind]
	if in == nil || in.phase != "start" {
		c.mu.Unlock()
		return fmt.Errorf("no %s job at start", kind)
	}
	in.phase = "computing"
	c.mu.Unlock()
	close(in.goStart)
	deadline := time.Now().Add(d)
	c.mu.Lock()
	defer c.mu.Unlock()
	for in.phase != "gate" {
		if time.Now().After(deadline) {
			return fmt.Errorf("%s job did not reach its gate", kind)
		}
		t := time.AfterFunc(20*time.Millisecond, func() { c.mu.Lock(); c.cond.Broadcast(); c.mu.Unlock() })
		c.cond.Wait()
		t.Stop()
	}
	return nil
}

// Done step: release the gate, wait until the manager goroutine accepted the closure
func (c *vCtl) done(kind string, d time.Duration) error {
	c.mu.Lock()
	in := c.cur[kind]
	if in == nil || in.phase != "gate" {
		c.mu.Unlock()
		return fmt.Errorf("no %s job at gate", kind)
	}
	in.phase = "posting"
	delete(c.cur, kind)
	c.posting[kind] = in
	c.mu.Unlock()
	close(in.goDone)
	select {
	case <-in.posted:
		return nil
	case <-time.After(d):
		return fmt.Errorf("%s completion was not accepted by the manager goroutine", kind)
	}
}

// ---------------------------------------------------------------- projection

type vEntry struct {
	ID int   `json:"id"`
	C  int   `json:"c"`
	V  []int `json:"v"`
}

type vTagSt struct {
	Def   vDef     `json:"def"`
	M     []int    `json:"M"`
	U     []int    `json:"U"`
	Convs []string `json:"convs"`
	RefBy []string `json:"refBy"`
	Color string   `json:"color"`
	Text  string   `json:"text"` // the definition as the manager holds it (truth is evaluated on this text)
}

type vState struct {
	Known   []int               `json:"known"`
	Queue   []int               `json:"queue"`
	NextID  int                 `json:"nextID"`
	AllS    []int               `json:"allS"`
	Files   map[string][]vEntry `json:"files"`
	Indexes []string            `json:"indexes"`
	Use     map[string]int      `json:"use"`
	Tags    map[string]vTagSt   `json:"tags"`
	Flags   map[string]bool     `json:"flags"`
	During  map[string][]int    `json:"during"`
	Unmerge int                 `json:"unmerge"`
	Jobs    map[string]any      `json:"jobs"`
	Views   map[string]any      `json:"views"`
	ToConv  map[string][]int    `json:"toConv"`
	Cache   map[string][]vEntry `json:"cache"`
	Locks   int                 `json:"locks"`
	StateFile string            `json:"stateFile"`
	Settings vSettings          `json:"settings"`
}

// webhook urls, PCAP-over-IP endpoint addresses (in the manager's order) and the Config flag
type vSettings struct {
	Hooks []string `json:"hooks"`
	Eps   []string `json:"eps"`
	Cfg   bool     `json:"cfg"`
}

func vBits(bm bitmask.LongBitmask) []int {
	res := []int{}
	for i := uint(0); bm.Next(&i); i++ {
		res = append(res, int(i))
	}
	return res
}

type vScenario struct {
	w        *vWorld
	dirs     map[string]string
	mgr      *Manager
	ctl      *vCtl
	fileIDs  map[string]string // index file name -> "f<n>"
	fileCont map[string][]vEntry
	defs     map[string]vDef // definition string -> abstract def
	views    map[string]*View
	viewFirst map[string]string
	nextFile int
	convNames []string
	orphanFlag map[string]bool
	viewConverted bool
	stateHist []vStateSnap
	afterCrash bool
	partial   map[string]bool
	crashes   []*vCrash
	lost      []int // captures that were only queued when the process was killed (known to the new builder, never imported)
	// the event stream as a listener sees it (Manager.Listen)
	evCh   chan Event
	evPing chan chan struct{}
	evStop chan struct{}
	evMu   sync.Mutex
	evs    []vEvent
}

// one announced event, reduced to what the specification predicts (spec/Manager.tla, "event stream")
type vEvent struct {
	T string   `json:"t"`
	N string   `json:"n"`
	A int      `json:"a"`
	B int      `json:"b"`
	C int      `json:"c"`
	L []string `json:"l"`
}

func vEventOf(e Event) (vEvent, bool) {
	v := vEvent{T: e.Type, L: []string{}}
	switch e.Type {
	case "pcapArrived", "configUpdated":
	case "pcapProcessed", "indexesMerged":
		if e.PcapStats == nil {
			v.N = "(no statistics)"
		} else {
			v.A, v.B, v.C = e.PcapStats.ImportJobCount, e.PcapStats.StreamCount, e.PcapStats.IndexCount
		}
	case "tagAdded":
		if e.Tag == nil {
			v.N = "(no tag)"
		} else {
			v.N, v.A, v.B = e.Tag.Name, int(e.Tag.MatchingCount), int(e.Tag.UncertainCount)
		}
	case "tagDeleted":
		if e.Tag == nil {
			v.N = "(no tag)"
		} else {
			v.N = e.Tag.Name
		}
	case "converterCompleted":
		if e.Converter == nil {
			v.N = "(no converter)"
		} else {
			v.N, v.A = e.Converter.Name, int(e.Converter.CachedStreamCount)
		}
	case "webhooksUpdated":
		if e.Webhooks == nil {
			v.N = "(no list)"
		} else {
			v.L = append(v.L, (*e.Webhooks)...)
		}
	case "pcapOverIPEndpointsUpdated":
		if e.PcapOverIPEndpoints == nil {
			v.N = "(no list)"
		} else {
			v.A = len(*e.PcapOverIPEndpoints)
		}
	default:
		// tagUpdated comes from a ticker, the converter directory events from a file system watcher: not tied to a step
		return v, false
	}
	return v, true
}

// a listener that is always ready to receive
func (s *vScenario) listen() {
	ch, _ := s.mgr.Listen()
	s.evCh, s.evPing, s.evStop = ch, make(chan chan struct{}), make(chan struct{})
	s.evMu.Lock()
	s.evs = nil
	s.evMu.Unlock()
	go func(ch chan Event, ping chan chan struct{}, stop chan struct{}) {
		for {
			select {
			case e, ok := <-ch:
				if !ok {
					return
				}
				if v, keep := vEventOf(e); keep {
					s.evMu.Lock()
					s.evs = append(s.evs, v)
					s.evMu.Unlock()
				}
			case p := <-ping:
				close(p)
			case <-stop:
				return
			}
		}
	}(ch, s.evPing, s.evStop)
}

// the events announced since the last call, once none is on its way any more (sorted: the order in which the events of
// one closure reach a listener is not defined)
func (s *vScenario) takeEvents() ([]vEvent, error) {
	if s.evCh == nil {
		return []vEvent{}, nil
	}
	deadline := time.Now().Add(5 * time.Second)
	for {
		active := make(chan int, 1)
		select {
		case s.mgr.jobs <- func() { active <- s.mgr.listeners[s.evCh].active }:
		case <-time.After(5 * time.Second):
			return nil, fmt.Errorf("manager goroutine does not accept closures")
		}
		select {
		case n := <-active:
			if n == 0 {
				p := make(chan struct{})
				select {
				case s.evPing <- p:
					<-p
				case <-time.After(5 * time.Second):
					return nil, fmt.Errorf("the listener does not answer")
				}
				s.evMu.Lock()
				evs := append([]vEvent{}, s.evs...)
				s.evs = nil
				s.evMu.Unlock()
				sort.SliceStable(evs, func(i, j int) bool {
					if evs[i].T != evs[j].T {
						return evs[i].T < evs[j].T
					}
					return evs[i].N < evs[j].N
				})
				return evs, nil
			}
		case <-time.After(5 * time.Second):
			return nil, fmt.Errorf("manager goroutine hangs")
		}
		if time.Now().After(deadline) {
			return nil, fmt.Errorf("events stay undelivered")
		}
		time.Sleep(200 * time.Microsecond)
	}
}

func (s *vScenario) fid(name string) string {
	name = filepath.Base(name)
	if id, ok := s.fileIDs[name]; ok {
		return id
	}
	s.nextFile++
	id := fmt.Sprintf("f%d", s.nextFile)
	s.fileIDs[name] = id
	return id
}

func (s *vScenario) fids(rs []*index.Reader) []string {
	res := []string{}
	for _, r := range rs {
		res = append(res, s.fid(r.Filename()))
	}
	return res
}

func vStreamEntry(st *index.Stream) (vEntry, error) {
	data, err := st.Data()
	if err != nil {
		return vEntry{}, err
	}
	payload := []byte{}
	for _, d := range data {
		if d.Direction == index.DirectionClientToServer {
			payload = append(payload, d.Content...)
		}
	}
	return vEntry{ID: int(st.ID()), C: vConnOfClientPort(st.ClientPort), V: vVersionOf(payload)}, nil
}

// content of an index file, read through a private reader (files are immutable once complete)
func (s *vScenario) fileContent(path string) ([]vEntry, error) {
	base := filepath.Base(path)
	if c, ok := s.fileCont[base]; ok {
		return c, nil
	}
	r, err := index.NewReader(path)
	if err != nil {
		return nil, err
	}
	defer r.Close()
	res := []vEntry{}
	if err := r.AllStreams(func(st *index.Stream) error {
		e, err := vStreamEntry(st)
		if err != nil {
			return err
		}
		res = append(res, e)
		return nil
	}); err != nil {
		return nil, err
	}
	sort.Slice(res, func(i, j int) bool { return res[i].ID < res[j].ID })
	s.fileCont[base] = res
	return res, nil
}

func vSortedKeys[V any](m map[string]V) []string {
	res := make([]string, 0, len(m))
	for k := range m {
		res = append(res, k)
	}
	sort.Strings(res)
	return res
}

// project reads the manager's state inside the service loop (a closure posted to mgr.jobs)
func (s *vScenario) project() (*vState, error) {
	mgr := s.mgr
	st := &vState{Files: map[string][]vEntry{}, Use: map[string]int{}, Tags: map[string]vTagSt{}, Flags: map[string]bool{},
		During: map[string][]int{}, Jobs: map[string]any{}, Views: map[string]any{}, ToConv: map[string][]int{}, Cache: map[string][]vEntry{}}
	type cacheProbe struct {
		name string
		conv *converters.CachedConverter
	}
	var probes []cacheProbe
	done := make(chan struct{})
	mgr.jobs <- func() {
		defer close(done)
		for _, p := range mgr.builder.KnownPcaps() {
			st.Known = append(st.Known, vCapOfName(p.Filename))
		}
		for _, fn := range mgr.importJobs {
			st.Queue = append(st.Queue, vCapOfName(fn))
		}
		st.NextID = int(mgr.nextStreamID)
		st.AllS = vBits(mgr.allStreams)
		st.Indexes = s.fids(mgr.indexes)
		for r, n := range mgr.usedIndexes {
			st.Use[s.fid(r.Filename())] = int(n)
			st.Locks += int(n)
		}
		for n, t := range mgr.tags {
			ts := vTagSt{Def: vDefOfQuery(n, t.definition, s.defs), M: vBits(t.Matches), U: vBits(t.Uncertain), Convs: t.converterNames(), RefBy: []string{}, Color: t.color, Text: t.definition}
			for r := range t.referencedBy {
				ts.RefBy = append(ts.RefBy, r)
			}
			sort.Strings(ts.RefBy)
			sort.Strings(ts.Convs)
			st.Tags[n] = ts
		}
		st.Flags["merge"] = mgr.mergeJobRunning
		st.Flags["tag"] = mgr.taggingJobRunning
		st.Flags["conv"] = mgr.converterJobRunning
		st.During["upd"] = vBits(mgr.updatedStreamsDuringTaggingJob)
		st.During["res"] = vBits(mgr.resetStreamsDuringTaggingJob)
		st.During["add"] = vBits(mgr.addedStreamsDuringTaggingJob)
		st.During["inv"] = vBits(mgr.invalidatedStreamsDuringConverterJob)
		st.Unmerge = mgr.nUnmergeableIndexes
		for n, bm := range mgr.streamsToConvert {
			st.ToConv[n] = vBits(*bm)
		}
		for n, c := range mgr.converters {
			probes = append(probes, cacheProbe{n, c})
		}
		st.StateFile = filepath.Base(mgr.stateFilename)
		st.Settings = vSettings{Hooks: append([]string{}, mgr.pcapProcessorWebhookUrls...), Eps: []string{}, Cfg: mgr.config.AutoInsertLimitToQuery}
		for _, e := range mgr.pcapOverIPEndpoints {
			st.Settings.Eps = append(st.Settings.Eps, e.Address)
		}
	}
	select {
	case <-done:
	case <-time.After(10 * time.Second):
		return nil, fmt.Errorf("manager goroutine does not respond (projection)")
	}
	if st.Known == nil {
		st.Known = []int{}
	}
	sort.Ints(st.Known)
	if st.Queue == nil {
		st.Queue = []int{}
	}
	// disk: every *.idx file in the index directory
	ents, err := os.ReadDir(s.dirs["index"])
	if err != nil {
		return nil, err
	}
	names := []string{}
	for _, e := range ents {
		if strings.HasSuffix(e.Name(), ".idx") {
			names = append(names, e.Name())
		}
	}
	sort.Strings(names)
	for _, n := range names {
		c, err := s.fileContent(filepath.Join(s.dirs["index"], n))
		if err != nil {
			if s.afterCrash {
				// a half-written file left behind by the killed process: not an index file
				s.partial[n] = true
				continue
			}
			return nil, fmt.Errorf("index file %s unreadable: %w", n, err)
		}
		delete(s.partial, n) // (a merge output is named after its newest input: a later merge overwrites a half-written leftover)
		st.Files[s.fid(n)] = c
	}
	// converter caches: which stream ids are cached and from which data version
	for _, p := range probes {
		st.Cache[p.name] = s.cacheContent(p.conv)
	}
	// (no default entries: a converter whose executable was removed has neither a queue nor a cache)
	// jobs: snapshot and result as seen by the hooks
	for _, k := range vKinds {
		st.Jobs[k] = s.projectJob(k)
	}
	for vn, v := range s.views {
		td := map[string]any{}
		for tn, d := range v.tagDetails {
			td[tn] = map[string]any{"M": vBits(d.Matches), "U": vBits(d.Uncertain)}
		}
		st.Views[vn] = map[string]any{"idx": s.fids(v.indexes), "td": td}
	}
	return st, nil
}

func (s *vScenario) cacheContent(c *converters.CachedConverter) []vEntry {
	res := []vEntry{}
	for id := 0; id < 96; id++ {
		if !c.Contains(uint64(id)) {
			continue
		}
		d, _, _, _, _, err := c.DataForSearch(uint64(id))
		if err != nil {
			res = append(res, vEntry{ID: id, C: -1, V: []int{}})
			continue
		}
		res = append(res, vEntry{ID: id, C: 0, V: vVersionOf(append(append([]byte{}, d[0]...), d[1]...))})
	}
	return res
}

func (s *vScenario) projectJob(kind string) map[string]any {
	in := s.ctl.inst(kind)
	none := func() map[string]any {
		switch kind {
		case "import":
			return map[string]any{"phase": "none", "batch": []int{}, "idx": []string{}, "next": 0, "file": "", "upd": []int{}, "res": []int{}, "add": []int{}, "used": 0, "n": 0, "err": ""}
		case "tag":
			return map[string]any{"phase": "none", "tag": "", "def": vDef{S: []int{}}, "td": map[string]any{}, "idx": []string{}, "U0": []int{}, "M0": []int{}, "M1": []int{}, "stale": false, "err": ""}
		case "merge":
			return map[string]any{"phase": "none", "off": 0, "idx": []string{}, "file": "", "err": ""}
		}
		return map[string]any{"phase": "none", "ids": map[string]any{}, "idx": []string{}}
	}
	if in == nil || (in.phase != "start" && in.phase != "gate") {
		return none()
	}
	j := none()
	j["phase"] = in.phase
	errStr := func(a any) string {
		if e, ok := a.(error); ok && e != nil {
			return e.Error()
		}
		return ""
	}
	switch kind {
	case "import":
		batch := []int{}
		for _, fn := range in.start[0].([]string) {
			batch = append(batch, vCapOfName(fn))
		}
		j["batch"] = batch
		j["next"] = int(in.start[1].(uint64))
		j["idx"] = s.fids(in.start[2].([]*index.Reader))
		if in.phase == "gate" {
			created := in.result[1].([]*index.Reader)
			if len(created) > 0 {
				j["file"] = s.fid(created[0].Filename())
				j["nfiles"] = len(created)
			}
			ids := func(a any) []int {
				if bm, ok := a.(*bitmask.LongBitmask); ok && bm != nil {
					return vBits(*bm)
				}
				return []int{}
			}
			j["upd"], j["res"], j["add"] = ids(in.result[2]), ids(in.result[3]), ids(in.result[4])
			j["used"] = len(j["add"].([]int))
			j["n"] = in.result[0].(int)
			j["err"] = errStr(in.result[5])
			if len(batch) > 0 && batch[0] >= 90 { // an unreadable capture at the head of the batch is part of the schedule
				j["err"] = ""
			}
		}
	case "tag":
		t := in.start[1].(*tag)
		j["tag"] = in.start[0].(string)
		j["def"] = vDefOfQuery(in.start[0].(string), t.definition, s.defs)
		td := map[string]any{}
		for n, d := range in.start[2].(map[string]query.TagDetails) {
			td[n] = vBits(d.Matches)
		}
		j["td"] = td
		j["idx"] = s.fids(in.start[3].([]*index.Reader))
		j["U0"], j["M0"] = in.extra[0], in.extra[1]
		// the job's definition is not the one the tag of that name has now (deleted, renamed, added again, query changed)
		cur, ok := s.mgr.tags[in.start[0].(string)]
		j["stale"] = !ok || cur.version != t.version
		if in.phase == "gate" {
			j["M1"] = vBits(in.result[1].(*tag).Matches)
			j["err"] = errStr(in.result[2])
			if j["def"].(vDef).K == "E" { // this definition is meant to fail
				j["err"] = ""
			}
		}
	case "merge":
		j["off"] = in.start[0].(int) + 1
		j["idx"] = s.fids(in.start[1].([]*index.Reader))
		if in.phase == "gate" {
			merged := in.result[0].([]*index.Reader)
			if len(merged) > 0 {
				j["file"] = s.fid(merged[0].Filename())
				j["nfiles"] = len(merged)
			}
			j["err"] = errStr(in.result[1])
			if in.fault { // an injected failure is part of the schedule, not a finding
				j["err"] = ""
			}
		}
	case "conv":
		cs := in.start[0].([]*converters.CachedConverter)
		bms := in.start[1].([]*bitmask.LongBitmask)
		ids := map[string]any{}
		for i, c := range cs {
			ids[c.Name()] = vBits(*bms[i])
		}
		j["ids"] = ids
		j["idx"] = s.fids(in.start[2].([]*index.Reader))
	}
	return j
}

// ---------------------------------------------------------------- observations from outside

type vObs struct {
	Vis     []vEntry            `json:"vis"`
	Truth   map[string][]int    `json:"truth"`
	Search  map[string][]int    `json:"search"`
	Search2 []vSearch2          `json:"search2"` // negated and combined tag filters
	Shown   map[string][]string `json:"shown"`  // per stream id: tags a fresh view reports as decided+matching
	ShownAll map[string][]string `json:"shownAll"` // the same through a view that evaluates undecided tags on demand (PrefetchAllTags)
	Dir     []string            `json:"dir"`
	Views   map[string]any      `json:"views"`
	Infos   map[string]any      `json:"infos"`
	Err     string              `json:"err"`
	Status  map[string]any      `json:"status"`
}

// a search by tag filters: kind "not" (-A), "and" (A B), "andnot" (A -B), "or" (A or B)
type vSearch2 struct {
	Kind string `json:"kind"`
	A    string `json:"a"`
	B    string `json:"b"`
	Res  []int  `json:"res"`
	Err  string `json:"err"`
}

func vIDs(ss []*index.Stream) []int {
	res := []int{}
	for _, s := range ss {
		res = append(res, int(s.ID()))
	}
	sort.Ints(res)
	return res
}

// from-scratch evaluation with the real query engine on the current data, bottom-up through references
func (s *vScenario) observe(st *vState) *vObs {
	o := &vObs{Truth: map[string][]int{}, Search: map[string][]int{}, Shown: map[string][]string{}, ShownAll: map[string][]string{}, Views: map[string]any{}, Infos: map[string]any{}, Status: map[string]any{}, Vis: []vEntry{}}
	stt := s.mgr.Status()
	o.Status = map[string]any{"locks": int(stt.IndexLockCount), "indexes": stt.IndexCount, "importJobs": stt.ImportJobCount,
		"merge": stt.MergeJobRunning, "tag": stt.TaggingJobRunning, "conv": stt.ConverterJobRunning, "streams": stt.StreamCount}
	v := s.mgr.GetView()
	if err := v.fetch(); err != nil {
		o.Err = "fetch: " + err.Error()
		return o
	}
	defer func() {
		v.Release()
		s.sync()
	}()
	ctx := context.Background()
	if len(v.indexes) != 0 {
		if err := v.AllStreams(ctx, func(sc StreamContext) error {
			e, err := vStreamEntry(sc.Stream())
			if err != nil {
				return err
			}
			o.Vis = append(o.Vis, e)
			tags, err := sc.AllTags()
			if err != nil {
				return err
			}
			o.Shown[fmt.Sprint(e.ID)] = tags
			return nil
		}); err != nil {
			o.Err = "AllStreams: " + err.Error()
		}
	}
	sort.Slice(o.Vis, func(i, j int) bool { return o.Vis[i].ID < o.Vis[j].ID })
	// (a definition that cannot be evaluated has no truth: C06 is not judged while such a tag exists)
	hasErrTag := false
	for _, t := range st.Tags {
		hasErrTag = hasErrTag || t.Def.K == "E"
	}
	// what the HTTP API shows: a view that evaluates the undecided tags on demand for the streams it lists
	if len(v.indexes) != 0 && !hasErrTag {
		pv := s.mgr.GetView()
		if err := pv.AllStreams(ctx, func(sc StreamContext) error {
			tags, err := sc.AllTags()
			if err != nil {
				return err
			}
			o.ShownAll[fmt.Sprint(sc.Stream().ID())] = tags
			return nil
		}, PrefetchAllTags()); err != nil {
			o.Err = "AllStreams(PrefetchAllTags): " + err.Error()
		}
		pv.Release()
	}
	// truth: topological order over the definitions as they are now
	names := vSortedKeys(st.Tags)
	truthTD := map[string]query.TagDetails{}
	resolved := map[string]bool{}
	for progress := true; progress && len(resolved) < len(names); {
		progress = false
	next:
		for _, n := range names {
			if resolved[n] {
				continue
			}
			td, ok := v.tagDetails[n]
			if !ok || st.Tags[n].Def.K == "E" {
				continue
			}
			f := td.Conditions.Features()
			for _, r := range append(append([]string{}, f.MainTags...), f.SubQueryTags...) {
				if !resolved[r] {
					continue next
				}
			}
			ids := []int{}
			// evaluate the definition text from scratch (absolute times are relative to the parse's reference time)
			fresh, perr := query.Parse(st.Tags[n].Text)
			if perr != nil {
				o.Err = fmt.Sprintf("truth(%s): parse: %v", n, perr)
				return o
			}
			if len(v.indexes) != 0 {
				res, _, _, err := index.SearchStreams(ctx, v.indexes, nil, fresh.ReferenceTime, fresh.Conditions, nil,
					[]query.Sorting{{Key: query.SortingKeyID, Dir: query.SortingDirAscending}}, 0, 0, truthTD, v.converters, false)
				if err != nil {
					o.Err = fmt.Sprintf("truth(%s): %v", n, err)
					return o
				}
				ids = vIDs(res)
			}
			bm := bitmask.LongBitmask{}
			for _, i := range ids {
				bm.Set(uint(i))
			}
			truthTD[n] = query.TagDetails{Matches: bm, Conditions: td.Conditions}
			o.Truth[n] = ids
			resolved[n] = true
			progress = true
		}
	}
	// what a user gets when searching by the tag through the view (engine inlines undecided tags)
	for _, n := range names {
		if !resolved[n] {
			continue
		}
		q, err := query.Parse(vTagFilter(n, false))
		if err != nil {
			o.Err = "parse tag filter: " + err.Error()
			continue
		}
		ids := []int{}
		if len(v.indexes) != 0 {
			_, _, _, err = v.SearchStreams(ctx, q, func(sc StreamContext) error {
				ids = append(ids, int(sc.Stream().ID()))
				return nil
			})
			if err != nil {
				o.Err = fmt.Sprintf("search(%s): %v", n, err)
				continue
			}
		}
		sort.Ints(ids)
		o.Search[n] = ids
	}
	// negated and combined tag filters (the engine inlines every undecided tag, also inverted and in products)
	o.Search2 = []vSearch2{}
	resolvedNames := []string{}
	for _, n := range names {
		if resolved[n] {
			resolvedNames = append(resolvedNames, n)
		}
	}
	search2 := func(kind, a, b, text string) {
		x := vSearch2{Kind: kind, A: a, B: b, Res: []int{}}
		q, err := query.Parse(text)
		if err != nil {
			x.Err = "parse: " + err.Error()
		} else if len(v.indexes) != 0 {
			if _, _, _, err := v.SearchStreams(ctx, q, func(sc StreamContext) error {
				x.Res = append(x.Res, int(sc.Stream().ID()))
				return nil
			}); err != nil {
				x.Err = err.Error()
			}
		}
		sort.Ints(x.Res)
		o.Search2 = append(o.Search2, x)
	}
	if len(resolvedNames) >= 3 {
		// all tags at once: every undecided one is inlined, the alternatives multiply
		pos, neg := []string{}, []string{}
		for _, n := range resolvedNames {
			pos = append(pos, vTagFilter(n, false))
			neg = append(neg, vTagFilter(n, true))
		}
		search2("andall", "", "", strings.Join(pos, " "))
		search2("orall", "", "", strings.Join(pos, " or "))
		search2("norall", "", "", strings.Join(neg, " "))
	}
	for i, a := range resolvedNames {
		search2("not", a, "", vTagFilter(a, true))
		// the tag inside a sub-query: the streams numbered one above a stream of the tag
		typ, sub, _ := strings.Cut(a, "/")
		search2("subnext", a, "", fmt.Sprintf("@s:%s:%s id:@s:id@+1", typ, sub))
		for j, b := range resolvedNames {
			if i < j {
				search2("and", a, b, vTagFilter(a, false)+" "+vTagFilter(b, false))
				search2("or", a, b, vTagFilter(a, false)+" or "+vTagFilter(b, false))
			}
			if i != j {
				search2("andnot", a, b, vTagFilter(a, false)+" "+vTagFilter(b, true))
			}
		}
	}
	ents, _ := os.ReadDir(s.dirs["index"])
	for _, e := range ents {
		if strings.HasSuffix(e.Name(), ".idx") && !s.partial[e.Name()] {
			o.Dir = append(o.Dir, s.fid(e.Name()))
		}
	}
	sort.Strings(o.Dir)
	if o.Dir == nil {
		o.Dir = []string{}
	}
	// held views: re-read everything through the view's own readers
	for vn, hv := range s.views {
		streams := []vEntry{}
		tagsOf := map[string][]string{}
		errS := ""
		// (also a view opened while nothing was imported yet: it has to stay empty)
		if err := hv.AllStreams(ctx, func(sc StreamContext) error {
			e, err := vStreamEntry(sc.Stream())
			if err != nil {
				return err
			}
			streams = append(streams, e)
			tags, _ := sc.AllTags()
			tagsOf[fmt.Sprint(e.ID)] = tags
			return nil
		}); err != nil {
			errS = err.Error()
		}
		sort.Slice(streams, func(i, j int) bool { return streams[i].ID < streams[j].ID })
		digest := fmt.Sprint(streams, tagsOf)
		if _, ok := s.viewFirst[vn]; !ok {
			s.viewFirst[vn] = digest
		}
		o.Views[vn] = map[string]any{"streams": streams, "tags": tagsOf, "err": errS, "same": digest == s.viewFirst[vn]}
	}
	for _, ti := range s.mgr.ListTags() {
		o.Infos[ti.Name] = map[string]any{"matching": int(ti.MatchingCount), "uncertain": int(ti.UncertainCount), "referenced": ti.Referenced, "convs": ti.Converters, "color": ti.Color}
	}
	return o
}

// sync: a no-op closure; when it has run, everything posted before it has run too
func (s *vScenario) sync() error {
	done := make(chan struct{})
	select {
	case s.mgr.jobs <- func() { close(done) }:
	case <-time.After(10 * time.Second):
		return fmt.Errorf("manager goroutine does not accept closures")
	}
	select {
	case <-done:
		return nil
	case <-time.After(10 * time.Second):
		return fmt.Errorf("manager goroutine hangs")
	}
}

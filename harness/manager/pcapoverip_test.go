package manager

// C10 / C08 (extension): captures that arrive over a PCAP-over-IP endpoint.  The service reads packets from the endpoint, writes
// them to capture files of its own (in batches that depend on when its import jobs finish) and imports those.  What a view shows
// once the service is at rest is recorded and judged by spec/EndpointTrace.tla against the world that was served.

import (
	"bufio"
	"bytes"
	"context"
	"encoding/json"
	"net"
	"os"
	"path/filepath"
	"testing"
	"time"

	"github.com/gopacket/gopacket"
	"github.com/gopacket/gopacket/layers"
	"github.com/gopacket/gopacket/pcapgo"
)

type vEndpointRow struct {
	Variant string   `json:"variant"`
	Served  [][2]int `json:"served"` // [connection, capture] of every packet that was served
	Vis     []vEntry `json:"vis"`
	Pcaps   int      `json:"pcaps"`
	Packets int      `json:"packets"`
	Err     string   `json:"err"`
}

func TestVerifPcapOverIP(t *testing.T) {
	out := os.Getenv("VERIF_OUT")
	if out == "" {
		t.Skip("VERIF_OUT not set")
	}
	of, _ := os.Create(out)
	defer of.Close()
	// pauses (ms) between the packets: the service writes what it has when an import finishes, so the pauses decide
	// how the packets are spread over capture files
	for vi, pauses := range [][]int{{0, 0, 0, 0, 0}, {80, 0, 0, 80, 0}, {0, 120, 120, 0, 120}, {300, 300, 300, 300, 300}} {
		row := vEndpointRow{Variant: string(rune('a' + vi)), Served: [][2]int{}, Vis: []vEntry{}}
		func() {
			base := t.TempDir()
			world := vDefaultWorld
			s, err := vNewScenario(t, base, &world, nil, true)
			if err != nil {
				row.Err = err.Error()
				return
			}
			defer s.close()
			// the packets of captures 1, 2, 3 in time order, as one pcap stream
			src := filepath.Join(base, "src")
			os.MkdirAll(src, 0o755)
			type rec struct {
				ci   gopacket.CaptureInfo
				data []byte
			}
			recs := []rec{}
			for _, k := range world.Caps {
				name, err := vWriteCapture(src, &world, k)
				if err != nil {
					row.Err = err.Error()
					return
				}
				f, _ := os.Open(filepath.Join(src, name))
				r, err := pcapgo.NewReader(f)
				if err != nil {
					row.Err = err.Error()
					return
				}
				for {
					data, ci, err := r.ReadPacketData()
					if err != nil {
						break
					}
					recs = append(recs, rec{ci, append([]byte(nil), data...)})
				}
				f.Close()
				for _, c := range world.Conns {
					for _, kk := range world.Pieces[c] {
						if kk == k {
							row.Served = append(row.Served, [2]int{c, k})
						}
					}
				}
			}
			ln, err := net.Listen("tcp", "127.0.0.1:0")
			if err != nil {
				row.Err = err.Error()
				return
			}
			defer ln.Close()
			served := make(chan struct{})
			go func() {
				c, err := ln.Accept()
				if err != nil {
					return
				}
				defer c.Close()
				buf := &bytes.Buffer{}
				w := pcapgo.NewWriter(buf)
				w.WriteFileHeader(65536, layers.LinkTypeIPv4) // like the captures of the world
				c.Write(buf.Bytes())
				for i, r := range recs {
					buf.Reset()
					w.WritePacket(r.ci, r.data)
					c.Write(buf.Bytes())
					if p := pauses[i%len(pauses)]; p > 0 {
						time.Sleep(time.Duration(p) * time.Millisecond)
					}
				}
				close(served)
				time.Sleep(3 * time.Second) // keep the connection: a reconnect would be served nothing
			}()
			if err := s.mgr.AddPcapOverIPEndpoint(ln.Addr().String()); err != nil {
				row.Err = err.Error()
				return
			}
			<-served
			// at rest: nothing queued or running and every served packet counted, for half a second
			quiet := 0
			for d := time.Now().Add(20 * time.Second); time.Now().Before(d) && quiet < 10; time.Sleep(50 * time.Millisecond) {
				st := s.mgr.Status()
				if st.ImportJobCount == 0 && !st.TaggingJobRunning && !st.MergeJobRunning && !st.ConverterJobRunning && st.PacketCount >= len(recs) {
					quiet++
				} else {
					quiet = 0
				}
			}
			st := s.mgr.Status()
			row.Pcaps, row.Packets = st.PcapCount, st.PacketCount
			v := s.mgr.GetView()
			defer v.Release()
			if err := v.AllStreams(context.Background(), func(sc StreamContext) error {
				e, err := vStreamEntry(sc.Stream())
				if err != nil {
					return err
				}
				row.Vis = append(row.Vis, e)
				return nil
			}); err != nil {
				row.Err = "AllStreams: " + err.Error()
			}
		}()
		js, _ := json.Marshal(row)
		w := bufio.NewWriter(of)
		w.Write(js)
		w.WriteByte('\n')
		w.Flush()
	}
}

package manager

// C12: crash points.  At a "Crash" step the data directory is copied (a process kill at that instant leaves exactly
// this directory behind, the service never syncs), optionally with the newest file cut short (a kill inside a write).
// After the scenario, a new Manager is opened on every copy and observed (DESIGN.md, C12 specifics).

import (
	"encoding/json"
	"fmt"
	"os"
	"os/exec"
	"path/filepath"
	"sort"
	"strings"
	"time"
)

type vStateSnap struct {
	name  string
	bytes []byte
	tags  map[string]vTagSt
	settings vSettings
}

type vCrash struct {
	K      int
	Base   string
	Pre    *vState
	PreVis []vEntry
	Order  []string // index files sorted by name (= the order a restart loads them in)
	What   string
	Cut    int
	ExpTags map[string]vTagSt
	ExpSettings *vSettings
	Note   string
	AtStep int
}

func vCopyDir(src, dst string) error {
	out, err := exec.Command("cp", "-a", src, dst).CombinedOutput()
	if err != nil {
		return fmt.Errorf("cp: %v: %s", err, out)
	}
	return nil
}

// remember every state file the manager has written (name, content, tag table at that time)
func (s *vScenario) trackStateFile(st *vState) {
	if st.StateFile == "" || st.StateFile == "." {
		return
	}
	if n := len(s.stateHist); n > 0 && s.stateHist[n-1].name == st.StateFile {
		return
	}
	b, err := os.ReadFile(filepath.Join(s.dirs["state"], st.StateFile))
	if err != nil {
		return
	}
	s.stateHist = append(s.stateHist, vStateSnap{name: st.StateFile, bytes: b, tags: st.Tags, settings: st.Settings})
	if len(s.stateHist) > 2 {
		s.stateHist = s.stateHist[len(s.stateHist)-2:]
	}
}

func (s *vScenario) crash(ev vStep, atStep int) (string, string, error) {
	st, err := s.project()
	if err != nil {
		return "", "", err
	}
	obs := s.observe(st)
	k := len(s.crashes)
	base := fmt.Sprintf("%s_crash%d", strings.TrimSuffix(s.dirs["base"], "/"), k)
	if err := vCopyDir(s.dirs["base"], base); err != nil {
		return "", "", err
	}
	c := &vCrash{K: k, Base: base, Pre: st, PreVis: obs.Vis, What: ev.What, Cut: ev.Cut, ExpTags: st.Tags, AtStep: atStep}
	names := []string{}
	ents, _ := os.ReadDir(filepath.Join(base, "index"))
	for _, e := range ents {
		if strings.HasSuffix(e.Name(), ".idx") {
			names = append(names, e.Name())
		}
	}
	sort.Strings(names)
	for _, n := range names {
		c.Order = append(c.Order, s.fid(n))
	}
	switch ev.What {
	case "state":
		// kill inside saveState: the new file is partly written, the old one is still there
		if n := len(s.stateHist); n > 0 {
			cur := s.stateHist[n-1]
			cut := 0
			if len(cur.bytes) > 0 {
				cut = ev.Cut % len(cur.bytes)
			}
			if err := os.WriteFile(filepath.Join(base, "state", cur.name), cur.bytes[:cut], 0o644); err != nil {
				return "", "", err
			}
			c.ExpTags = map[string]vTagSt{}
			c.ExpSettings = &vSettings{Hooks: []string{}, Eps: []string{}}
			c.Note = fmt.Sprintf("state file cut to %d of %d bytes", cut, len(cur.bytes))
			if n > 1 {
				prev := s.stateHist[n-2]
				if err := os.WriteFile(filepath.Join(base, "state", prev.name), prev.bytes, 0o644); err != nil {
					return "", "", err
				}
				c.ExpTags = prev.tags
				ps := prev.settings
				c.ExpSettings = &ps
			}
		}
	case "cache":
		// kill inside the append of a converter cache record: the newest cache file loses the end of its last record
		cents, _ := os.ReadDir(filepath.Join(base, "index"))
		for _, e := range cents {
			if !strings.HasSuffix(e.Name(), ".cidx") {
				continue
			}
			p := filepath.Join(base, "index", e.Name())
			b, err := os.ReadFile(p)
			if err != nil {
				return "", "", err
			}
			k := 1 + ev.Cut%24
			if len(b) <= 16+k { // nothing but the file header: leave it
				continue
			}
			if err := os.WriteFile(p, b[:len(b)-k], 0o644); err != nil {
				return "", "", err
			}
			c.Note = fmt.Sprintf("cache file %s cut by %d bytes to %d", e.Name(), k, len(b)-k)
		}
	case "idx":
		// kill inside the write of a job's output file: the newest index file that is not served yet
		served := map[string]bool{}
		for _, f := range st.Indexes {
			served[f] = true
		}
		for i := len(names) - 1; i >= 0; i-- {
			if served[s.fid(names[i])] {
				continue
			}
			p := filepath.Join(base, "index", names[i])
			b, err := os.ReadFile(p)
			if err != nil {
				return "", "", err
			}
			cut := ev.Cut % len(b)
			if err := os.WriteFile(p, b[:cut], 0o644); err != nil {
				return "", "", err
			}
			c.Note = fmt.Sprintf("index file %s cut to %d of %d bytes", s.fid(names[i]), cut, len(b))
			// the cut file is not a loadable index any more
			order := []string{}
			for _, f := range c.Order {
				if f != s.fid(names[i]) {
					order = append(order, f)
				}
			}
			c.Order = order
			break
		}
	}
	s.crashes = append(s.crashes, c)
	return "ok", c.Note, nil
}

// open a new Manager on a crash copy and run it to quiescence
func (s *vScenario) restartOn(c *vCrash, free bool) (*vScenario, string, string) {
	n := &vScenario{w: s.w, dirs: map[string]string{"base": c.Base}, fileIDs: s.fileIDs, fileCont: map[string][]vEntry{},
		defs: s.defs, views: map[string]*View{}, viewFirst: map[string]string{}, convNames: s.convNames, orphanFlag: map[string]bool{}, partial: map[string]bool{}, afterCrash: true}
	n.nextFile = s.nextFile
	n.viewConverted = s.viewConverted
	n.lost = append(append([]int{}, s.lost...), c.Pre.Queue...)
	for _, d := range []string{"pcap", "index", "snapshot", "state", "converter", "watch"} {
		n.dirs[d] = filepath.Join(c.Base, d) + "/"
	}
	n.ctl = vNewCtl(free)
	vInstallCtl(n.ctl)
	type r struct {
		err error
		pan any
	}
	ch := make(chan r, 1)
	go func() {
		defer func() {
			if p := recover(); p != nil {
				ch <- r{pan: p}
			}
		}()
		ch <- r{err: n.open()}
	}()
	select {
	case x := <-ch:
		if x.pan != nil {
			return nil, "panic", fmt.Sprint(x.pan)
		}
		if x.err != nil {
			return nil, "err", x.err.Error()
		}
	case <-time.After(20 * time.Second):
		return nil, "hang", "New did not return"
	}
	return n, "ok", ""
}

func vJSON(v any) json.RawMessage {
	b, _ := json.Marshal(v)
	return b
}

package manager

// C20 (extension): the pcap-over-IP endpoint goroutines, event listeners and webhooks next to the service loop.
// Not schedule-driven: a small scenario whose only purpose is to make these goroutines overlap under -race.

import (
	"encoding/json"
	"net"
	"net/http"
	"net/http/httptest"
	"os"
	"path/filepath"
	"strings"
	"testing"
	"time"
)

func TestVerifEndpoints(t *testing.T) {
	if os.Getenv("VERIF_ENDPOINTS") != "1" {
		t.Skip("VERIF_ENDPOINTS not set")
	}
	base := t.TempDir()
	world := vDefaultWorld
	// a converter that keeps writing to stderr while it works
	os.MkdirAll(filepath.Join(base, "converter"), 0o755)
	noisy := strings.Replace(vConverterScript, "    out = b\"CONV:\"", "    for i in range(300):\n        sys.stderr.write(\"noise %d\\n\" % i)\n        sys.stderr.flush()\n        time.sleep(0.002)\n    out = b\"CONV:\"", 1)
	noisy = strings.Replace(noisy, "import base64, json, sys", "import base64, json, sys, time", 1)
	if err := os.WriteFile(filepath.Join(base, "converter", "noisy.py"), []byte(noisy), 0o775); err != nil {
		t.Fatal(err)
	}
	if err := os.WriteFile(filepath.Join(base, "converter", "quiet.py"), []byte(vConverterScript), 0o775); err != nil {
		t.Fatal(err)
	}
	s, err := vNewScenario(t, base, &world, nil, true)
	if err != nil {
		t.Fatal(err)
	}
	// a capture served over TCP, as a PCAP-over-IP source would
	src := filepath.Join(base, "src")
	os.MkdirAll(src, 0o755)
	name, err := vWriteCapture(src, &world, 1)
	if err != nil {
		t.Fatal(err)
	}
	raw, _ := os.ReadFile(filepath.Join(src, name))
	ln, err := net.Listen("tcp", "127.0.0.1:0")
	if err != nil {
		t.Fatal(err)
	}
	defer ln.Close()
	go func() {
		for {
			c, err := ln.Accept()
			if err != nil {
				return
			}
			go func() {
				defer c.Close()
				c.Write(raw)
				time.Sleep(300 * time.Millisecond)
			}()
		}
	}()
	hook := httptest.NewServer(http.HandlerFunc(func(w http.ResponseWriter, r *http.Request) { w.WriteHeader(200) }))
	defer hook.Close()
	events, closer := s.mgr.Listen()
	go func() {
		// like the websocket handler: every event is encoded after it was received
		for e := range events {
			json.Marshal(e)
		}
	}()
	// request goroutines: what the GET handlers do (list, then encode the answer), all the time
	stopLists := make(chan struct{})
	listsDone := make(chan struct{})
	go func() {
		defer close(listsDone)
		for {
			select {
			case <-stopLists:
				return
			default:
			}
			hooks := s.mgr.ListPcapProcessorWebhooks()
			eps := s.mgr.ListPcapOverIPEndpoints()
			tags := s.mgr.ListTags()
			convs := s.mgr.ListConverters()
			pcaps := s.mgr.KnownPcaps()
			time.Sleep(time.Millisecond)
			json.Marshal(hooks)
			json.Marshal(eps)
			json.Marshal(tags)
			json.Marshal(convs)
			json.Marshal(pcaps)
		}
	}()
	if err := s.mgr.AddPcapProcessorWebhook(hook.URL); err != nil {
		t.Fatal(err)
	}
	if err := s.mgr.AddPcapOverIPEndpoint(ln.Addr().String()); err != nil {
		t.Fatal(err)
	}
	s.mgr.AddTag("tag/a", "", "sport:80")
	capName, _ := vWriteCapture(s.dirs["pcap"], &world, 2)
	s.mgr.ImportPcaps([]string{capName})
	attached := false
	deadline := time.Now().Add(2500 * time.Millisecond)
	for time.Now().Before(deadline) {
		s.mgr.ListPcapOverIPEndpoints()
		s.mgr.Status()
		s.mgr.ListTags()
		s.mgr.KnownPcaps()
		s.mgr.ListPcapProcessorWebhooks()
		if !attached && s.mgr.UpdateTag("tag/a", UpdateTagOperationSetConverter([]string{"noisy"})) == nil {
			attached = true
		}
		for _, st := range s.mgr.ListConverters() {
			for _, p := range st.Processes {
				s.mgr.ConverterStderr(st.Name, p.Pid)
			}
		}
		time.Sleep(5 * time.Millisecond)
	}
	s.mgr.DelPcapOverIPEndpoint(ln.Addr().String())
	// every kind of state the API can write, written right after a background job reported completion: whatever a job
	// goroutine still touches after it has handed over its completion closure is unordered with these writes
	w2 := vWorld{Pieces: map[int][]int{}, Port: map[int]int{}}
	for k := 10; k < 22; k++ {
		w2.Caps = append(w2.Caps, k)
		w2.Conns = append(w2.Conns, k)
		w2.Pieces[k] = []int{k}
		w2.Port[k] = 80 + k%2
	}
	for k := 10; k < 22; k++ {
		cn, err := vWriteCapture(s.dirs["pcap"], &w2, k)
		if err != nil {
			t.Fatal(err)
		}
		before := s.mgr.Status().PcapCount
		s.mgr.ImportPcaps([]string{cn})
		// a tag added while the import runs: its tagging job (uncertain for all streams) overlaps the import's completion
		s.mgr.AddTag("tag/q", "", `cdata:"MARK" sport:80,81`)
		for d := time.Now().Add(10 * time.Second); time.Now().Before(d); {
			if st := s.mgr.Status(); st.ImportJobCount == 0 && st.PcapCount > before && !st.TaggingJobRunning {
				break
			}
		}
		url := hook.URL + "/r" + strings.Repeat("x", k-9)
		s.mgr.AddPcapProcessorWebhook(url)
		s.mgr.DelPcapProcessorWebhook(url)
		s.mgr.SetConfig(Config{AutoInsertLimitToQuery: k%2 == 0})
		s.mgr.AddPcapOverIPEndpoint("127.0.0.1:1")
		s.mgr.DelPcapOverIPEndpoint("127.0.0.1:1")
		s.mgr.AddTag("tag/r", "", "sport:81")
		s.mgr.UpdateTag("tag/r", UpdateTagOperationUpdateColor("#123456"))
		s.mgr.UpdateTag("tag/r", UpdateTagOperationUpdateName("tag/s"))
		s.mgr.AddTag("mark/r", "", "id:0")
		s.mgr.UpdateTag("mark/r", UpdateTagOperationMarkAddStream([]uint64{1}))
		s.mgr.DelTag("mark/r")
		s.mgr.DelTag("tag/s")
		s.mgr.DelTag("tag/r")
		s.mgr.DelTag("tag/q")
	}
	// a request goroutine reads what a view shows about a stream (tags, converters, converter output) while the
	// converter attachments of the tag change
	s.mgr.AddTag("mark/c", "", "id:0,1")
	s.mgr.UpdateTag("mark/c", UpdateTagOperationSetConverter([]string{"noisy", "quiet"}))
	stop := make(chan struct{})
	readerDone := make(chan struct{})
	go func() {
		defer close(readerDone)
		for {
			select {
			case <-stop:
				return
			default:
			}
			v := s.mgr.GetView()
			if sc, err := v.Stream(0); err == nil && sc.Stream() != nil {
				sc.AllTags()
				sc.AllConverters()
				sc.HasTag("mark/c")
			}
			v.Release()
		}
	}()
	for i := 0; i < 40; i++ {
		// (a new attachment goes to the end of the tag's list: alternate the one that stays, so that the one that is
		// detached is the first of the list and the others move)
		keep, other := "quiet", "noisy"
		if i%2 == 1 {
			keep, other = other, keep
		}
		s.mgr.UpdateTag("mark/c", UpdateTagOperationSetConverter([]string{keep}))
		s.mgr.UpdateTag("mark/c", UpdateTagOperationSetConverter([]string{keep, other}))
		s.mgr.UpdateTag("mark/c", UpdateTagOperationMarkAddStream([]uint64{2}))
		s.mgr.UpdateTag("mark/c", UpdateTagOperationMarkDelStream([]uint64{2}))
		// the cache of a converter is reset (API call; the same happens when its executable changes) while converter
		// jobs start, run and complete
		s.mgr.ResetConverter(keep)
		time.Sleep(time.Duration(i%7) * 3 * time.Millisecond)
		s.mgr.ResetConverter(other)
	}
	close(stop)
	<-readerDone
	close(stopLists)
	<-listsDone
	closer()
	s.close()
}

package manager

// C20 (extension): the pcap-over-IP endpoint goroutines, event listeners and webhooks next to the service loop.
// Not schedule-driven: a small scenario whose only purpose is to make these goroutines overlap under -race.

import (
	"net"
	"net/http"
	"net/http/httptest"
	"os"
	"path/filepath"
	"testing"
	"time"
)

func TestVerifEndpoints(t *testing.T) {
	if os.Getenv("VERIF_ENDPOINTS") != "1" {
		t.Skip("VERIF_ENDPOINTS not set")
	}
	base := t.TempDir()
	world := vDefaultWorld
	s, err := vNewScenario(t, base, &world, nil, true)
	if err != nil {
		t.Fatal(err)
	}
	// a capture served over TCP, as a PCAP-over-IP source would
	src := filepath.Join(base, "src")
	os.MkdirAll(src, 0o755)
	name, err := vWriteCapture(src, &world, 1)
	if err != nil {
		t.Fatal(err)
	}
	raw, _ := os.ReadFile(filepath.Join(src, name))
	ln, err := net.Listen("tcp", "127.0.0.1:0")
	if err != nil {
		t.Fatal(err)
	}
	defer ln.Close()
	go func() {
		for {
			c, err := ln.Accept()
			if err != nil {
				return
			}
			go func() {
				defer c.Close()
				c.Write(raw)
				time.Sleep(300 * time.Millisecond)
			}()
		}
	}()
	hook := httptest.NewServer(http.HandlerFunc(func(w http.ResponseWriter, r *http.Request) { w.WriteHeader(200) }))
	defer hook.Close()
	events, closer := s.mgr.Listen()
	go func() {
		for range events {
		}
	}()
	if err := s.mgr.AddPcapProcessorWebhook(hook.URL); err != nil {
		t.Fatal(err)
	}
	if err := s.mgr.AddPcapOverIPEndpoint(ln.Addr().String()); err != nil {
		t.Fatal(err)
	}
	s.mgr.AddTag("tag/a", "", "sport:80")
	deadline := time.Now().Add(2500 * time.Millisecond)
	for time.Now().Before(deadline) {
		s.mgr.ListPcapOverIPEndpoints()
		s.mgr.Status()
		s.mgr.ListTags()
		s.mgr.KnownPcaps()
		s.mgr.ListPcapProcessorWebhooks()
		time.Sleep(5 * time.Millisecond)
	}
	s.mgr.DelPcapOverIPEndpoint(ln.Addr().String())
	closer()
	s.close()
}

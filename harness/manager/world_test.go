package manager

// World shared with spec/ManagerMC.tla (MCCaps, MCConns, MCPieces, MCPort) and the
// concretisation of abstract captures / tag definitions (DESIGN.md Appendix B).

import (
	"fmt"
	"net"
	"os"
	"path/filepath"
	"regexp"
	"sort"
	"strconv"
	"strings"
	"time"

	"github.com/gopacket/gopacket"
	"github.com/gopacket/gopacket/layers"
	"github.com/gopacket/gopacket/pcapgo"
)

type vWorld struct {
	Caps   []int         `json:"caps"`
	Conns  []int         `json:"conns"`
	Pieces map[int][]int `json:"pieces"`
	Port   map[int]int   `json:"port"`
}

var vDefaultWorld = vWorld{
	Caps:   []int{1, 2, 3},
	Conns:  []int{1, 2, 3},
	Pieces: map[int][]int{1: {1, 2}, 2: {2, 3}, 3: {1}},
	Port:   map[int]int{1: 80, 2: 81, 3: 80},
}

var vT0 = time.Date(2021, 3, 4, 5, 6, 0, 0, time.UTC)

func vCapName(k int) string { return fmt.Sprintf("cap%d.pcap", k) }
func vCapOfName(n string) int {
	n = strings.TrimSuffix(strings.TrimPrefix(filepath.Base(n), "cap"), ".pcap")
	k, err := strconv.Atoi(n)
	if err != nil {
		return -1
	}
	return k
}
func vClientPort(c int) int { return 1000 + c }
func vConnOfClientPort(p uint16) int {
	return int(p) - 1000
}
func vPktTime(k, c int) time.Time {
	return vT0.Add(time.Duration(k)*10*time.Second + time.Duration(c)*50*time.Millisecond)
}

// one UDP packet per (capture, connection): client -> server, payload "MARK<k>;"
func vWriteCapture(dir string, w *vWorld, k int) (string, error) {
	name := vCapName(k)
	path := filepath.Join(dir, name)
	if _, err := os.Stat(path); err == nil {
		return name, nil
	}
	f, err := os.Create(path + ".tmp")
	if err != nil {
		return "", err
	}
	pw := pcapgo.NewWriter(f)
	if err := pw.WriteFileHeader(65536, layers.LinkTypeIPv4); err != nil {
		return "", err
	}
	if k >= 90 {
		// an unreadable capture (Manager.tla, Bad): the file ends inside the header of its first record
		if _, err := f.Write([]byte{1, 2, 3, 4, 5, 6, 7, 8, 9, 10}); err != nil {
			return "", err
		}
	}
	conns := append([]int(nil), w.Conns...)
	sort.Ints(conns)
	for _, c := range conns {
		has := false
		for _, kk := range w.Pieces[c] {
			if kk == k {
				has = true
			}
		}
		if !has {
			continue
		}
		ip := layers.IPv4{Version: 4, TTL: 64, Protocol: layers.IPProtocolUDP,
			SrcIP: net.IPv4(10, 0, 0, byte(c)).To4(), DstIP: net.IPv4(10, 0, 1, 1).To4()}
		udp := layers.UDP{SrcPort: layers.UDPPort(vClientPort(c)), DstPort: layers.UDPPort(w.Port[c])}
		if err := udp.SetNetworkLayerForChecksum(&ip); err != nil {
			return "", err
		}
		buf := gopacket.NewSerializeBuffer()
		if err := gopacket.SerializeLayers(buf, gopacket.SerializeOptions{ComputeChecksums: true, FixLengths: true},
			&ip, &udp, gopacket.Payload([]byte(fmt.Sprintf("MARK%d;", k)))); err != nil {
			return "", err
		}
		data := buf.Bytes()
		if err := pw.WritePacket(gopacket.CaptureInfo{Timestamp: vPktTime(k, c), CaptureLength: len(data), Length: len(data)}, data); err != nil {
			return "", err
		}
	}
	if err := f.Close(); err != nil {
		return "", err
	}
	return name, os.Rename(path+".tmp", path)
}

var vMarkRe = regexp.MustCompile(`MARK(\d+);`)
var vIntRe = regexp.MustCompile(`\d+`)

func vVersionOf(payload []byte) []int {
	seen := map[int]bool{}
	for _, m := range vMarkRe.FindAllSubmatch(payload, -1) {
		k, _ := strconv.Atoi(string(m[1]))
		seen[k] = true
	}
	res := []int{}
	for k := range seen {
		res = append(res, k)
	}
	sort.Ints(res)
	return res
}

// ---- abstract tag definitions (Manager.tla Def(k, n, s, t))
type vDef struct {
	K string `json:"k"`
	N int    `json:"n"`
	S []int  `json:"s"`
	T string `json:"t"`
}

func vTagFilter(name string, neg bool) string {
	typ, sub, _ := strings.Cut(name, "/")
	p := ""
	if neg {
		p = "-"
	}
	return fmt.Sprintf("%s%s:%s", p, typ, sub)
}

func (d vDef) query() string {
	switch d.K {
	case "P":
		return fmt.Sprintf("sport:%d", d.N)
	case "D":
		return fmt.Sprintf(`cdata:"MARK%d;"`, d.N)
	case "C":
		return `cdata:"CONV:"`
	case "Q": // a payload filter inside a sub-query: streams on the server port of a stream that has converter output
		return `@sub:cdata:"CONV:" sport:@sub:sport@`
	case "E": // parses, but no such converter exists: every search with it fails
		return `cdata.nope:"x"`
	case "B": // every capture adds a marker of 6 bytes ("MARKk;") to the client side of a conversation
		return fmt.Sprintf("cbytes:%d:", 6*d.N-3)
	case "L":
		return fmt.Sprintf(`ltime:"%s:"`, vT0.Add(time.Duration(d.N)*10*time.Second-5*time.Second).Format("2006-01-02 150405"))
	case "I", "M":
		if len(d.S) == 0 {
			return "id:-1"
		}
		parts := []string{}
		for _, i := range d.S {
			parts = append(parts, strconv.Itoa(i))
		}
		if d.K == "M" && d.T == "twice" {
			// a mark definition that is not a plain list: the same list written twice (a conjunction), same set of streams
			return "id:" + strings.Join(parts, ",") + " id:" + strings.Join(parts, ",")
		}
		return "id:" + strings.Join(parts, ",")
	case "R":
		return vTagFilter(d.T, false)
	case "N":
		return vTagFilter(d.T, true)
	case "S":
		typ, sub, _ := strings.Cut(d.T, "/")
		return fmt.Sprintf("@sub:%s:%s sport:@sub:sport@", typ, sub)
	case "X": // deliberately malformed (C11 invalid-call classes)
		return "id:(("
	}
	return "id:-1"
}

// back-translation of a definition string found in the manager's tag table
func vDefOfQuery(name, q string, known map[string]vDef) vDef {
	if strings.HasPrefix(name, "mark/") || strings.HasPrefix(name, "generated/") {
		ids := []int{}
		if strings.Contains(q, " id:") {
			// not a plain list (written twice, possibly extended by mark_add): the ids in the order they first appear
			seen := map[int]bool{}
			for _, m := range vIntRe.FindAllString(q, -1) {
				if i, err := strconv.Atoi(m); err == nil && !seen[i] {
					seen[i] = true
					ids = append(ids, i)
				}
			}
			return vDef{K: "M", S: ids, T: "twice"}
		}
		if strings.HasPrefix(q, "id:") && q != "id:-1" {
			// keep order and repetitions: the manager compares definitions as text
			for _, p := range strings.Split(q[3:], ",") {
				if i, err := strconv.Atoi(p); err == nil {
					ids = append(ids, i)
				}
			}
		}
		return vDef{K: "M", S: ids}
	}
	if d, ok := known[q]; ok {
		return d
	}
	return vDef{K: "?", T: q, S: []int{}}
}

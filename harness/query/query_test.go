package index

// C02 / C03 conformance harness (injected by `go test -overlay`).
// Input  VERIF_IN : json {files: [[stream...]...] per layout, cases: [ast...], runs: [{sort,limit,skip}...]}
// Output VERIF_POPS (ndjson, one row per layout: what the real reader returns for every stored stream)
//        VERIF_OUT  (ndjson, one row per case: text, structural normal form, search results per layout/run)

import (
	"bufio"
	"context"
	"encoding/json"
	"fmt"
	"net"
	"os"
	"path/filepath"
	"sort"
	"strings"
	"testing"
	"time"

	"github.com/gopacket/gopacket"
	"github.com/gopacket/gopacket/reassembly"
	"github.com/spq/pkappa2/internal/index/streams"
	"github.com/spq/pkappa2/internal/query"
	"github.com/spq/pkappa2/internal/tools/bitmask"
	pcapmetadata "github.com/spq/pkappa2/internal/tools/pcapMetadata"
)

type qEv struct {
	D string `json:"d"`
	T string `json:"t"`
}

type qStream struct {
	ID     int      `json:"id"`
	CPort  int      `json:"cport"`
	SPort  int      `json:"sport"`
	CBytes int      `json:"cbytes"`
	SBytes int      `json:"sbytes"`
	Proto  int      `json:"proto"`
	CHost  int      `json:"chost"`
	SHost  int      `json:"shost"`
	Tags   []string `json:"tags"`
	Ev     []qEv    `json:"ev"`
	Ft     int      `json:"ft"`
	Lt     int      `json:"lt"`
}

type qAtom struct {
	K    string `json:"k"`
	N    int    `json:"n"`
	Lo   int    `json:"lo"`
	Hi   int    `json:"hi"`
	S    []int  `json:"s"`
	P    int    `json:"p"`
	H    int    `json:"h"`
	Bits int    `json:"bits"`
	Name string `json:"name"`
	Tok  string `json:"tok"`
	Conv string `json:"conv"` // converter selector of a payload filter ("" = none)
}

type qAst struct {
	Op string `json:"op"`
	A  *qAtom `json:"a,omitempty"`
	X  *qAst  `json:"x,omitempty"`
	Y  *qAst  `json:"y,omitempty"`
}

type qSort struct {
	Key  string `json:"key"`
	Desc bool   `json:"desc"`
}

type qRun struct {
	Sort  []qSort `json:"sort"`
	Limit int     `json:"limit"`
	Skip  int     `json:"skip"`
	IDs   []int   `json:"ids"` // ID restriction (limitIDs); empty = none
	Group []string `json:"group"` // grouping keys (group:"@k1@@k2@"); empty = none
}

type qInput struct {
	Layouts [][][]qStream `json:"layouts"`
	Cases   []qAst        `json:"cases"`
	Runs    []qRun        `json:"runs"`
}

var qBase = time.Date(2022, 5, 6, 0, 0, 0, 0, time.UTC)

func qTime(rank int) time.Time { return qBase.Add(time.Duration(rank) * time.Hour) }
func qIP(h int) net.IP        { return net.IPv4(byte(h>>24), byte(h>>16), byte(h>>8), byte(h)).To4() }
func qIPInt(s string) int {
	ip := net.ParseIP(s).To4()
	if ip == nil {
		return -1
	}
	return int(ip[0])<<24 | int(ip[1])<<16 | int(ip[2])<<8 | int(ip[3])
}

// a stream whose first packet is at rank ft, last at rank lt, one payload chunk "." + token + "." per event
func qMakeStream(s qStream, fileTag string) *streams.Stream {
	pcapinfo := &pcapmetadata.PcapInfo{Filename: fmt.Sprintf("q_%s_%d.pcap", fileTag, s.ID), Filesize: 1,
		PacketTimestampMin: qTime(s.Ft), PacketTimestampMax: qTime(s.Lt), ParseTime: qTime(s.Lt + 1), PacketCount: uint(len(s.Ev) + 2)}
	packets := []gopacket.CaptureInfo{{Timestamp: qTime(s.Ft), CaptureLength: 60, Length: 60}}
	dirs := []reassembly.TCPFlowDirection{reassembly.TCPDirClientToServer}
	data := []streams.StreamData{}
	for i, e := range s.Ev {
		// data packets are spread between first and last packet, at least a second apart (separate chunks)
		ts := qTime(s.Ft).Add(time.Duration(i+1) * time.Second)
		packets = append(packets, gopacket.CaptureInfo{Timestamp: ts, CaptureLength: 60, Length: 60})
		d := reassembly.TCPDirClientToServer
		if e.D == "s" {
			d = reassembly.TCPDirServerToClient
		}
		dirs = append(dirs, d)
		data = append(data, streams.StreamData{Bytes: []byte("." + e.T + "."), PacketIndex: uint64(i + 1)})
	}
	last := qTime(s.Lt)
	if !last.After(packets[len(packets)-1].Timestamp) {
		last = packets[len(packets)-1].Timestamp.Add(time.Second)
	}
	packets = append(packets, gopacket.CaptureInfo{Timestamp: last, CaptureLength: 60, Length: 60})
	dirs = append(dirs, reassembly.TCPDirClientToServer)
	for i := range packets {
		pcapmetadata.AddPcapMetadata(&packets[i], pcapinfo, uint64(i))
	}
	flags := streams.StreamFlagsComplete | streams.StreamFlagsProtocolTCP
	if s.Proto == 2 {
		flags = streams.StreamFlagsComplete | streams.StreamFlagsProtocolUDP
	}
	return &streams.Stream{ClientAddr: qIP(s.CHost), ServerAddr: qIP(s.SHost), ClientPort: uint16(s.CPort), ServerPort: uint16(s.SPort),
		Packets: packets, PacketDirections: dirs, Data: data, Flags: flags}
}

// what the reader says about a stored stream (the population TLC evaluates queries on)
func qReadBack(st *Stream, tags []string) (qStream, error) {
	r := qStream{ID: int(st.ID()), CPort: int(st.ClientPort), SPort: int(st.ServerPort), CBytes: int(st.ClientBytes), SBytes: int(st.ServerBytes),
		Proto: int(st.Flags & flagsStreamProtocol), CHost: qIPInt(st.ClientHostIP()), SHost: qIPInt(st.ServerHostIP()), Tags: tags, Ev: []qEv{}}
	ft, lt := st.FirstPacket().Sub(qBase), st.LastPacket().Sub(qBase)
	// ranks are hours; a last packet pushed a little behind the data packets still belongs to its hour
	r.Ft, r.Lt = int(ft/time.Hour), int(lt/time.Hour)
	data, err := st.Data()
	if err != nil {
		return r, err
	}
	for _, d := range data {
		dir := "c"
		if d.Direction == DirectionServerToClient {
			dir = "s"
		}
		for _, tok := range strings.FieldsFunc(string(d.Content), func(c rune) bool { return c == '.' }) {
			r.Ev = append(r.Ev, qEv{D: dir, T: tok})
		}
	}
	if r.Tags == nil {
		r.Tags = []string{}
	}
	return r, nil
}

// ---- rendering of ASTs to query text
func qAtomText(a *qAtom) string {
	rng := func(key string, lo, hi int) string {
		if hi == -1 {
			return fmt.Sprintf("%s:%d:", key, lo)
		}
		if lo == hi {
			return fmt.Sprintf("%s:%d", key, lo)
		}
		return fmt.Sprintf("%s:%d:%d", key, lo, hi)
	}
	host := func(key string) string {
		if a.Bits == 32 {
			return fmt.Sprintf("%s:%s", key, qIP(a.H))
		}
		return fmt.Sprintf("%s:%s/%d", key, qIP(a.H), a.Bits)
	}
	tm := func(key string) string {
		lo := qTime(a.Lo).Add(-30 * time.Minute).Format("2006-01-02 150405")
		if a.Hi == -1 {
			return fmt.Sprintf(`%s:"%s:"`, key, lo)
		}
		return fmt.Sprintf(`%s:"%s:%s"`, key, lo, qTime(a.Hi).Add(30*time.Minute).Format("2006-01-02 150405"))
	}
	switch a.K {
	case "id":
		return rng("id", a.Lo, a.Hi)
	case "idlist":
		p := []string{}
		for _, i := range a.S {
			p = append(p, fmt.Sprint(i))
		}
		return "id:" + strings.Join(p, ",")
	case "cport", "sport", "port":
		return fmt.Sprintf("%s:%d", a.K, a.N)
	case "cbytes", "sbytes":
		return rng(a.K, a.Lo, a.Hi)
	case "proto":
		return "protocol:" + map[int]string{1: "tcp", 2: "udp"}[a.P]
	case "chost", "shost", "host":
		return host(a.K)
	case "tag":
		typ, sub, _ := strings.Cut(a.Name, "/")
		return typ + ":" + sub
	case "cdata", "sdata", "data":
		if a.Conv != "" {
			return fmt.Sprintf(`%s.%s:"%s"`, a.K, a.Conv, a.Tok)
		}
		return fmt.Sprintf(`%s:"%s"`, a.K, a.Tok)
	case "ftime", "ltime":
		return tm(a.K)
	case "capc":
		return `cdata:"(?P<v>[A-Z]+)"`
	case "fteq":
		return fmt.Sprintf(`ftime:"%s"`, qTime(a.N).Format("2006-01-02 150405"))
	case "hostself":
		return fmt.Sprintf("chost:@shost@/%d", a.Bits)
	case "protoself":
		return "protocol:@protocol@"
	case "dur": // the stream lasts at least / less than N hours (stream times are whole hours: thresholds in between)
		if a.Tok == "ge" {
			return fmt.Sprintf("ltime:@ftime@+%dm:", a.N*60-30)
		}
		return fmt.Sprintf("ltime::@ftime@+%dm", a.N*60-30)
	case "lin": // field OP const +/- variables of the same stream:  id:7-@id@:   cport:920+@sport@   id::9-@id@
		expr := fmt.Sprint(a.N)
		for i, v := range []string{"id", "cport", "sport", "cbytes", "sbytes"} {
			if i >= len(a.S) {
				break
			}
			for m := a.S[i]; m > 0; m-- {
				expr += "+@" + v + "@"
			}
			for m := a.S[i]; m < 0; m++ {
				expr += "-@" + v + "@"
			}
		}
		switch a.Tok {
		case "ge":
			return fmt.Sprintf("%s:%s:", a.Name, expr)
		case "le":
			return fmt.Sprintf("%s::%s", a.Name, expr)
		}
		return fmt.Sprintf("%s:%s", a.Name, expr)
	case "sub_cap":
		return fmt.Sprintf(`@s:id:%d @s:cdata:"(?P<%s>%s)" cdata:@s:%s@ sport:%d`, a.N, a.Name, a.Tok, a.Name, a.P)
	case "sub_port":
		return fmt.Sprintf("@s:cport:%d sport:@s:sport@", a.N)
	case "sub_id":
		typ, sub, _ := strings.Cut(a.Name, "/")
		return fmt.Sprintf("@s:%s:%s id:@s:id@+1", typ, sub)
	}
	return "id:-1"
}

func qText(q *qAst) string {
	switch q.Op {
	case "atom":
		return qAtomText(q.A)
	case "not":
		if q.X.Op == "atom" {
			return "-" + qText(q.X)
		}
		return "-(" + qText(q.X) + ")"
	}
	par := func(x *qAst) string {
		if x.Op == "atom" || (x.Op == "not" && x.X.Op == "atom") {
			return qText(x)
		}
		return "(" + qText(x) + ")"
	}
	op := map[string]string{"and": " and ", "or": " or ", "then": " then "}[q.Op]
	return par(q.X) + op + par(q.Y)
}

// ---- structural image of the normal form (query.ConditionsSet), see spec/Query.tla
type qCond map[string]any

func qMaskBits(m net.IP) (int, bool) {
	m = m.To4()
	if m == nil {
		return 0, false
	}
	ones, bits := net.IPMask(m).Size()
	return ones, bits == 32
}

func qNormalForm(q *query.Query) (map[string]any, string) {
	nf := map[string]any{"imp": q.Conditions == nil, "cs": [][]qCond{}}
	css := [][]qCond{}
	numType := map[query.NumberConditionSummandType]string{
		query.NumberConditionSummandTypeID: "id", query.NumberConditionSummandTypeClientBytes: "cbytes", query.NumberConditionSummandTypeServerBytes: "sbytes",
		query.NumberConditionSummandTypeClientPort: "cport", query.NumberConditionSummandTypeServerPort: "sport"}
	for _, cs := range q.Conditions {
		conj := []qCond{}
		for _, c := range cs {
			switch cc := c.(type) {
			case *query.NumberCondition:
				sum := []qCond{}
				for _, s := range cc.Summands {
					if s.SubQuery != "" {
						return nil, "sub-query in number condition"
					}
					sum = append(sum, qCond{"type": numType[s.Type], "factor": s.Factor})
				}
				conj = append(conj, qCond{"kind": "num", "number": cc.Number, "sum": sum})
			case *query.FlagCondition:
				if len(cc.SubQueries) != 1 || cc.SubQueries[0] != "" || cc.Mask != flagsStreamProtocol {
					return nil, "unsupported flag condition"
				}
				conj = append(conj, qCond{"kind": "flag", "value": int(cc.Value & cc.Mask)})
			case *query.HostCondition:
				if len(cc.HostConditionSources) == 2 && cc.HostConditionSources[0].SubQuery == "" && cc.HostConditionSources[1].SubQuery == "" &&
					cc.HostConditionSources[0].Type != cc.HostConditionSources[1].Type && len(cc.Host) == 0 {
					// the two hosts of the stream itself compared under a mask
					bits, ok := qMaskBits(cc.Mask4)
					if !ok {
						return nil, "unsupported host mask"
					}
					conj = append(conj, qCond{"kind": "host2", "bits": bits, "inv": cc.Invert})
					continue
				}
				if len(cc.HostConditionSources) != 1 || cc.HostConditionSources[0].SubQuery != "" {
					return nil, "unsupported host condition"
				}
				bits, ok := qMaskBits(cc.Mask4)
				if !ok || cc.Host.To4() == nil {
					return nil, "unsupported host mask"
				}
				src := "c"
				if cc.HostConditionSources[0].Type == query.HostConditionSourceTypeServer {
					src = "s"
				}
				conj = append(conj, qCond{"kind": "host", "src": src, "h": qIPInt(cc.Host.String()), "bits": bits, "inv": cc.Invert})
			case *query.TagCondition:
				if cc.SubQuery != "" {
					return nil, "sub-query in tag condition"
				}
				conj = append(conj, qCond{"kind": "tag", "name": cc.TagName,
					"am": cc.Accept&query.TagConditionAcceptMatching != 0, "af": cc.Accept&query.TagConditionAcceptFailing != 0})
			case *query.DataCondition:
				els := []qCond{}
				for _, e := range cc.Elements {
					if e.SubQuery != "" || len(e.Variables) != 0 {
						return nil, "unsupported data element"
					}
					d := "c"
					if e.Flags&query.DataRequirementSequenceFlagsDirection == query.DataRequirementSequenceFlagsDirectionServerToClient {
						d = "s"
					}
					els = append(els, qCond{"d": d, "tok": e.Regex, "conv": e.ConverterName})
				}
				conj = append(conj, qCond{"kind": "data", "els": els, "inv": cc.Inverted})
			case *query.TimeCondition:
				ft, lt := 0, 0
				for _, s := range cc.Summands {
					if s.SubQuery != "" {
						return nil, "sub-query in time condition"
					}
					ft += s.FTimeFactor
					lt += s.LTimeFactor
				}
				if (ft+lt+cc.ReferenceTimeFactor)%2 != 0 {
					return nil, "relative time condition"
				}
				// Duration + ft*(FT - ref) + lt*(LT - ref) >= 0, in half hours relative to qBase (stream times are whole hours)
				d := cc.Duration + time.Duration(ft+lt)*qBase.Sub(q.ReferenceTime)
				// stream times are whole hours, so only the floor in half hours matters (negation shifts thresholds by 1ns)
				u := d / (30 * time.Minute)
				if d%(30*time.Minute) != 0 && d < 0 {
					u--
				}
				conj = append(conj, qCond{"kind": "time", "dur": int(u), "ft": 2 * ft, "lt": 2 * lt})
			case *query.ImpossibleCondition:
				conj = append(conj, qCond{"kind": "imp"})
			default:
				return nil, fmt.Sprintf("unknown condition type %T", c)
			}
		}
		css = append(css, conj)
	}
	nf["cs"] = css
	return nf, ""
}

var qSortKeys = map[string]query.SortingKey{"id": query.SortingKeyID, "ftime": query.SortingKeyFirstPacketTime, "ltime": query.SortingKeyLastPacketTime,
	"cbytes": query.SortingKeyClientBytes, "sbytes": query.SortingKeyServerBytes, "chost": query.SortingKeyClientHost, "shost": query.SortingKeyServerHost,
	"cport": query.SortingKeyClientPort, "sport": query.SortingKeyServerPort}

// query.Parse under a watchdog (a hanging parse is a C14 matter; here the case is skipped and reported)
func qParse(text string) (*query.Query, error, bool) {
	type res struct {
		q   *query.Query
		err error
	}
	c := make(chan res, 1)
	go func() {
		defer func() {
			if p := recover(); p != nil {
				c <- res{nil, fmt.Errorf("panic: %v", p)}
			}
		}()
		q, err := query.Parse(text)
		c <- res{q, err}
	}()
	select {
	case r := <-c:
		return r.q, r.err, false
	case <-time.After(2 * time.Second):
		return nil, nil, true
	}
}

func TestVerifQuery(t *testing.T) {
	in := os.Getenv("VERIF_IN")
	if in == "" {
		t.Skip("VERIF_IN not set")
	}
	os.Setenv("TZ", "UTC")
	time.Local = time.UTC
	raw, err := os.ReadFile(in)
	if err != nil {
		t.Fatal(err)
	}
	var inp qInput
	if err := json.Unmarshal(raw, &inp); err != nil {
		t.Fatal(err)
	}
	dir := t.TempDir()
	type layout struct {
		readers []*Reader
		tags    map[string]query.TagDetails
	}
	layouts := []layout{}
	pf, _ := os.Create(os.Getenv("VERIF_POPS"))
	pw := bufio.NewWriter(pf)
	for li, files := range inp.Layouts {
		lay := layout{tags: map[string]query.TagDetails{}}
		back := [][]qStream{}
		visTags := map[int][]string{}
		for fi, file := range files {
			w, err := NewWriter(filepath.Join(dir, fmt.Sprintf("l%d_f%d.idx", li, fi)))
			if err != nil {
				t.Fatal(err)
			}
			tagsOf := map[int][]string{}
			for _, s := range file {
				ok, err := w.AddStream(qMakeStream(s, fmt.Sprintf("%d_%d", li, fi)), uint64(s.ID))
				if err != nil || !ok {
					t.Fatalf("AddStream: %v %v", ok, err)
				}
				tagsOf[s.ID] = s.Tags
				visTags[s.ID] = s.Tags // later files overwrite: the newest version decides the tags
			}
			r, err := w.Finalize()
			if err != nil {
				t.Fatal(err)
			}
			lay.readers = append(lay.readers, r)
			fb := []qStream{}
			if err := r.AllStreams(func(st *Stream) error {
				b, err := qReadBack(st, tagsOf[int(st.ID())])
				fb = append(fb, b)
				return err
			}); err != nil {
				t.Fatal(err)
			}
			sort.Slice(fb, func(i, j int) bool { return fb[i].ID < fb[j].ID })
			back = append(back, fb)
		}
		names := map[string]bool{}
		for _, ts := range visTags {
			for _, n := range ts {
				names[n] = true
			}
		}
		for n := range names {
			bm := bitmask.LongBitmask{}
			for id, ts := range visTags {
				for _, x := range ts {
					if x == n {
						bm.Set(uint(id))
					}
				}
			}
			lay.tags[n] = query.TagDetails{Matches: bm}
		}
		// tags a query may name although no stream carries them
		for _, n := range []string{"tag/x", "service/y"} {
			if _, ok := lay.tags[n]; !ok {
				lay.tags[n] = query.TagDetails{}
			}
		}
		layouts = append(layouts, lay)
		js, _ := json.Marshal(map[string]any{"layout": li, "files": back})
		pw.Write(js)
		pw.WriteByte('\n')
	}
	pw.Flush()
	pf.Close()

	of, _ := os.Create(os.Getenv("VERIF_OUT"))
	ow := bufio.NewWriterSize(of, 1<<20)
	defer func() { ow.Flush(); of.Close() }()
	ctx := context.Background()
	hangs := 0
	for ci := range inp.Cases {
		ast := &inp.Cases[ci]
		text := qText(ast)
		row := map[string]any{"case": ci, "text": text, "ast": ast, "subq": strings.Contains(text, "@s:"), "hang": false, "perr": "", "unsup": "", "nf": map[string]any{"imp": false, "cs": [][]qCond{}}, "runs": []any{}}
		q, err, hung := qParse(text)
		if hung {
			row["hang"] = true
			hangs++
			if hangs > 12 {
				t.Fatalf("too many hanging Parse calls, last: %s", text)
			}
		} else if err != nil {
			row["perr"] = err.Error()
		} else if nf, unsup := qNormalForm(q); unsup != "" && !strings.Contains(text, "@s:") {
			row["unsup"] = unsup
		} else {
			if unsup == "" {
				row["nf"] = nf
			} else {
				row["unsup"] = unsup
			}
			runs := []any{}
			// (filters with a converter selector are only normalised: a search would need the converter processes)
			convsel := strings.Contains(text, "data.a:") || strings.Contains(text, "data.b:")
			for li, lay := range layouts {
				if convsel {
					break
				}
				for ri, run := range inp.Runs {
					// rotate the runs over the cases so that every case sees a few, every run many cases
					byVar := len(run.Group) == 1 && run.Group[0] == "v" // grouping by what a data filter captured
					if byVar != strings.Contains(text, "(?P<v>") {
						continue
					}
					if !byVar && (ci+ri+li)%3 != 0 && !(run.Limit == 0 && len(run.Sort) == 1 && ri == 0) {
						continue
					}
					sorting := []query.Sorting{}
					for _, s := range run.Sort {
						d := query.SortingDirAscending
						if s.Desc {
							d = query.SortingDirDescending
						}
						sorting = append(sorting, query.Sorting{Key: qSortKeys[s.Key], Dir: d})
					}
					var limitIDs *bitmask.LongBitmask
					if len(run.IDs) != 0 {
						limitIDs = &bitmask.LongBitmask{}
						for _, i := range run.IDs {
							limitIDs.Set(uint(i))
						}
					}
					if run.IDs == nil {
						run.IDs = []int{}
					}
					var grouping *query.Grouping
					if len(run.Group) != 0 {
						grouping = &query.Grouping{}
						for _, k := range run.Group {
							grouping.Variables = append(grouping.Variables, query.DataConditionElementVariable{Name: k})
						}
					}
					if run.Group == nil {
						run.Group = []string{}
					}
					res, more, _, err := SearchStreams(ctx, lay.readers, limitIDs, q.ReferenceTime, q.Conditions, grouping, sorting, uint(run.Limit), uint(run.Skip), lay.tags, nil, false)
					ids := []int{}
					for _, s := range res {
						ids = append(ids, int(s.ID()))
					}
					e := ""
					if err != nil {
						e = err.Error()
					}
					runs = append(runs, map[string]any{"layout": li, "sort": run.Sort, "limit": run.Limit, "skip": run.Skip, "ids": run.IDs, "group": run.Group, "res": ids, "more": more, "err": e})
				}
			}
			row["runs"] = runs
		}
		js, err := json.Marshal(row)
		if err != nil {
			t.Fatal(err)
		}
		ow.Write(js)
		ow.WriteByte('\n')
	}
}

package builder

// C05 / C08 harness (injected into internal/index/builder by `go test -overlay`).
//
// Input  (VERIF_IN):  ndjson, one packet schedule per line, printed by TLC from spec/Wire.tla
//                     (convs, wire, nfiles, batches) plus "sid" and optional "conc" hints.
// Output (VERIF_OUT): ndjson trace, per schedule one header row (n = 0, echo of the schedule and the
//                     concretisation) and one row per import batch with the PROJECTION of what the real
//                     builder made visible (through a reader stack, newest file wins per id) and, as
//                     differential reference, of a one-shot import of the same set of files by the real
//                     code on a fresh data directory.
// The harness contains no expectations: spec/WireTrace.tla and spec/ImportTrace.tla judge the rows.

import (
	"bufio"
	"crypto/sha256"
	"encoding/binary"
	"encoding/hex"
	"encoding/json"
	"fmt"
	"io"
	"log"
	"math/rand"
	"net"
	"os"
	"path/filepath"
	"sort"
	"strconv"
	"strings"
	"sync"
	"testing"
	"time"

	"github.com/gopacket/gopacket"
	"github.com/gopacket/gopacket/layers"
	"github.com/gopacket/gopacket/pcapgo"
	"github.com/spq/pkappa2/internal/index"
)

// ---------------------------------------------------------------- schedule (as printed by TLC)

type wMsg struct {
	D string `json:"d"`
	N int    `json:"n"`
}
type wConv struct {
	Proto  string `json:"proto"`
	Fam    int    `json:"fam"`
	Closer string `json:"closer"`
	Msgs   []wMsg `json:"msgs"`
}
type wPkt struct {
	C    int    `json:"c"`
	K    string `json:"k"`
	D    string `json:"d"`
	M    int    `json:"m"`
	F    int    `json:"f"`
	T    int    `json:"t"`
	O    int    `json:"o"`
	File int    `json:"file"`
	Dt   int    `json:"dt"`
	Dup  bool   `json:"dup"`
	Open bool   `json:"open"`
	At   int64  `json:"at"`
	Frag int    `json:"frag"` // 0: one IP packet; 1: two IPv4 fragments in order; 2: the fragments in reverse order
}
type wBatch struct {
	Files   []int  `json:"files"`
	Restart string `json:"restart"`
}
type wSchedule struct {
	Sid     int             `json:"sid"`
	Convs   []wConv         `json:"convs"`
	Wire    []wPkt          `json:"wire"`
	NFiles  int             `json:"nfiles"`
	Batches []wBatch        `json:"batches"`
	Exp     json.RawMessage `json:"exp"`
	Cnt     json.RawMessage `json:"cnt"`
	Group   string          `json:"group"` // schedules of one group share captures (same convs + wire)
	Regime  string          `json:"regime"`
}

// ---------------------------------------------------------------- concretisation

var wT0 = time.Date(2022, 5, 6, 7, 8, 9, 0, time.UTC)

var wUnitSizes = []int{8, 16, 100, 1400, 20000}

const wMagic = 0xC5
const wBulkBase = 100 // conversation number of bulk block m is wBulkBase + m

type wConc struct {
	Seed     int64    `json:"seed"`
	Link     string   `json:"link"` // "eth" | "raw4" | "raw6"
	Cls      []int    `json:"cls"`  // unit size class per conversation (index 0 = conv 1)
	ISN      [][2]int `json:"isn"`  // client / server initial sequence numbers
	BulkN    []int    `json:"bulkN"`
	Packets  []int    `json:"packets"` // packets per file
	BulkGoal int      `json:"bulkGoal"`
	Wrap     []bool   `json:"wrap"` // a direction's sequence numbers wrap inside the conversation
	Fragmented int    `json:"fragmented"` // packets written as two IP fragments
	Shuffled  bool    `json:"shuffled"` // packets of a file not written in timestamp order
	Overlap   bool    `json:"overlap"`  // capture files overlap in time (some packets are in the next file: a second capture point)
	SameHosts bool    `json:"sameHosts"` // all conversations between one pair of hosts, ports with equal XOR (one reassembler bucket)
	Alias     []int   `json:"alias"`     // alias[c-1] = the earlier, finished conversation whose 4-tuple conversation c uses again (0: its own)
}

type wEndpoint struct {
	ip   net.IP
	port uint16
}

// wSameHosts: every conversation of the schedule runs between the same two hosts, with ports whose XOR is the same for
// all of them (40000+c ^ 1000+c = 40000 ^ 1000 for c < 8): the flows share one bucket of the UDP reassembler's
// connection table.  Chosen per world (a third of the schedules).
func (w *wWorld) endpoints(c int, fam int) (cl, sv wEndpoint) {
	if c >= 1 && c <= len(w.conc.Alias) && w.conc.Alias[c-1] != 0 {
		c = w.conc.Alias[c-1]
	}
	if w.conc.SameHosts && c < wBulkBase && c < 8 {
		if fam == 6 {
			return wEndpoint{net.ParseIP("fd00::2"), uint16(40000 + c)}, wEndpoint{net.ParseIP("fd00::1:3"), uint16(1000 + c)}
		}
		return wEndpoint{net.IPv4(10, 0, 0, 2).To4(), uint16(40000 + c)}, wEndpoint{net.IPv4(10, 1, 0, 3).To4(), uint16(1000 + c)}
	}
	return wEndpoints(c, fam)
}

func wEndpoints(c int, fam int) (cl, sv wEndpoint) {
	if c >= wBulkBase {
		m := c - wBulkBase
		return wEndpoint{net.IPv4(10, 9, byte(m), 1).To4(), uint16(50000 + m)}, wEndpoint{net.IPv4(10, 9, byte(m), 2).To4(), 9000}
	}
	if fam == 6 {
		a := net.ParseIP(fmt.Sprintf("fd00::%x:2", c))
		b := net.ParseIP(fmt.Sprintf("fd00::1:%x:3", c))
		return wEndpoint{a, uint16(40000 + 7*c)}, wEndpoint{b, uint16(1000 + c)}
	}
	return wEndpoint{net.IPv4(10, 0, byte(c), 2).To4(), uint16(40000 + 7*c)}, wEndpoint{net.IPv4(10, 1, byte(c), 3).To4(), uint16(1000 + c)}
}

func wUnit(conv, cls, msg, off int) []byte {
	sz := wUnitSizes[cls]
	b := make([]byte, sz)
	b[0] = wMagic
	b[1] = byte(conv)
	b[2] = byte(cls)
	b[3] = byte(msg)
	binary.BigEndian.PutUint32(b[4:8], uint32(off))
	s := int(b[1])*131 + int(b[3])*31 + off*17
	for i := 8; i < sz; i++ {
		b[i] = byte(s + i*7)
	}
	return b
}

// decode a payload back into ranges of units [msg, from, to]; anything that is not a well-formed unit of
// conversation conv ends the decoding with a marker range whose first element is negative.
func wDecode(conv int, p []byte) (ranges [][3]int, units int) {
	ranges = [][3]int{}
	pos := 0
	for pos < len(p) {
		if len(p)-pos < 8 || p[pos] != wMagic || int(p[pos+2]) >= len(wUnitSizes) {
			return append(ranges, [3]int{-1, pos, len(p) - pos}), -1
		}
		cls := int(p[pos+2])
		sz := wUnitSizes[cls]
		if len(p)-pos < sz {
			return append(ranges, [3]int{-1, pos, len(p) - pos}), -1
		}
		msg, off := int(p[pos+3]), int(binary.BigEndian.Uint32(p[pos+4:pos+8]))
		want := wUnit(int(p[pos+1]), cls, msg, off)
		if string(want) != string(p[pos:pos+sz]) {
			return append(ranges, [3]int{-1, pos, len(p) - pos}), -1
		}
		if int(p[pos+1]) != conv%256 {
			return append(ranges, [3]int{-2, int(p[pos+1]), pos}), -1
		}
		if n := len(ranges); n > 0 && ranges[n-1][0] == msg && ranges[n-1][2]+1 == off {
			ranges[n-1][2] = off
		} else {
			ranges = append(ranges, [3]int{msg, off, off})
		}
		units++
		pos += sz
	}
	return ranges, units
}

type wWorld struct {
	s       *wSchedule
	conc    wConc
	dir     string   // staging directory with the capture files
	names   []string // names[file-1]
	tuples  map[string]int
	oneShot map[string][]wStream
	moved   map[int]int // Overlap variant: wire index -> the capture file the packet was recorded in
	mu      sync.Mutex
}

func wCapName(sid, k int) string { return fmt.Sprintf("s%05d_k%02d.pcap", sid, k) }

func wKey(a net.IP, ap uint16, b net.IP, bp uint16) string {
	x := fmt.Sprintf("%s|%d", a.String(), ap)
	y := fmt.Sprintf("%s|%d", b.String(), bp)
	if x > y {
		x, y = y, x
	}
	return x + "~" + y
}

type wSerializer struct {
	link string
	buf  gopacket.SerializeBuffer
}

func (z *wSerializer) packet(src, dst wEndpoint, l4 gopacket.SerializableLayer, proto layers.IPProtocol, payload []byte) ([]byte, error) {
	ls := []gopacket.SerializableLayer{}
	v6 := src.ip.To4() == nil
	if z.link == "eth" {
		et := layers.EthernetTypeIPv4
		if v6 {
			et = layers.EthernetTypeIPv6
		}
		ls = append(ls, &layers.Ethernet{SrcMAC: net.HardwareAddr{2, 0, 0, 0, 0, 1}, DstMAC: net.HardwareAddr{2, 0, 0, 0, 0, 2}, EthernetType: et})
	}
	var nl gopacket.NetworkLayer
	if v6 {
		ip := &layers.IPv6{Version: 6, HopLimit: 64, NextHeader: proto, SrcIP: src.ip, DstIP: dst.ip}
		ls = append(ls, ip)
		nl = ip
	} else {
		ip := &layers.IPv4{Version: 4, IHL: 5, TTL: 64, Protocol: proto, SrcIP: src.ip, DstIP: dst.ip, Flags: layers.IPv4DontFragment}
		ls = append(ls, ip)
		nl = ip
	}
	switch t := l4.(type) {
	case *layers.TCP:
		if err := t.SetNetworkLayerForChecksum(nl); err != nil {
			return nil, err
		}
	case *layers.UDP:
		if err := t.SetNetworkLayerForChecksum(nl); err != nil {
			return nil, err
		}
	}
	ls = append(ls, l4, gopacket.Payload(payload))
	if err := gopacket.SerializeLayers(z.buf, gopacket.SerializeOptions{ComputeChecksums: true, FixLengths: true}, ls...); err != nil {
		return nil, err
	}
	return append([]byte(nil), z.buf.Bytes()...), nil
}

// wFragment splits a serialised IPv4 packet (after linkLen bytes of link header) into two IP fragments; the first
// carries the transport header and at least 8 bytes of it.  Returns nil when the packet is too small to split.
func wFragment(data []byte, linkLen int, id uint16) [][]byte {
	if len(data) < linkLen+20 || data[linkLen]>>4 != 4 {
		return nil
	}
	ihl := int(data[linkLen]&0x0f) * 4
	payload := data[linkLen+ihl:]
	if len(payload) < 16 {
		return nil
	}
	cut := (len(payload) / 2) &^ 7
	if cut < 8 {
		cut = 8
	}
	mk := func(part []byte, off int, more bool) []byte {
		p := append([]byte(nil), data[:linkLen+ihl]...)
		h := p[linkLen:]
		total := ihl + len(part)
		h[2], h[3] = byte(total>>8), byte(total)
		h[4], h[5] = byte(id>>8), byte(id)
		fo := uint16(off / 8)
		if more {
			fo |= 0x2000
		}
		h[6], h[7] = byte(fo>>8), byte(fo) // DF cleared
		h[10], h[11] = 0, 0
		sum := uint32(0)
		for i := 0; i < ihl; i += 2 {
			sum += uint32(h[i])<<8 | uint32(h[i+1])
		}
		for sum>>16 != 0 {
			sum = sum&0xffff + sum>>16
		}
		cs := ^uint16(sum)
		h[10], h[11] = byte(cs>>8), byte(cs)
		return append(p, part...)
	}
	return [][]byte{mk(payload[:cut], 0, true), mk(payload[cut:], cut, false)}
}

// unitsBefore: units of direction d in messages before msg m (1-based), plus offset inside m
func wUnitsBefore(cv *wConv, d string, m int) int {
	n := 0
	for i := 0; i < m-1 && i < len(cv.Msgs); i++ {
		if cv.Msgs[i].D == d {
			n += cv.Msgs[i].N
		}
	}
	return n
}
func wUnitsThrough(cv *wConv, d string, m int) int { return wUnitsBefore(cv, d, m+1) }
func wOther(d string) string {
	if d == "c" {
		return "s"
	}
	return "c"
}

func wBuildWorld(s *wSchedule, stage string, bulkGoal int) (*wWorld, error) {
	w := &wWorld{s: s, dir: stage, tuples: map[string]int{}, oneShot: map[string][]wStream{}}
	seed, _ := strconv.ParseInt(os.Getenv("VERIF_SEED"), 10, 64)
	rng := rand.New(rand.NewSource(seed*1000003 + int64(s.Sid)*7919 + 17))
	w.conc.Seed = seed
	w.conc.SameHosts = (int64(s.Sid)+seed)%3 == 1 || s.Regime == "udpslow"
	w.conc.BulkGoal = bulkGoal
	w.conc.BulkN = []int{}
	w.conc.Cls, w.conc.ISN, w.conc.Wrap = []int{}, [][2]int{}, []bool{}
	// Tuple reuse (every fifth schedule, not in the worlds of C08): a TCP conversation that starts after another one of the
	// same family has sent its last packet uses the same addresses and ports (a client port that is used again).
	w.conc.Alias = make([]int, len(s.Convs))
	if (int64(s.Sid)+seed)%5 == 3 && !strings.HasPrefix(s.Regime, "world") {
		first, last := map[int]int{}, map[int]int{}
		for wi, p := range s.Wire {
			if p.C >= 1 && p.C <= len(s.Convs) {
				if _, ok := first[p.C]; !ok {
					first[p.C] = wi
				}
				last[p.C] = wi
			}
		}
	pairs:
		for c2 := 1; c2 <= len(s.Convs); c2++ {
			for c1 := 1; c1 <= len(s.Convs); c1++ {
				_, ok1 := first[c1]
				_, ok2 := first[c2]
				if c1 != c2 && ok1 && ok2 && s.Convs[c1-1].Proto == "tcp" && s.Convs[c2-1].Proto == "tcp" &&
					s.Convs[c1-1].Fam == s.Convs[c2-1].Fam && last[c1] < first[c2] {
					w.conc.Alias[c2-1] = c1
					break pairs
				}
			}
		}
	}
	all4, all6 := true, true
	maxSeg := make([]int, len(s.Convs))
	for _, p := range s.Wire {
		if p.C >= 1 && p.C <= len(s.Convs) && p.T-p.F+1 > maxSeg[p.C-1] {
			maxSeg[p.C-1] = p.T - p.F + 1
		}
		if p.K == "bulk" {
			all6 = false
		}
	}
	for i, cv := range s.Convs {
		if cv.Fam == 6 {
			all4 = false
		} else {
			all6 = false
		}
		cls := []int{0, 0, 1, 2, 3, 4}[rng.Intn(6)]
		for wUnitSizes[cls]*maxSeg[i] > 60000 {
			cls--
		}
		w.conc.Cls = append(w.conc.Cls, cls)
		isn := [2]int{}
		for j := range isn {
			switch rng.Intn(7) {
			case 0:
				isn[j] = 0xFFFFFFFF - rng.Intn(3000) // sequence numbers wrap inside the conversation
			default:
				isn[j] = rng.Intn(1 << 31)
			}
		}
		w.conc.ISN = append(w.conc.ISN, isn)
		wrap := false
		for j, d := range []string{"c", "s"} {
			if cv.Proto == "tcp" && isn[j]+2+wUnitSizes[cls]*wUnitsThrough(&s.Convs[i], d, len(cv.Msgs)) > 0xFFFFFFFF {
				wrap = true
			}
		}
		w.conc.Wrap = append(w.conc.Wrap, wrap)
		cl, sv := w.endpoints(i+1, cv.Fam)
		if w.conc.Alias[i] == 0 {
			w.tuples[wKey(cl.ip, cl.port, sv.ip, sv.port)] = i + 1
		}
	}
	w.conc.Link = "eth"
	if r := rng.Intn(3); r == 0 && all4 {
		w.conc.Link = "raw4"
	} else if r == 0 && all6 {
		w.conc.Link = "raw6"
	}
	z := &wSerializer{link: w.conc.Link, buf: gopacket.NewSerializeBuffer()}
	lt := layers.LinkTypeEthernet
	switch w.conc.Link {
	case "raw4":
		lt = layers.LinkTypeIPv4
	case "raw6":
		lt = layers.LinkTypeIPv6
	}
	files := make([]*os.File, s.NFiles)
	bws := make([]*bufio.Writer, s.NFiles)
	pws := make([]*pcapgo.Writer, s.NFiles)
	w.conc.Packets = make([]int, s.NFiles)
	for k := 1; k <= s.NFiles; k++ {
		name := wCapName(s.Sid, k)
		w.names = append(w.names, name)
		f, err := os.Create(filepath.Join(stage, name))
		if err != nil {
			return nil, err
		}
		files[k-1] = f
		bws[k-1] = bufio.NewWriterSize(f, 1<<16)
		pws[k-1] = pcapgo.NewWriter(bws[k-1])
		if err := pws[k-1].WriteFileHeader(262144, lt); err != nil {
			return nil, err
		}
	}
	// Shuffled variant (schedules without bulk blocks): the packets of a capture file are not written in timestamp
	// order (a capture merged from several interfaces).  Only packets with different timestamps change places: the
	// importer orders packets by timestamp and, for equal timestamps, by their position in the file.
	hasBulk := false
	for _, p := range s.Wire {
		hasBulk = hasBulk || p.K == "bulk"
	}
	w.conc.Shuffled = !hasBulk && (int64(s.Sid)+seed)%4 == 2
	// Overlap variant (every second shuffled schedule): a packet may be recorded in the following capture file instead
	// (two capture points with different rotation times), so the time ranges of the files overlap.  Only packets whose
	// timestamp is unique move: the order of packets with equal timestamps is given by file and position.
	// (not in the worlds of C08: spec/Import.tla predicts the added / updated / reset streams of an import from the time
	// ranges of the files and assumes that files do not overlap)
	// (a recorded schedule carries the files the packets were written to: VERIF_WIRE_AS_RECORDED=1 replays it as it is)
	w.conc.Overlap = w.conc.Shuffled && (int64(s.Sid)+seed)%8 == 2 && !strings.HasPrefix(s.Regime, "world") && os.Getenv("VERIF_WIRE_AS_RECORDED") != "1"
	atCount := map[int64]int{}
	for _, p := range s.Wire {
		atCount[p.At]++
	}
	type heldPkt struct {
		at   time.Time
		data []byte
	}
	held := make([][]heldPkt, s.NFiles)
	write := func(file int, at time.Time, data []byte) error {
		w.conc.Packets[file-1]++
		if w.conc.Shuffled {
			held[file-1] = append(held[file-1], heldPkt{at, append([]byte(nil), data...)})
			return nil
		}
		return pws[file-1].WritePacket(gopacket.CaptureInfo{Timestamp: at, CaptureLength: len(data), Length: len(data)}, data)
	}
	emitted := make([][]byte, len(s.Wire)) // serialised packet per wire index (for exact duplicates)
	sinceBoundary := 0                     // packets since the last snapshot boundary (inclusive)
	prevAt := int64(0)
	for wi, p := range s.Wire {
		at := wT0.Add(time.Duration(p.At) * time.Millisecond)
		if p.K == "bulk" {
			// a block of unrelated traffic: one TCP conversation of N one-unit segments, sized so that
			// exactly bulkGoal packets precede the next packet of the schedule
			conv := wBulkBase + p.M
			cl, sv := wEndpoints(conv, 4)
			w.tuples[wKey(cl.ip, cl.port, sv.ip, sv.port)] = conv
			over := 3
			if !p.Open {
				over += 3
			}
			n := bulkGoal - sinceBoundary - over
			if n < 16 {
				n = 16
			}
			w.conc.BulkN = append(w.conc.BulkN, n)
			c0, s0 := uint32(1000), uint32(5000)
			start := wT0.Add(time.Duration(prevAt) * time.Millisecond)
			span := at.Sub(start) - 2*time.Microsecond
			total := n + over
			step := func(j int) time.Time { // strictly inside (prevAt, at)
				return start.Add(time.Microsecond + time.Duration(int64(span)*int64(j)/int64(total)/1000*1000))
			}
			j := 0
			send := func(fromClient bool, t *layers.TCP, payload []byte) error {
				src, dst := cl, sv
				if !fromClient {
					src, dst = sv, cl
				}
				t.SrcPort, t.DstPort, t.Window = layers.TCPPort(src.port), layers.TCPPort(dst.port), 65535
				data, err := z.packet(src, dst, t, layers.IPProtocolTCP, payload)
				if err != nil {
					return err
				}
				j++
				return write(p.File, step(j), data)
			}
			if err := send(true, &layers.TCP{Seq: c0, SYN: true}, nil); err != nil {
				return nil, err
			}
			if err := send(false, &layers.TCP{Seq: s0, Ack: c0 + 1, SYN: true, ACK: true}, nil); err != nil {
				return nil, err
			}
			if err := send(true, &layers.TCP{Seq: c0 + 1, Ack: s0 + 1, ACK: true}, nil); err != nil {
				return nil, err
			}
			for u := 0; u < n; u++ {
				if err := send(true, &layers.TCP{Seq: c0 + 1 + uint32(8*u), Ack: s0 + 1, ACK: true, PSH: true}, wUnit(conv, 0, p.M, u)); err != nil {
					return nil, err
				}
			}
			if !p.Open {
				end := c0 + 1 + uint32(8*n)
				if err := send(true, &layers.TCP{Seq: end, Ack: s0 + 1, ACK: true, FIN: true}, nil); err != nil {
					return nil, err
				}
				if err := send(false, &layers.TCP{Seq: s0 + 1, Ack: end + 1, ACK: true, FIN: true}, nil); err != nil {
					return nil, err
				}
				if err := send(true, &layers.TCP{Seq: end + 1, Ack: s0 + 2, ACK: true}, nil); err != nil {
					return nil, err
				}
			}
			sinceBoundary = 0 // the next packet is the boundary packet
			prevAt = p.At
			continue
		}
		cv := &s.Convs[p.C-1]
		cls := w.conc.Cls[p.C-1]
		B := wUnitSizes[cls]
		cl, sv := w.endpoints(p.C, cv.Fam)
		src, dst := cl, sv
		if p.D == "s" {
			src, dst = sv, cl
		}
		var data []byte
		var err error
		if p.Dup {
			// an exact copy of the original packet
			for oi := wi - 1; oi >= 0; oi-- {
				q := s.Wire[oi]
				if q.C == p.C && q.O == p.O && !q.Dup {
					data = emitted[oi]
					break
				}
			}
			if data == nil {
				return nil, fmt.Errorf("schedule %d: duplicate without original at %d", s.Sid, wi)
			}
		} else if cv.Proto == "udp" {
			payload := []byte{}
			for u := p.F; u <= p.T; u++ {
				payload = append(payload, wUnit(p.C, cls, p.M, u)...)
			}
			data, err = z.packet(src, dst, &layers.UDP{SrcPort: layers.UDPPort(src.port), DstPort: layers.UDPPort(dst.port)}, layers.IPProtocolUDP, payload)
		} else {
			isn := map[string]uint32{"c": uint32(w.conc.ISN[p.C-1][0]), "s": uint32(w.conc.ISN[p.C-1][1])}
			nm := len(cv.Msgs)
			d, o := p.D, wOther(p.D)
			t := &layers.TCP{SrcPort: layers.TCPPort(src.port), DstPort: layers.TCPPort(dst.port), Window: 65535, ACK: true}
			var payload []byte
			switch p.K {
			case "syn":
				t.Seq, t.SYN, t.ACK = isn["c"], true, false
			case "synack":
				t.Seq, t.Ack, t.SYN = isn["s"], isn["c"]+1, true
			case "ack":
				t.Seq, t.Ack = isn["c"]+1, isn["s"]+1
			case "data":
				t.Seq = isn[d] + 1 + uint32(B*(wUnitsBefore(cv, d, p.M)+p.F))
				t.Ack = isn[o] + 1 + uint32(B*wUnitsBefore(cv, o, p.M))
				t.PSH = true
				for u := p.F; u <= p.T; u++ {
					payload = append(payload, wUnit(p.C, cls, p.M, u)...)
				}
			case "pack":
				t.Seq = isn[d] + 1 + uint32(B*wUnitsThrough(cv, d, p.M))
				t.Ack = isn[o] + 1 + uint32(B*wUnitsThrough(cv, o, p.M))
			case "fin":
				t.Seq = isn[d] + 1 + uint32(B*wUnitsThrough(cv, d, nm))
				t.Ack = isn[o] + 1 + uint32(B*wUnitsThrough(cv, o, nm))
				t.FIN = true
			case "finack":
				t.Seq = isn[d] + 1 + uint32(B*wUnitsThrough(cv, d, nm))
				t.Ack = isn[o] + 1 + uint32(B*wUnitsThrough(cv, o, nm)) + 1
				t.FIN = true
			case "lastack":
				t.Seq = isn[d] + 1 + uint32(B*wUnitsThrough(cv, d, nm)) + 1
				t.Ack = isn[o] + 1 + uint32(B*wUnitsThrough(cv, o, nm)) + 1
			default:
				return nil, fmt.Errorf("schedule %d: unknown packet kind %q", s.Sid, p.K)
			}
			data, err = z.packet(src, dst, t, layers.IPProtocolTCP, payload)
		}
		if err != nil {
			return nil, err
		}
		emitted[wi] = data
		var frags [][]byte
		if p.Frag != 0 && !p.Dup {
			linkLen := 0
			if w.conc.Link == "eth" {
				linkLen = 14
			}
			frags = wFragment(data, linkLen, uint16(wi+1))
		}
		if frags != nil {
			if p.Frag == 2 {
				frags[0], frags[1] = frags[1], frags[0]
			}
			w.conc.Fragmented++
			for _, fd := range frags {
				if err := write(p.File, at, fd); err != nil {
					return nil, err
				}
				sinceBoundary++
			}
			sinceBoundary--
		} else {
			file := p.File
			if w.conc.Overlap && file < s.NFiles && atCount[p.At] == 1 && rng.Intn(3) == 0 {
				file++
				if w.moved == nil {
					w.moved = map[int]int{}
				}
				w.moved[wi] = file
			}
			if err := write(file, at, data); err != nil {
				return nil, err
			}
		}
		sinceBoundary++
		prevAt = p.At
	}
	if w.conc.Shuffled {
		for k := range held {
			hp := held[k]
			for round := 0; round < 3; round++ {
				for i := 0; i+1 < len(hp); i++ {
					if !hp[i].at.Equal(hp[i+1].at) && rng.Intn(2) == 0 {
						hp[i], hp[i+1] = hp[i+1], hp[i]
						i++
					}
				}
			}
			for _, x := range hp {
				if err := pws[k].WritePacket(gopacket.CaptureInfo{Timestamp: x.at, CaptureLength: len(x.data), Length: len(x.data)}, x.data); err != nil {
					return nil, err
				}
			}
		}
	}
	for k := range files {
		if err := bws[k].Flush(); err != nil {
			return nil, err
		}
		if err := files[k].Close(); err != nil {
			return nil, err
		}
	}
	return w, nil
}

// ---------------------------------------------------------------- projection of what the builder made visible

type wStream struct {
	ID    int      `json:"id"`
	Conv  int      `json:"conv"`  // conversation owning the 4-tuple, 0 = unknown tuple
	Flip  bool     `json:"flip"`  // recorded client is the conversation's responder
	Proto string   `json:"proto"` // "tcp" | "udp" | other
	C     [][3]int `json:"c"`     // client payload as unit ranges
	S     [][3]int `json:"s"`
	Runs  [][2]int `json:"runs"` // direction changes: [0 = client | 1 = server, units]
	CD    string   `json:"cd"`   // payload digests
	SD    string   `json:"sd"`
	Caps  []int    `json:"caps"` // capture files contributing packets
	Npk   int      `json:"npk"`
	Tuple string   `json:"tuple"`
	Junk  string   `json:"junk"` // first bytes of what could not be decoded (diagnostics only)
}

func wDigest(b []byte) string {
	h := sha256.Sum256(b)
	return fmt.Sprintf("%d:%s", len(b), hex.EncodeToString(h[:6]))
}

func (w *wWorld) project(st *index.Stream) (wStream, error) {
	res := wStream{ID: int(st.ID()), Proto: strings.ToLower(st.Protocol())}
	cip, sip := net.ParseIP(st.ClientHostIP()), net.ParseIP(st.ServerHostIP())
	res.Tuple = fmt.Sprintf("%s|%d>%s|%d", cip, st.ClientPort, sip, st.ServerPort)
	res.Conv = w.tuples[wKey(cip, st.ClientPort, sip, st.ServerPort)]
	if res.Conv != 0 {
		fam := 4
		if res.Conv < wBulkBase {
			fam = w.s.Convs[res.Conv-1].Fam
		}
		cl, _ := w.endpoints(res.Conv, fam)
		res.Flip = !(cl.ip.Equal(cip) && cl.port == st.ClientPort)
	}
	data, err := st.Data()
	if err != nil {
		return res, err
	}
	var pay [2][]byte
	runBytes := [][2]int{}
	for _, d := range data {
		dir := int(d.Direction)
		pay[dir] = append(pay[dir], d.Content...)
		if n := len(runBytes); n > 0 && runBytes[n-1][0] == dir {
			runBytes[n-1][1] += len(d.Content)
		} else {
			runBytes = append(runBytes, [2]int{dir, len(d.Content)})
		}
	}
	// two conversations on one 4-tuple: the payload says which one this stream holds (every unit carries its conversation)
	for dir := 0; dir < 2; dir++ {
		if len(pay[dir]) >= 2 && pay[dir][0] == wMagic {
			if c := int(pay[dir][1]); c >= 1 && c <= len(w.conc.Alias) && w.conc.Alias[c-1] == res.Conv && res.Conv != 0 {
				res.Conv = c
			}
			break
		}
	}
	res.CD, res.SD = wDigest(pay[0]), wDigest(pay[1])
	res.C, _ = wDecode(res.Conv, pay[0])
	res.S, _ = wDecode(res.Conv, pay[1])
	for dir, rs := range [][][3]int{res.C, res.S} {
		if n := len(rs); n > 0 && rs[n-1][0] == -1 && res.Junk == "" {
			j := pay[dir][rs[n-1][1]:]
			if len(j) > 24 {
				j = j[:24]
			}
			res.Junk = hex.EncodeToString(j)
		}
	}
	B := 0
	for dir := 0; dir < 2 && B == 0; dir++ {
		if len(pay[dir]) >= 8 && pay[dir][0] == wMagic && int(pay[dir][2]) < len(wUnitSizes) {
			B = wUnitSizes[pay[dir][2]]
		}
	}
	res.Runs = [][2]int{}
	for _, r := range runBytes {
		u := -r[1] // bytes that are not whole units are reported negative
		if B != 0 && r[1]%B == 0 {
			u = r[1] / B
		}
		res.Runs = append(res.Runs, [2]int{r[0], u})
	}
	pkts, err := st.Packets()
	if err != nil {
		return res, err
	}
	res.Npk = len(pkts)
	caps := map[int]bool{}
	for _, p := range pkts {
		k := -1
		if i := strings.LastIndex(p.PcapFilename, "_k"); i >= 0 {
			k, _ = strconv.Atoi(strings.TrimSuffix(p.PcapFilename[i+2:], ".pcap"))
		}
		caps[k] = true
	}
	res.Caps = []int{}
	for k := range caps {
		res.Caps = append(res.Caps, k)
	}
	sort.Ints(res.Caps)
	return res, nil
}

// visible streams through a stack of readers: the newest file wins per id
func (w *wWorld) visible(stack []*index.Reader) ([]wStream, error) {
	seen := map[uint64]bool{}
	res := []wStream{}
	for i := len(stack) - 1; i >= 0; i-- {
		ids := []uint64{}
		for id := range stack[i].StreamIDs() {
			ids = append(ids, id)
		}
		for _, id := range ids {
			if seen[id] {
				continue
			}
			seen[id] = true
			st, err := stack[i].StreamByID(id)
			if err != nil || st == nil {
				return nil, fmt.Errorf("StreamByID(%d): %v", id, err)
			}
			ps, err := w.project(st)
			if err != nil {
				return nil, err
			}
			res = append(res, ps)
		}
	}
	sort.Slice(res, func(i, j int) bool { return res[i].ID < res[j].ID })
	return res, nil
}

type wRow struct {
	Sid      int             `json:"sid"`
	N        int             `json:"n"`
	Sched    *wSchedule      `json:"sched,omitempty"`
	Conc     *wConc          `json:"conc,omitempty"`
	Files    []int           `json:"files"`
	Restart  string          `json:"restart"`
	Imported []int           `json:"imported"`
	Vis      []wStream       `json:"vis"`
	Add      []int           `json:"add"`
	Upd      []int           `json:"upd"`
	Rst      []int           `json:"rst"`
	Used     int             `json:"used"`
	Next     int             `json:"next"`
	NIdx     int             `json:"nidx"`
	Snaps    int             `json:"snaps"`
	SnapUsed bool            `json:"snapUsed"`
	One      []wStream       `json:"one"`
	Err      string          `json:"err"`
	Ms       int64           `json:"ms"`
	Extra    json.RawMessage `json:"-"`
}

type wDirs struct{ root, pcap, idx, snap string }

func wMkDirs(root string) (wDirs, error) {
	d := wDirs{root, filepath.Join(root, "pcap"), filepath.Join(root, "idx"), filepath.Join(root, "snap")}
	for _, p := range []string{d.pcap, d.idx, d.snap} {
		if err := os.MkdirAll(p, 0o755); err != nil {
			return d, err
		}
	}
	return d, nil
}

func wLink(src, dst string) error {
	if err := os.Link(src, dst); err == nil {
		return nil
	}
	in, err := os.Open(src)
	if err != nil {
		return err
	}
	defer in.Close()
	out, err := os.Create(dst)
	if err != nil {
		return err
	}
	if _, err := io.Copy(out, in); err != nil {
		out.Close()
		return err
	}
	return out.Close()
}

func wBits(m interface{ Next(*uint) bool }) []int {
	res := []int{}
	for i := uint(0); m.Next(&i); i++ {
		res = append(res, int(i))
	}
	return res
}

// one-shot import of a set of files by the real code on a fresh data directory
func (w *wWorld) oneShotOf(scratch string, files []int) ([]wStream, error) {
	sorted := append([]int(nil), files...)
	sort.Ints(sorted)
	key := fmt.Sprint(sorted)
	w.mu.Lock()
	if r, ok := w.oneShot[key]; ok {
		w.mu.Unlock()
		return r, nil
	}
	w.mu.Unlock()
	root, err := os.MkdirTemp(scratch, "one")
	if err != nil {
		return nil, err
	}
	defer os.RemoveAll(root)
	d, err := wMkDirs(root)
	if err != nil {
		return nil, err
	}
	b, err := New(d.pcap, d.idx, d.snap, nil)
	if err != nil {
		return nil, err
	}
	// the files arrive (upload) and are imported together
	names := []string{}
	for _, k := range sorted {
		if err := wLink(filepath.Join(w.dir, w.names[k-1]), filepath.Join(d.pcap, w.names[k-1])); err != nil {
			return nil, err
		}
		names = append(names, w.names[k-1])
	}
	n, _, idxs, _, _, _, err := b.FromPcap(d.pcap, names, nil)
	if err != nil {
		return nil, fmt.Errorf("one-shot FromPcap: %v", err)
	}
	if n != len(names) {
		return nil, fmt.Errorf("one-shot FromPcap processed %d of %d", n, len(names))
	}
	vis, err := w.visible(idxs)
	for _, r := range idxs {
		r.Close()
	}
	if err != nil {
		return nil, err
	}
	for i := range vis {
		vis[i].ID = -1
	}
	w.mu.Lock()
	w.oneShot[key] = vis
	w.mu.Unlock()
	return vis, nil
}

func wCountSnaps(dir string) int {
	n := 0
	es, _ := os.ReadDir(dir)
	for _, e := range es {
		if strings.HasSuffix(e.Name(), ".snap") {
			if ss, err := loadSnapshots(filepath.Join(dir, e.Name())); err == nil {
				n += len(ss)
			}
		}
	}
	return n
}

// run the batches of one schedule on the real builder
func (w *wWorld) run(scratch string, s *wSchedule, emit func(*wRow)) error {
	root, err := os.MkdirTemp(scratch, "run")
	if err != nil {
		return err
	}
	defer os.RemoveAll(root)
	d, err := wMkDirs(root)
	if err != nil {
		return err
	}
	b, err := New(d.pcap, d.idx, d.snap, nil)
	if err != nil {
		return err
	}
	stack := []*index.Reader{}
	defer func() {
		for _, r := range stack {
			r.Close()
		}
	}()
	imported := []int{}
	next := 0
	for bi, batch := range s.Batches {
		row := &wRow{Sid: s.Sid, N: bi + 1, Files: batch.Files, Restart: batch.Restart,
			Vis: []wStream{}, One: []wStream{}, Add: []int{}, Upd: []int{}, Rst: []int{}}
		t0 := time.Now()
		if batch.Restart == "keep" || batch.Restart == "drop" {
			// service restart: a new builder (re-reads capture metadata and the snapshot file) and
			// freshly opened index files, in the order the service had them
			if batch.Restart == "drop" {
				es, _ := os.ReadDir(d.snap)
				for _, e := range es {
					os.Remove(filepath.Join(d.snap, e.Name()))
				}
			}
			for i, r := range stack {
				fn := r.Filename()
				r.Close()
				nr, err := index.NewReader(fn)
				if err != nil {
					return fmt.Errorf("reopen %s: %v", fn, err)
				}
				stack[i] = nr
			}
			if b, err = New(d.pcap, d.idx, d.snap, nil); err != nil {
				return err
			}
		}
		names := []string{}
		for _, k := range batch.Files {
			if err := wLink(filepath.Join(w.dir, w.names[k-1]), filepath.Join(d.pcap, w.names[k-1])); err != nil {
				return err
			}
			names = append(names, w.names[k-1])
		}
		snapsBefore := len(b.snapshots)
		n, used, idxs, upd, rst, add, err := b.FromPcap(d.pcap, names, stack)
		if err != nil {
			row.Err = "FromPcap: " + err.Error()
		} else if n != len(names) {
			row.Err = fmt.Sprintf("FromPcap processed %d of %d files", n, len(names))
		}
		stack = append(stack, idxs...)
		imported = append(imported, batch.Files...)
		sort.Ints(imported)
		row.Imported = append([]int(nil), imported...)
		next += int(used)
		row.Used, row.Next, row.NIdx = int(used), next, len(idxs)
		if upd != nil {
			row.Upd, row.Rst, row.Add = wBits(upd), wBits(rst), wBits(add)
		}
		row.Snaps = wCountSnaps(d.snap)
		row.SnapUsed = snapsBefore > 0
		if row.Vis, err = w.visible(stack); err != nil {
			row.Err += " visible: " + err.Error()
			row.Vis = []wStream{}
		}
		if os.Getenv("VERIF_ONESHOT") != "0" {
			if row.One, err = w.oneShotOf(scratch, imported); err != nil {
				return err
			}
		}
		row.Ms = time.Since(t0).Milliseconds()
		emit(row)
	}
	return nil
}

func TestVerifWire(t *testing.T) {
	in, out := os.Getenv("VERIF_IN"), os.Getenv("VERIF_OUT")
	if in == "" || out == "" {
		t.Skip("VERIF_IN / VERIF_OUT not set")
	}
	if os.Getenv("VERIF_LOG") == "" {
		log.SetOutput(io.Discard)
	}
	scratch := os.Getenv("VERIF_SCRATCH")
	if scratch == "" {
		scratch = t.TempDir()
	}
	bulkGoal := 100000
	if v, err := strconv.Atoi(os.Getenv("VERIF_BULKGOAL")); err == nil && v > 0 {
		bulkGoal = v
	}
	par := 12
	if v, err := strconv.Atoi(os.Getenv("VERIF_PAR")); err == nil && v > 0 {
		par = v
	}
	fh, err := os.Open(in)
	if err != nil {
		t.Fatal(err)
	}
	defer fh.Close()
	// schedules of one group (same convs + wire, different batchings) share the captures
	groups := map[string][]*wSchedule{}
	order := []string{}
	rd := bufio.NewReaderSize(fh, 1<<20)
	for {
		line, err := rd.ReadBytes('\n')
		if len(strings.TrimSpace(string(line))) > 0 {
			s := &wSchedule{}
			if e := json.Unmarshal(line, s); e != nil {
				t.Fatalf("bad schedule: %v", e)
			}
			if s.Group == "" {
				s.Group = fmt.Sprintf("s%d", s.Sid)
			}
			if _, ok := groups[s.Group]; !ok {
				order = append(order, s.Group)
			}
			groups[s.Group] = append(groups[s.Group], s)
		}
		if err != nil {
			break
		}
	}
	of, err := os.Create(out)
	if err != nil {
		t.Fatal(err)
	}
	ow := bufio.NewWriterSize(of, 1<<20)
	var omu sync.Mutex
	emitRows := func(rows []*wRow) {
		omu.Lock()
		defer omu.Unlock()
		for _, r := range rows {
			b, err := json.Marshal(r)
			if err != nil {
				t.Errorf("marshal: %v", err)
				continue
			}
			ow.Write(b)
			ow.WriteByte('\n')
		}
	}
	var wg sync.WaitGroup
	sem := make(chan struct{}, par)
	heavy := make(chan struct{}, 5) // bulk schedules hold a few hundred MB each while importing
	var failMu sync.Mutex
	fails := []string{}
	nImports := 0
	for _, g := range order {
		g := g
		wg.Add(1)
		sem <- struct{}{}
		go func() {
			defer wg.Done()
			defer func() { <-sem }()
			ss := groups[g]
			isHeavy := false
			for _, p := range ss[0].Wire {
				if p.K == "bulk" {
					isHeavy = true
				}
			}
			if isHeavy {
				heavy <- struct{}{}
				defer func() { <-heavy }()
			}
			stage, err := os.MkdirTemp(scratch, "stage")
			if err != nil {
				t.Error(err)
				return
			}
			defer os.RemoveAll(stage)
			w, err := wBuildWorld(ss[0], stage, bulkGoal)
			if err != nil {
				failMu.Lock()
				fails = append(fails, fmt.Sprintf("group %s: concretisation: %v", g, err))
				failMu.Unlock()
				return
			}
			if keep := os.Getenv("VERIF_KEEP"); keep != "" {
				for _, n := range w.names {
					wLink(filepath.Join(stage, n), filepath.Join(keep, n))
				}
			}
			for _, s := range ss {
				for wi, file := range w.moved { // (the specification judges partial imports by the file of every packet)
					s.Wire[wi].File = file
				}
				rows := []*wRow{{Sid: s.Sid, N: 0, Sched: s, Conc: &w.conc, Files: []int{}, Imported: []int{},
					Vis: []wStream{}, One: []wStream{}, Add: []int{}, Upd: []int{}, Rst: []int{}, Restart: "none"}}
				err := w.run(scratch, s, func(r *wRow) { rows = append(rows, r) })
				if err != nil {
					failMu.Lock()
					fails = append(fails, fmt.Sprintf("schedule %d: %v", s.Sid, err))
					failMu.Unlock()
					continue
				}
				failMu.Lock()
				nImports += len(rows) - 1
				failMu.Unlock()
				emitRows(rows)
			}
		}()
	}
	wg.Wait()
	if err := ow.Flush(); err != nil {
		t.Fatal(err)
	}
	of.Close()
	if sum := os.Getenv("VERIF_SUMMARY"); sum != "" {
		b, _ := json.Marshal(map[string]interface{}{"groups": len(order), "imports": nImports, "fails": fails})
		os.WriteFile(sum, b, 0o644)
	}
	for _, f := range fails {
		t.Errorf("harness failure: %s", f)
	}
}

package index

// C04 conformance harness (injected by `go test -overlay`).
// Input  VERIF_IN  : json {shapes: [...]} enumerated by TLC (spec/DataMatchGen.tla)
// Output VERIF_OUT : ndjson, one row per (case, stream): parsed payload conditions, searched representations,
//                    the plain binaryregexp results at the offsets the specification visits, the real verdict.

import (
	"bufio"
	"context"
	"encoding/json"
	"fmt"
	"math/rand"
	"os"
	"path/filepath"
	"sort"
	"strconv"
	"strings"
	"testing"
	"time"

	"github.com/gopacket/gopacket"
	"github.com/gopacket/gopacket/reassembly"
	"github.com/spq/pkappa2/internal/index/streams"
	"github.com/spq/pkappa2/internal/query"
	regexanalysis "github.com/spq/pkappa2/internal/tools/regexAnalysis"
	pcapmetadata "github.com/spq/pkappa2/internal/tools/pcapMetadata"
	"rsc.io/binaryregexp"
)

type dCond struct {
	Els []string `json:"els"`
	Inv bool     `json:"inv"`
	Cap bool     `json:"cap"`
}
type dShape struct {
	Conds []dCond `json:"conds"`
	NConv int     `json:"nconv"`
	Sel   string  `json:"sel"`
	Share string  `json:"share"` // "no", "first", "later"
}
type dChunk struct {
	D string `json:"d"`
	N int    `json:"n"`
}

// representation: alternating chunks
type dRep struct {
	chunks []dChunk
	data   [2][]byte
	sizes  [][2]int
}

type dConv struct{ data map[uint64]*dRep }

func (c *dConv) Data(stream *Stream, moreDetails bool) ([]Data, uint64, uint64, bool, error) {
	return nil, 0, 0, false, nil
}
func (c *dConv) DataForSearch(id uint64) ([2][]byte, [][2]int, uint64, uint64, bool, error) {
	r, ok := c.data[id]
	if !ok {
		return [2][]byte{}, [][2]int{}, 0, 0, false, nil
	}
	return r.data, r.sizes, uint64(len(r.data[0])), uint64(len(r.data[1])), true, nil
}

var dAlphabet = []byte("abc")

// some cases use payload with a line break or a byte that is no valid UTF-8 (set per case by the driver)
var dAlphabets = [][]byte{[]byte("abc"), []byte("abc"), []byte("abc"), []byte("abc\n"), []byte("abc\xe9"), []byte("ab\n\xe9c")}

// QuoteMeta that also escapes bytes that are not ASCII (a pattern has to be valid UTF-8, the payload need not be)
func dQuote(val string) string {
	b := strings.Builder{}
	for i := 0; i < len(val); i++ {
		if val[i] >= 0x80 {
			fmt.Fprintf(&b, `\x%02x`, val[i])
		} else {
			b.WriteString(binaryregexp.QuoteMeta(val[i : i+1]))
		}
	}
	return b.String()
}

func dRandBytes(rng *rand.Rand, n int) []byte {
	b := make([]byte, n)
	for i := range b {
		b[i] = dAlphabet[rng.Intn(len(dAlphabet))]
	}
	return b
}

// chunks alternate in direction (that is what the index and the cache store), the first direction is random.
// plant (optional): bytes derived from one of the query's expressions, put into one chunk so that matches,
// near misses and overlapping candidates are frequent.
// echo: a chunk may repeat the previous chunk (of the other direction) framed by two bytes, so that what an
// expression captured in one direction is likely to be found in the other
var dEcho = false

func dRandRep(rng *rand.Rand, plant []byte) *dRep {
	r := &dRep{sizes: [][2]int{{0, 0}}}
	n := rng.Intn(6)
	if plant != nil && n == 0 {
		n = 1
	}
	at := -1
	if plant != nil {
		at = rng.Intn(n)
	}
	dir := rng.Intn(2)
	for i := 0; i < n; i++ {
		l := 1 + rng.Intn(6)
		b := dRandBytes(rng, l)
		if rng.Intn(3) == 0 {
			// runs and short periods: overlapping candidates for suffix / fixed-length shortcuts
			per := dRandBytes(rng, 1+rng.Intn(2))
			for i := range b {
				b[i] = per[i%len(per)]
			}
		}
		if i == at {
			b = plant
			l = len(b)
		} else if dEcho && i > 0 && rng.Intn(2) == 0 {
			prev := r.data[1-dir][len(r.data[1-dir])-r.chunks[i-1].N:]
			b = append(append(dRandBytes(rng, 1), prev...), dRandBytes(rng, 1)...)
			l = len(b)
		}
		r.data[dir] = append(r.data[dir], b...)
		r.chunks = append(r.chunks, dChunk{D: "cs"[dir : dir+1], N: l})
		r.sizes = append(r.sizes, [2]int{len(r.data[0]), len(r.data[1])})
		dir = 1 - dir
	}
	return r
}

// the letters of an expression, framed by a random byte and a repetition of the last letter
func dPlant(rng *rand.Rand, rxs []string) []byte {
	if len(rxs) == 0 || rng.Intn(5) < 2 {
		return nil
	}
	rx := rxs[rng.Intn(len(rxs))]
	letters := []byte{}
	for i := 0; i < len(rx); i++ {
		if rx[i] == 'a' || rx[i] == 'b' || rx[i] == 'c' {
			letters = append(letters, rx[i])
		}
	}
	if len(letters) == 0 || len(letters) > 10 {
		return nil
	}
	p := append(dRandBytes(rng, rng.Intn(2)), letters...)
	for k := rng.Intn(3); k > 0; k-- {
		p = append(p, letters[len(letters)-1])
	}
	return p
}

// ---- regular expressions from a small grammar; features name the shortcut classes of search_data.go
var dAtoms = []string{"a", "b", "c", "ab", "bc", "abc", "ca", "[ab]", "[bc]", ".", "(?:a|bc)", "(?:ab|c)", "a*", "b+", "c?", "[ab]{2}", "a{1,2}", "(?i:A)", "(?i:bC)", `\b`, "^", "$", "(?:b|)", ".*", "[ab]+", "aa", "bb", "cc", "aba", "[bc]{2}", ".{2}",
	// fixed length, no literal prefix, self-overlapping constant suffix (the sliding-window shortcut of find)
	"[bc]{2}cc", "[ab]{2}aa", ".{2}bb", "[abc]aa", "[ab][ab]bb"}

func dRandRegex(rng *rand.Rand, capture bool) string {
	n := 1 + rng.Intn(4)
	parts := []string{}
	for i := 0; i < n; i++ {
		parts = append(parts, dAtoms[rng.Intn(len(dAtoms))])
	}
	if capture {
		// the capture must be able to hold something: wrap a consuming piece
		k := rng.Intn(n)
		parts[k] = "(?P<v>" + []string{"[ab]", "[abc]+", "a|b", "c", "[bc]{1,2}", "[^c]+", "[^ab]", "a)?(?:b|"}[rng.Intn(8)] + ")"
	}
	rx := strings.Join(parts, "")
	if !capture {
		// anchored expressions: one-pass programs whose literal prefix starts behind the ^
		switch rng.Intn(10) {
		case 0:
			rx = "^" + rx
		case 1:
			rx = rx + "$"
		case 2:
			rx = "^" + rx + "$"
		}
	}
	return rx
}

func dFeatures(rx string) string {
	f := []string{}
	re, err := binaryregexp.Compile(rx)
	if err != nil {
		return "invalid"
	}
	p, complete := re.LiteralPrefix()
	if p != "" {
		f = append(f, "prefix")
	}
	if complete {
		f = append(f, "literal")
	} else {
		if s, err := regexanalysis.ConstantSuffix(rx); err == nil && len(s) != 0 {
			f = append(f, "suffix")
		}
		if l, err := regexanalysis.AcceptedLength(rx); err == nil && l.MinLength == l.MaxLength {
			f = append(f, "fixedlen")
		}
	}
	if strings.Contains(rx, `\b`) || strings.Contains(rx, "^") || strings.Contains(rx, "$") {
		f = append(f, "assert")
	}
	if strings.Contains(rx, "(?i") {
		f = append(f, "fold")
	}
	if len(f) == 0 {
		return "plain"
	}
	return strings.Join(f, "+")
}

func dCPort(id int) int { return 1234 + id%2 }

func dMakeStream(id int, raw *dRep) *streams.Stream {
	t0 := time.Date(2022, 1, 2, 3, 0, 0, 0, time.UTC).Add(time.Duration(id) * time.Minute)
	pi := &pcapmetadata.PcapInfo{Filename: fmt.Sprintf("d%d.pcap", id), Filesize: 1, PacketTimestampMin: t0, PacketTimestampMax: t0.Add(time.Minute), ParseTime: t0.Add(time.Hour), PacketCount: uint(len(raw.chunks) + 2)}
	packets := []gopacket.CaptureInfo{{Timestamp: t0, CaptureLength: 60, Length: 60}}
	dirs := []reassembly.TCPFlowDirection{reassembly.TCPDirClientToServer}
	data := []streams.StreamData{}
	off := [2]int{}
	for i, c := range raw.chunks {
		d := 0
		fd := reassembly.TCPDirClientToServer
		if c.D == "s" {
			d = 1
			fd = reassembly.TCPDirServerToClient
		}
		packets = append(packets, gopacket.CaptureInfo{Timestamp: t0.Add(time.Duration(i+1) * time.Second), CaptureLength: 60, Length: 60})
		dirs = append(dirs, fd)
		data = append(data, streams.StreamData{Bytes: raw.data[d][off[d] : off[d]+c.N], PacketIndex: uint64(i + 1)})
		off[d] += c.N
	}
	packets = append(packets, gopacket.CaptureInfo{Timestamp: t0.Add(50 * time.Second), CaptureLength: 60, Length: 60})
	dirs = append(dirs, reassembly.TCPDirClientToServer)
	for i := range packets {
		pcapmetadata.AddPcapMetadata(&packets[i], pi, uint64(i))
	}
	return &streams.Stream{ClientAddr: []byte{10, 0, 0, 1}, ServerAddr: []byte{10, 0, 0, 2}, ClientPort: uint16(dCPort(id)), ServerPort: 80,
		Packets: packets, PacketDirections: dirs, Data: data, Flags: streams.StreamFlagsComplete | streams.StreamFlagsProtocolTCP}
}

type dStep struct {
	Rep   int    `json:"rep"`
	Cj    int    `json:"cj"`
	C     int    `json:"c"`
	K     int    `json:"k"`
	D     string `json:"d"`
	Off   int    `json:"off"`
	Found bool   `json:"found"`
	S     int    `json:"s"`
	E     int    `json:"e"`
}

// the reference walker: plain binaryregexp, no shortcut.  Every Find it performs is logged; TLC re-derives the walk.
func dWalk(rep *dRep, repIdx, cj, c int, cond *query.DataCondition) ([]dStep, error) {
	steps := []dStep{}
	off := [2]int{}
	vars := map[string]string{}
	for k, e := range cond.Elements {
		dir := int(e.Flags & query.DataRequirementSequenceFlagsDirection / query.DataRequirementSequenceFlagsDirection)
		expr := e.Regex
		for i := len(e.Variables) - 1; i >= 0; i-- {
			v := e.Variables[i]
			val, ok := vars[v.Name]
			if !ok {
				return nil, fmt.Errorf("variable %q not bound", v.Name)
			}
			expr = expr[:v.Position] + "(?:" + dQuote(val) + ")" + expr[v.Position:]
		}
		re, err := binaryregexp.Compile(expr)
		if err != nil {
			return nil, err
		}
		buf := rep.data[dir][off[dir]:]
		res := re.FindSubmatchIndex(buf)
		st := dStep{Rep: repIdx + 1, Cj: cj + 1, C: c + 1, K: k + 1, D: "cs"[dir : dir+1], Off: off[dir], Found: res != nil}
		if res == nil {
			steps = append(steps, st)
			break
		}
		st.S, st.E = res[0], res[1]
		steps = append(steps, st)
		for i, n := range re.SubexpNames() {
			if n != "" && res[2*i] >= 0 {
				vars[n] = string(buf[res[2*i]:res[2*i+1]])
			} else if n != "" {
				vars[n] = "" // a group that took no part in the match holds nothing
			}
		}
		if res[1] != 0 {
			off[dir] += res[1]
			for i := len(rep.sizes) - 1; ; i-- {
				if rep.sizes[i-1][dir] < off[dir] {
					off[1-dir] = rep.sizes[i][1-dir]
					break
				}
			}
		}
	}
	return steps, nil
}

func TestVerifDataMatch(t *testing.T) {
	in := os.Getenv("VERIF_IN")
	if in == "" {
		t.Skip("VERIF_IN not set")
	}
	raw, err := os.ReadFile(in)
	if err != nil {
		t.Fatal(err)
	}
	var inp struct {
		Shapes []dShape `json:"shapes"`
	}
	if err := json.Unmarshal(raw, &inp); err != nil {
		t.Fatal(err)
	}
	seed, _ := strconv.ParseInt(os.Getenv("VERIF_SEED"), 10, 64)
	nStreams, _ := strconv.Atoi(os.Getenv("VERIF_STREAMS"))
	inst, _ := strconv.Atoi(os.Getenv("VERIF_INSTANCES"))
	rng := rand.New(rand.NewSource(seed))
	dir := t.TempDir()
	of, _ := os.Create(os.Getenv("VERIF_OUT"))
	ow := bufio.NewWriterSize(of, 1<<20)
	defer func() { ow.Flush(); of.Close() }()
	ctx := context.Background()
	caseNo := 0
	skipped := map[string]int{}
	for _, sh := range inp.Shapes {
		for it := 0; it < inst; it++ {
			caseNo++
			// ---- the query
			dAlphabet = dAlphabets[rng.Intn(len(dAlphabets))]
			sel := map[string]string{"all": "", "none": ".none", "c0": ".c0"}[sh.Sel]
			shared := dRandRegex(rng, false)
			parts := []string{}
			for ci, c := range sh.Conds {
				els := []string{}
				for k, d := range c.Els {
					rx := dRandRegex(rng, c.Cap && k == 0)
					if sh.Share == "first" && k == 0 {
						rx = shared
					}
					if sh.Share == "later" && ((ci == 0 && k == len(c.Els)-1) || ci == 1) {
						rx = shared
					}
					if c.Cap && k == len(c.Els)-1 {
						// a later element uses the captured bytes
						rx = []string{"@v@", "a@v@", "@v@[bc]", ".@v@", "[abc]@v@[abc]", "^@v@", "[ab]@v@."}[rng.Intn(7)]
					}
					neg := ""
					if c.Inv && k == len(c.Els)-1 {
						neg = "-"
					}
					els = append(els, fmt.Sprintf(`%s%sdata%s:"%s"`, neg, d, sel, rx))
				}
				p := strings.Join(els, " then ")
				if len(sh.Conds) > 1 && len(c.Els) > 1 {
					p = "(" + p + ")"
				}
				_ = ci
				parts = append(parts, p)
			}
			text := strings.Join(parts, " and ")
			if rng.Intn(3) == 0 {
				// a cheap metadata filter next to the payload filters: some streams are skipped without reading their payload
				text = fmt.Sprintf("cport:%d and %s", 1234+rng.Intn(2), text)
			}
			q, err := query.Parse(text)
			if err != nil {
				skipped["parse: "+strings.SplitN(err.Error(), ":", 2)[0]]++
				continue
			}
			// ---- structural image of the payload conditions of every alternative
			type jCond struct {
				Els []map[string]any `json:"els"`
				Inv bool             `json:"inv"`
			}
			type jConj struct {
				Conds []jCond `json:"conds"`
				Ports [][2]int `json:"ports"` // number conditions on cport: [factor, number] meaning number + factor*cport >= 0
			}
			conjs := []jConj{}
			dconds := [][]*query.DataCondition{}
			feats := map[string]bool{}
			allRx := []string{}
			pure := true
			for _, cs := range q.Conditions {
				jc := jConj{Conds: []jCond{}, Ports: [][2]int{}}
				dc := []*query.DataCondition{}
				for _, c := range cs {
					if nc, ok := c.(*query.NumberCondition); ok && len(nc.Summands) == 1 && nc.Summands[0].SubQuery == "" && nc.Summands[0].Type == query.NumberConditionSummandTypeClientPort {
						jc.Ports = append(jc.Ports, [2]int{nc.Summands[0].Factor, nc.Number})
						continue
					}
					d, ok := c.(*query.DataCondition)
					if !ok {
						pure = false
						continue
					}
					j := jCond{Inv: d.Inverted, Els: []map[string]any{}}
					for _, e := range d.Elements {
						dd := "c"
						if e.Flags&query.DataRequirementSequenceFlagsDirection == query.DataRequirementSequenceFlagsDirectionServerToClient {
							dd = "s"
						}
						j.Els = append(j.Els, map[string]any{"d": dd, "rx": e.Regex})
						allRx = append(allRx, e.Regex)
						if len(e.Variables) == 0 {
							feats[dFeatures(e.Regex)] = true
						} else {
							feats["var"] = true
						}
					}
					jc.Conds = append(jc.Conds, j)
					dc = append(dc, d)
				}
				conjs = append(conjs, jc)
				dconds = append(dconds, dc)
			}
			if !pure || len(conjs) == 0 {
				skipped["not pure / impossible"]++
				continue
			}
			fl := []string{}
			for f := range feats {
				fl = append(fl, f)
			}
			sort.Strings(fl)
			// ---- the streams: raw payload + converter outputs (some streams are not cached)
			w, err := NewWriter(filepath.Join(dir, fmt.Sprintf("c%d.idx", caseNo)))
			if err != nil {
				t.Fatal(err)
			}
			raws := map[int]*dRep{}
			dEcho = false
			for _, c := range sh.Conds {
				dEcho = dEcho || c.Cap
			}
			convs := map[string]ConverterAccess{}
			dcs := []*dConv{}
			for i := 0; i < sh.NConv; i++ {
				c := &dConv{data: map[uint64]*dRep{}}
				dcs = append(dcs, c)
				convs[fmt.Sprintf("c%d", i)] = c
			}
			for id := 0; id < nStreams; id++ {
				raws[id] = dRandRep(rng, dPlant(rng, allRx))
				if ok, err := w.AddStream(dMakeStream(id, raws[id]), uint64(id)); err != nil || !ok {
					t.Fatalf("AddStream %v %v", ok, err)
				}
				for _, c := range dcs {
					if rng.Intn(4) != 0 {
						c.data[uint64(id)] = dRandRep(rng, dPlant(rng, allRx))
					}
				}
			}
			r, err := w.Finalize()
			if err != nil {
				t.Fatal(err)
			}
			var res []*Stream
			panicked := ""
			func() {
				defer func() {
					if p := recover(); p != nil {
						panicked = fmt.Sprint(p)
					}
				}()
				res, _, _, err = SearchStreams(ctx, []*Reader{r}, nil, q.ReferenceTime, q.Conditions, nil, []query.Sorting{{Key: query.SortingKeyID}}, 0, 0, nil, convs, false)
			}()
			if panicked != "" {
				js, _ := json.Marshal(map[string]any{"case": caseNo, "stream": -1, "text": text, "feat": strings.Join(fl, ","), "panic": panicked})
				ow.Write(js)
				ow.WriteByte('\n')
				r.Close()
				os.Remove(r.Filename())
				continue
			}
			r.Close()
			os.Remove(r.Filename())
			if err != nil {
				if strings.Contains(err.Error(), "error parsing regexp") {
					// the expressions of the query compile (Parse checked them): the engine built one that does not
					js, _ := json.Marshal(map[string]any{"case": caseNo, "stream": -1, "text": text, "feat": strings.Join(fl, ","), "searcherr": err.Error()})
					ow.Write(js)
					ow.WriteByte('\n')
					continue
				}
				if skipped["search: "+err.Error()] == 0 {
					t.Logf("VERIF-SKIP-EXAMPLE %s: %s", err.Error(), text)
				}
				skipped["search: "+err.Error()]++
				continue
			}
			matched := map[int]bool{}
			for _, s := range res {
				matched[int(s.ID())] = true
			}
			for id := 0; id < nStreams; id++ {
				// which representations does the selector search, in which order does not matter
				reps := []*dRep{}
				if sh.Sel != "c0" {
					reps = append(reps, raws[id])
				}
				if sh.Sel != "none" {
					for i, c := range dcs {
						if sh.Sel == "c0" && i != 0 {
							continue
						}
						if rp, ok := c.data[uint64(id)]; ok {
							reps = append(reps, rp)
						}
					}
				}
				jreps := []map[string]any{}
				steps := []dStep{}
				bad := ""
				for ri, rp := range reps {
					ch := rp.chunks
					if ch == nil {
						ch = []dChunk{}
					}
					jreps = append(jreps, map[string]any{"chunks": ch, "c": string(rp.data[0]), "s": string(rp.data[1])})
					for cj := range dconds {
						for c, cond := range dconds[cj] {
							st, err := dWalk(rp, ri, cj, c, cond)
							if err != nil {
								bad = err.Error()
							}
							steps = append(steps, st...)
						}
					}
				}
				if bad != "" {
					skipped["walker: "+bad]++
					continue
				}
				row := map[string]any{"case": caseNo, "stream": id, "text": text, "feat": strings.Join(fl, ","), "conjs": conjs, "reps": jreps, "steps": steps, "real": matched[id], "cport": dCPort(id)}
				js, err := json.Marshal(row)
				if err != nil {
					t.Fatal(err)
				}
				ow.Write(js)
				ow.WriteByte('\n')
			}
		}
	}
	for k, v := range skipped {
		t.Logf("VERIF-SKIPPED %d %s", v, k)
	}
}

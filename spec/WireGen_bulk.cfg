SPECIFICATION GenSpec
CONSTANTS
  NConv = 2
  MaxMsgs = 4
  MaxLen = 4
  MaxSeg = 2
  Protos = {"tcp", "udp"}
  Fams = {4, 6}
  MaxDup = 1
  MaxDisp = 1
  MaxSwap = 1
  MaxCuts = 2
  MinCuts = 1
  MaxAck = 1
  MaxBulk = 1
  Dts = {0, 1}
  BatchMode = "any"
  MinBulk = 1
  WantCutAfterBulk = TRUE
INVARIANT GenPrint

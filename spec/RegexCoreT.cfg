SPECIFICATION Spec
CONSTANTS
  Sigma = {"a", "b"}
  L = 5
  Leaves <- TCoreInit
  UnOps <- TCoreUn
  Pool <- TCoreInit
  MaxDepth = 2
  MaxSize = 99
INVARIANT Emit
VIEW View

----------------------------- MODULE ImportTrace -----------------------------
(* Trace validation for C08.  Rows recorded by harness/wire: per schedule one header row
   (n = 0: the packet schedule, from which the world = set of pieces is derived) and one
   row per import batch executed by the REAL builder: the batch, the visible streams read
   through the reader stack (id, connection, contributing captures, payload digests, unit
   ranges, direction changes, packet count), the masks and the number of ids FromPcap
   reported, and the visible streams of a ONE-SHOT import of the same set of captures by
   the real code on a fresh data directory.

   Property predicates, evaluated on what the real code did (a failure prints "fail"):
     SetDetermined  visible modulo numbering = one-shot import of the same set
     IdStable       every (id, connection) visible before the batch is visible after it
     OneIdPerConn   no connection has two visible ids (a connection = a conversation of the schedule;
                    after a set of captures with a >= 5 minute hole in a conversation: what the
                    one-shot import of the same set shows as one stream)
     NextIdFresh    ids handed out are beyond every id used before; the reported count
                    and the "added" mask are exactly the new ids
   Conformance with Import.tla (prints "nonconf", a separate verdict class): the model's
   BatchResult on the logged pre-state, with new streams numbered as the real code did,
   predicts the logged index file, masks and next id.  The model state is then bound to
   the log (so one deviation does not cascade). *)
EXTENDS Import

VARIABLES l,
          holed     \* some set of captures imported so far in this schedule showed a connection silent for >= 5 minutes

Trace == ndJsonDeserialize("wire_trace.ndjson")

BulkBase == 100

Fail(r, what, got, want) ==
    PrintT("@@J" \o ToJson([fail |-> what, sid |-> r.sid, n |-> r.n, got |-> got, want |-> want]))
\* (IF, not \/: inside an action TLC would explore both disjuncts)
Chk(cond, r, what, got, want) == IF cond THEN TRUE ELSE Fail(r, what, got, want)
NonConf(r, what, got, want) ==
    PrintT("@@J" \o ToJson([nonconf |-> what, sid |-> r.sid, n |-> r.n, got |-> got, want |-> want]))
Conf(cond, r, what, got, want) == IF cond THEN TRUE ELSE NonConf(r, what, got, want)

WorldOf(w) == {<<IF w[i].k = "bulk" THEN BulkBase + w[i].m ELSE w[i].c, w[i].file>> : i \in DOMAIN w}

Strip(v) == [conv |-> v.conv, flip |-> v.flip, proto |-> v.proto, c |-> v.c, s |-> v.s, runs |-> v.runs,
             cd |-> v.cd, sd |-> v.sd, caps |-> v.caps, npk |-> v.npk]
Brief(v) == [conv |-> v.conv, caps |-> v.caps, cd |-> v.cd, sd |-> v.sd, npk |-> v.npk, flip |-> v.flip]
Ids(vs) == {vs[i].id : i \in DOMAIN vs}

\* The importer splits a connection at 5 minutes of silence.  A set of captures that lacks the capture
\* holding the packets in between can show such a silence although the conversation has none: then (and
\* only then) "connection" is what the one-shot import of the same set shows as one stream.
Timeout == 300000
PktsOf(w, S, c) == SelectSeq(w, LAMBDA p : p.file \in S /\ p.c = c /\ p.k # "bulk")
HoleFree(w, S) == \A c \in {w[i].c : i \in DOMAIN w} :
    LET ps == PktsOf(w, S, c) IN \A i \in 1 .. (Len(ps) - 1) : ps[i + 1].at - ps[i].at < Timeout
CountOf(vs, c) == Cardinality({i \in DOMAIN vs : vs[i].conv = c})

CheckProps(r, prevVis, prevNext, strict) ==
    LET vis == r.vis
        newIds == Ids(vis) \ Ids(prevVis)
    IN /\ Chk(r.err = "", r, "import-error", r.err, "")
       \* OneIdPerConn
       /\ \A i, j \in DOMAIN vis :
            Chk(\/ i = j \/ vis[i].conv # vis[j].conv \/ vis[i].conv = 0
                \/ (~strict /\ CountOf(vis, vis[i].conv) <= CountOf(r.one, vis[i].conv)),
                r, "OneIdPerConn", <<vis[i].id, vis[j].id>>, vis[i].tuple)
       /\ \A i \in DOMAIN vis : Chk(vis[i].conv # 0, r, "unknown-stream", vis[i].tuple, "")
       \* IdStable
       /\ \A i \in DOMAIN prevVis :
            Chk(\E j \in DOMAIN vis : vis[j].id = prevVis[i].id /\ vis[j].conv = prevVis[i].conv,
                r, "IdStable", prevVis[i].id, prevVis[i].tuple)
       \* NextIdFresh
       /\ Chk(\A id \in Ids(vis) : id < r.next, r, "NextIdFresh.beyond", Ids(vis), r.next)
       /\ Chk(\A id \in newIds : id >= prevNext, r, "NextIdFresh.reused", newIds, prevNext)
       /\ Chk(r.next = prevNext + Cardinality(newIds), r, "NextIdFresh.count", r.used, Cardinality(newIds))
       /\ Chk(Range(r.add) = newIds, r, "NextIdFresh.added-mask", Range(r.add), newIds)
       /\ Chk((Range(r.upd) \cup Range(r.rst)) \subseteq Ids(prevVis), r, "NextIdFresh.changed-mask",
              Range(r.upd) \cup Range(r.rst), Ids(prevVis))
       \* SetDetermined (differential against the one-shot import of the same set)
       /\ LET a == {Strip(vis[i]) : i \in DOMAIN vis}
              b == {Strip(r.one[i]) : i \in DOMAIN r.one}
          IN Chk(a = b, r, "SetDetermined",
                 {Brief(x) : x \in a \ b}, {Brief(x) : x \in b \ a})

\* the index file the real import wrote, as the model sees index files
RealFile(r) ==
    LET written == Range(r.add) \cup Range(r.upd) \cup Range(r.rst)
        idx(id) == CHOOSE i \in DOMAIN r.vis : r.vis[i].id = id
    IN [id \in {x \in written : \E i \in DOMAIN r.vis : r.vis[i].id = x} |->
            [conn |-> r.vis[idx(id)].conv, caps |-> Range(r.vis[idx(id)].caps)]]

CheckConf(r) ==
    LET B    == Range(r.files)
        new  == NewConns(B)
        has(c) == \E i \in DOMAIN r.vis : r.vis[i].conv = c
        num  == [c \in new |-> IF has(c) THEN r.vis[CHOOSE i \in DOMAIN r.vis : r.vis[i].conv = c].id ELSE NoId]
        ok   == num \in Numberings(new, nextId)
    IN /\ Conf(ok, r, "numbering", num, <<new, nextId>>)
       /\ ok => LET res == BatchResult(files, imported, nextId, B, num) IN
            /\ Conf(res.file = RealFile(r), r, "file", RealFile(r), res.file)
            /\ Conf(res.masks = [add |-> Range(r.add), upd |-> Range(r.upd), rst |-> Range(r.rst)], r, "masks",
                    [add |-> Range(r.add), upd |-> Range(r.upd), rst |-> Range(r.rst)], res.masks)
            /\ Conf(res.next = r.next, r, "next", r.next, res.next)

TraceInit == Init /\ l = 0 /\ holed = FALSE

TraceNext ==
    /\ l < Len(Trace)
    /\ l' = l + 1
    /\ LET r == Trace[l + 1] IN
       IF r.n = 0
       THEN /\ world' = WorldOf(r.sched.wire)
            /\ imported' = {} /\ files' = <<>> /\ nextId' = 0 /\ hist' = <<>>
            /\ lastMasks' = [add |-> {}, upd |-> {}, rst |-> {}]
            /\ holed' = FALSE
       ELSE LET first    == r.n = 1
                prevVis  == IF first THEN <<>> ELSE Trace[l].vis
                prevNext == IF first THEN 0 ELSE Trace[l].next
                h        == holed \/ ~HoleFree(Trace[l + 1 - r.n].sched.wire, Range(r.imported))
            IN /\ CheckProps(r, prevVis, prevNext, ~h)
               /\ IF h THEN TRUE ELSE CheckConf(r)     \* Import.tla has no clock: it speaks about hole-free histories
               /\ holed' = h
               \* bind the model state to the log
               /\ files' = IF DOMAIN RealFile(r) = {} THEN files ELSE Append(files, RealFile(r))
               /\ nextId' = r.next
               /\ imported' = imported \cup Range(r.files)
               /\ hist' = Append(hist, [files |-> r.files, restart |-> r.restart])
               /\ lastMasks' = [add |-> Range(r.add), upd |-> Range(r.upd), rst |-> Range(r.rst)]
               /\ UNCHANGED world

TraceSpec == TraceInit /\ [][TraceNext]_<<vars, l, holed>>

TraceDone == l = Len(Trace) => PrintT("@@J" \o ToJson([done |-> l]))
=============================================================================

SPECIFICATION TraceSpec
INVARIANT Done

SPECIFICATION Spec

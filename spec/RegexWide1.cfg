SPECIFICATION Spec
CONSTANTS
  Sigma = {"a", "b"}
  L = 5
  Leaves <- AllLeaves
  UnOps <- AllUn
  Pool <- AllLeaves
  MaxDepth = 1
  MaxSize = 99
INVARIANT Emit
VIEW View

---------------------------- MODULE UploadTrace ----------------------------
(* Trace validation for C19.  Every row recorded by harness/upload from the real router
   (one request, or one concurrent pair of uploads, with the file system of the three zones
   before and after, the arrival events and the names handed to the importer) is checked by
   TLC against the predicates of UploadProps.tla.  A failing predicate prints one "@@J" line;
   the runner turns property predicates into verdicts and "Conforms*" into NONCONFORMANCE.

   The only state is `res`: the resolution function of Upload.tla as far as the trace has
   revealed it (written path -> stored name, learned from accepted uploads; an ordinary
   name resolves to itself).  It is what makes "uploading a name that already exists" a
   statement about the written path. *)
EXTENDS UploadProps, TLC, Json

VARIABLES l, res

Trace == ndJsonDeserialize("upload_trace.ndjson")

ToMap(seq) == LET names == {seq[i].n : i \in DOMAIN seq}
              IN [n \in names |-> seq[CHOOSE i \in DOMAIN seq : seq[i].n = n].c]
FSOf(x)    == [inside |-> ToMap(x.inside), base |-> x.base, outer |-> x.outer]
Ok(st)     == st = 200

Fail(r, what) == PrintT("@@J" \o ToJson([fail |-> what, w |-> r.w, n |-> r.n, op |-> r.op,
                                         cls |-> r.cls, var |-> r.var, row |-> l + 1]))
\* IF, not \/ : at action level TLC explores both disjuncts, an IF only the chosen branch
Chk(cond, r, what) == IF cond THEN TRUE ELSE Fail(r, what)

Target(cls, path, name, m) ==
    IF cls = "plain" THEN [known |-> TRUE, n |-> name]
    ELSE IF path \in DOMAIN m THEN [known |-> TRUE, n |-> m[path]]
    ELSE [known |-> FALSE, n |-> ""]

\* what an accepted upload reveals about the resolution of its path
Learn(m, s, t, path, ok, body) ==
    IF ok /\ path \notin DOMAIN m /\ \E n \in NewFiles(s, t) : t.inside[n] = body
      THEN (path :> CHOOSE n \in NewFiles(s, t) : t.inside[n] = body) @@ m
      ELSE m

UploadRow(r, s, t, m) ==
    LET ok == Ok(r.status) IN
    /\ Chk(InsideOnly(s, t), r, "InsideOnly")
    /\ Chk(NoOverwrite(s, t), r, "NoOverwrite")
    /\ Chk(OneNewFile(s, t, ok, r.body), r, "OneNewFile")
    /\ Chk(ExactlyOnceQueued(s, t, ok, r.events, r.queued), r, "ExactlyOnceQueued")
    /\ Chk(ExistingRejected(s, Target(r.cls, r.path, r.name, m), ok), r, "ExistingRejected")
    \* the model's resolution of an ordinary name: accepted when free, stored under that name
    /\ Chk(r.cls = "plain" /\ r.name \notin DOMAIN s.inside => ok /\ NewFiles(s, t) = {r.name}, r, "ConformsPlain")

DownloadRow(r, s, t) ==
    /\ Chk(ReadInsideOnly(r.reads), r, "ReadInsideOnly")
    /\ Chk(ReadOnly(s, t), r, "DownloadReadOnly")
    /\ Chk(r.events = 0 /\ r.queued = <<>>, r, "DownloadQueuesNothing")
    /\ Chk((r.cls = "plain" /\ r.ext = "pcap" /\ r.name \in DOMAIN s.inside /\ s.inside[r.name] # "0:e3b0c44298fc1c14")   \* (not an empty file)
             => (Ok(r.status) /\ \E i \in DOMAIN r.reads : r.reads[i].z = "inside" /\ r.reads[i].n = r.name),
           r, "ConformsServe")

PairRow(r, s, t, m) ==
    LET ok1 == Ok(r.status)
        ok2 == Ok(r.status2)
    IN
    /\ Chk(InsideOnly(s, t), r, "InsideOnly")
    /\ Chk(NoOverwrite(s, t), r, "NoOverwrite")
    /\ Chk(AtMostOneSuccess(r.same, ok1, ok2), r, "AtMostOneSuccess")
    /\ Chk(LoserChangesNothing(s, t, ok1, ok2, r.body, r.body2), r, "LoserChangesNothing")
    /\ Chk(PairQueued(s, t, ok1, ok2, r.events, r.queued), r, "ExactlyOnceQueued")
    /\ Chk(ExistingRejected(s, Target(r.cls, r.path, r.name, m), ok1), r, "ExistingRejected")
    /\ Chk(ExistingRejected(s, Target(r.cls2, r.path2, r.name, m), ok2), r, "ExistingRejected")
    \* the outcome the two-uploader model assigns to this schedule (both spelled as ordinary names)
    /\ Chk(r.hasexp => (ok1 = r.expa /\ ok2 = r.expb), r, "ConformsSchedule")

TraceInit == l = 0 /\ res = <<>>

TraceNext ==
    /\ l < Len(Trace)
    /\ l' = l + 1
    /\ LET r == Trace[l + 1]
           m == IF r.n = 0 THEN <<>> ELSE res          \* n = 0 starts a new world
           s == FSOf(r.pre)
           t == FSOf(r.post)
       IN CASE r.op = "upload" ->
                 /\ UploadRow(r, s, t, m)
                 /\ res' = Learn(m, s, t, r.path, Ok(r.status), r.body)
            [] r.op = "download" ->
                 /\ DownloadRow(r, s, t)
                 /\ res' = m
            [] r.op = "pair" ->
                 /\ PairRow(r, s, t, m)
                 /\ res' = Learn(Learn(m, s, t, r.path, Ok(r.status), r.body), s, t, r.path2, Ok(r.status2), r.body2)

TraceSpec == TraceInit /\ [][TraceNext]_<<l, res>>

Done == l = Len(Trace) => PrintT("@@J" \o ToJson([done |-> l]))
=============================================================================

------------------------------ MODULE UploadMC ------------------------------
(* Constants for the exhaustive two-uploader configurations of Upload.tla. *)
EXTENDS Upload

MCClasses   == {"plain", "alias"}
MCPairPaths == {[cls |-> "plain", nm |-> "n1", ext |-> "pcap", v |-> 0],
                [cls |-> "alias", nm |-> "n1", ext |-> "pcap", v |-> 0]}
=============================================================================

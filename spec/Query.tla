-------------------------------- MODULE Query --------------------------------
(* C02 / C03: what a query MEANS, what its normal form means, and which search results are allowed.

   An abstract stream is a record
     [id, cport, sport, cbytes, sbytes, proto, chost, shost, tags, ev, ft, lt]
   (hosts and proto as integers, tags a sequence of tag names, ev the payload as a sequence of
   chunks [d |-> "c"|"s", t |-> token]; each chunk carries one token; ft/lt are time ranks).

   A query is an AST  atom | not x | and x y | or x y | then x y  over the atoms below.
   Its meaning is three-valued where the query language leaves room (THEN with negated elements):
   Eval3 returns <<must, may>>; for the classical fragment must = may.

   The normal form is the structural image of query.ConditionsSet (internal/query/conditions.go):
   a disjunction of conjunctions of NumberCondition / FlagCondition / HostCondition / TagCondition /
   DataCondition / TimeCondition / ImpossibleCondition, with the semantics documented on those types. *)
EXTENDS Integers, Sequences, FiniteSets, TLC

Range(s) == {s[i] : i \in DOMAIN s}
Min(S) == CHOOSE x \in S : \A y \in S : x <= y
Pow2(n) == LET RECURSIVE p(_)
               p(k) == IF k = 0 THEN 1 ELSE 2 * p(k - 1)
           IN p(n)

-----------------------------------------------------------------------------
(* ---------- atoms ----------
   [k |-> kind, ...] :
     "id"     lo, hi           id in lo..hi            (id:lo:hi, id:n)
     "idlist" s                id in Range(s)          (id:a,b,c)
     "cport" / "sport" / "port"   n
     "cbytes" / "sbytes"  lo, hi  (hi = -1: open)      (cbytes:lo:hi)
     "proto"  p                proto = p               (protocol:tcp)
     "chost" / "shost" / "host"   h, bits              (chost:a.b.c.d/bits)
     "tag"    name             name in tags            (tag:x, service:x, mark:x)
     "cdata" / "sdata" / "data"   tok                  (cdata:"tok")
     "ftime" / "ltime"  lo, hi (time ranks, -1 open)
     "sub_port" n / "sub_id" name   restricted sub-queries (only in searches, C02)   *)
InRange(v, lo, hi) == v >= lo /\ (hi = -1 \/ v <= hi)
HostIn(ip, h, bits) == (ip \div Pow2(32 - bits)) = (h \div Pow2(32 - bits))
\* Converter outputs are a function of the payload (two imaginary converters): "a" renames the tokens cyclically
\* (AA -> CC, BB -> AA, CC -> BB), "b" says the chunks in reverse order.  A payload filter with a converter selector
\* (cdata.a:"AA") looks at that output only; without a selector at the raw payload (no cached output exists in C02 / C03).
Rot(t) == CASE t = "AA" -> "CC" [] t = "BB" -> "AA" [] t = "CC" -> "BB" [] OTHER -> t
EvOf(s, conv) ==
    CASE conv = "a" -> [i \in DOMAIN s.ev |-> [d |-> s.ev[i].d, t |-> Rot(s.ev[i].t)]]
      [] conv = "b" -> [i \in DOMAIN s.ev |-> s.ev[Len(s.ev) + 1 - i]]
      [] OTHER -> s.ev
HasTokIn(ev, d, tok) == \E i \in DOMAIN ev : ev[i].d = d /\ ev[i].t = tok
HasTok(s, d, tok) == HasTokIn(s.ev, d, tok)

NumVal(t, s) == CASE t = "id" -> s.id [] t = "cbytes" -> s.cbytes [] t = "sbytes" -> s.sbytes
                  [] t = "cport" -> s.cport [] t = "sport" -> s.sport
LinVars == <<"id", "cport", "sport", "cbytes", "sbytes">>
RECURSIVE LinSum(_, _, _)
LinSum(ms, s, i) == IF i > Len(ms) THEN 0 ELSE ms[i] * NumVal(LinVars[i], s) + LinSum(ms, s, i + 1)
AtomHolds(a, s, P) ==
    CASE a.k = "id"     -> InRange(s.id, a.lo, a.hi)
      [] a.k = "idlist" -> s.id \in Range(a.s)
      [] a.k = "cport"  -> s.cport = a.n
      [] a.k = "sport"  -> s.sport = a.n
      [] a.k = "port"   -> s.cport = a.n \/ s.sport = a.n
      [] a.k = "cbytes" -> InRange(s.cbytes, a.lo, a.hi)
      [] a.k = "sbytes" -> InRange(s.sbytes, a.lo, a.hi)
      [] a.k = "proto"  -> s.proto = a.p
      [] a.k = "chost"  -> HostIn(s.chost, a.h, a.bits)
      [] a.k = "shost"  -> HostIn(s.shost, a.h, a.bits)
      [] a.k = "host"   -> HostIn(s.chost, a.h, a.bits) \/ HostIn(s.shost, a.h, a.bits)
      [] a.k = "tag"    -> a.name \in Range(s.tags)
      [] a.k = "cdata"  -> HasTokIn(EvOf(s, a.conv), "c", a.tok)
      [] a.k = "sdata"  -> HasTokIn(EvOf(s, a.conv), "s", a.tok)
      [] a.k = "data"   -> HasTokIn(EvOf(s, a.conv), "c", a.tok) \/ HasTokIn(EvOf(s, a.conv), "s", a.tok)
      [] a.k = "ftime"  -> InRange(s.ft, a.lo, a.hi)
      [] a.k = "ltime"  -> InRange(s.lt, a.lo, a.hi)
      [] a.k = "fteq"   -> s.ft = a.n                  \* a single time instead of a range (ftime:"2022-05-06 020000")
      [] a.k = "capc"   -> \E i \in DOMAIN s.ev : s.ev[i].d = "c"     \* cdata:"(?P<v>[A-Z]+)": captures the first client token
      [] a.k = "hostself" -> HostIn(s.chost, s.shost, a.bits)          \* client and server in the same network (chost:@shost@/24)
      [] a.k = "protoself" -> TRUE                     \* the protocol of the stream itself (protocol:@protocol@)
      \* the duration of the stream (ltime:@ftime@+90m:  /  ltime::@ftime@+90m, thresholds between whole hours):
      \* "ge" n: lasts at least n hours, "le" n: lasts less than n hours
      [] a.k = "dur"    -> IF a.tok = "ge" THEN s.lt - s.ft >= a.n ELSE s.lt - s.ft < a.n
      \* arithmetic on fields of the same stream:  field OP n + sum(s[i] * LinVars[i])   (id:7-@id@:  means id >= 7 - id)
      [] a.k = "lin"    -> LET rhs == a.n + LinSum(a.s, s, 1)
                               v == NumVal(a.name, s)
                           IN CASE a.tok = "ge" -> v >= rhs [] a.tok = "le" -> v <= rhs [] OTHER -> v = rhs
      \* restricted sub-queries: some visible stream t of the searched population P satisfies the sub-query and the join
      [] a.k = "sub_port" -> \E t \in P : t.cport = a.n /\ s.sport = t.sport          \* @s:cport:n sport:@s:sport@
      [] a.k = "sub_id"   -> \E t \in P : a.name \in Range(t.tags) /\ s.id = t.id + 1  \* @s:tag:x id:@s:id@+1
      \* a value captured in a sub-query and looked for in the main stream:  @s:id:n @s:cdata:"(?P<name>tok)" cdata:@s:name@ sport:p
      [] a.k = "sub_cap"  -> /\ \E t \in P : t.id = a.n /\ HasTok(t, "c", a.tok)
                             /\ HasTok(s, "c", a.tok) /\ s.sport = a.p

IsDataAtom(a) == a.k \in {"cdata", "sdata", "data"}
DirsOf(a) == CASE a.k = "cdata" -> {"c"} [] a.k = "sdata" -> {"s"} [] a.k = "data" -> {"c", "s"}

(* ---------- THEN: sequences of payload filters ----------
   A chain is a sequence of elements [d, tok, neg].  Each later element only sees data that follows the
   previous match in conversation order; with one token per chunk that is: a later chunk. *)
FirstAfter(ev, d, tok, p) ==
    LET js == {j \in DOMAIN ev : j > p /\ ev[j].d = d /\ ev[j].t = tok}
    IN IF js = {} THEN 0 ELSE Min(js)
RECURSIVE PosChainFrom(_, _, _)
PosChainFrom(ev, chain, p) ==        \* leftmost-first matching of an all-positive chain
    IF chain = <<>> THEN TRUE
    ELSE LET j == FirstAfter(ev, Head(chain).d, Head(chain).tok, p)
         IN j # 0 /\ PosChainFrom(ev, Tail(chain), j)
Positives(chain) == SelectSeq(chain, LAMBDA e : ~e.neg)
NegTokAbsent(chain, s) == \A i \in DOMAIN chain : chain[i].neg => ~HasTok(s, chain[i].d, chain[i].tok)
\* <<must, may>> of one chain: exact without negated elements; with negated elements the language leaves
\* room, only bounds are claimed: the positive elements must match in order (may), and a stream in which
\* the negated tokens do not occur at all is certainly accepted (must)
Chain3(chain, s) ==
    LET pos == PosChainFrom(s.ev, Positives(chain), 0)
    IN IF \A i \in DOMAIN chain : ~chain[i].neg THEN <<pos, pos>>
       ELSE <<pos /\ NegTokAbsent(chain, s), pos>>

\* the chains an operand of THEN stands for: a (negated) payload atom, a THEN of chains, an OR of chains
RECURSIVE ChainsOf(_)
ChainsOf(q) ==
    CASE q.op = "atom" -> {<<[d |-> d, tok |-> q.a.tok, neg |-> FALSE]>> : d \in DirsOf(q.a)}
      [] q.op = "not"  -> {<<[d |-> d, tok |-> q.x.a.tok, neg |-> TRUE]>> : d \in DirsOf(q.x.a)}
      [] q.op = "then" -> {x \o y : x \in ChainsOf(q.x), y \in ChainsOf(q.y)}
      [] q.op = "or"   -> ChainsOf(q.x) \cup ChainsOf(q.y)

\* three-valued meaning of a query on a stream
RECURSIVE Eval3(_, _, _)
Eval3(q, s, P) ==
    CASE q.op = "atom" -> LET b == AtomHolds(q.a, s, P) IN <<b, b>>
      [] q.op = "not"  -> LET r == Eval3(q.x, s, P) IN <<~r[2], ~r[1]>>
      [] q.op = "and"  -> LET x == Eval3(q.x, s, P) y == Eval3(q.y, s, P) IN <<x[1] /\ y[1], x[2] /\ y[2]>>
      [] q.op = "or"   -> LET x == Eval3(q.x, s, P) y == Eval3(q.y, s, P) IN <<x[1] \/ y[1], x[2] \/ y[2]>>
      [] q.op = "then" -> \* alternatives come from OR and from either-direction atoms: a disjunction of chains
                          LET rs == {Chain3(c, s) : c \in ChainsOf(q)}
                          IN <<\E r \in rs : r[1], \E r \in rs : r[2]>>

-----------------------------------------------------------------------------
(* ---------- the normal form (query.ConditionsSet) ----------
   nf = [imp |-> BOOLEAN, cs |-> <<conjunct, ...>>], conjunct = <<cond, ...>>, cond = [kind |-> ..., ...]:
     "num"   number, sum = <<[type, factor], ...>>     fulfilled when number + sum(factor * value(type)) >= 0
     "flag"  mask, value                               fulfilled when (flags XOR value) AND mask # 0
                                                       (only the protocol mask occurs: proto # value)
     "host"  src ("c"|"s"), h, bits, inv               fulfilled when masked host equal, XOR inv
     "tag"   name, am, af (accept matching / failing of decided tags)
     "data"  els = <<[d, tok], ...>>, inv              the first n-1 elements match in sequence and the last one matches XOR inv
     "time"  ft, lt factors, dur (rank units)          fulfilled when dur + ft*s.ft + lt*s.lt >= 0
     "imp"                                             never fulfilled *)
RECURSIVE SumOf(_, _)
SumOf(sum, s) == IF sum = <<>> THEN 0 ELSE Head(sum).factor * NumVal(Head(sum).type, s) + SumOf(Tail(sum), s)

DataCondHolds(c, s) ==
    LET n == Len(c.els)
        RECURSIVE walk(_, _)
        \* returns the chunk index of the match of element i when elements 1..i match in sequence, else 0
        \* (elements with a converter selector are generated as single-element conditions only)
        evi(i) == EvOf(s, c.els[i].conv)
        walk(i, p) == IF i = 0 THEN p
                      ELSE LET q == walk(i - 1, p) IN
                           IF i > 1 /\ q = 0 THEN 0 ELSE FirstAfter(evi(i), c.els[i].d, c.els[i].tok, IF i = 1 THEN 0 ELSE q)
        before == IF n = 1 THEN 1 ELSE walk(n - 1, 0)        \* # 0 iff the first n-1 elements match
        last == IF before = 0 THEN 0 ELSE FirstAfter(evi(n), c.els[n].d, c.els[n].tok, IF n = 1 THEN 0 ELSE before)
    IN before # 0 /\ ((last # 0) # c.inv)

CondHolds(c, s) ==
    CASE c.kind = "num"  -> c.number + SumOf(c.sum, s) >= 0
      [] c.kind = "flag" -> s.proto # c.value
      [] c.kind = "host" -> HostIn(IF c.src = "c" THEN s.chost ELSE s.shost, c.h, c.bits) # c.inv
      [] c.kind = "host2" -> HostIn(s.chost, s.shost, c.bits) # c.inv                     \* the two hosts of the stream itself
      [] c.kind = "tag"  -> IF c.name \in Range(s.tags) THEN c.am ELSE c.af
      [] c.kind = "data" -> DataCondHolds(c, s)
      [] c.kind = "time" -> c.dur + c.ft * s.ft + c.lt * s.lt >= 0
      [] c.kind = "imp"  -> FALSE
NFHolds(nf, s) == ~nf.imp /\ \E i \in DOMAIN nf.cs : \A j \in DOMAIN nf.cs[i] : CondHolds(nf.cs[i][j], s)

\* C03: the normal form accepts a stream iff the expression as written does (within the claimed bounds),
\* and "matches nothing" is only reported for queries no stream of the universe satisfies
NormalFormRight(q, nf, pop) ==
    \A i \in DOMAIN pop : LET r == Eval3(q, pop[i], Range(pop)) h == NFHolds(nf, pop[i]) IN (r[1] => h) /\ (h => r[2])
ImpossibleRight(q, nf, pop) == nf.imp => \A i \in DOMAIN pop : ~Eval3(q, pop[i], Range(pop))[1]

-----------------------------------------------------------------------------
(* ---------- C02: search over a stack of index files ----------
   files = <<file, ...>> oldest first, file = sequence of streams; the visible version of an id is the one in
   the newest file that contains the id.  A result is allowed iff it is duplicate free, contains only visible
   matching streams, is sorted (non strictly) by the key list, is exactly positions skip+1 .. skip+limit of SOME
   linear extension of the sort pre-order on the matching set, and the flag says whether more exist. *)
VisibleStreams(files) ==
    {s \in UNION {Range(files[i]) : i \in DOMAIN files} :
        \E i \in DOMAIN files : s \in Range(files[i]) /\
            \A j \in DOMAIN files : j > i => \A t \in Range(files[j]) : t.id # s.id}
\* the value a data filter captured (group:"@v@" with cdata:"(?P<v>[A-Z]+)"): the first token the client sent
FirstClientTok(s) == LET cs == SelectSeq(s.ev, LAMBDA e : e.d = "c") IN IF cs = <<>> THEN "" ELSE cs[1].t
KeyVal(k, s) == CASE k = "v" -> FirstClientTok(s) [] k = "id" -> s.id [] k = "ftime" -> s.ft [] k = "ltime" -> s.lt [] k = "cbytes" -> s.cbytes
                  [] k = "sbytes" -> s.sbytes [] k = "chost" -> s.chost [] k = "shost" -> s.shost
                  [] k = "cport" -> s.cport [] k = "sport" -> s.sport
\* -1 / 0 / 1 comparison by the key list (sorting = <<[key, desc], ...>>)
RECURSIVE Cmp(_, _, _)
Cmp(sorting, a, b) ==
    IF sorting = <<>> THEN 0
    ELSE LET va == KeyVal(Head(sorting).key, a) vb == KeyVal(Head(sorting).key, b)
             c == IF va < vb THEN -1 ELSE IF va > vb THEN 1 ELSE 0
             d == IF Head(sorting).desc THEN -c ELSE c
         IN IF d # 0 THEN d ELSE Cmp(Tail(sorting), a, b)

\* restrict = set of stream ids the caller limits the search to ({} = no restriction)
ResultAllowed(files, q, sorting, limit, skip, restrict, res, more) ==
    LET all == VisibleStreams(files)                      \* sub-queries range over all visible streams
        vis == {s \in all : restrict = {} \/ s.id \in restrict}
        must == {s \in vis : Eval3(q, s, all)[1]}
        may  == {s \in vis : Eval3(q, s, all)[2]}
        byId(i) == CHOOSE s \in vis : s.id = i
        n == Len(res)
        le(a, b) == Cmp(sorting, a, b) <= 0
        lt(a, b) == Cmp(sorting, a, b) < 0
    IN
    /\ \A i \in DOMAIN res : \E s \in vis : s.id = res[i]                    \* only visible versions
    /\ \A i, j \in DOMAIN res : i # j => res[i] # res[j]                     \* each once
    /\ \A i \in DOMAIN res : byId(res[i]) \in may                            \* only matching streams
    /\ \A i \in 1 .. (n - 1) : le(byId(res[i]), byId(res[i + 1]))             \* in the requested order
    /\ limit = 0 => must \subseteq {byId(res[i]) : i \in DOMAIN res} /\ ~more /\ skip = 0
    /\ (must = may /\ limit > 0) =>                                            \* exact fragment: page and flag
        LET M == must
            R == {byId(res[i]) : i \in DOMAIN res}
            rest == M \ R
            size == Cardinality(M)
        IN /\ n = (IF size <= skip THEN 0 ELSE IF size - skip < limit THEN size - skip ELSE limit)
           /\ more = (size > skip + limit)
           /\ n > 0 =>
                LET first == byId(res[1]) last == byId(res[n]) IN
                \* the page is positions skip+1 .. skip+n of SOME linear extension of the sort pre-order:
                /\ \A s \in rest : ~(lt(first, s) /\ lt(s, last))                     \* nothing skipped inside the page
                /\ Cardinality({s \in rest : lt(s, first)}) <= skip                    \* all that must precede fit before it
                /\ Cardinality({s \in rest : le(s, first)}) >= skip                    \* enough that may precede it

(* ---------- grouping (group:"@key@..."): one stream per group ----------
   The matching streams are partitioned by the tuple of the grouping keys; every group is represented by a stream
   that no other stream of the group precedes in the sort order; the representatives are sorted and paged like a
   plain result.  The flag says whether more groups exist beyond the page. *)
GroupKey(group, s) == [i \in DOMAIN group |-> KeyVal(group[i], s)]
ResultAllowedGrouped(files, q, sorting, limit, skip, restrict, group, res, more) ==
    LET all == VisibleStreams(files)
        vis == {s \in all : restrict = {} \/ s.id \in restrict}
        must == {s \in vis : Eval3(q, s, all)[1]}
        may  == {s \in vis : Eval3(q, s, all)[2]}
        byId(i) == CHOOSE s \in vis : s.id = i
        n == Len(res)
        le(a, b) == Cmp(sorting, a, b) <= 0
        lt(a, b) == Cmp(sorting, a, b) < 0
        key(s) == GroupKey(group, s)
    IN
    /\ \A i \in DOMAIN res : \E s \in vis : s.id = res[i]
    /\ \A i, j \in DOMAIN res : i # j => key(byId(res[i])) # key(byId(res[j]))          \* one stream per group
    /\ \A i \in DOMAIN res : byId(res[i]) \in may
    /\ \A i \in 1 .. (n - 1) : le(byId(res[i]), byId(res[i + 1]))
    /\ must = may =>
        LET M == must
            best(s) == \A t \in M : key(t) = key(s) => ~lt(t, s)
            G == {key(s) : s \in M}
            R == {byId(res[i]) : i \in DOMAIN res}
            repOf(g) == CHOOSE s \in M : key(s) = g /\ best(s)
            rest == {repOf(g) : g \in G \ {key(s) : s \in R}}
            size == Cardinality(G)
        IN /\ \A s \in R : best(s)                                                     \* the best of its group
           /\ limit = 0 => n = size /\ ~more /\ skip = 0
           /\ limit > 0 =>
                /\ n = (IF size <= skip THEN 0 ELSE IF size - skip < limit THEN size - skip ELSE limit)
                /\ more = (size > skip + limit)
                /\ n > 0 =>
                     LET first == byId(res[1]) last == byId(res[n]) IN
                     /\ \A s \in rest : ~(lt(first, s) /\ lt(s, last))
                     /\ Cardinality({s \in rest : lt(s, first)}) <= skip
                     /\ Cardinality({s \in rest : le(s, first)}) >= skip
=============================================================================

-------------------------- MODULE QueryGrammarTrace --------------------------
(* C14 - evaluation of the property predicates on what the real parser did.

   One ndjson row per executed case (harness/parser): the token sequence the REAL lexer
   produced for the text (ltoks, projected to the token kinds of QueryGrammar.tla), the
   verdict observed by the watchdog (ok / err / panic / timeout within budget ms), whether
   parsing twice gave structurally equal results, the number of conjuncts of the result.
   TLC parses ltoks with the grammar of QueryGrammar.tla, computes DNFSize and evaluates:

     fail panic   : the parser panicked                                   (never allowed)
     fail hang    : no answer within the full budget although the expression is not
                    grammatical or of moderate size (DNFSize <= Cap and DNFVolume <= VolCap)
                                                                          (total + prompt)
     fail nondet  : two parses of the same text differ
     info skipped : no answer, not of moderate size (outside the promptness claim)
     info inconclusive : no answer within a REDUCED budget (driver degraded after a flood)
     nc   ...     : the model of the grammar disagrees with the real lexer/parser
                    (non-conformance of the specification, never a verdict on the code)

   The trace is cut into chunks (one initial state per chunk) so that TLC workers share it. *)
EXTENDS Integers, Sequences, FiniteSets, TLC, Json

CONSTANT Chunk
VARIABLES l, lo, hi

G == INSTANCE QueryGrammar WITH Mode <- "tokens", MaxLen <- 0, Seed <- 0, VK <- "num", Alpha <- "raw",
                                Hdrs <- "base", Gram <- FALSE, seq <- <<>>, done <- FALSE,
                                hd <- [key |-> "", sub |-> "", conv |-> "", neg |-> 0]

Trace == ndJsonDeserialize("parser_trace.ndjson")
N == Len(Trace)

Say(r, cls, what, j) ==
    PrintT("@@J" \o ToJson([cls |-> cls, what |-> what, id |-> r.id, case |-> r.case, size |-> j.size, vol |-> j.vol]))
\* (IF, not \/ : inside an action TLC would explore both sides of a disjunction)
Chk(cond, r, cls, what, j) == IF cond THEN TRUE ELSE Say(r, cls, what, j)

Check(r) ==
    LET j     == IF r.lexok THEN G!Judge(r.ltoks) ELSE [syn |-> FALSE, size |-> 0, vol |-> 0]
        small == ~j.syn \/ G!Moderate(j)
        z     == j
    IN
    \* ---- the property ----
    /\ Chk(r.verdict # "panic", r, "fail", "panic", z)
    /\ Chk(~(r.verdict = "timeout" /\ small /\ r.budget >= 2000), r, "fail", "hang", z)
    /\ Chk(r.same, r, "fail", "nondet", z)
    /\ Chk(~(r.verdict = "timeout" /\ ~small), r, "info", "skipped", z)
    /\ Chk(~(r.verdict = "timeout" /\ small /\ r.budget < 2000), r, "info", "inconclusive", z)
    \* ---- conformance of the specification with the real lexer / parser ----
    /\ Chk(~r.canon \/ (r.lexok /\ r.ltoks = r.gflat), r, "nc", "lexer", z)
    /\ Chk(~(r.verdict = "ok") \/ j.syn, r, "nc", "grammar", z)
    /\ Chk(~(r.canon /\ r.gwf = "yes" /\ r.verdict = "err"), r, "nc", "wf-yes-but-error", z)
    /\ Chk(~(r.canon /\ r.gwf = "no" /\ r.verdict = "ok"), r, "nc", "wf-no-but-ok", z)
    /\ Chk(~(r.verdict = "ok" /\ j.syn /\ j.size <= G!Cap) \/ r.nconds <= G!Max2(1, j.size), r, "nc", "size-bound", z)
    \* ---- observations for the evidence: answers that needed more than half a second of CPU ----
    /\ Chk(~(r.verdict \in {"ok", "err"} /\ r.cpu >= 500), r, "info", "slow", z)

TraceInit == /\ lo \in {c * Chunk : c \in 0 .. ((N - 1) \div Chunk)}
             /\ l = lo
             /\ hi = IF lo + Chunk < N THEN lo + Chunk ELSE N

TraceNext == /\ l < hi
             /\ l' = l + 1
             /\ Check(Trace[l + 1]) = TRUE
             /\ UNCHANGED <<lo, hi>>

TraceSpec == TraceInit /\ [][TraceNext]_<<l, lo, hi>>

Done == l = hi => PrintT("@@J" \o ToJson([done |-> hi - lo]))
=============================================================================

SPECIFICATION Spec
CONSTANTS
  Pieces <- MCPieces
  Restarts = {"none", "keep", "drop"}
  AllNumberings = FALSE
  LookupEveryOldPacket = TRUE
INVARIANTS SetDetermined OneIdPerConn AllVisible NextIdFresh MasksSound PrintHistory
PROPERTIES IdStable NewIdsFresh MasksRight

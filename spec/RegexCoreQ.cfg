SPECIFICATION Spec
CONSTANTS
  Sigma = {"a", "b"}
  L = 5
  Leaves <- QCoreInit
  UnOps <- CoreUn
  Pool <- QCorePool
  MaxDepth = 2
  MaxSize = 99
INVARIANT Emit
VIEW View

SPECIFICATION GenSpec
CONSTANTS
  NConv = 3
  MaxMsgs = 4
  MaxLen = 4
  MaxSeg = 3
  Protos = {"tcp", "udp"}
  Fams = {4, 6}
  MaxDup = 3
  MaxDisp = 2
  MaxSwap = 4
  MaxCuts = 3
  MinCuts = 0
  MaxAck = 3
  MaxBulk = 0
  Dts = {0, 1}
  BatchMode = "any"
  MinBulk = 0
  WantCutAfterBulk = FALSE
INVARIANT GenPrint

SPECIFICATION Spec
CONSTANT Mode = "exhaustive"

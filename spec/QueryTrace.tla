----------------------------- MODULE QueryTrace -----------------------------
(* C02 / C03: TLC is the oracle.  harness/query records, for every TLC-generated query,
   the structural normal form produced by the real parser and the results of the real search engine
   over several index-file layouts; this module evaluates the meaning of the query (Query.tla) on the
   streams as the real reader returns them and prints one "@@J" line per failing predicate. *)
EXTENDS Query, Json

VARIABLE l

Pops  == ndJsonDeserialize("query_pops.ndjson")      \* one row per layout: [layout, files]
Cases == ndJsonDeserialize("query_cases.ndjson")     \* one row per query

Flatten(files) ==
    LET RECURSIVE cat(_)
        cat(i) == IF i > Len(files) THEN <<>> ELSE files[i] \o cat(i + 1)
    IN cat(1)
\* witness universe for C03: every stored version of every stream of every layout
Universe == LET RECURSIVE cat(_)
                cat(i) == IF i > Len(Pops) THEN <<>> ELSE Flatten(Pops[i].files) \o cat(i + 1)
            IN cat(1)

Fail(what, c, info) ==
    PrintT("@@J" \o ToJson([kind |-> "fail", what |-> what, case |-> c.case, text |-> c.text, info |-> info]))

BadNF(c) == {Universe[i].id : i \in {j \in DOMAIN Universe :
                LET r == Eval3(c.ast, Universe[j], Range(Universe)) h == NFHolds(c.nf, Universe[j]) IN ~((r[1] => h) /\ (h => r[2]))}}

RunOK(c, r) ==
    /\ r.err = ""
    /\ IF Len(r.group) = 0 THEN ResultAllowed(Pops[r.layout + 1].files, c.ast, r.sort, r.limit, r.skip, Range(r.ids), r.res, r.more)
       ELSE ResultAllowedGrouped(Pops[r.layout + 1].files, c.ast, r.sort, r.limit, r.skip, Range(r.ids), r.group, r.res, r.more)

CheckCase(c) ==
    IF c.hang THEN Fail("parse-hang", c, "")                           \* C14's matter; skipped here
    ELSE IF c.perr # "" THEN Fail("parse-error", c, c.perr)                 \* a generated well-formed query must parse (machinery)
    \* no generated query uses a time relative to "now": a normal form whose bounds move with the reference time by an odd
    \* amount is a filter on absolute times that lost (or gained) its tie to the time of parsing
    ELSE IF c.unsup = "relative time condition" /\ ~c.subq THEN Fail("C03.NormalForm", c, "a bound of an absolute time filter moves with the reference time")
    ELSE IF c.unsup # "" /\ ~c.subq THEN Fail("unsupported-normal-form", c, c.unsup)
    ELSE IF c.subq THEN     \* sub-queries: the normal form is not exported; only the search results are judged (C02)
         \A i \in DOMAIN c.runs : RunOK(c, c.runs[i]) \/ Fail("C02.Result", c, ToJson(c.runs[i]))
    ELSE /\ (BadNF(c) = {} \/ Fail("C03.NormalForm", c, ToString(BadNF(c))))
         /\ (ImpossibleRight(c.ast, c.nf, Universe) \/ Fail("C03.Impossible", c, ""))
         /\ \A i \in DOMAIN c.runs :
                RunOK(c, c.runs[i]) \/ Fail("C02.Result", c, ToJson(c.runs[i]))

Init == l = 0
Next == l < Len(Cases) /\ l' = l + 1 /\ CheckCase(Cases[l + 1])
Spec == Init /\ [][Next]_l
Done == l = Len(Cases) => PrintT("@@J" \o ToJson([done |-> l]))
=============================================================================

\* vacuity witness: NoCompactPending must be VIOLATED (compaction is reachable inside the bound)
\* C15 bounded exhaustive check of the REPAIRED design (tombstone on invalidate, tolerant load):
\* every reachable state of every operation sequence that keeps at most MaxRecs records on disk.
SPECIFICATION Spec
CONSTANTS
  NIds = 3
  Lists = {"A", "B", "C"}
  RecLen <- MCRecLen
  Hdr = 8
  SHdr = 8
  MinFree = 16000
  PersistInvalidate = TRUE
  TolerantLoad = TRUE
  MaxRecs = 5
CONSTRAINT Bounded
INVARIANTS NoCompactPending

SPECIFICATION Spec
CONSTANTS
  Pieces <- MC5Pieces
  Restarts = {"none"}
  AllNumberings = FALSE
  LookupEveryOldPacket = TRUE
INVARIANTS SetDetermined OneIdPerConn AllVisible NextIdFresh MasksSound
PROPERTIES IdStable NewIdsFresh MasksRight

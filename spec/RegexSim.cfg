SPECIFICATION GenSpec
CONSTANTS
  Sigma = {"a", "b"}
  L = 5
  Leaves <- SimLeaves
  UnOps <- AllUn
  Pool <- SimPool
  MaxDepth = 7
  MaxSize = 14
INVARIANT Emit

------------------------------- MODULE Regex -------------------------------
(* C18 - regular expressions as abstract syntax trees with an exact, bounded
   denotational semantics, used as the oracle for
   internal/tools/regexAnalysis.AcceptedLength / ConstantSuffix.

   An AST node is the uniform record  [op, c, n, m, z, s]
      op : "lit" "fold" "class" "any" "empty" "bol" "eol" "wb" "nomatch"     (leaves)
           "star" "plus" "quest" "rep" "cap"                                 (one sub-expression)
           "cat" "alt"                                                       (two sub-expressions)
      c  : the letter of lit / fold               n, m : bounds of rep (m = -1 : unbounded)
      z  : 1 = non-greedy quantifier (same language, other program layout)
      s  : sequence of sub-expressions

   Words are sequences of one-letter strings over Sigma.  Match(r, w) gives, for
   every start position i in 0..Len(w), the set of end positions j such that r
   matches w[i+1..j] *inside* w (so ^ $ \b see the real context).  Lang(r, K) is
   the set of words of length <= K matched from 0 to Len(w) (anchored match).
   TrueMin / TrueMax are the structural length bounds (Inf = -1), exact for
   expressions without assertions and without an empty class ("nomatch", written
   [^\x00-\x{10FFFF}]); SaneFor checks them against Lang for every expression that
   is generated (the runner refuses to go on when the oracle contradicts itself).
   A non-capturing group is not a node of its own: the concrete syntax puts (?:...)
   around every operand.

   TLC enumerates expressions with the builder state machine below (Spec) or
   draws random deeper ones (GenSpec, -simulate) and prints one JSON line per
   expression (Emit); RegexTrace.tla evaluates the property on what the real
   code answered for them. *)
EXTENDS Integers, Sequences, FiniteSets, TLC, Json

CONSTANTS Sigma,        \* alphabet (one-letter strings)
          L,            \* words up to this length
          Leaves,       \* leaf expressions of the builder
          UnOps,        \* one-argument constructors  (records [op, n, m, z])
          Pool,         \* expressions that may be attached with cat / alt
          MaxDepth,     \* builder steps
          MaxSize       \* node bound (random generator)

VARIABLES r, d

Inf == -1
\* every letter used (a b A B) is a word character for \b
SwapCase(c) == CASE c = "a" -> "A" [] c = "A" -> "a" [] c = "b" -> "B" [] c = "B" -> "b" [] OTHER -> c

\* ---------------------------------------------------------------- constructors
Leaf(op, c)    == [op |-> op, c |-> c, n |-> 0, m |-> 0, z |-> 0, s |-> <<>>]
Un(u, x)       == [op |-> u.op, c |-> "", n |-> u.n, m |-> u.m, z |-> u.z, s |-> <<x>>]
Bin(op, x, y)  == [op |-> op, c |-> "", n |-> 0, m |-> 0, z |-> 0, s |-> <<x, y>>]
U(op, n, m, z) == [op |-> op, n |-> n, m |-> m, z |-> z]

LitA == Leaf("lit", "a")      LitB == Leaf("lit", "b")     FoldA == Leaf("fold", "a")
Cls  == Leaf("class", "")     Dot  == Leaf("any", "")      Eps   == Leaf("empty", "")
Bol  == Leaf("bol", "")       Eol  == Leaf("eol", "")      Wb    == Leaf("wb", "")
NoM  == Leaf("nomatch", "")

Star == U("star", 0, 0, 0)    Plus == U("plus", 0, 0, 0)   Quest == U("quest", 0, 0, 0)
StarZ == U("star", 0, 0, 1)   PlusZ == U("plus", 0, 0, 1)  QuestZ == U("quest", 0, 0, 1)
Rep(n, m) == U("rep", n, m, 0)
Cap == U("cap", 0, 0, 0)

\* ---------------------------------------------------------------- semantics
Max2(a, b) == IF a >= b THEN a ELSE b
Min2(a, b) == IF a <= b THEN a ELSE b

RECURSIVE Words(_)
Words(k) == IF k = 0 THEN {<<>>} ELSE LET W == Words(k - 1) IN W \cup {Append(w, c) : w \in {v \in W : Len(v) = k - 1}, c \in Sigma}

RECURSIVE Str(_)
Str(w) == IF w = <<>> THEN "" ELSE Head(w) \o Str(Tail(w))

\* relations over positions as functions  start -> set of ends   (forced, TLC would re-evaluate lazily)
IdRel(P)      == [i \in P |-> {i}]
Comp(P, A, B) == TLCEval([i \in P |-> UNION {B[j] : j \in A[i]}])
Join(P, A, B) == TLCEval([i \in P |-> A[i] \cup B[i]])
RECURSIVE Closure(_, _, _, _)      \* reflexive transitive closure, k rounds left
Closure(P, A, R, k) == IF k = 0 THEN R ELSE Closure(P, A, Join(P, R, Comp(P, R, A)), k - 1)
RECURSIVE Power(_, _, _)
Power(P, A, k) == IF k = 0 THEN IdRel(P) ELSE Comp(P, Power(P, A, k - 1), A)
RECURSIVE UpTo(_, _, _)            \* A^0 \cup ... \cup A^k
UpTo(P, A, k) == IF k = 0 THEN IdRel(P) ELSE Join(P, IdRel(P), Comp(P, A, UpTo(P, A, k - 1)))

OneLetter(P, w, Ok(_)) == TLCEval([i \in P |-> IF i < Len(w) /\ Ok(w[i + 1]) THEN {i + 1} ELSE {}])
Cond(P, Ok(_))         == TLCEval([i \in P |-> IF Ok(i) THEN {i} ELSE {}])

RECURSIVE Match(_, _)
Match(x, w) ==
    LET P  == 0 .. Len(w)
        nn == Len(w)
        op == x.op
    IN CASE op = "lit"     -> LET ok(c) == c = x.c IN OneLetter(P, w, ok)
         [] op = "fold"    -> LET ok(c) == c = x.c \/ c = SwapCase(x.c) IN OneLetter(P, w, ok)
         [] op = "class"   -> LET ok(c) == c \in {"a", "b"} IN OneLetter(P, w, ok)
         [] op = "any"     -> LET ok(c) == TRUE IN OneLetter(P, w, ok)
         [] op = "empty"   -> IdRel(P)
         [] op = "bol"     -> LET ok(i) == i = 0 IN Cond(P, ok)
         [] op = "eol"     -> LET ok(i) == i = nn IN Cond(P, ok)
         \* every letter of the alphabet is a word character: a boundary is where exactly one side has a letter
         [] op = "wb"      -> LET ok(i) == (i > 0) # (i < nn) IN Cond(P, ok)
         [] op = "nomatch" -> [i \in P |-> {}]
         [] op = "cap"     -> Match(x.s[1], w)
         [] op = "cat"     -> Comp(P, Match(x.s[1], w), Match(x.s[2], w))
         [] op = "alt"     -> Join(P, Match(x.s[1], w), Match(x.s[2], w))
         [] op = "quest"   -> Join(P, IdRel(P), Match(x.s[1], w))
         [] op = "star"    -> Closure(P, Match(x.s[1], w), IdRel(P), nn)
         [] op = "plus"    -> LET A == Match(x.s[1], w) IN Comp(P, A, Closure(P, A, IdRel(P), nn))
         [] op = "rep"     -> LET A == Match(x.s[1], w)
                              IN Comp(P, Power(P, A, x.n),
                                      IF x.m = Inf THEN Closure(P, A, IdRel(P), nn) ELSE UpTo(P, A, x.m - x.n))

AllWords == Words(L)
Lang(x, K) == {w \in AllWords : Len(w) <= K /\ Len(w) \in Match(x, w)[0]}

\* ---------------------------------------------------------------- structural bounds
Add(a, b) == IF a = Inf \/ b = Inf THEN Inf ELSE a + b
Mul(k, a) == IF k = 0 \/ a = 0 THEN 0 ELSE IF a = Inf \/ k = Inf THEN Inf ELSE k * a
MaxI(a, b) == IF a = Inf \/ b = Inf THEN Inf ELSE Max2(a, b)

RECURSIVE Dead(_)                  \* structurally matches nothing
Dead(x) == CASE x.op = "nomatch" -> TRUE
             [] x.op \in {"cat"} -> Dead(x.s[1]) \/ Dead(x.s[2])
             [] x.op = "alt" -> Dead(x.s[1]) /\ Dead(x.s[2])
             [] x.op \in {"cap", "plus"} -> Dead(x.s[1])
             [] x.op = "rep" -> x.n > 0 /\ Dead(x.s[1])
             [] OTHER -> FALSE

RECURSIVE TrueMin(_)               \* only meaningful when ~Dead(x)
TrueMin(x) ==
    CASE x.op \in {"lit", "fold", "class", "any"} -> 1
      [] x.op \in {"empty", "bol", "eol", "wb", "nomatch", "star", "quest"} -> 0
      [] x.op \in {"cap", "plus"} -> TrueMin(x.s[1])
      [] x.op = "cat" -> TrueMin(x.s[1]) + TrueMin(x.s[2])
      [] x.op = "alt" -> IF Dead(x.s[1]) THEN TrueMin(x.s[2]) ELSE IF Dead(x.s[2]) THEN TrueMin(x.s[1])
                         ELSE Min2(TrueMin(x.s[1]), TrueMin(x.s[2]))
      [] x.op = "rep" -> IF Dead(x.s[1]) THEN 0 ELSE x.n * TrueMin(x.s[1])

RECURSIVE TrueMax(_)
TrueMax(x) ==
    CASE x.op \in {"lit", "fold", "class", "any"} -> 1
      [] x.op \in {"empty", "bol", "eol", "wb", "nomatch"} -> 0
      [] x.op = "cap" -> TrueMax(x.s[1])
      [] x.op = "quest" -> IF Dead(x.s[1]) THEN 0 ELSE TrueMax(x.s[1])
      [] x.op \in {"star", "plus"} -> IF Dead(x.s[1]) THEN 0 ELSE Mul(Inf, TrueMax(x.s[1]))
      [] x.op = "cat" -> Add(TrueMax(x.s[1]), TrueMax(x.s[2]))
      [] x.op = "alt" -> IF Dead(x.s[1]) THEN TrueMax(x.s[2]) ELSE IF Dead(x.s[2]) THEN TrueMax(x.s[1])
                         ELSE MaxI(TrueMax(x.s[1]), TrueMax(x.s[2]))
      [] x.op = "rep" -> IF Dead(x.s[1]) THEN 0 ELSE Mul(x.m, TrueMax(x.s[1]))

RECURSIVE HasAssert(_)
HasAssert(x) == x.op \in {"bol", "eol", "wb"} \/ \E i \in DOMAIN x.s : HasAssert(x.s[i])

RECURSIVE Relax(_)                 \* every assertion replaced by the empty expression, every empty class by "."
Relax(x) == IF x.op \in {"bol", "eol", "wb"} THEN Leaf("empty", "")
            ELSE IF x.op = "nomatch" THEN Leaf("any", "")
            ELSE [x EXCEPT !.s = [i \in DOMAIN x.s |-> Relax(x.s[i])]]

RECURSIVE Size(_)
Size(x) == IF x.s = <<>> THEN 1 ELSE IF Len(x.s) = 1 THEN 1 + Size(x.s[1]) ELSE 1 + Size(x.s[1]) + Size(x.s[2])

RECURSIVE Branches(_)              \* branch instructions of the compiled program (counted repetition is unrolled)
Branches(x) == CASE x.s = <<>> -> 0
                 [] x.op = "cap" -> Branches(x.s[1])
                 [] x.op \in {"star", "plus", "quest"} -> 1 + Branches(x.s[1])
                 [] x.op = "rep" -> IF x.m = Inf THEN (x.n + 1) * Branches(x.s[1]) + 1
                                    ELSE x.m * Branches(x.s[1]) + (x.m - x.n)
                 [] x.op = "cat" -> Branches(x.s[1]) + Branches(x.s[2])
                 [] x.op = "alt" -> 1 + Branches(x.s[1]) + Branches(x.s[2])
\* ConstantSuffix walks both exits of every branch without memoisation: its running time doubles with every
\* branch in sequence, so the random generator keeps the number of branches small (promptness is not part of C18)
MaxBranches == 12

RECURSIVE Depth(_)
Depth(x) == IF x.s = <<>> THEN 0 ELSE IF Len(x.s) = 1 THEN 1 + Depth(x.s[1]) ELSE 1 + Max2(Depth(x.s[1]), Depth(x.s[2]))

\* ---------------------------------------------------------------- concrete syntax (what the harness must produce; printed for cross-checking)
RECURSIVE Render(_)
NumStr(k) == ToString(k)
Render(x) ==
    LET q == IF x.z = 1 THEN "?" ELSE ""
        g(y) == "(?:" \o Render(y) \o ")"
    IN CASE x.op = "lit" -> x.c
         [] x.op = "fold" -> "(?i:" \o x.c \o ")"
         [] x.op = "class" -> "[ab]"
         [] x.op = "any" -> "."
         [] x.op = "empty" -> "(?:)"
         [] x.op = "bol" -> "^"
         [] x.op = "eol" -> "$"
         [] x.op = "wb" -> "\\b"
         [] x.op = "nomatch" -> "[^\\x00-\\x{10FFFF}]"
         [] x.op = "cap" -> "(?P<v>" \o Render(x.s[1]) \o ")"
         [] x.op = "cat" -> Render(x.s[1]) \o Render(x.s[2])
         [] x.op = "alt" -> "(?:" \o Render(x.s[1]) \o "|" \o Render(x.s[2]) \o ")"
         [] x.op = "star" -> g(x.s[1]) \o "*" \o q
         [] x.op = "plus" -> g(x.s[1]) \o "+" \o q
         [] x.op = "quest" -> g(x.s[1]) \o "?" \o q
         [] x.op = "rep" -> g(x.s[1]) \o "{" \o NumStr(x.n) \o
                             (IF x.m = x.n THEN "" ELSE IF x.m = Inf THEN "," ELSE "," \o NumStr(x.m)) \o "}" \o q

\* ---------------------------------------------------------------- the oracle is consistent with itself
Lens(S) == {Len(w) : w \in S}
SetMin(S) == CHOOSE a \in S : \A b \in S : a <= b
SetMax(S) == CHOOSE a \in S : \A b \in S : a >= b

SaneFor(x, lang) ==
    LET ls == Lens(lang) IN
    /\ Dead(x) => lang = {}
    /\ ~Dead(x) =>
         /\ \A k \in ls : TrueMin(x) <= k /\ (TrueMax(x) = Inf \/ k <= TrueMax(x))
         /\ ~HasAssert(x) =>
              /\ TrueMin(x) <= L => (ls # {} /\ SetMin(ls) = TrueMin(x))
              /\ (TrueMax(x) # Inf /\ TrueMax(x) <= L) => (ls # {} /\ SetMax(ls) = TrueMax(x))

\* ---------------------------------------------------------------- emission
Row(x) ==
    LET lang == Lang(x, L)
        dead == Dead(x)
    IN [ast |-> x, re |-> Render(x), dead |-> dead,
        tmin |-> IF dead THEN Inf ELSE TrueMin(x), tmax |-> IF dead THEN Inf ELSE TrueMax(x),
        assert |-> HasAssert(x), size |-> Size(x), depth |-> Depth(x), branches |-> Branches(x),
        sigma |-> Sigma, L |-> L,
        lang |-> {Str(w) : w \in lang}, sane |-> SaneFor(x, lang)]

Emit == PrintT("@@J" \o ToJson(Row(r)))

\* ---------------------------------------------------------------- builder state machine (exhaustive enumeration)
Init == r \in Leaves /\ d = 0

Grow(x) == {Un(u, x) : u \in UnOps}
           \cup {Bin(b, x, y) : b \in {"cat", "alt"}, y \in Pool}
           \cup {Bin(b, y, x) : b \in {"cat", "alt"}, y \in Pool}

Next == d < MaxDepth /\ r' \in Grow(r) /\ d' = d + 1

Spec == Init /\ [][Next]_<<r, d>>
View == r

\* ---------------------------------------------------------------- random deeper expressions (tlc -simulate, one successor per step)
GenNext ==
    /\ d < MaxDepth
    /\ \E dice \in {RandomElement(1 .. 100)} :
       \E y \in {RandomElement(Pool)} :
       \E u \in {RandomElement(UnOps)} :
       \E b \in {RandomElement({"cat", "alt", "cat"})} :
         LET cand == IF dice <= 35 THEN Un(u, r)
                     ELSE IF dice <= 70 THEN Bin(b, r, y) ELSE Bin(b, y, r)
         IN r' = IF Size(cand) <= MaxSize /\ Branches(cand) <= MaxBranches THEN cand ELSE r
    /\ d' = d + 1

GenSpec == Init /\ [][GenNext]_<<r, d>>

\* ---------------------------------------------------------------- parameter sets used by the configurations
AllLeaves  == {LitA, LitB, Cls, Dot, Eps, Bol, Eol, Wb, FoldA, NoM}
CoreLeaves == {LitA, LitB, Cls}
AllUn      == {Star, Plus, Quest, StarZ, PlusZ, QuestZ, Rep(2, 2), Rep(1, 2), Rep(2, Inf), Rep(0, 2), Rep(0, 0), Cap}
CoreUn     == {Star, Plus, Quest, Rep(2, 2)}
Atoms(Lv, Us) == Lv \cup {Un(u, x) : u \in Us, x \in Lv}

\* quick tier
QCoreInit  == Atoms({LitA, LitB}, {Star, Plus, Quest})
QCorePool  == Atoms({LitA}, CoreUn) \cup {LitB, Cls}
\* optional / alternative parts between literals and classes, three builder steps: a(?:[ab]b)?, (?:a|[ab]b)a, ... (what the
\* common-suffix walk has to get right: branches of different length that rejoin)
SuffixLeaves == {LitA, LitB, Cls}
\* a repetition between a literal head and an optional tail, three builder steps: bab*a?, ab*a?b, (what a suffix analysis that
\* looks through repetitions has to get right: the bytes in front of the repetition are no suffix)
QLits == {LitA, LitB}
SuffixLoopPool == {LitA, LitB, Un(Star, LitB), Un(Quest, LitA), Un(Star, LitA)}
SuffixUn   == {Quest, QuestZ}
\* case folding needs an alphabet with both cases:  Sigma = {"a", "A"}.  No literal "A": the parser of
\* rsc.io/binaryregexp factors  A|(?i:a)x  into  A(?:|x)  (Regexp.Equal ignores the fold flag), so the
\* engine itself deviates from regex semantics there (seen by the harness' engine check).
FoldLeaves == {LitA, FoldA, Dot, Eol}
FoldUn     == {Star, Plus, Quest}
\* thorough tier
TCoreInit  == Atoms(CoreLeaves, CoreUn)
TCoreUn    == CoreUn \cup {StarZ, PlusZ, QuestZ}
DeepInit   == {LitA, LitB, Un(Star, LitA), Un(Quest, LitA), Un(Plus, LitA)}
DeepUn     == {Star, Plus, Quest}
\* random generator
SimLeaves  == {LitA, LitB, Cls, Dot, FoldA}
SimPool    == Atoms(SimLeaves, AllUn) \cup {Eps, Bol, Eol, Wb, NoM}       \* mostly letters
SimPoolAll == Atoms(AllLeaves, AllUn)                                     \* every leaf equally likely
=============================================================================

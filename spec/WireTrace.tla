------------------------------ MODULE WireTrace ------------------------------
(* Trace validation for C05.  The harness (harness/wire) turned packet schedules printed
   by TLC from Wire.tla into capture files, let the real builder import them batch by
   batch and recorded, after every batch, the projection of the visible streams.  Here
   TLC binds cv / wire to the schedule a row belongs to and checks

        Visible = Expected

   with Expected computed by Wire.tla (Ideal over the wire prefix that has been imported;
   for the complete set that is Exp, the ground truth): exactly one stream per
   conversation seen so far, endpoints (who is client), protocol, per-direction payload
   as unit ranges, order of direction changes.  Rows whose imported set is not a
   chronological prefix of the capture files are only checked for import errors and
   streams of unknown endpoints (their content is C08's business: ImportTrace.tla).
   A failing predicate prints one "@@J" line; the runner turns these into verdicts. *)
EXTENDS Wire

VARIABLES l, conc, nfiles

Trace == ndJsonDeserialize("wire_trace.ndjson")

BulkBase == 100

Fail(r, conv, what, got, want) ==
    PrintT("@@J" \o ToJson([fail |-> what, sid |-> r.sid, n |-> r.n, conv |-> conv,
                            final |-> (Cardinality(Range(r.imported)) = nfiles),
                            got |-> got, want |-> want]))
\* (IF, not \/: inside an action TLC would explore both disjuncts)
Chk(cond, r, conv, what, got, want) == IF cond THEN TRUE ELSE Fail(r, conv, what, got, want)

RunsJ(rs) == [i \in DOMAIN rs |-> <<IF rs[i][1] = 0 THEN "c" ELSE "s", rs[i][2]>>]

StreamsOf(r, conv) == {i \in DOMAIN r.vis : r.vis[i].conv = conv}

CheckConv(r, c, want) ==
    LET ss == StreamsOf(r, c) IN
    /\ Chk(ss # {}, r, c, "missing", 0, 1)
    /\ Chk(Cardinality(ss) <= 1, r, c, "twice", Cardinality(ss), 1)
    /\ \A i \in ss : LET v == r.vis[i] IN
        /\ Chk(~v.flip, r, c, "endpoints", v.tuple, "client is the initiator")
        /\ Chk(v.proto = want.proto, r, c, "protocol", v.proto, want.proto)
        /\ Chk(v.c = want.c, r, c, "payload-c", v.c, want.c)
        /\ Chk(v.s = want.s, r, c, "payload-s", v.s, want.s)
        /\ Chk(RunsJ(v.runs) = want.runs, r, c, "runs", RunsJ(v.runs), want.runs)

BulkWant(m) == LET n == conc.bulkN[m] IN
    [proto |-> "tcp", c |-> <<<<m, 0, n - 1>>>>, s |-> <<>>, runs |-> <<<<"c", n>>>>]

CheckRow(r) ==
    LET S      == Range(r.imported)
        P      == SelectSeq(wire, LAMBDA p : p.file \in S)
        \* judged: the imported files hold a prefix of what went over the wire (capture files that overlap in time - the
        \* Overlap variant of harness/wire - hold one only when all files up to some point are imported)
        prefix == S = 1 .. Cardinality(S) /\ P = SubSeq(wire, 1, Len(P))
        EC     == {c \in DOMAIN cv : Seen(c, P)}
        EB     == {P[i].m : i \in {j \in DOMAIN P : P[j].k = "bulk"}}
    IN /\ Chk(r.err = "", r, 0, "import-error", r.err, "")
       /\ \A i \in DOMAIN r.vis : Chk(r.vis[i].conv # 0, r, 0, "unknown-stream", r.vis[i].tuple, "")
       /\ prefix =>
            /\ \A c \in EC : CheckConv(r, c, Ideal(c, P))
            /\ \A m \in EB : CheckConv(r, BulkBase + m, BulkWant(m))
            /\ \A i \in DOMAIN r.vis :
                  Chk(r.vis[i].conv = 0 \/ r.vis[i].conv \in EC \cup {BulkBase + m : m \in EB},
                      r, r.vis[i].conv, "unexpected-stream", r.vis[i].tuple, "")

others == <<phase, rem, acked, ocnt, flight, active, curFile, clock, last, cnt, pending, batches>>

TraceInit == Init /\ l = 0 /\ conc = [bulkN |-> <<>>] /\ nfiles = 0

TraceNext ==
    /\ l < Len(Trace)
    /\ l' = l + 1
    /\ LET r == Trace[l + 1] IN
       IF r.n = 0
       THEN /\ cv' = r.sched.convs
            /\ wire' = r.sched.wire
            /\ nfiles' = r.sched.nfiles
            /\ conc' = r.conc
            /\ UNCHANGED others
       ELSE /\ CheckRow(r)
            /\ UNCHANGED <<cv, wire, nfiles, conc, others>>

TraceSpec == TraceInit /\ [][TraceNext]_<<vars, l, conc, nfiles>>

TraceDone == l = Len(Trace) => PrintT("@@J" \o ToJson([done |-> l]))
=============================================================================

---------------------------- MODULE UploadProps ----------------------------
(* C19 - the property predicates of the file endpoints.  Pure operators over a "before"
   and an "after" file-system value  [inside, base, outer]  and over what one request (or
   one concurrent pair of requests) reported.  Evaluated by TLC both on the states of the
   model (Upload.tla, UploadMC*.cfg) and on the rows recorded from the real router
   (UploadTrace.tla). *)
EXTENDS Integers, Sequences, FiniteSets

\* A file system value: inside = function  name -> content  (capture directory),
\* base = the rest of the base directory, outer = everything else (any value that
\* supports equality: a function in the model, a digest string in a trace).

NewFiles(s, t)     == DOMAIN t.inside \ DOMAIN s.inside
RangeOf(q)         == {q[i] : i \in DOMAIN q}

\* nothing outside the capture directory is created, removed or modified
InsideOnly(s, t)   == t.base = s.base /\ t.outer = s.outer
\* every stored file is still there with the content it had
NoOverwrite(s, t)  == \A n \in DOMAIN s.inside : n \in DOMAIN t.inside /\ t.inside[n] = s.inside[n]
\* one upload: rejected => no new file; accepted => exactly one new file holding the body
OneNewFile(s, t, ok, body) ==
    IF ok THEN /\ Cardinality(NewFiles(s, t)) = 1
               /\ \A n \in NewFiles(s, t) : t.inside[n] = body
          ELSE NewFiles(s, t) = {}
\* accepted => exactly one arrival event and exactly the new file queued once; rejected => nothing
ExactlyOnceQueued(s, t, ok, events, q) ==
    IF ok THEN events = 1 /\ Len(q) = 1 /\ RangeOf(q) = NewFiles(s, t)
          ELSE events = 0 /\ q = <<>>
\* target = [known, n]: the stored name the written path denotes, when that is known
ExistingRejected(s, target, ok) == (target.known /\ target.n \in DOMAIN s.inside) => ~ok
\* a download may show content of files of the capture directory only, and changes nothing
ReadInsideOnly(reads)  == \A i \in DOMAIN reads : reads[i].z = "inside"
ReadOnly(s, t)         == t.inside = s.inside /\ InsideOnly(s, t)

\* ---- two overlapping uploads (same = both were written as the same path)
AtMostOneSuccess(same, ok1, ok2) == same => ~(ok1 /\ ok2)
LoserChangesNothing(s, t, ok1, ok2, b1, b2) ==
    LET nf == NewFiles(s, t) IN
    CASE ok1 /\ ~ok2 -> Cardinality(nf) = 1 /\ \A n \in nf : t.inside[n] = b1
      [] ok2 /\ ~ok1 -> Cardinality(nf) = 1 /\ \A n \in nf : t.inside[n] = b2
      [] ~ok1 /\ ~ok2 -> nf = {}
      [] OTHER -> Cardinality(nf) = 2 /\ {t.inside[n] : n \in nf} = {b1, b2}
PairQueued(s, t, ok1, ok2, events, q) ==
    LET k == (IF ok1 THEN 1 ELSE 0) + (IF ok2 THEN 1 ELSE 0) IN
    events = k /\ Len(q) = k /\ RangeOf(q) = NewFiles(s, t)

=============================================================================

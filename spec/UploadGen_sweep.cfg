SPECIFICATION GenSpec
CONSTANTS
  Classes <- GenClasses
  Stems <- GenStems
  Exts <- GenExts
  Variants = 8
  Uploaders = {}
  PairPaths = {}
  Exclusive = TRUE
  MaxLen = 1
  Mode = "sweep"
INVARIANT Emit

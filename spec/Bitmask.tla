------------------------------- MODULE Bitmask -------------------------------
(* C17 - the bitmask containers of internal/tools/bitmask as sets of naturals.
   Two registers A and B; every mutating method of the three Go representations
   (LongBitmask, ShortBitmask, ConnectedBitmask) is one action.  The model *is*
   set theory; TLC's state graph over a W-bit window is dumped (one JSON line per
   transition, see Emit) and replayed on the real containers, and traces recorded
   from the real containers are validated by BitmaskTrace.tla. *)
EXTENDS Integers, Sequences, FiniteSets, TLC, Json

CONSTANT W            \* window size (bit positions 0..W-1)
VARIABLES A, B

vars == <<A, B>>
Bits == 0 .. (W - 1)

Max(S) == CHOOSE x \in S : \A y \in S : y <= x
Min(S) == CHOOSE x \in S : \A y \in S : x <= y

\* ---- observations (what the Go methods must return for a mask holding S) ----
LenOf(S)    == IF S = {} THEN 0 ELSE Max(S) + 1
OnesOf(S)   == Cardinality(S)
ZeroOf(S)   == S = {}
NextOf(S,f) == LET T == {x \in S : x >= f} IN IF T = {} THEN -1 ELSE Min(T)   \* LongBitmask.Next

\* ---- operations as functions on sets ----
InjectOf(S, b, v) == {x \in S : x < b} \cup {x + 1 : x \in {y \in S : y >= b}} \cup (IF v THEN {b} ELSE {})
ExtractOf(S, b)   == {x \in S : x < b} \cup {x - 1 : x \in {y \in S : y > b}}
XorOf(S, T)       == (S \ T) \cup (T \ S)

Init == A = {} /\ B = {}

Emit(op, arg, val, res) ==
    PrintT("@@J" \o ToJson([op |-> op, arg |-> arg, val |-> val, res |-> res,
                            a |-> A, b |-> B, a2 |-> A', b2 |-> B']))

Set(b)     == A' = A \cup {b} /\ UNCHANGED B
Unset(b)   == A' = A \ {b} /\ UNCHANGED B
Flip(b)    == A' = XorOf(A, {b}) /\ UNCHANGED B
Or         == A' = A \cup B /\ UNCHANGED B
And        == A' = A \cap B /\ UNCHANGED B
Sub        == A' = A \ B /\ UNCHANGED B
Xor        == A' = XorOf(A, B) /\ UNCHANGED B
CopyAB     == B' = A /\ UNCHANGED A          \* B := A.Copy()
Swap       == A' = B /\ B' = A
Shrink     == UNCHANGED <<A, B>>             \* representation-only operation
Inject(b,v) == (W - 1) \notin A /\ A' = InjectOf(A, b, v) /\ UNCHANGED B
Extract(b)  == A' = ExtractOf(A, b) /\ UNCHANGED B

Next ==
    \/ \E b \in Bits : Set(b)    /\ Emit("Set", b, FALSE, FALSE)
    \/ \E b \in Bits : Unset(b)  /\ Emit("Unset", b, FALSE, FALSE)
    \/ \E b \in Bits : Flip(b)   /\ Emit("Flip", b, FALSE, FALSE)
    \/ Or     /\ Emit("Or", 0, FALSE, FALSE)
    \/ And    /\ Emit("And", 0, FALSE, FALSE)
    \/ Sub    /\ Emit("Sub", 0, FALSE, FALSE)
    \/ Xor    /\ Emit("Xor", 0, FALSE, FALSE)
    \/ CopyAB /\ Emit("Copy", 0, FALSE, FALSE)
    \/ Swap   /\ Emit("Swap", 0, FALSE, FALSE)
    \/ Shrink /\ Emit("Shrink", 0, FALSE, FALSE)
    \/ \E b \in Bits, v \in BOOLEAN : Inject(b, v) /\ Emit("Inject", b, v, FALSE)
    \/ \E b \in Bits : Extract(b) /\ Emit("Extract", b, FALSE, b \in A)

Spec == Init /\ [][Next]_vars

\* ---- properties of the model itself (sanity of the oracle) ----
TypeOK == A \subseteq Bits /\ B \subseteq Bits
\* inserting a bit and removing it again is the identity, and Extract returns the inserted value
InjectExtractInverse ==
    \A b \in Bits, v \in BOOLEAN : (W - 1) \notin A =>
        /\ ExtractOf(InjectOf(A, b, v), b) = A
        /\ (b \in InjectOf(A, b, v)) = v
\* shifting preserves cardinality up to the inserted/removed bit
ShiftCard ==
    \A b \in Bits : /\ OnesOf(ExtractOf(A, b)) = OnesOf(A) - (IF b \in A THEN 1 ELSE 0)
                    /\ (W - 1) \notin A => OnesOf(InjectOf(A, b, TRUE)) = OnesOf(A) + 1
Algebra == /\ XorOf(A, B) = (A \cup B) \ (A \cap B)
           /\ (A \ B) \cup (A \cap B) = A
=============================================================================

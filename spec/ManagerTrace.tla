---------------------------- MODULE ManagerTrace ----------------------------
(* Trace validation for the Manager family (C06 C09 C10 C11 C13 C16, and the schedules of
   C12/C20).  Every variable of Manager.tla is bound to the state projected from the real
   Manager after each step (read inside the service loop), so

     * Conforms: the step the real code took is one the specification's action allows
       (a mismatch prints an "@@J {nonconf...}" line: the model needs attention; not a verdict),
     * the property predicates, evaluated by TLC on real states and real observations
       (fresh from-scratch tag evaluation, searches, directory listing, re-read views),
       print "@@J {fail...}" lines: these are verdicts about the implementation.

   Several traces are concatenated; a row with n = 0 starts a new one (TraceReset). *)
EXTENDS Manager, Json, ManagerWorld

VARIABLE l

Trace == ndJsonDeserialize("manager_trace.ndjson")

\* the world the harness ran in (ManagerWorld.tla: by default the one of ManagerMC / harness/manager/world_test.go)
TCaps   == WCaps \cup {91}          \* (91: an unreadable capture file)
TConns  == WConns
TPieces == WPieces
TPort   == WPort
TConvNames == {}

S(a) == Range(a)                                   \* JSON array -> set
DefOf(d) == Def(d.k, d.n, d.s, d.t)
EntrySet(a) == {<<e.id, e.c, S(e.v)>> : e \in S(a)}

SettingsOf(x) == [hooks |-> x.hooks, eps |-> x.eps, cfg |-> x.cfg]
Opt(r, f, d) == IF f \in DOMAIN r THEN r[f] ELSE d

JobOf(kind, j) ==
    CASE kind = "import" -> [phase |-> j.phase, batch |-> j.batch, idx |-> j.idx, next |-> j.next, file |-> j.file,
                             upd |-> S(j.upd), res |-> S(j.res), add |-> S(j.add), used |-> j.used, n |-> j.n]
      [] kind = "tag"    -> [phase |-> j.phase, tag |-> j.tag, def |-> DefOf(j.def), U0 |-> S(j.U0), M0 |-> S(j.M0),
                             idx |-> j.idx, td |-> [t \in DOMAIN j.td |-> S(j.td[t])], M1 |-> S(j.M1), stale |-> j.stale]
      [] kind = "merge"  -> [phase |-> j.phase, off |-> j.off, idx |-> j.idx, file |-> j.file]
      [] kind = "conv"   -> [phase |-> j.phase, ids |-> [c \in DOMAIN j.ids |-> S(j.ids[c])], idx |-> j.idx]

Bind(r) ==
    LET st == r.st IN
    /\ known' = S(st.known)
    /\ queue' = st.queue
    /\ nextID' = st.nextID
    /\ allS' = S(st.allS)
    /\ files' = [f \in DOMAIN st.files |-> EntrySet(st.files[f])]
    /\ indexes' = st.indexes
    /\ use' = [f \in DOMAIN st.use |-> st.use[f]]
    /\ tags' = [t \in DOMAIN st.tags |-> [def |-> DefOf(st.tags[t].def), M |-> S(st.tags[t].M), U |-> S(st.tags[t].U),
                                          convs |-> S(st.tags[t].convs), refBy |-> S(st.tags[t].refBy), color |-> st.tags[t].color]]
    /\ flags' = [merge |-> st.flags.merge, tag |-> st.flags.tag, conv |-> st.flags.conv]
    /\ during' = [upd |-> S(st.during.upd), res |-> S(st.during.res), add |-> S(st.during.add), inv |-> S(st.during.inv)]
    /\ unmerge' = st.unmerge
    /\ jobs' = [k \in {"import", "tag", "merge", "conv"} |-> JobOf(k, st.jobs[k])]
    /\ views' = [v \in DOMAIN st.views |->
                    [idx |-> st.views[v].idx,
                     td |-> [t \in DOMAIN st.views[v].td |-> [M |-> S(st.views[v].td[t].M), U |-> S(st.views[v].td[t].U)]]]]
    /\ toConv' = [c \in DOMAIN st.toConv |-> S(st.toConv[c])]
    /\ cache' = [c \in DOMAIN st.cache |-> {<<e.id, S(e.v)>> : e \in S(st.cache[c])}]
    /\ settings' = SettingsOf(st.settings)

SayI(kind, r, what, info) ==
    PrintT("@@J" \o ToJson([kind |-> kind, what |-> what, tr |-> r.tr, sid |-> r.sid, n |-> r.n, a |-> r.ev.a, res |-> r.res, info |-> info]))
Say(kind, r, what) == SayI(kind, r, what, "")
Chk(cond, r, what) == cond \/ Say("fail", r, what)
ChkI(cond, r, what, info) == cond \/ SayI("fail", r, what, info)
\* the definition kinds of a set of tags, as a string in a fixed order (narrow signatures for known findings)
KindOrder == <<"P", "D", "C", "L", "B", "E", "Q", "I", "M", "R", "N", "S", "?">>
KindsOf(T) ==
    LET ks == {tags[t].def.k : t \in T}
        RECURSIVE cat(_)
        cat(i) == IF i > Len(KindOrder) THEN "" ELSE (IF KindOrder[i] \in ks THEN KindOrder[i] ELSE "") \o cat(i + 1)
    IN cat(1)

\* does the definition of tag t contain a sub-query, directly or through the tags it references?
RECURSIVE HasSub(_)
HasSub(t) == t \in DOMAIN tags /\ (tags[t].def.k = "S" \/ \E u \in Refs(tags[t].def) \cap DOMAIN tags : HasSub(u))

\* does the definition of tag t contain a payload filter, directly or through the tags it references?
RECURSIVE HasPayload(_)
HasPayload(t) == t \in DOMAIN tags /\ (FeatPayload(tags[t].def) \/ \E u \in Refs(tags[t].def) \cap DOMAIN tags : HasPayload(u))
\* signature of a set of offending tags: while a converter job is in flight its output is already in the cache, but tags with
\* payload filters only learn about it when the job completes (known finding C06.*:convjob); otherwise the definition kinds
SigOf(T) == IF flags.conv /\ T # {} /\ \A t \in T : HasPayload(t) THEN "convjob" ELSE KindsOf(T)

Picks == DOMAIN tags' \cup DOMAIN tags \cup {""}

\* C12 conformance: the state a new Manager shows on the directory left by a kill is what the specification's Restart
\* builds from the durable part of the killed process' state (r.pre), for one of the tag tables that can be on disk
\* (the table of the last complete state file, or the one at the kill) and the loadable files in name order (r.order)
TableOf(tt) == [t \in DOMAIN tt |-> [def |-> DefOf(tt[t].def), M |-> S(tt[t].M), convs |-> S(tt[t].convs), color |-> tt[t].color]]
RestartOK(r) ==
    LET pre == r.pre
        F   == [f \in DOMAIN pre.files |-> EntrySet(pre.files[f])]
        ca  == [c \in DOMAIN pre.cache |-> {<<e.id, S(e.v)>> : e \in S(pre.cache[c])}]
        ord == IF "order" \in DOMAIN r THEN r.order ELSE <<>>
        Ts  == {TableOf(pre.tags)} \cup {IF "expTags" \in DOMAIN r THEN TableOf(r.expTags) ELSE <<>>}      \* (an empty table is omitted by the harness)
    IN \E T \in Ts : \E p \in DOMAIN T \cup {""} :
        LET n == AfterRestart(F, ord, T, ca, S(pre.known), pre.queue, p) IN
        /\ known' = n.known /\ queue' = <<>> /\ nextID' = n.nextID /\ allS' = n.allS
        /\ indexes' = n.indexes /\ unmerge' = 0 /\ views' = <<>>
        /\ tags' = n.bundle.tags /\ flags' = n.bundle.flags /\ jobs' = n.bundle.jobs /\ use' = n.bundle.use
        /\ during' = n.bundle.during /\ toConv' = n.bundle.toConv
        /\ IF Opt(r.ev, "what", "") = "cache"           \* a kill inside the append of a cache record: the end of the file is lost
           THEN DOMAIN cache' = DOMAIN ca /\ \A c \in DOMAIN ca : cache'[c] \subseteq ca[c] /\ Cardinality(ca[c] \ cache'[c]) <= 2
           ELSE cache' = ca
        /\ \E St \in {SettingsOf(pre.settings)} \cup {IF "expSettings" \in DOMAIN r THEN SettingsOf(r.expSettings) ELSE SettingsOf(pre.settings)} :
              settings' \in [hooks : {St.hooks}, cfg : {St.cfg}, eps : Perms(St.eps)]

\* the specification's action for the logged event, evaluated on (bound pre-state, bound post-state)
StepOK(r) ==
    LET ev == r.ev IN
    IF r.res = "skip" THEN UNCHANGED vars
    ELSE CASE ev.a = "ApiImport"     -> ApiImport(ev.k)
           [] ev.a = "ImportCompute" -> \E f \in DOMAIN files' \cup {"(no file)"} : ImportCompute(f)
           [] ev.a = "ImportDone"    -> \E p \in Picks : ImportDone(p)
           [] ev.a = "TagCompute"    -> TagCompute
           [] ev.a = "TagDone"       -> \E p \in Picks : TagDone(p)
           [] ev.a = "MergeCompute"  -> \E f \in DOMAIN files' : MergeCompute(f)
           [] ev.a = "MergeDone"     -> MergeDone
           [] ev.a = "MergeFail"     -> MergeFail
           [] ev.a = "ConvCompute"   -> ConvCompute
           [] ev.a = "ConvDone"      -> \E p \in Picks : ConvDone(p)
           [] ev.a = "AddTag"        -> IF r.res = "ok" THEN \E p \in Picks : AddTag(ev.name, DefOf(ev.def), Opt(ev, "color", ""), p)
                                        ELSE Rejected /\ ~AddTagOK(ev.name, DefOf(ev.def))
           [] ev.a = "DelTag"        -> IF r.res = "ok" THEN \E p \in Picks : DelTag(ev.name, p) ELSE Rejected /\ ~DelTagOK(ev.name)
           [] ev.a = "UpdQuery"      -> IF r.res = "ok" THEN \E p \in Picks : UpdQuery(ev.name, DefOf(ev.def), p)
                                        ELSE Rejected /\ ~UpdQueryOK(ev.name, DefOf(ev.def))
           [] ev.a = "MarkAdd"       -> IF r.res = "ok" THEN \E p \in Picks : MarkAdd(ev.name, ev.ids, p)
                                        ELSE Rejected /\ ~MarkOK(ev.name, S(ev.ids))
           [] ev.a = "MarkDel"       -> IF r.res = "ok" THEN \E p \in Picks : MarkDel(ev.name, ev.ids, p)
                                        ELSE Rejected /\ ~MarkOK(ev.name, S(ev.ids))
           [] ev.a = "ViewOpen"      -> ViewOpen(ev.v)
           [] ev.a = "ViewRelease"   -> ViewRelease(ev.v)
           [] ev.a = "SetConverters" -> IF r.res = "ok" THEN \E p \in Picks : SetConverters(ev.name, S(ev.convs), p)
                                        ELSE Rejected /\ ~SetConvOK(ev.name, S(ev.convs))
           [] ev.a = "UpdName"       -> IF Opt(ev, "new", "") = "" THEN (r.res = "ok" /\ UNCHANGED vars) \/ (r.res = "err" /\ Rejected /\ ev.name \notin DOMAIN tags)
                                        ELSE IF r.res = "ok" THEN UpdName(ev.name, ev.new) ELSE Rejected /\ ~UpdNameOK(ev.name, ev.new)
           [] ev.a = "UpdColor"      -> IF r.res = "ok" THEN UpdColor(ev.name, Opt(ev, "color", "")) ELSE Rejected /\ ~UpdColorOK(ev.name)
           [] ev.a = "AddHook"       -> IF r.res = "ok" THEN AddHook(ev.what) ELSE Rejected /\ ~AddHookOK(ev.what)
           [] ev.a = "DelHook"       -> IF r.res = "ok" THEN DelHook(ev.what) ELSE Rejected /\ ~DelHookOK(ev.what)
           [] ev.a = "AddEndpoint"   -> IF r.res = "ok" THEN AddEndpoint(ev.what) ELSE Rejected /\ ~AddEndpointOK(ev.what)
           [] ev.a = "DelEndpoint"   -> IF r.res = "ok" THEN DelEndpoint(ev.what) ELSE Rejected /\ ~DelEndpointOK(ev.what)
           [] ev.a = "SetConfig"     -> r.res = "ok" /\ SetConfig(ev.k = 1)
           [] ev.a = "CrashRestart"  -> (r.res = "ok" /\ "pre" \in DOMAIN r) => RestartOK(r)     \* a kill in the middle of a schedule; the schedule goes on
           [] ev.a \in {"Sleep", "EndSettle", "SettleExhausted"} -> UNCHANGED vars
           [] ev.a = "ConvReset"     -> \E p \in Picks : ConvReset(ev.convs[1], p)
           [] ev.a = "ConvRemove"    -> IF r.res = "ok" THEN \E p \in Picks : ConvRemove(ev.convs[1], p) ELSE UNCHANGED vars
           [] ev.a = "ConvAdd"       -> IF r.res = "ok" THEN ConvAdd(ev.convs[1]) ELSE UNCHANGED vars
           [] ev.a = "ViewConvert"   -> \E p \in Picks : ViewConvert(ev.v, ev.k, ev.convs[1], p)
           [] OTHER                  -> TRUE            \* events the model does not constrain (yet)

\* C11 (action property): an acknowledged call has taken effect
Applied(r) ==
    LET ev == r.ev IN
    r.res = "ok" =>
        CASE ev.a = "AddTag"   -> ev.name \in DOMAIN tags' /\ tags'[ev.name].def.k = ev.def.k
          [] ev.a = "DelTag"   -> ev.name \notin DOMAIN tags'
          [] ev.a = "UpdQuery" -> ev.name \in DOMAIN tags' /\ tags'[ev.name].def = DefOf(ev.def)
          [] ev.a = "MarkAdd"  -> ev.name \in DOMAIN tags' /\ S(ev.ids) \subseteq tags'[ev.name].M
          [] ev.a = "MarkDel"  -> ev.name \in DOMAIN tags' /\ S(ev.ids) \cap tags'[ev.name].M = {}
          [] ev.a = "SetConverters" -> ev.name \in DOMAIN tags' /\ tags'[ev.name].convs = S(ev.convs)
          [] ev.a = "UpdName"  -> Opt(ev, "new", "") # "" => (ev.new \in DOMAIN tags' /\ ev.name \notin DOMAIN tags' /\ DOMAIN tags' = (DOMAIN tags \ {ev.name}) \cup {ev.new})
          [] ev.a = "UpdColor" -> Opt(ev, "color", "") # "" => (ev.name \in DOMAIN tags' /\ tags'[ev.name].color = ev.color)
          [] ev.a = "AddHook"  -> ev.what \in Range(settings'.hooks)
          [] ev.a = "DelHook"  -> ev.what \notin Range(settings'.hooks)
          [] ev.a = "AddEndpoint" -> ev.what \in Range(settings'.eps)
          [] ev.a = "DelEndpoint" -> ev.what \notin Range(settings'.eps)
          [] ev.a = "SetConfig" -> settings'.cfg = (ev.k = 1)
          [] OTHER -> TRUE
\* C11 (action property): a rejected call leaves everything as it was
RejectIsNoop(r) == r.res = "err" => UNCHANGED <<tags, flags, jobs, use, during, toConv, cache, indexes, files, nextID, allS, settings>>

\* conformance of the event stream: what the listener of the harness was told since the previous row is what the step announces
EventsOK(r) ==
    LET ev  == r.ev
        got == IF "evs" \in DOMAIN r THEN r.evs ELSE <<>>
        exp == Announced(ev.a, r.res = "ok", Opt(ev, "name", ""), Opt(ev, "new", ""), IF ev.a = "ViewConvert" THEN ev.convs[1] ELSE "")
    IN Range(got) = exp /\ Len(got) = Cardinality(exp)

TraceInit == l = 0 /\ Init

TraceNext ==
    /\ l < Len(Trace)
    /\ l' = l + 1
    /\ LET r == Trace[l + 1] IN
       /\ Bind(r)
       /\ \/ /\ r.n = 0                                   \* TraceReset: new scenario (fresh data directory, or a crash copy)
             /\ (r.ev.a = "CrashRestart" /\ r.res = "ok" /\ "pre" \in DOMAIN r) => (RestartOK(r) \/ Say("nonconf", r, "restart"))
          \/ /\ r.n # 0
             /\ (StepOK(r) \/ Say("nonconf", r, "step"))
             /\ (r.ev.a # "CrashRestart" => (EventsOK(r) \/ Say("nonconf", r, "events")))
             /\ Chk(RejectIsNoop(r), r, "C11.RejectIsNoop")
             /\ Chk(Applied(r), r, "C11.Applied")

TraceSpec == TraceInit /\ [][TraceNext]_<<vars, l>>

-----------------------------------------------------------------------------
(* property predicates on the real state (bound variables) and the real observations *)
ObsTruth(r)  == [t \in DOMAIN r.obs.truth |-> S(r.obs.truth[t])]
ObsVis(r)    == EntrySet(r.obs.vis)
SumUse       == LET RECURSIVE sum(_)
                    sum(D) == IF D = {} THEN 0 ELSE LET f == CHOOSE x \in D : TRUE IN use[f] + sum(D \ {f})
                IN sum(DOMAIN use)
JobErrs(r)   == {k \in {"import", "tag", "merge"} : r.st.jobs[k].err # ""}

\* C12: what a restart must show, relative to the state the crashed process had acknowledged
HasField(r, f) == f \in DOMAIN r
TagsKeptFor(r, exp) ==
    \A t \in DOMAIN exp :
        /\ t \in DOMAIN tags
        /\ tags[t].def = DefOf(exp[t].def)
        /\ tags[t].convs = S(exp[t].convs)
        /\ r.st.tags[t].color = exp[t].color
\* expTags: the tag table the last COMPLETE state file held at the kill; a state file cut short that still
\* parses counts as complete, so the table at the kill itself (pre.tags) is an allowed outcome too
TagsKept(r) ==
    \/ TagsKeptFor(r, IF HasField(r, "expTags") THEN r.expTags ELSE <<>>)
    \/ (HasField(r, "pre") /\ TagsKeptFor(r, r.pre.tags))
SettingsKeptFor(x) == settings.hooks = x.hooks /\ settings.cfg = x.cfg /\ Range(settings.eps) = Range(x.eps) /\ Len(settings.eps) = Len(x.eps)
SettingsKept(r) ==
    \/ (HasField(r, "expSettings") /\ SettingsKeptFor(r.expSettings))
    \/ (HasField(r, "pre") /\ SettingsKeptFor(r.pre.settings))
    \/ (~HasField(r, "pre") /\ ~HasField(r, "expSettings"))
\* the converter caches come back as they were (a kill inside the append of a record loses at most the end of the file)
CacheOf(st) == [c \in DOMAIN st.cache |-> {<<e.id, S(e.v)>> : e \in S(st.cache[c])}]
CacheKept(r) ==
    HasField(r, "pre") =>
        LET was == CacheOf(r.pre) IN
        /\ DOMAIN was \subseteq DOMAIN cache
        /\ \A c \in DOMAIN was :
              /\ cache[c] \subseteq was[c]
              /\ IF Opt(r.ev, "what", "") = "cache" THEN Cardinality(was[c] \ cache[c]) <= 2 ELSE was[c] \subseteq cache[c]
StreamsKept(r) ==
    HasField(r, "preVis") =>
        \A e \in EntrySet(r.preVis) : \E e2 \in ObsVis(r) : e2[1] = e[1] /\ e2[2] = e[2] /\ e[3] \subseteq e2[3]

\* did the restart stack the surviving index files in another order than the crashed process served them in?
Reordered(r) ==
    HasField(r, "order") /\ HasField(r, "pre") /\
    LET a == r.pre.indexes
        b == r.order
        pos(s, x) == CHOOSE i \in DOMAIN s : s[i] = x
        common == Range(a) \cap Range(b)
    IN \E x, y \in common : pos(a, x) < pos(a, y) /\ pos(b, x) > pos(b, y)

\* after a kill: were all stale cache entries queued for re-conversion when the process died?
StaleWerePending(r) ==
    HasField(r, "pre") /\
    LET stale(c) == {x[1] : x \in {y \in cache[c] : \E e \in Visible(indexes) : e[1] = y[1] /\ e[3] # y[2]}}
        queued(c) == (IF c \in DOMAIN r.pre.toConv THEN S(r.pre.toConv[c]) ELSE {})
                     \cup (IF c \in DOMAIN r.pre.jobs.conv.ids THEN S(r.pre.jobs.conv.ids[c]) ELSE {})
    IN \A c \in DOMAIN cache : stale(c) \subseteq queued(c)

\* after a kill: is every stale cache entry explained by the complete index file of an import whose completion closure
\* (which invalidates the cache) never ran?
ImportLeftover(r) ==
    HasField(r, "pre") /\ r.pre.jobs.import.phase = "gate" /\
    LET stale(c) == {x[1] : x \in {y \in cache[c] : \E e \in Visible(indexes) : e[1] = y[1] /\ e[3] # y[2]}}
    IN \A c \in DOMAIN cache : stale(c) \subseteq S(r.pre.jobs.import.upd) \cup S(r.pre.jobs.import.res)

\* after a kill: was every stale cache entry already stale before the kill (the restart only shows what was there)?
StaleBefore(r) ==
    HasField(r, "pre") /\ HasField(r, "preVis") /\
    LET was == CacheOf(r.pre)
        pv == EntrySet(r.preVis)
        stale(c) == {x \in cache[c] : \E e \in Visible(indexes) : e[1] = x[1] /\ e[3] # x[2]}
    IN \A c \in DOMAIN cache : \A x \in stale(c) : c \in DOMAIN was /\ x \in was[c] /\ \E e \in pv : e[1] = x[1] /\ e[3] # x[2]

Props ==
    \/ l = 0
    \/ LET r == Trace[l]
           truth == ObsTruth(r)
           vis == ObsVis(r)
       IN
       /\ ChkI(r.obs.err = "", r, "obs-error", r.obs.err)
       \* ---- C06
       /\ Chk(DOMAIN truth = DOMAIN tags, r, "C06.truth-undefined")
       /\ DOMAIN truth = DOMAIN tags =>
            /\ ChkI(NeverStaleFor(tags, vis, truth), r, "C06.NeverStale",
                    SigOf({t \in DOMAIN tags : \E e \in vis : e[1] \notin tags[t].U /\ ((e[1] \in tags[t].M) # (e[1] \in truth[t]))}))
            /\ ChkI(\A t \in DOMAIN r.obs.search : S(r.obs.search[t]) = truth[t], r, "C06.SearchRight",
                    SigOf({t \in DOMAIN r.obs.search : S(r.obs.search[t]) # truth[t]}))
            \* negated and combined tag filters (every undecided tag is inlined, also inverted and in products)
            /\ LET ids == {e[1] : e \in vis}
                   want(x) == CASE x.kind = "not" -> ids \ truth[x.a]
                                [] x.kind = "and" -> truth[x.a] \cap truth[x.b]
                                [] x.kind = "or" -> truth[x.a] \cup truth[x.b]
                                [] x.kind = "andnot" -> truth[x.a] \ truth[x.b]
                                [] x.kind = "subnext" -> {i \in ids : (i - 1) \in truth[x.a] /\ (i - 1) \in ids}
                                [] x.kind = "andall" -> {i \in ids : \A t \in DOMAIN truth : i \in truth[t]}
                                [] x.kind = "orall" -> {i \in ids : \E t \in DOMAIN truth : i \in truth[t]}
                                [] x.kind = "norall" -> {i \in ids : \A t \in DOMAIN truth : i \notin truth[t]}
                   bad == {i \in DOMAIN r.obs.search2 : r.obs.search2[i].err # "" \/ S(r.obs.search2[i].res) # want(r.obs.search2[i])}
                   names(i) == IF r.obs.search2[i].kind \in {"andall", "orall", "norall"} THEN DOMAIN truth
                               ELSE {r.obs.search2[i].a} \cup (IF r.obs.search2[i].b = "" THEN {} ELSE {r.obs.search2[i].b})
                   \* searches that inline a tag with a sub-query (directly or through references): known finding C06.SearchRight:S
                   subs(i) == \E t \in names(i) : HasSub(t)
                   \* searches that use an undecided tag inside a sub-query of their own: known finding C06.SearchRightCombined:subq
                   \* (the inlined conditions of the tag are not moved into the sub-query; decided tags are looked up and are right)
                   sub2(i) == r.obs.search2[i].kind = "subnext" /\ r.obs.search2[i].a \in DOMAIN tags /\ tags[r.obs.search2[i].a].U # {}
                   other == {i \in bad : ~subs(i) /\ ~sub2(i)}
                   \* ... or a tag with a payload filter while a converter job is in flight: known finding C06.*:convjob
                   conv(i) == flags.conv /\ \E t \in names(i) : HasPayload(t)
                   rest == {i \in other : ~conv(i)}
               IN ChkI(bad = {}, r, "C06.SearchRightCombined",
                       IF bad # {} /\ \A i \in bad : sub2(i) THEN "subq"
                       ELSE IF other = {} THEN "S" ELSE IF rest = {} THEN "convjob" ELSE KindsOf(UNION {names(i) : i \in rest}))
            /\ ChkI(\A s \in DOMAIN r.obs.shown : \A t \in S(r.obs.shown[s]) : t \in DOMAIN truth /\ \E e \in vis : ToString(e[1]) = s /\ e[1] \in truth[t],
                    r, "C06.ShownRight",
                    SigOf({t \in DOMAIN tags : \E s \in DOMAIN r.obs.shown : t \in S(r.obs.shown[s]) /\ ~\E e \in vis : ToString(e[1]) = s /\ e[1] \in truth[t]}))
            \* a view that evaluates undecided tags on demand (what the HTTP API does) shows exactly the tags that hold
            /\ ChkI(\A e \in vis : ToString(e[1]) \in DOMAIN r.obs.shownAll =>
                        S(r.obs.shownAll[ToString(e[1])]) = {t \in DOMAIN truth : e[1] \in truth[t]},
                    r, "C06.ShownRightOnDemand",
                    SigOf({t \in DOMAIN tags : \E e \in vis : ToString(e[1]) \in DOMAIN r.obs.shownAll /\
                                 ((t \in S(r.obs.shownAll[ToString(e[1])])) # (e[1] \in truth[t]))}))
            \* cross-check of the harness against the model's own notion of truth (not a verdict)
            /\ (truth = [t \in DOMAIN tags |-> TruthOf(tags, vis, t)]) \/ Say("nonconf", r, "truth-differs-from-model")
       \* ---- C10
       /\ Chk(vis = Visible(indexes), r, "C10.FreshViewShowsIndexList")
       /\ Chk(CompleteFor(indexes, Processed \ S(Opt(r, "lost", <<>>))), r, "C10.ViewComplete")
       /\ Chk(OneIdPerConn, r, "C08.OneIdPerConn")
       /\ Chk(\A v \in DOMAIN r.obs.views : r.obs.views[v].same, r, "C10.ViewStable")
       \* ---- C13
       /\ Chk(\A v \in DOMAIN r.obs.views : r.obs.views[v].err = "", r, "C13.ViewReadFails")
       /\ Chk(JobErrs(r) = {}, r, "C13.JobReadFails")
       /\ Chk(NoUseAfterFree, r, "C13.NoUseAfterFree")
       /\ Chk(Balanced, r, "C13.Balanced")
       /\ Chk(r.obs.status.locks = SumUse, r, "C13.LockCount")
       /\ Chk(DirExactWhenQuiet, r, "C13.DirExactWhenQuiet")
       /\ Chk(NoLeak, r, "C13.NoLeak")
       /\ Chk(DOMAIN files = S(r.obs.dir), r, "dir-listing-differs")
       \* ---- C11
       /\ Chk(GraphWellFormed, r, "C11.GraphWellFormed")
       /\ Chk(\A t \in DOMAIN tags : t \in DOMAIN r.obs.infos /\ r.obs.infos[t].referenced = (tags[t].refBy # {}), r, "C11.ReferencedMirrors")
       \* ---- C16
       /\ ChkI(ConvFresh, r, "C16.ConvFresh", IF r.ev.a # "CrashRestart" THEN "" ELSE IF StaleBefore(r) THEN "inherited" ELSE IF ImportLeftover(r) THEN "import-leftover"
                                                ELSE IF StaleWerePending(r) THEN "pending" ELSE "")
       /\ Chk(~flags.conv => ConvFresh, r, "C16.ConvFreshAtRest")
       /\ Chk(ConvEventually, r, "C16.ConvEventually")
       /\ Chk(r.noViewConvert => DetachStops, r, "C16.DetachStops")
       \* ---- C12 (first row of a crash-restart trace: a new Manager was opened on a copy of the data directory)
       /\ (r.ev.a = "CrashRestart" /\ r.res = "ok") =>
            /\ Chk(TagsKept(r), r, "C12.TagsKept")
            /\ Chk(SettingsKept(r), r, "C12.SettingsKept")
            /\ Chk(CacheKept(r), r, "C12.CacheKept")
            /\ ChkI(StreamsKept(r), r, "C12.StreamsKept", IF Reordered(r) THEN "reordered" ELSE "")
            \* ... and the id counter is behind every stream that is served (marking, tagging and the next import rely on it)
            /\ Chk(\A e \in vis : e[1] < nextID /\ e[1] \in allS, r, "C12.IdCounterKept")
            /\ (indexes = (IF HasField(r, "order") THEN r.order ELSE <<>>)) \/ Say("nonconf", r, "restart-order")
       /\ r.last => Chk(Settled, r, "C12.Converges")
       /\ (r.last /\ DOMAIN truth = DOMAIN tags) => Chk(NeverStaleFor(tags, vis, truth), r, "C12.ConvergesCorrect")
       \* ---- C09
       /\ Chk(FlagsMatchJobs, r, "C09.FlagsMatchJobs")
       /\ Chk(NeverStuck, r, "C09.Stuck")
       \* at rest the converter work for the attached tags is done (the same fact as C16.ConvEventually, claimed by C09 too)
       /\ Chk(ConvEventually, r, "C09.ConverterWorkDone")
       \* the deterministic settle policy (always take the next job step) did not come to rest within the step budget
       /\ ChkI(r.ev.a # "SettleExhausted", r, "C09.Settles", KindsOf({t \in DOMAIN tags : tags[t].U # {}}))

Done == l = Len(Trace) => PrintT("@@J" \o ToJson([done |-> l]))
=============================================================================

------------------------------- MODULE Manager -------------------------------
(* The service loop of internal/index/manager/manager.go as a state machine.

   One action per closure that the manager goroutine executes (API calls and the
   completion closures of the four background jobs) plus one "compute" action per
   background job (the part that runs outside the loop on a snapshot).  Names map
   to code:  ApiImport = ImportPcaps, ImportCompute = builder.FromPcap inside
   importPcapJob, ImportDone = the closure posted by importPcapJob, ... .

   The model follows the code, not the intention.  The environment is a small
   "world" of captures and connections (ManagerWorld*.tla constants): a connection
   has pieces in some captures; the data version of a stream is the set of imported
   captures that contribute to it.

   The same actions are used (a) by TLC exhaustively (ManagerMC*.cfg), (b) as a
   generator of schedules that are replayed on the real Manager through the verif
   hooks, and (c) by ManagerTrace.tla, which binds every variable to the state
   projected from the real Manager after each step and evaluates the property
   predicates at the bottom of this module on it. *)
EXTENDS Integers, Sequences, FiniteSets, TLC

CONSTANTS
    Caps,        \* capture ids (naturals; the number is also the time rank)
    Conns,       \* connection ids (naturals)
    Pieces,      \* [Conns -> SUBSET Caps]  captures holding packets of the connection
    Port,        \* [Conns -> Nat]          server port
    TagNames,    \* names usable by the model checker
    ConvNames    \* converter names

VARIABLES
    known,    \* builder.knownPcaps: captures the builder has processed
    queue,    \* mgr.importJobs (sequence of captures; head = running batch)
    nextID,   \* mgr.nextStreamID
    allS,     \* mgr.allStreams (set of ids)
    files,    \* index files on disk: [file id -> set of <<id, conn, version>>]
    indexes,  \* mgr.indexes (sequence of file ids, oldest first)
    use,      \* mgr.usedIndexes: [file id -> Nat], only non-zero entries
    tags,     \* mgr.tags: [name -> [def, M, U, convs, refBy, color]]
    flags,    \* [merge, tag, conv : BOOLEAN]  the three ...JobRunning flags
    during,   \* [upd, res, add] the three ...DuringTaggingJob masks; inv = invalidatedStreamsDuringConverterJob
    unmerge,  \* mgr.nUnmergeableIndexes
    jobs,     \* [import, tag, merge, conv] job records (snapshot taken + result computed)
    views,    \* open views: [view id -> [idx, td]]
    toConv,   \* mgr.streamsToConvert: [converter -> set of ids]
    cache,    \* converter cache files: [converter -> set of <<id, version>>]
    settings  \* [hooks: Seq(url), eps: Seq(address), cfg: BOOLEAN]  webhook urls, PCAP-over-IP endpoints, Config (all in the state file)

vars == <<known, queue, nextID, allS, files, indexes, use, tags, flags, during,
          unmerge, jobs, views, toConv, cache, settings>>

-----------------------------------------------------------------------------
(* ---------- generic helpers ---------- *)
Perms(s) == {p \in [DOMAIN s -> {s[i] : i \in DOMAIN s}] : \A x \in {s[i] : i \in DOMAIN s} : \E i \in DOMAIN s : p[i] = x}
Range(s)  == {s[i] : i \in DOMAIN s}
Max(S)    == CHOOSE x \in S : \A y \in S : y <= x
Min(S)    == CHOOSE x \in S : \A y \in S : x <= y
RestrictTo(f, D) == [x \in D |-> f[x]]
Without(f, x)    == [y \in DOMAIN f \ {x} |-> f[y]]
With(f, x, v)    == [y \in DOMAIN f \cup {x} |-> IF y = x THEN v ELSE f[y]]
SeqOfSet(S) == \* ascending sequence of a finite set of integers
    LET RECURSIVE go(_)
        go(T) == IF T = {} THEN <<>> ELSE <<Min(T)>> \o go(T \ {Min(T)})
    IN go(S)
SubSeqFrom(s, i) == IF i > Len(s) THEN <<>> ELSE SubSeq(s, i, Len(s))

(* ---------- tag definitions ----------
   A definition is a record [k, n, s, t]:
     k = "P": server port = n            (sport:n)           metadata only
     k = "D": payload has marker of capture n (cdata:"MARKn;")  data feature
     k = "C": some converter output of the stream is cached (cdata:"CONV:", which only converter output contains)  data feature
     k = "L": last packet not before capture n (ltime)       absolute-time feature
     k = "E": a payload filter on the output of a converter that does not exist (cdata.nope:"x"): the definition parses,
              every evaluation of it fails; the tagging job then decides the tag with no matches     data feature
     k = "B": the client sent the markers of at least n captures (cbytes:..:)   byte counts belong to the data feature
     k = "I": id in s                    (id:..)             id-only feature
     k = "M": id in s, for mark/ and generated/ tags
     k = "R": stream is in tag t         (tag:t)             main-query tag reference
     k = "N": stream is not in tag t     (-tag:t)
     k = "Q": some stream with cached converter output has the same server port  (@sub:cdata:"CONV:" sport:@sub:sport@)
              payload filter inside a sub-query: the answer for one stream depends on the converter output of others
     k = "S": some stream of tag t has the same server port  (@sub:tag:t sport:@sub:sport@)   sub-query tag reference
   s is the id list as written (mark definitions are compared as text by the manager); t = "twice" for a mark whose
   definition is not a plain list (the list written twice, a conjunction: id:0,1 id:0,1) - mark_add has to extend
   such a definition so that it still denotes the marked streams. *)
Def(k, n, s, t) == [k |-> k, n |-> n, s |-> s, t |-> t]
Refs(d)      == IF d.k \in {"R", "N", "S"} THEN {d.t} ELSE {}
FeatSub(d)   == d.k \in {"S", "Q"}                     \* SubQueryFeatures # 0: invalidated completely (manager.go:605)
FeatIdOnly(d) == d.k \in {"I", "M"}            \* MainFeatures &^ FeatureFilterID = 0   (manager.go:608)
FeatData(d)   == d.k \in {"D", "L", "C", "B", "E"}            \* data | absolute time                  (manager.go:614)
\* the kinds whose MainFeatures contain FeatureFilterData (payload and byte-count filters): reopened after conversions
FeatPayload(d) == d.k \in {"D", "C", "B", "E", "Q"}
FeatConvOK(d) == d.k \in {"P", "L", "I", "M"}  \* attachConverterToTag: no data filter, no tag reference
IsMarkName(n) == \E i \in 1 .. Len(n) : SubSeq(n, 1, i) \in {"mark/", "generated/"}

\* Does definition d accept stream (id, conn, ver) given the matches tdM of referenced tags?
\* cvs: the data versions of the cached converter outputs of the stream - a payload filter without a converter selector
\* searches the raw payload and every cached converter output (the deterministic converter echoes the client payload)
Eval(d, id, conn, ver, tdM, vis, cvs) ==
    CASE d.k = "P" -> Port[conn] = d.n
      [] d.k = "D" -> d.n \in ver \/ \E v \in cvs : d.n \in v
      [] d.k = "C" -> cvs # {}                      \* only converter output contains "CONV:"
      [] d.k = "L" -> Max(ver) >= d.n
      [] d.k = "B" -> Cardinality(ver) >= d.n
      [] d.k = "E" -> FALSE
      [] d.k \in {"I", "M"} -> id \in Range(d.s)
      [] d.k = "R" -> id \in tdM[d.t]
      [] d.k = "N" -> id \notin tdM[d.t]
      [] d.k = "S" -> \E e \in vis : e[1] \in tdM[d.t] /\ Port[e[2]] = Port[conn]
      [] d.k = "Q" -> \E e \in vis : Port[e[2]] = Port[conn] /\ \E c \in DOMAIN cache : \E x \in cache[c] : x[1] = e[1]

\* the data versions the cached converter outputs of a stream were computed from (the caches are global, not part of a
\* job's snapshot: a tagging job reads them as they are while it computes)
CachedVersions(id) == UNION {{x[2] : x \in {y \in cache[c] : y[1] = id}} : c \in DOMAIN cache}

(* ---------- index files ---------- *)
\* total on purpose: the predicates are also evaluated on states of a (possibly broken) implementation
ContentOf(F, f) == IF f \in DOMAIN F THEN F[f] ELSE {}
Entries(fseq)  == UNION {ContentOf(files, fseq[i]) : i \in DOMAIN fseq}
IdsOf(content) == {e[1] : e \in content}
\* newest stored version of every stream id in a stack of files (oldest first)
VisibleIn(F, fseq) ==
    {e \in UNION {ContentOf(F, fseq[i]) : i \in DOMAIN fseq} :
        \E i \in DOMAIN fseq :
            /\ e \in ContentOf(F, fseq[i])
            /\ \A j \in DOMAIN fseq : j > i => e[1] \notin IdsOf(ContentOf(F, fseq[j]))}
Visible(fseq) == VisibleIn(files, fseq)

(* ---------- reference counting (lock / release, manager.go:1379-1396) ---------- *)
UseOf(u, f) == IF f \in DOMAIN u THEN u[f] ELSE 0
LockSeq(u, fseq) ==      \* mgr.lock(indexes)
    LET D == DOMAIN u \cup Range(fseq)
        cnt(f) == Cardinality({i \in DOMAIN fseq : fseq[i] = f})
    IN [f \in D |-> UseOf(u, f) + cnt(f)]
\* release: returns <<use', files'>>; a count that reaches zero closes and deletes the file
ReleaseSeq(u, F, fseq) ==
    LET cnt(f) == Cardinality({i \in DOMAIN fseq : fseq[i] = f})
        nu == [f \in DOMAIN u |-> u[f] - cnt(f)]
        dead == {f \in DOMAIN nu : nu[f] <= 0}
    IN <<RestrictTo(nu, DOMAIN nu \ dead), RestrictTo(F, DOMAIN F \ dead)>>

(* ---------- tag maintenance ---------- *)
\* inheritTagUncertainty (manager.go:565-600); the tag graph is acyclic
RECURSIVE InhU(_, _, _)
InhU(tg, all, t) ==
    LET sub == UNION {InhU(tg, all, r) : r \in Refs(tg[t].def) \cap DOMAIN tg} IN
    IF FeatSub(tg[t].def) THEN (IF sub # {} THEN all ELSE tg[t].U) ELSE tg[t].U \cup sub
Inherit(tg, all) == [t \in DOMAIN tg |-> [tg[t] EXCEPT !.U = InhU(tg, all, t)]]

\* StreamIDs(nextStreamID) of a plain id list (conditions.go:1965): every maximal run lo..hi of the list is
\* clipped to hi' = next-1 when hi > next (sic: a run ending exactly at `next` is kept)
MarkIDs(d, next) ==
    LET ids == Range(d.s)
        runHi(i) == CHOOSE h \in ids : h >= i /\ (i .. h) \subseteq ids /\ (h + 1) \notin ids
        clip(h) == IF h > next THEN (IF next > 0 THEN next - 1 ELSE 0) ELSE h
    IN {i \in ids : i <= clip(runHi(i))}

\* invalidateTags (manager.go:602-631): id-only tags are decided directly for added streams
Invalidate(tg, upd, res, add, next, all) ==
    Inherit([t \in DOMAIN tg |->
        IF FeatSub(tg[t].def) THEN (IF upd \cup res \cup add = {} THEN tg[t] ELSE [tg[t] EXCEPT !.U = all])
        ELSE IF FeatIdOnly(tg[t].def) THEN [tg[t] EXCEPT !.M = @ \cup (MarkIDs(tg[t].def, next) \cap add)]
        ELSE [tg[t] EXCEPT !.U = @ \cup add \cup res \cup (IF FeatData(tg[t].def) THEN upd ELSE {})]], all)
\* ... and queued for the converters attached to them
InvalidateTC(tg, tc, add, next) ==
    [c \in DOMAIN tc |-> tc[c] \cup UNION {MarkIDs(tg[t].def, next) \cap add :
                                           t \in {u \in DOMAIN tg : FeatIdOnly(tg[u].def) /\ ~FeatSub(tg[u].def) /\ c \in tg[u].convs}}]

NoJob(kind) ==
    CASE kind = "import" -> [phase |-> "none", batch |-> <<>>, idx |-> <<>>, next |-> 0, file |-> "",
                             upd |-> {}, res |-> {}, add |-> {}, used |-> 0, n |-> 0]
      [] kind = "tag"    -> [phase |-> "none", tag |-> "", def |-> Def("", 0, <<>>, ""), U0 |-> {}, M0 |-> {},
                             idx |-> <<>>, td |-> <<>>, M1 |-> {}, stale |-> FALSE]
      [] kind = "merge"  -> [phase |-> "none", off |-> 0, idx |-> <<>>, file |-> ""]
      [] kind = "conv"   -> [phase |-> "none", ids |-> <<>>, idx |-> <<>>]

\* startTaggingJobIfNeeded (manager.go:712-742).  Go iterates a map: any eligible tag may be picked.
Eligible(tg) == {t \in DOMAIN tg : /\ tg[t].U # {}
                                   /\ \A r \in Refs(tg[t].def) : tg[r].U = {}}
TagPicks(tg, fl) == IF fl.tag \/ Eligible(tg) = {} THEN {""} ELSE Eligible(tg)
\* state bundle threaded through the start...IfNeeded calls of one closure
\* Every tag carries the number of its definition (a new one for every new tag and every query change); the result of a
\* tagging job is only used for the definition it evaluated.  Abstractly: the job in flight for a name goes stale when a
\* tag of that name is added, deleted, renamed away or gets another query (the text may be the same again later).
Stale(jb, name) == IF jb.tag.phase # "none" /\ jb.tag.tag = name THEN [jb EXCEPT !.tag.stale = TRUE] ELSE jb
Bundle(tg, fl, jb, us, du, tc) == [tags |-> tg, flags |-> fl, jobs |-> jb, use |-> us, during |-> du, toConv |-> tc]

StartTag(b, idx, pick) ==
    IF pick = "" THEN b
    ELSE [b EXCEPT !.during = [b.during EXCEPT !.upd = {}, !.res = {}, !.add = {}],
                   !.flags.tag = TRUE,
                   !.use = LockSeq(b.use, idx),
                   !.jobs.tag = [phase |-> "start", tag |-> pick, def |-> b.tags[pick].def,
                                 U0 |-> b.tags[pick].U, M0 |-> b.tags[pick].M, idx |-> idx,
                                 td |-> [r \in Refs(b.tags[pick].def) |-> b.tags[r].M], M1 |-> {}, stale |-> FALSE]]

\* startMergeJobIfNeeded (manager.go:689-710)
CountOf(F, f) == Cardinality(ContentOf(F, f))
MergeOffset(tg, fl, idx, F, unm) ==
    IF fl.merge \/ fl.tag \/ fl.conv \/ (\E t \in DOMAIN tg : tg[t].U # {}) THEN 0
    ELSE LET total == LET RECURSIVE sum(_)
                          sum(i) == IF i > Len(idx) THEN 0 ELSE CountOf(F, idx[i]) + sum(i + 1)
                      IN sum(1)
             after(i) == LET RECURSIVE sum(_)
                             sum(j) == IF j > Len(idx) THEN 0 ELSE CountOf(F, idx[j]) + sum(j + 1)
                         IN sum(i + 1)
             cands == {i \in DOMAIN idx : i - 1 >= unm /\ CountOf(F, idx[i]) < after(i)}
         IN IF cands = {} THEN 0 ELSE Min(cands)          \* 1-based position, 0 = no merge
StartMerge(b, idx, F, unm) ==
    LET off == MergeOffset(b.tags, b.flags, idx, F, unm) IN
    IF off = 0 THEN b
    ELSE [b EXCEPT !.flags.merge = TRUE,
                   !.use = LockSeq(b.use, SubSeqFrom(idx, off)),
                   !.jobs.merge = [phase |-> "start", off |-> off, idx |-> SubSeqFrom(idx, off), file |-> ""]]

\* startConverterJobIfNeeded (manager.go:1398-1422)
StartConv(b, idx) ==
    LET act == {c \in DOMAIN b.toConv : b.toConv[c] # {}} IN
    IF b.flags.conv \/ act = {} THEN b
    ELSE [b EXCEPT !.flags.conv = TRUE,
                   !.use = LockSeq(b.use, idx),
                   !.toConv = [c \in DOMAIN b.toConv |-> IF c \in act THEN {} ELSE b.toConv[c]],
                   !.jobs.conv = [phase |-> "start", ids |-> [c \in act |-> b.toConv[c]], idx |-> idx]]


-----------------------------------------------------------------------------
(* ---------- initial state: empty data directory ---------- *)
Init ==
    /\ known = {} /\ queue = <<>> /\ nextID = 0 /\ allS = {}
    /\ files = <<>> /\ indexes = <<>> /\ use = <<>>
    /\ tags = <<>>
    /\ flags = [merge |-> FALSE, tag |-> FALSE, conv |-> FALSE]
    /\ during = [upd |-> {}, res |-> {}, add |-> {}, inv |-> {}]
    /\ unmerge = 0
    /\ jobs = [k \in {"import", "tag", "merge", "conv"} |-> NoJob(k)]
    /\ views = <<>>
    /\ toConv = [c \in ConvNames |-> {}]
    /\ cache = [c \in ConvNames |-> {}]
    /\ settings = [hooks |-> <<>>, eps |-> <<>>, cfg |-> FALSE]

\* install a bundle (after the closure's start...IfNeeded calls)
Install(b) ==
    /\ tags' = b.tags /\ flags' = b.flags /\ jobs' = b.jobs /\ use' = b.use
    /\ during' = b.during /\ toConv' = b.toConv

-----------------------------------------------------------------------------
(* ---------- import ---------- *)
\* ImportPcaps (manager.go:841).  A capture is uploaded once.
ApiImport(k) ==
    /\ k \in Caps /\ k \notin known /\ k \notin Range(queue)
    /\ queue' = Append(queue, k)
    /\ IF Len(queue) = 0
       THEN /\ use' = LockSeq(use, indexes)
            /\ jobs' = [jobs EXCEPT !.import = [NoJob("import") EXCEPT !.phase = "start", !.batch = <<k>>,
                                                                     !.idx = indexes, !.next = nextID]]
       ELSE UNCHANGED <<use, jobs>>
    /\ UNCHANGED <<settings, known, nextID, allS, files, indexes, tags, flags, during, unmerge, views, toConv, cache>>

\* builder.FromPcap on the snapshot (builder.go:98-570): reassembles all known captures plus the batch,
\* writes the streams touched by the batch into one new index file f, classifies them, reuses ids.
ConnsOf(K)      == {c \in Conns : Pieces[c] \cap K # {}}
\* A capture file may be unreadable (cut off inside a record, no capture at all): by convention the captures numbered from
\* 90 up.  FromPcap (builder.go:105-131) reads the captures of the batch in order and stops at the first unreadable one: the
\* batch is the part before it; an unreadable capture at the head of the batch is "processed" alone (it is dropped).
Bad(k) == k >= 90
ProcessedPart(batch) ==
    LET bad == {i \in DOMAIN batch : Bad(batch[i])} IN
    IF bad = {} THEN batch ELSE IF Min(bad) = 1 THEN <<batch[1]>> ELSE SubSeq(batch, 1, Min(bad) - 1)
ImportCompute(f) ==
    LET j == jobs.import
        proc == ProcessedPart(j.batch)
        B == {k \in Range(proc) : ~Bad(k)}
        snap == UNION {ContentOf(files, j.idx[i]) : i \in DOMAIN j.idx}
        idOf(c) == LET es == {e \in snap : e[2] = c} IN IF es = {} THEN -1 ELSE (CHOOSE e \in es : TRUE)[1]
        touched == ConnsOf(B)
        fresh == {c \in touched : idOf(c) = -1}
        base == IF snap = {} THEN 0 ELSE Max(IdsOf(snap)) + 1
        \* new ids in order of the first packet: (earliest capture among known+batch, connection number)
        key(c) == Min(Pieces[c] \cap (known \cup B)) * 1000 + c
        rank(c) == Cardinality({d \in fresh : key(d) < key(c)})
        newId(c) == IF c \in fresh THEN base + rank(c) ELSE idOf(c)
        ver(c) == Pieces[c] \cap (known \cup B)
        isReset(c) == c \notin fresh /\ Min(Pieces[c] \cap B) < Min(Pieces[c] \cap known)
    IN
    /\ j.phase = "start"
    /\ f \notin DOMAIN files
    /\ known' = known \cup B
    /\ IF B = {}         \* nothing readable: no index file is written
       THEN /\ files' = files
            /\ jobs' = [jobs EXCEPT !.import = [j EXCEPT !.phase = "gate", !.n = Len(proc)]]
       ELSE /\ files' = With(files, f, {<<newId(c), c, ver(c)>> : c \in touched})
            /\ jobs' = [jobs EXCEPT !.import = [j EXCEPT !.phase = "gate", !.file = f, !.n = Len(proc),
                            !.add = {newId(c) : c \in fresh},
                            !.res = {newId(c) : c \in {d \in touched : isReset(d)}},
                            !.upd = {newId(c) : c \in {d \in touched \ fresh : ~isReset(d)}},
                            !.used = Cardinality(fresh)]]
    /\ UNCHANGED <<settings, queue, nextID, allS, indexes, use, tags, flags, during, unmerge, views, toConv, cache>>

\* invalidateConverters (manager.go:1575): cached output of updated streams is dropped and re-queued
InvalidateConv(tc, ca, upd) ==
    <<[c \in DOMAIN tc |-> tc[c] \cup {e[1] : e \in {x \in ca[c] : x[1] \in upd}}],
      [c \in DOMAIN ca |-> {x \in ca[c] : x[1] \notin upd}]>>

\* the closure posted by importPcapJob (manager.go:642-686)
ImportDone(pick) ==
    LET j == jobs.import
        rel == ReleaseSeq(use, files, j.idx)
        idx1 == IF j.file = "" THEN indexes ELSE Append(indexes, j.file)
        use1 == IF j.file = "" THEN rel[1] ELSE LockSeq(rel[1], <<j.file>>)
        du1 == [upd |-> during.upd \cup j.upd, res |-> during.res \cup j.res, add |-> during.add \cup j.add,
                inv |-> IF flags.conv THEN during.inv \cup j.upd \cup j.res ELSE during.inv]
        tg1 == Invalidate(tags, j.upd, j.res, j.add, j.next + j.used, 0 .. (j.next + j.used - 1))
        ic == InvalidateConv(InvalidateTC(tags, toConv, j.add, j.next + j.used), cache, j.upd \cup j.res)
        q1 == SubSeqFrom(queue, j.n + 1)
        next1 == j.next + j.used
        \* queued captures: start the next import job with everything that is queued
        use2 == IF Len(q1) > 0 THEN LockSeq(use1, idx1) ELSE use1
        ij == IF Len(q1) > 0
              THEN [NoJob("import") EXCEPT !.phase = "start", !.batch = q1, !.idx = idx1, !.next = next1]
              ELSE NoJob("import")
        b0 == Bundle(tg1, flags, [jobs EXCEPT !.import = ij], use2, du1, ic[1])
        b1 == StartTag(b0, idx1, pick)
        b2 == StartConv(b1, idx1)
        b3 == StartMerge(b2, idx1, rel[2], unmerge)
    IN
    /\ j.phase = "gate"
    /\ pick \in TagPicks(tg1, flags)
    /\ allS' = 0 .. (next1 - 1)
    /\ nextID' = next1
    /\ indexes' = idx1
    /\ files' = rel[2]
    /\ queue' = q1
    /\ cache' = ic[2]
    /\ Install(b3)
    /\ UNCHANGED <<settings, known, unmerge, views>>

-----------------------------------------------------------------------------
(* ---------- tagging job ---------- *)
\* updateTagJob outside the loop (manager.go:793-814): search the snapshot restricted to U0
TagCompute ==
    LET j == jobs.tag
        vis == Visible(j.idx)
        hit == {e[1] : e \in {x \in vis : x[1] \in j.U0 /\ Eval(j.def, x[1], x[2], x[3], j.td, vis, CachedVersions(x[1]))}}
    IN
    /\ j.phase = "start"
    /\ jobs' = [jobs EXCEPT !.tag = [j EXCEPT !.phase = "gate", !.M1 = (j.M0 \ j.U0) \cup hit]]
    /\ UNCHANGED <<settings, known, queue, nextID, allS, files, indexes, use, tags, flags, during, unmerge, views, toConv, cache>>

\* the closure posted by updateTagJob (manager.go:815-838)
TagDone(pick) ==
    LET j == jobs.tag
        same == ~j.stale /\ j.tag \in DOMAIN tags /\ tags[j.tag].def = j.def
        tg1 == IF same THEN [tags EXCEPT ![j.tag] = [@ EXCEPT !.M = j.M1, !.U = {}]] ELSE tags
        tc1 == IF same THEN [c \in DOMAIN toConv |-> IF c \in tags[j.tag].convs THEN toConv[c] \cup j.M1 ELSE toConv[c]]
               ELSE toConv
        tg2 == IF same THEN Invalidate(tg1, during.upd, during.res, during.add, nextID, allS) ELSE tg1
        tc2 == IF same THEN InvalidateTC(tg1, tc1, during.add, nextID) ELSE tc1
        fl1 == [flags EXCEPT !.tag = FALSE]
        b0 == Bundle(tg2, fl1, [jobs EXCEPT !.tag = NoJob("tag")], use, during, tc2)
        b1 == StartTag(b0, indexes, pick)
        b2 == StartConv(b1, indexes)
        b3 == StartMerge(b2, indexes, files, unmerge)
        rel == ReleaseSeq(b3.use, files, j.idx)
    IN
    /\ j.phase = "gate"
    /\ pick \in TagPicks(tg2, fl1)
    /\ Install([b3 EXCEPT !.use = rel[1]])
    /\ files' = rel[2]
    /\ UNCHANGED <<settings, known, queue, nextID, allS, indexes, unmerge, views, cache>>

-----------------------------------------------------------------------------
(* ---------- merge job ---------- *)
\* index.Merge (merger.go): newest version of every id of the snapshot goes into one new file
MergeCompute(f) ==
    LET j == jobs.merge IN
    /\ j.phase = "start"
    /\ f \notin DOMAIN files
    /\ files' = With(files, f, Visible(j.idx))
    /\ jobs' = [jobs EXCEPT !.merge = [j EXCEPT !.phase = "gate", !.file = f]]
    /\ UNCHANGED <<settings, known, queue, nextID, allS, indexes, use, tags, flags, during, unmerge, views, toConv, cache>>

\* index.Merge fails (environment fault: the output file cannot be created or written): the job reaches its gate
\* without an output file
MergeFail ==
    LET j == jobs.merge IN
    /\ j.phase = "start"
    /\ jobs' = [jobs EXCEPT !.merge = [j EXCEPT !.phase = "gate"]]
    /\ UNCHANGED <<settings, known, queue, nextID, allS, files, indexes, use, tags, flags, during, unmerge, views, toConv, cache>>

\* the closure posted by mergeIndexesJob (manager.go:762-790)
MergeDone ==
    LET j == jobs.merge
        n == Len(j.idx)
        own == SubSeq(indexes, j.off, j.off + n - 1)          \* the manager's own reference to the replaced run
        r1 == ReleaseSeq(use, files, own)
        use1 == LockSeq(r1[1], <<j.file>>)
        idx1 == SubSeq(indexes, 1, j.off - 1) \o <<j.file>> \o SubSeqFrom(indexes, j.off + n)
        fl1 == [flags EXCEPT !.merge = FALSE]
        b0 == Bundle(tags, fl1, [jobs EXCEPT !.merge = NoJob("merge")], use1, during, toConv)
        b1 == StartMerge(b0, idx1, r1[2], unmerge)
        r2 == ReleaseSeq(b1.use, r1[2], j.idx)
        \* a failed merge: nothing is replaced, the oldest index of the run is left out of further merges
        f0 == Bundle(tags, fl1, [jobs EXCEPT !.merge = NoJob("merge")], use, during, toConv)
        f1 == StartMerge(f0, indexes, files, unmerge + 1)
        f2 == ReleaseSeq(f1.use, files, j.idx)
    IN
    /\ j.phase = "gate"
    /\ IF j.file = ""
       THEN /\ indexes' = indexes /\ unmerge' = unmerge + 1
            /\ Install([f1 EXCEPT !.use = f2[1]])
            /\ files' = f2[2]
       ELSE /\ indexes' = idx1 /\ unmerge' = unmerge
            /\ Install([b1 EXCEPT !.use = r2[1]])
            /\ files' = r2[2]
    /\ UNCHANGED <<settings, known, queue, nextID, allS, views, cache>>

-----------------------------------------------------------------------------
(* ---------- converter job ---------- *)
\* one conversion inside convertStreamJob (manager.go:1483-1506): writes the cache outside the loop.
\* Streams already cached are skipped (and removed from the job's id set).
ConvCompute ==
    LET j == jobs.conv
        vis == Visible(j.idx)
        verOf(s) == (CHOOSE e \in vis : e[1] = s)[3]
        has(c, s) == c \in DOMAIN cache /\ \E x \in cache[c] : x[1] = s
        exists(s) == \E e \in vis : e[1] = s
    IN
    /\ j.phase = "start"
    /\ cache' = [c \in DOMAIN cache |->
                    IF c \in DOMAIN j.ids
                    THEN cache[c] \cup {<<s, verOf(s)>> : s \in {x \in j.ids[c] : ~has(c, x) /\ exists(x)}}
                    ELSE cache[c]]
    /\ jobs' = [jobs EXCEPT !.conv = [j EXCEPT !.phase = "gate",
                    \* (a converter whose executable was removed meanwhile fails and its streams are given up)
                    !.ids = [c \in DOMAIN j.ids |-> IF c \in DOMAIN cache THEN {s \in j.ids[c] : ~has(c, s) /\ exists(s)} ELSE {}]]]
    /\ UNCHANGED <<settings, known, queue, nextID, allS, files, indexes, use, tags, flags, during, unmerge, views, toConv>>

\* the closure posted by convertStreamJob (manager.go:1540-1572)
ConvDone(pick) ==
    LET j == jobs.conv
        conv == UNION {j.ids[c] : c \in DOMAIN j.ids \cap DOMAIN toConv}    \* (results of a converter that was removed meanwhile are discarded)
        \* streams invalidated while the job ran are invalidated again (the job may have cached their old data)
        ic == InvalidateConv(toConv, cache, during.inv)
        tg1 == Inherit([t \in DOMAIN tags |->
                    IF ~FeatPayload(tags[t].def) THEN tags[t]
                    ELSE IF FeatSub(tags[t].def) /\ conv # {} THEN [tags[t] EXCEPT !.U = allS]    \* (new output may change the answer for any stream)
                    ELSE [tags[t] EXCEPT !.U = @ \cup conv]], allS)
        du1 == [during EXCEPT !.upd = @ \cup conv, !.inv = {}]
        fl1 == [flags EXCEPT !.conv = FALSE]
        b0 == Bundle(tg1, fl1, [jobs EXCEPT !.conv = NoJob("conv")], use, du1, ic[1])
        b1 == StartTag(b0, indexes, pick)
        b2 == StartConv(b1, indexes)
        rel == ReleaseSeq(b2.use, files, j.idx)
    IN
    /\ j.phase = "gate"
    /\ pick \in TagPicks(tg1, fl1)
    /\ Install([b2 EXCEPT !.use = rel[1]])
    /\ files' = rel[2]
    /\ cache' = ic[2]
    /\ UNCHANGED <<settings, known, queue, nextID, allS, indexes, unmerge, views>>

-----------------------------------------------------------------------------
(* ---------- tag API ----------
   Every call either applies or rejects.  Rejections are separate disjuncts so that
   atomicity (RejectIsNoop) is a property of the model, not an assumption. *)
NewTag(d, M, U, col) == [def |-> d, M |-> M, U |-> U, convs |-> {}, refBy |-> {}, color |-> col]
AddRefBy(tg, name, rs) == [t \in DOMAIN tg |-> IF t \in rs THEN [tg[t] EXCEPT !.refBy = @ \cup {name}] ELSE tg[t]]
DelRefBy(tg, name, rs) == [t \in DOMAIN tg |-> IF t \in rs THEN [tg[t] EXCEPT !.refBy = @ \ {name}] ELSE tg[t]]
RECURSIVE Reaches(_, _, _)
Reaches(tg, from, to) ==          \* does tag `from` (transitively) reference `to`?
    \/ to \in Refs(tg[from].def)
    \/ \E r \in Refs(tg[from].def) \cap DOMAIN tg : Reaches(tg, r, to)

DefValid(d) == d.k \in {"P", "D", "C", "L", "B", "E", "I", "M", "R", "N", "S", "Q"}     \* the query parses and is allowed in a tag
AddTagOK(name, d) ==
    /\ DefValid(d)
    /\ name \notin DOMAIN tags
    /\ name \notin Refs(d)
    /\ Refs(d) \subseteq DOMAIN tags
    /\ IsMarkName(name) => d.k = "M"
AddTag(name, d, col, pick) ==
    /\ AddTagOK(name, d)
    /\ LET mark == IsMarkName(name)
           nt == IF mark THEN NewTag(d, MarkIDs(d, nextID), {}, col) ELSE NewTag(d, {}, allS, col)
           tg1 == AddRefBy(With(tags, name, nt), name, Refs(d))
           b0 == Bundle(tg1, flags, Stale(jobs, name), use, during, toConv)
           b1 == IF mark THEN b0 ELSE StartTag(b0, indexes, pick)
       IN /\ pick \in (IF mark THEN {""} ELSE TagPicks(With(tags, name, nt), flags))
          /\ Install(b1)
    /\ UNCHANGED <<settings, known, queue, nextID, allS, files, indexes, unmerge, views, cache>>

\* detachConverterFromTag (manager.go:1884-1917) for a set of converters; returns <<toConv', cache'>>
\* (a converter that no other tag with matches uses is reset: its cache is dropped)
OthersWith(tg, name, c) == UNION {tg[t].M : t \in {u \in DOMAIN tg : u # name /\ c \in tg[u].convs}}
Detach(tg, tc, ca, name, cs) ==
    <<[c \in DOMAIN tc |-> IF c \in cs THEN tc[c] \ (tg[name].M \ OthersWith(tg, name, c)) ELSE tc[c]],
      [c \in DOMAIN ca |-> IF c \in cs /\ OthersWith(tg, name, c) = {} THEN {} ELSE ca[c]]>>

\* The cached output of a converter was dropped (detached from its last tag, reset, executable removed): tags with payload
\* filters may have matched that output and are evaluated again (manager.go invalidateTagsAfterConverterReset); a tagging
\* job that is running has searched the old output: the streams go into the updated-during-tagging mask.
DropTags(tg) == Inherit([t \in DOMAIN tg |-> IF FeatPayload(tg[t].def) THEN [tg[t] EXCEPT !.U = allS] ELSE tg[t]], allS)
AfterDrop(b, idx, pick) == StartTag([b EXCEPT !.tags = DropTags(b.tags), !.during.upd = @ \cup allS], idx, pick)
Dropped(tg, name, cs) == \E c \in cs : OthersWith(tg, name, c) = {}

DelTagOK(name) == name \in DOMAIN tags /\ tags[name].refBy = {}
DelTag(name, pick) ==
    /\ DelTagOK(name)
    /\ LET d == Detach(tags, toConv, cache, name, tags[name].convs)
           drop == Dropped(tags, name, tags[name].convs)
           b0 == Bundle(tags, flags, Stale(jobs, name), use, during, d[1])
           b1 == IF drop THEN AfterDrop(b0, indexes, pick) ELSE b0
       IN /\ pick \in (IF drop THEN TagPicks(DropTags(tags), flags) ELSE {""})
          /\ Install([b1 EXCEPT !.tags = DelRefBy(Without(b1.tags, name), name, Refs(tags[name].def))])
          /\ cache' = d[2]
    /\ UNCHANGED <<settings, known, queue, nextID, allS, files, indexes, unmerge, views>>

\* UpdateTag(converter_set) (manager.go:1237-1262)
SetConvOK(name, cs) ==
    /\ name \in DOMAIN tags
    /\ cs \subseteq DOMAIN toConv
    /\ (cs \ tags[name].convs # {}) => FeatConvOK(tags[name].def)
SetConverters(name, cs, pick) ==
    /\ SetConvOK(name, cs)
    /\ LET old == tags[name]
           d == Detach(tags, toConv, cache, name, old.convs \ cs)
           drop == Dropped(tags, name, old.convs \ cs)
           tc1 == [c \in DOMAIN toConv |-> IF c \in cs \ old.convs THEN d[1][c] \cup old.M ELSE d[1][c]]
           tg1 == [tags EXCEPT ![name].convs = cs]
           b0 == Bundle(tg1, flags, jobs, use, during, tc1)
           b1 == IF drop THEN AfterDrop(b0, indexes, pick) ELSE b0
           b2 == StartConv(b1, indexes)
       IN /\ pick \in (IF drop THEN TagPicks(DropTags(tg1), flags) ELSE {""})
          /\ Install(b2) /\ cache' = d[2]
    /\ UNCHANGED <<settings, known, queue, nextID, allS, files, indexes, unmerge, views>>

\* ResetConverter / restartConverterProcess (manager.go:1832-1863)
ConvReset(c, pick) ==
    /\ c \in DOMAIN toConv
    /\ cache' = [cache EXCEPT ![c] = {}]
    /\ LET tc1 == [toConv EXCEPT ![c] = @ \cup UNION {tags[t].M : t \in {u \in DOMAIN tags : c \in tags[u].convs}}]
           b0 == AfterDrop(Bundle(tags, flags, jobs, use, during, tc1), indexes, pick)
           b1 == StartConv(b0, indexes)
       IN pick \in TagPicks(DropTags(tags), flags) /\ Install(b1)
    /\ UNCHANGED <<settings, known, queue, nextID, allS, files, indexes, unmerge, views>>

\* The converter directory changes (fsnotify; manager.go removeConverter / addConverter): an executable disappears - the
\* converter is detached from every tag, its cache is deleted, the state is saved - or a new one appears.
ConvRemoveOK(c) == c \in DOMAIN toConv
ConvRemove(c, pick) ==
    /\ ConvRemoveOK(c)
    /\ LET tg1 == [t \in DOMAIN tags |-> [tags[t] EXCEPT !.convs = @ \ {c}]]
           b0 == AfterDrop(Bundle(tg1, flags, jobs, use, during, Without(toConv, c)), indexes, pick)
           \* removeConverter detaches the converter from every tag first (also from tags it is not attached to); the detach of the
           \* last tag finds no other tag with the converter and invalidates as well: with at least one tag the invalidation runs
           \* twice, the second time next to the tagging job the first one started (its streams count as updated during the job)
           b1 == IF DOMAIN tags = {} THEN b0 ELSE [b0 EXCEPT !.during.upd = @ \cup allS]
       IN pick \in TagPicks(DropTags(tg1), flags) /\ Install(b1)
    /\ cache' = Without(cache, c)
    /\ UNCHANGED <<settings, known, queue, nextID, allS, files, indexes, unmerge, views>>
ConvAddOK(c) == c \notin DOMAIN toConv
ConvAdd(c) ==
    /\ ConvAddOK(c)
    /\ toConv' = With(toConv, c, {})
    /\ cache' = With(cache, c, {})
    /\ UNCHANGED <<settings, known, queue, nextID, allS, files, indexes, use, tags, flags, during, unmerge, jobs, views>>

\* UpdateTag(change query) (manager.go:1160-1236)
UpdQueryOK(name, d) ==
    /\ DefValid(d)
    /\ name \in DOMAIN tags
    /\ name \notin Refs(d)
    /\ Refs(d) \subseteq DOMAIN tags
    /\ \A r \in Refs(d) : ~Reaches(tags, r, name)
    /\ IsMarkName(name) => d.k = "M"
    /\ tags[name].convs # {} => FeatConvOK(d)          \* (the rule of attachConverterToTag also holds for a query change)
UpdQuery(name, d, pick) ==
    /\ UpdQueryOK(name, d)
    /\ LET old == tags[name]
           nt == [old EXCEPT !.def = d, !.U = allS, !.M = {}]
           tg1 == AddRefBy(DelRefBy([tags EXCEPT ![name] = nt], name, Refs(old.def) \ Refs(d)), name, Refs(d) \ Refs(old.def))
           tg2 == Inherit(tg1, allS)
           b0 == Bundle(tg2, flags, Stale(jobs, name), use, during, toConv)
           b1 == StartTag(b0, indexes, pick)
           b2 == StartConv(b1, indexes)
       IN /\ pick \in TagPicks(tg2, flags)
          /\ Install(b2)
    /\ UNCHANGED <<settings, known, queue, nextID, allS, files, indexes, unmerge, views, cache>>

\* UpdateTag(mark add / mark del) (manager.go:1263-1332); ids must exist
\* (stream ids are unsigned in the code; a negative id in a schedule stands for the largest one, 2^64-1: no such stream)
MarkOK(name, S) == /\ name \in DOMAIN tags /\ IsMarkName(name) /\ S # {} /\ \A i \in S : i >= 0 /\ i < nextID
\* ids is the sequence given by the caller; the definition text is extended in that order (manager.go:1272-1299)
RECURSIVE NewInOrder(_, _)
NewInOrder(ids, have) ==
    IF ids = <<>> THEN <<>>
    ELSE IF Head(ids) \in have THEN NewInOrder(Tail(ids), have)
         ELSE <<Head(ids)>> \o NewInOrder(Tail(ids), have \cup {Head(ids)})
MarkAdd(name, ids, pick) ==
    /\ MarkOK(name, Range(ids))
    /\ LET old == tags[name]
           newSeq == NewInOrder(ids, old.M)
           new == Range(newSeq)
           nt == [old EXCEPT !.M = @ \cup new, !.def = [@ EXCEPT !.s = @ \o newSeq], !.U = @ \cup new]
           tc1 == [c \in DOMAIN toConv |-> IF c \in old.convs THEN toConv[c] \cup new ELSE toConv[c]]
           tg1 == Inherit([tags EXCEPT ![name] = nt], allS)
           tg2 == [tg1 EXCEPT ![name].U = old.U]          \* the edited ids are decided for the mark itself; a pending query change stays pending
           b0 == Bundle(tg2, flags, jobs, use, [during EXCEPT !.res = @ \cup new], tc1)
           b1 == StartTag(b0, indexes, pick)
           b2 == StartConv(b1, indexes)
       IN /\ pick \in TagPicks(tg2, flags)
          /\ Install(b2)
    /\ UNCHANGED <<settings, known, queue, nextID, allS, files, indexes, unmerge, views, cache>>
MarkDel(name, ids, pick) ==
    /\ MarkOK(name, Range(ids))
    /\ LET old == tags[name]
           gone == Range(ids) \cap old.M
           \* (the definition is written anew as a plain list of what is left)
           nt == [old EXCEPT !.M = @ \ gone, !.def = [@ EXCEPT !.s = SeqOfSet(old.M \ gone), !.t = ""], !.U = @ \cup gone]
           tg1 == Inherit([tags EXCEPT ![name] = nt], allS)
           tg2 == [tg1 EXCEPT ![name].U = old.U]
           b0 == Bundle(tg2, flags, jobs, use, [during EXCEPT !.res = @ \cup gone], toConv)
           b1 == StartTag(b0, indexes, pick)
           b2 == StartConv(b1, indexes)
       IN /\ pick \in TagPicks(tg2, flags)
          /\ Install(b2)
    /\ UNCHANGED <<settings, known, queue, nextID, allS, files, indexes, unmerge, views, cache>>

\* UpdateTag(change color) (manager.go, `if info.color != ""`): an empty colour is accepted and changes nothing
UpdColorOK(name) == name \in DOMAIN tags
UpdColor(name, col) ==
    /\ UpdColorOK(name)
    /\ tags' = [tags EXCEPT ![name].color = IF col = "" THEN @ ELSE col]
    /\ UNCHANGED <<settings, known, queue, nextID, allS, files, indexes, use, flags, during, unmerge, jobs, views, toConv, cache>>

\* UpdateTag(change name) (manager.go, `if info.name != ""`): same type, a name behind the prefix, not taken, and
\* nobody references the tag.  The tag record moves to the new key; a tagging job that is in flight for the old
\* name finds no tag (or another one) under that name when it completes and its result is dropped.
TagPrefixes == <<"tag/", "service/", "mark/", "generated/">>
PrefixOf(n) == LET ps == {i \in DOMAIN TagPrefixes : Len(n) >= Len(TagPrefixes[i]) /\ SubSeq(n, 1, Len(TagPrefixes[i])) = TagPrefixes[i]}
               IN IF ps = {} THEN "" ELSE TagPrefixes[CHOOSE i \in ps : TRUE]
UpdNameOK(name, new) ==
    /\ name \in DOMAIN tags
    /\ new # ""                                  \* (an empty name means "no rename": the call is an accepted no-op, see UpdName)
    /\ PrefixOf(new) = PrefixOf(name)
    /\ Len(new) > Len(PrefixOf(new))
    /\ new \notin DOMAIN tags
    /\ tags[name].refBy = {}
UpdName(name, new) ==
    /\ UpdNameOK(name, new)
    /\ LET moved == [t \in (DOMAIN tags \ {name}) \cup {new} |-> IF t = new THEN tags[name] ELSE tags[t]]
       IN tags' = AddRefBy(DelRefBy(moved, name, Refs(tags[name].def)), new, Refs(tags[name].def))
    /\ jobs' = Stale(jobs, name)
    /\ UNCHANGED <<settings, known, queue, nextID, allS, files, indexes, use, flags, during, unmerge, views, toConv, cache>>

\* a rejected call: nothing changes (what the property demands; the harness reports what the code did)
Rejected == UNCHANGED vars

-----------------------------------------------------------------------------
(* ---------- settings: webhooks, PCAP-over-IP endpoints, Config (manager.go SetConfig, Add/DelPcapProcessorWebhook,
   Add/DelPcapOverIPEndpoint).  Each call saves the state file before it returns. ---------- *)
SeqWithout(s, x) == LET RECURSIVE go(_)
                        go(i) == IF i > Len(s) THEN <<>> ELSE (IF s[i] = x THEN <<>> ELSE <<s[i]>>) \o go(i + 1)
                    IN go(1)
OtherUnchanged == UNCHANGED <<known, queue, nextID, allS, files, indexes, use, tags, flags, during, unmerge, jobs, views, toConv, cache>>
AddHookOK(u) == u \notin Range(settings.hooks)
AddHook(u)   == AddHookOK(u) /\ settings' = [settings EXCEPT !.hooks = Append(@, u)] /\ OtherUnchanged
DelHookOK(u) == u \in Range(settings.hooks)
DelHook(u)   == DelHookOK(u) /\ settings' = [settings EXCEPT !.hooks = SeqWithout(@, u)] /\ OtherUnchanged
\* an address must be host:port (net.SplitHostPort)
AddrValid(a) == \E i \in 1 .. Len(a) : SubSeq(a, i, i) = ":"
AddEndpointOK(a) == AddrValid(a) /\ a \notin Range(settings.eps)
AddEndpoint(a)   == AddEndpointOK(a) /\ settings' = [settings EXCEPT !.eps = Append(@, a)] /\ OtherUnchanged
DelEndpointOK(a) == a \in Range(settings.eps)
DelEndpoint(a)   == DelEndpointOK(a) /\ settings' = [settings EXCEPT !.eps = SeqWithout(@, a)] /\ OtherUnchanged
SetConfig(b)     == settings' = [settings EXCEPT !.cfg = b] /\ OtherUnchanged

-----------------------------------------------------------------------------
(* ---------- views ---------- *)
\* View.fetch (manager.go:2303-2326): snapshot of the index list (locked) and of every tag's matches
ViewOpen(v) ==
    /\ v \notin DOMAIN views
    /\ views' = With(views, v, [idx |-> indexes, td |-> [t \in DOMAIN tags |-> [M |-> tags[t].M, U |-> tags[t].U]]])
    /\ use' = LockSeq(use, indexes)
    /\ UNCHANGED <<settings, known, queue, nextID, allS, files, indexes, tags, flags, during, unmerge, jobs, toConv, cache>>
ViewRelease(v) ==
    /\ v \in DOMAIN views
    /\ LET rel == ReleaseSeq(use, files, views[v].idx) IN use' = rel[1] /\ files' = rel[2]
    /\ views' = Without(views, v)
    /\ UNCHANGED <<settings, known, queue, nextID, allS, indexes, tags, flags, during, unmerge, jobs, toConv, cache>>
\* StreamContext.Data(converter) (manager.go:2552-2577): converts on demand, outside the loop, from the view's snapshot
\* A conversion that stored new output posts a closure to the service loop, which reopens the tags with payload
\* filters for that stream (they search cached output too).  The cache write and the closure are one step here: the
\* window between them is the same transient as known finding C06.*:convjob and cannot be observed without a hook.
ViewConvert(v, s, c, pick) ==
    /\ v \in DOMAIN views /\ c \in DOMAIN cache
    /\ \E e \in Visible(views[v].idx) : e[1] = s
    /\ IF \E x \in cache[c] : x[1] = s
       THEN UNCHANGED <<cache, tags, flags, during, jobs, use, toConv>>
       ELSE LET ver == (CHOOSE e \in Visible(views[v].idx) : e[1] = s)[3]
                hit == {s} \cap allS
                tg1 == Inherit([t \in DOMAIN tags |->
                            IF ~FeatPayload(tags[t].def) THEN tags[t]
                            ELSE IF FeatSub(tags[t].def) /\ hit # {} THEN [tags[t] EXCEPT !.U = allS]
                            ELSE [tags[t] EXCEPT !.U = @ \cup hit]], allS)
                b0 == Bundle(tg1, flags, jobs, use, [during EXCEPT !.upd = @ \cup hit], toConv)
            IN /\ cache' = [cache EXCEPT ![c] = @ \cup {<<s, ver>>}]
               /\ pick \in TagPicks(tg1, flags)
               /\ Install(StartTag(b0, indexes, pick))
    /\ UNCHANGED <<settings, known, queue, nextID, allS, files, indexes, unmerge, views>>

-----------------------------------------------------------------------------
(* ---------- process kill and restart (manager.go:233-466, New; builder.go:37-97) ----------
   What a kill leaves behind is the data directory: the index files (complete ones; a file a job was still
   writing is cut short and is skipped by the loader), the converter caches, the capture directory (every
   uploaded capture, processed or only queued) and the newest complete state file with the tag table
   (definition, matches, converter attachments, colour) as of the last closure that saved it.
   New() serves every loadable index file in file-name order, derives nextStreamID from them, marks every
   non-mark tag completely uncertain (marks are re-derived from their definition), queues the saved matches
   of tags with converters, and runs the three start...IfNeeded calls.  Captures that were only queued are known
   to the new builder (it lists the directory) but are never imported.
     ord : the loadable index files in file-name order     T : the tag table that is loaded *)
Durable(tg) == [t \in DOMAIN tg |-> [def |-> tg[t].def, M |-> tg[t].M, convs |-> tg[t].convs, color |-> tg[t].color]]
AfterRestart(F, ord, T, ca, kn, q, pick) ==
    LET ents == UNION {ContentOf(F, ord[i]) : i \in DOMAIN ord}
        nxt  == IF ents = {} THEN 0 ELSE Max(IdsOf(ents)) + 1
        all  == 0 .. (nxt - 1)
        tg0  == [t \in DOMAIN T |->
                    [def |-> T[t].def,
                     M |-> IF IsMarkName(t) THEN MarkIDs(T[t].def, nxt) ELSE T[t].M,
                     U |-> IF IsMarkName(t) THEN {} ELSE all,
                     convs |-> T[t].convs \cap DOMAIN ca,           \* (an attachment to a converter that is gone is dropped)
                     refBy |-> {u \in DOMAIN T : t \in Refs(T[u].def)},
                     color |-> T[t].color]]
        tc0  == [c \in DOMAIN ca |-> UNION {tg0[t].M : t \in {u \in DOMAIN tg0 : c \in tg0[u].convs}}]
        b0   == Bundle(tg0, [merge |-> FALSE, tag |-> FALSE, conv |-> FALSE],
                       [k \in {"import", "tag", "merge", "conv"} |-> NoJob(k)],
                       LockSeq(<<>>, ord), [upd |-> {}, res |-> {}, add |-> {}, inv |-> {}], tc0)
        b1   == StartTag(b0, ord, IF pick \in DOMAIN tg0 THEN pick ELSE "")      \* (total: records are evaluated eagerly)
        b2   == StartConv(b1, ord)
    IN [known |-> kn \cup {k \in Range(q) : ~Bad(k)}, nextID |-> nxt, allS |-> all, indexes |-> ord, tg0 |-> tg0,
        bundle |-> StartMerge(b2, ord, F, 0)]
\* S: the settings of the state file that is loaded (the endpoints come back as a set: New() ranges over a map)
Restart(ord, T, S, pick) ==
    LET n == AfterRestart(files, ord, T, cache, known, queue, pick) IN
    /\ Range(ord) \subseteq DOMAIN files
    /\ pick \in TagPicks(n.tg0, [merge |-> FALSE, tag |-> FALSE, conv |-> FALSE])
    /\ known' = n.known /\ queue' = <<>> /\ nextID' = n.nextID /\ allS' = n.allS
    /\ indexes' = n.indexes /\ unmerge' = 0 /\ views' = <<>>
    /\ Install(n.bundle)
    /\ settings' \in [hooks : {S.hooks}, cfg : {S.cfg}, eps : Perms(S.eps)]
    /\ UNCHANGED <<files, cache>>

-----------------------------------------------------------------------------
(* ---------- the event stream (Manager.Listen, manager.go event()) ----------
   Every closure of the service loop tells the listeners what it did.  A listener that is ready gets the event at
   once; for a busy one event() starts a goroutine per event, so the order in which the events of one closure (or of
   closures in quick succession) arrive is not defined: a step announces a *set* of events.
   The events carry a summary of the state after the step (the web client updates its tables from it):
     pcapArrived                                                     ImportPcaps
     pcapProcessed, indexesMerged : a = queued captures, b = streams numbered so far, c = served index files
     tagAdded    n : a = matching, b = uncertain                     AddTag, UpdateTag (new name)
     tagDeleted  n                                                   DelTag, UpdateTag (old name)
     converterCompleted n : a = streams with cached output           completion of a converter job (per converter still
                                                                     installed), on-demand conversion that stored output
     configUpdated, webhooksUpdated (l = the list), pcapOverIPEndpointsUpdated (a = number of endpoints)
   tagUpdated (a ticker collects the names of changed tags) and the converter directory events (file system watcher)
   are not tied to a step and are left out.
   Announced(kind, ok, name, new, c) is an action-level expression: it reads the state before and after the step. *)
Evt(t, n, a, b, c, lst) == [t |-> t, n |-> n, a |-> a, b |-> b, c |-> c, l |-> lst]
EvtStats(t)      == Evt(t, "", Len(queue'), nextID', Len(indexes'), <<>>)
EvtTagAdded(n)   == Evt("tagAdded", n, Cardinality(tags'[n].M), Cardinality(tags'[n].U), 0, <<>>)
EvtTagDeleted(n) == Evt("tagDeleted", n, 0, 0, 0, <<>>)
EvtConv(c)       == Evt("converterCompleted", c, Cardinality(cache'[c]), 0, 0, <<>>)
Announced(kind, ok, name, new, c) ==
    IF ~ok THEN {}                                      \* a rejected call announces nothing
    ELSE CASE kind = "ApiImport"   -> {Evt("pcapArrived", "", 0, 0, 0, <<>>)}
           [] kind = "ImportDone"  -> {EvtStats("pcapProcessed")}
           [] kind = "MergeDone"   -> {EvtStats("indexesMerged")}                      \* (also when the merge had failed)
           [] kind = "AddTag"      -> {EvtTagAdded(name)}
           [] kind = "DelTag"      -> {EvtTagDeleted(name)}
           [] kind = "UpdName"     -> IF new = "" \/ new = name THEN {} ELSE {EvtTagDeleted(name), EvtTagAdded(new)}
           [] kind = "ConvDone"    -> {EvtConv(x) : x \in DOMAIN jobs.conv.ids \cap DOMAIN cache'}
           [] kind = "ViewConvert" -> IF c \in DOMAIN cache /\ c \in DOMAIN cache' /\ cache'[c] # cache[c] THEN {EvtConv(c)} ELSE {}
           [] kind = "SetConfig"   -> {Evt("configUpdated", "", 0, 0, 0, <<>>)}
           [] kind \in {"AddHook", "DelHook"} -> {Evt("webhooksUpdated", "", 0, 0, 0, settings'.hooks)}
           [] kind \in {"AddEndpoint", "DelEndpoint"} -> {Evt("pcapOverIPEndpointsUpdated", "", Len(settings'.eps), 0, 0, <<>>)}
           [] OTHER -> {}

-----------------------------------------------------------------------------
(* ---------- properties ---------- *)
\* from-scratch truth of every tag on the current data (bottom-up through references)
RECURSIVE TruthOf(_, _, _)
TruthOf(tg, vis, t) ==
    LET td == [r \in Refs(tg[t].def) |-> TruthOf(tg, vis, r)]
    IN {e[1] : e \in {x \in vis : Eval(tg[t].def, x[1], x[2], x[3], td, vis, CachedVersions(x[1]))}}

\* C06: a decided answer is a correct answer
NeverStaleFor(tg, vis, truth) ==
    \A t \in DOMAIN tg : \A e \in vis :
        e[1] \notin tg[t].U => ((e[1] \in tg[t].M) <=> (e[1] \in truth[t]))
NeverStale ==
    LET vis == Visible(indexes) IN
    NeverStaleFor(tags, vis, [t \in DOMAIN tags |-> TruthOf(tags, vis, t)])

\* while a converter job is in flight its output is already in the cache (written outside the service loop) but the tags
\* with payload filters only learn about it when the job completes
NeverStaleAtRest == ~flags.conv => NeverStale

\* C11: the tag graph
GraphWellFormed ==
    /\ \A t \in DOMAIN tags : Refs(tags[t].def) \subseteq DOMAIN tags \ {t}
    /\ \A t \in DOMAIN tags : ~Reaches(tags, t, t)
    /\ \A t \in DOMAIN tags : tags[t].refBy = {u \in DOMAIN tags : t \in Refs(tags[u].def)}

\* C13: reference counts
Holders == \* every snapshot that must keep its files alive
    {jobs[k].idx : k \in {kk \in {"import", "tag", "merge", "conv"} : jobs[kk].phase # "none"}}
HeldSeqs == [k \in {kk \in {"import", "tag", "merge", "conv"} : jobs[kk].phase # "none"} |-> jobs[k].idx]
NoUseAfterFree ==
    /\ \A k \in DOMAIN HeldSeqs : Range(HeldSeqs[k]) \subseteq DOMAIN files
    /\ \A v \in DOMAIN views : Range(views[v].idx) \subseteq DOMAIN files
    /\ Range(indexes) \subseteq DOMAIN files
Balanced ==
    \A f \in DOMAIN files \cup DOMAIN use :
        UseOf(use, f) = Cardinality({i \in DOMAIN indexes : indexes[i] = f})
                      + Cardinality({k \in DOMAIN HeldSeqs : f \in Range(HeldSeqs[k])})
                      + Cardinality({v \in DOMAIN views : f \in Range(views[v].idx)})
Quiet == /\ \A k \in DOMAIN jobs : jobs[k].phase = "none"
         /\ views = <<>>
\* at quiescence the directory holds exactly the served files (+ nothing else)
DirExactWhenQuiet == Quiet => DOMAIN files = Range(indexes)
\* a file that nobody uses any more does not stay (merge output not yet installed is the only exception)
NoLeak == \A f \in DOMAIN files : UseOf(use, f) > 0 \/ f = jobs.merge.file \/ f = jobs.import.file

\* C10: a view (and the live index list) shows every processed connection once, in its newest version
Processed == known \ Range(queue)          \* captures whose ImportDone has run
CompleteFor(fseq, K) ==
    LET vis == Visible(fseq) IN
    /\ \A c \in ConnsOf(K) : Cardinality({e \in vis : e[2] = c}) = 1
    /\ \A e \in vis : Pieces[e[2]] \cap K \subseteq e[3]
ViewComplete == CompleteFor(indexes, Processed)
\* ids are stable and unique per connection (C08 at service level)
OneIdPerConn == \A e1, e2 \in Entries(indexes) : e1[2] = e2[2] => e1[1] = e2[1]

\* C16: cached converter output belongs to the stream's current data
ConvFresh ==
    \A c \in DOMAIN cache : \A x \in cache[c] :
        \A e \in Visible(indexes) : e[1] = x[1] => e[3] = x[2]
\* ... which the service guarantees whenever no converter job is in flight (a job that started before an import
\* writes output of the old data; its completion drops it again: known finding C16.ConvFresh@ConvCompute)
ConvFreshAtRest == ~flags.conv => ConvFresh
\* at quiescence every stream matching a tag with an attached converter has output
ConvComplete ==
    \A t \in DOMAIN tags : \A c \in tags[t].convs : c \in DOMAIN cache =>
        \A e \in Visible(indexes) : e[1] \in tags[t].M => \E x \in cache[c] : x[1] = e[1]
\* a converter that is attached to no tag has nothing queued
DetachStops == \A c \in DOMAIN toConv : (\A t \in DOMAIN tags : c \notin tags[t].convs) => toConv[c] = {}

\* C09: nothing left to do and nothing running
Settled ==
    /\ queue = <<>>
    /\ \A k \in DOMAIN jobs : jobs[k].phase = "none"
    /\ ~flags.merge /\ ~flags.tag /\ ~flags.conv
    /\ \A t \in DOMAIN tags : tags[t].U = {}
    /\ \A c \in DOMAIN toConv : toConv[c] = {}
\* (A merge that is eligible but was not started - the converter job's completion does not call
\*  startMergeJobIfNeeded - is not part of the claim: nothing further starts by itself.)
MergePending == MergeOffset(tags, flags, indexes, files, unmerge) # 0
\* no job in flight but work remains: the service is stuck
Stuck ==
    /\ \A k \in DOMAIN jobs : jobs[k].phase = "none"
    /\ ~Settled
NeverStuck == ~Stuck
ConvEventually == Settled => ConvComplete
FlagsMatchJobs ==
    /\ flags.tag = (jobs.tag.phase # "none")
    /\ flags.merge = (jobs.merge.phase # "none")
    /\ flags.conv = (jobs.conv.phase # "none")
    /\ (queue # <<>>) = (jobs.import.phase # "none")
=============================================================================

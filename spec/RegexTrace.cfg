SPECIFICATION TraceSpec
CONSTANTS
  Sigma = {"a", "b"}
  L = 5
  Leaves = {}
  UnOps = {}
  Pool = {}
  MaxDepth = 0
  MaxSize = 0
  Block = 50
INVARIANT Checked

------------------------------- MODULE Upload -------------------------------
(* C19 - the file endpoints of cmd/pkappa2/main.go (POST /upload/{filename},
   GET /api/download/pcap/{file}) against a three-zone file system.

   Part 1 (UploadProps.tla) holds the property predicates.  They are pure operators over
   a "before" and an "after" file-system value  [inside, base, outer]  and over what
   one request (or one concurrent pair of requests) reported.  The same operators
   are evaluated by TLC on the states of the model below (UploadMC*.cfg) and on the
   rows recorded from the real router (UploadTrace.tla).

   Part 2 is the model: a resolution function (what the server makes of a written
   path: invalid, or one name inside the capture directory - fixed the first time
   the path is used), atomic sequential requests, and uploader processes with the
   steps open-exclusive / copy (two halves) / close / enqueue / abort, interleaved
   by TLC.  UploadMC.cfg checks the concurrent claim exhaustively and prints every
   terminal interleaving with the outcome the model assigns to it; these are
   replayed as schedules on the real router. *)
EXTENDS UploadProps, TLC, Json

\* Part 1 (the property predicates) lives in UploadProps.tla.

\* ===================================================================== Part 2
CONSTANTS Classes,      \* path classes (strings); "plain" is the ordinary file name
          Stems,        \* abstract file stems
          Exts,         \* abstract suffixes
          Variants,     \* number of concrete spellings distinguished per class
          Uploaders,    \* concurrent uploader processes (strings)
          PairPaths,    \* paths the uploaders may use
          Exclusive     \* TRUE: create with O_EXCL (the design); FALSE: check, then create and rename

VARIABLES fs,       \* [inside, base, outer]
          queue,    \* names queued for import, in order
          res,      \* path -> resolution, fixed at first use
          stable,   \* name -> content for every file whose upload was acknowledged (or that pre-existed)
          up,       \* uploader -> [pc, p, b, name, ok]
          sched,    \* history of uploader steps (part of the state: every interleaving is a state)
          fs0       \* the file system before the uploaders started

vars == <<fs, queue, res, stable, up, sched, fs0>>

Paths    == [cls : Classes, nm : Stems, ext : Exts, v : 0 .. (Variants - 1)]
Invalid  == "<invalid>"
Canon(p) == p.nm \o "." \o p.ext
Lit(p)   == p.cls \o ":" \o p.nm \o "." \o p.ext \o "#" \o ToString(p.v)
\* what the server may make of a written path: an ordinary name is itself; anything else is
\* refused, or taken literally, or reduced to an ordinary name - never something outside
Resolutions(p) == IF p.cls = "plain" THEN {Canon(p)} ELSE {Invalid, Canon(p), Lit(p)}
Resolve(p, r)  == r \in Resolutions(p) /\ (p \in DOMAIN res => r = res[p])
Learn(p, r)    == IF p \in DOMAIN res THEN res ELSE (p :> r) @@ res

Base0  == ("secret" :> "s-base")
Outer0 == ("secret" :> "s-outer")
BodyOf(u) == "body-" \o u
Half(b)   == b \o "~half"

\* ---- atomic (sequential) requests
SeqUpload(p, b) ==
    \E r \in Resolutions(p) :
        /\ Resolve(p, r) /\ res' = Learn(p, r)
        /\ IF r = Invalid \/ r \in DOMAIN fs.inside
             THEN UNCHANGED <<fs, queue, stable>>
             ELSE /\ fs' = [fs EXCEPT !.inside = (r :> b) @@ @]
                  /\ queue' = Append(queue, r)
                  /\ stable' = (r :> b) @@ stable
        /\ UNCHANGED <<up, sched, fs0>>
SeqDownload(p) ==
    \E r \in Resolutions(p) : Resolve(p, r) /\ res' = Learn(p, r) /\ UNCHANGED <<fs, queue, stable, up, sched, fs0>>

\* ---- uploader processes
Step(u, what) == sched' = Append(sched, [u |-> u, s |-> what])
Done(u, ok)   == [up[u] EXCEPT !.pc = "done", !.ok = ok]

UOpen(u) ==
    /\ up[u].pc = "idle"
    /\ \E r \in Resolutions(up[u].p) :
        /\ Resolve(up[u].p, r) /\ res' = Learn(up[u].p, r)
        /\ IF r = Invalid \/ r \in DOMAIN fs.inside
             THEN up' = [up EXCEPT ![u] = Done(u, FALSE)] /\ UNCHANGED fs
             ELSE /\ up' = [up EXCEPT ![u] = [@ EXCEPT !.pc = "copy0", !.name = r]]
                  /\ fs' = IF Exclusive THEN [fs EXCEPT !.inside = (r :> "") @@ @] ELSE fs
    /\ Step(u, "open") /\ UNCHANGED <<queue, stable, fs0>>
\* the file (or, without O_EXCL, a private temporary file) receives the body in two halves
UCopy(u, from, to, content) ==
    /\ up[u].pc = from
    /\ up' = [up EXCEPT ![u] = [@ EXCEPT !.pc = to]]
    /\ fs' = IF Exclusive THEN [fs EXCEPT !.inside[up[u].name] = content] ELSE fs
    /\ UNCHANGED <<queue, stable, res, fs0>>
UCopyHalf(u) == UCopy(u, "copy0", "copy1", Half(up[u].b)) /\ Step(u, "half")
UCopyRest(u) == UCopy(u, "copy1", "close", up[u].b) /\ Step(u, "rest")
UClose(u) ==
    /\ up[u].pc = "close"
    /\ up' = [up EXCEPT ![u] = [@ EXCEPT !.pc = "enq"]]
    /\ fs' = IF Exclusive THEN fs      \* rename over whatever is there
             ELSE [fs EXCEPT !.inside = [n \in DOMAIN @ \cup {up[u].name} |->
                                            IF n = up[u].name THEN up[u].b ELSE @[n]]]
    /\ Step(u, "close") /\ UNCHANGED <<queue, stable, res, fs0>>
UEnqueue(u) ==
    /\ up[u].pc = "enq"
    /\ queue' = Append(queue, up[u].name)
    /\ up' = [up EXCEPT ![u] = Done(u, TRUE)]
    /\ stable' = IF up[u].name \in DOMAIN stable THEN stable ELSE (up[u].name :> up[u].b) @@ stable
    /\ Step(u, "enq") /\ UNCHANGED <<fs, res, fs0>>
\* the client goes away while the body is being copied: the handler removes what it created
UAbort(u) ==
    /\ up[u].pc \in {"copy0", "copy1"}
    /\ up' = [up EXCEPT ![u] = Done(u, FALSE)]
    /\ fs' = IF Exclusive THEN [fs EXCEPT !.inside = [n \in DOMAIN @ \ {up[u].name} |-> @[n]]] ELSE fs
    /\ Step(u, "abort") /\ UNCHANGED <<queue, stable, res, fs0>>

UNext == \E u \in Uploaders : UOpen(u) \/ UCopyHalf(u) \/ UCopyRest(u) \/ UClose(u) \/ UEnqueue(u) \/ UAbort(u)

\* two uploaders; the contested name may or may not be stored already
MCInit ==
    /\ \E pre \in BOOLEAN, ps \in [Uploaders -> PairPaths] :
        /\ fs = [inside |-> IF pre THEN (Canon(ps[CHOOSE u \in Uploaders : TRUE]) :> "old") ELSE <<>>,
                 base |-> Base0, outer |-> Outer0]
        /\ up = [u \in Uploaders |-> [pc |-> "idle", p |-> ps[u], b |-> BodyOf(u), name |-> "", ok |-> FALSE]]
    /\ fs0 = fs /\ stable = fs.inside
    /\ queue = <<>> /\ res = <<>> /\ sched = <<>>
MCSpec == MCInit /\ [][UNext]_vars

\* ---- the properties, on the model
AllDone      == \A u \in Uploaders : up[u].pc = "done"
MC_InsideOnly  == InsideOnly(fs0, fs)
MC_NoOverwrite == NoOverwrite([inside |-> stable], fs)
MC_TypeOK      == /\ DOMAIN fs.inside \subseteq {Canon(p) : p \in Paths} \cup {Lit(p) : p \in Paths}
                  /\ RangeOf(queue) \subseteq DOMAIN fs.inside
\* at rest, every pair of uploaders satisfies the pair predicates of Part 1
MC_Pairs ==
    AllDone => \A u1, u2 \in Uploaders : u1 # u2 =>
        LET same == up[u1].p = up[u2].p
            winners == {u \in {u1, u2} : up[u].ok}
        IN /\ AtMostOneSuccess(same, up[u1].ok, up[u2].ok)
           /\ (Cardinality(Uploaders) = 2 =>
                 /\ LoserChangesNothing(fs0, fs, up[u1].ok, up[u2].ok, up[u1].b, up[u2].b)
                 /\ PairQueued(fs0, fs, up[u1].ok, up[u2].ok, Len(queue), queue))
\* two successes never share a stored name
MC_OneWinnerPerName ==
    \A u1, u2 \in Uploaders : (u1 # u2 /\ up[u1].ok /\ up[u2].ok) => up[u1].name # up[u2].name

\* every terminal interleaving, with the outcome the model assigns to it (read by the runner)
MC_Emit ==
    AllDone => PrintT("@@J" \o ToJson([sched |-> sched, pre |-> (DOMAIN fs0.inside # {}),
                                       paths |-> [u \in Uploaders |-> up[u].p],
                                       ok |-> [u \in Uploaders |-> up[u].ok],
                                       names |-> [u \in Uploaders |-> up[u].name],
                                       nqueued |-> Len(queue)]))
=============================================================================

----------------------------- MODULE QueryGrammar -----------------------------
(* C14 - the query parser is total.

   The token language of internal/query/parser.go (lexer rules lines 75-131, grammar
   structs lines 29-48) and the value sub-grammars of valueparser.go as a GENERATOR
   state machine, plus DNFSize(ast): the largest intermediate number of conjuncts the
   normaliser of conditions.go builds for an expression (Or appends, And/then build all
   pairs, invert multiplies the inversion widths of the literals of every conjunct;
   ConditionsSet.Clean runs once, at the end of Parse, so nothing is simplified between
   the steps), and DNFVolume(ast): the largest intermediate number of literals.  The final
   Clean compares every pair of conjuncts and re-cleans their union, i.e. it costs about
   conjuncts^2 x literals-per-conjunct; "moderate size" (Moderate) therefore bounds both:
   at most Cap conjuncts and at most VolCap literals.

   Three generator modes (constant Mode):
     "value"  : one term  [-][@a:]key[.conv]:VALUE ; VALUE is every sequence of symbols
                of the value grammar VK up to MaxLen symbols.  The alphabets contain the
                MALFORMED members of every class (overflowing numbers, variables of the
                wrong kind, unterminated variables, masks like /-40 /200, empty ranges ...).
     "tokens" : every sequence of token KINDS up to MaxLen (grammatical or not); term
                slots are filled from a palette by a seeded hash, so that every
                kind-combination is generated exactly once.
     "pairs"  : every ordered pair of palette terms, joined by juxtaposition (AND), "or",
                "then", or juxtaposition with the second one negated (class combinations at
                the term level: long lists x flags, variables x variables, ...).
     "sim"    : tlc -simulate; random sequences of full tokens up to depth MaxLen.
   Gram = TRUE restricts "tokens" and "sim" to viable prefixes of the grammar (every
   sequence grammatical); FALSE enumerates every sequence (malformed structure).
   Every finished sequence is printed once as one JSON line ("@@J" prefix) together with
   the lexer-level token sequence the real lexer must produce for its canonical
   concretisation, whether it is grammatical, and DNFSize when it is.

   The operators ParseTokens / DNFSize are reused by QueryGrammarTrace.tla, which evaluates
   the property predicates on what the real parser did.

   Text placeholders (expanded by the harness, so that no JSON escaping is needed):
   <DQ> = double quote, <BS> = backslash, <MU> = micro sign. *)
EXTENDS Integers, Sequences, FiniteSets, TLC, Json

CONSTANTS Mode, MaxLen, Seed, VK, Alpha, Hdrs, Gram
VARIABLES seq, hd, done

vars == <<seq, hd, done>>

Cap == 300                       \* "a few hundred conjuncts"
VolCap == 2000                   \* ... of a handful of literals each (literals of the largest intermediate form)

Max2(a, b) == IF a >= b THEN a ELSE b

\* =========================================================================================
\* 1. DNFSize - transcription of the normaliser's algebra (conditions.go 438-533, 895-996)
\* =========================================================================================
(* A ConditionsSet is a sequence of conjuncts, a conjunct a sequence of literals, a literal
   an integer:  0 = tag/host/number/time literal (inverts to ONE conjunct of one literal),
               -1 = flag literal (FlagCondition.invert: one conjunct of the 3 other values),
              e>0 = data literal with e elements (DataCondition.invert: e conjuncts).
   Conjunct-level cleaning (Conditions.clean, called from and()) never adds literals, so
   every count below is an upper bound of what the code holds at the same step.            *)

KeysTag   == {"tag", "service", "mark", "generated"}
KeysProto == {"protocol"}
KeysHost1 == {"chost", "shost"}
KeysHost2 == {"host"}
KeysNum1  == {"id", "cport", "sport", "cbytes", "sbytes"}
KeysNum2  == {"port", "bytes"}
KeysTime  == {"ftime", "ltime", "time"}
KeysData1 == {"cdata", "sdata"}
KeysData2 == {"data"}
KeysData  == KeysData1 \cup KeysData2
AllKeys   == KeysTag \cup KeysProto \cup KeysHost1 \cup KeysHost2 \cup KeysNum1 \cup KeysNum2
             \cup KeysTime \cup KeysData

Rep(n, c) == [i \in 1 .. n |-> c]

\* queryTerm.QueryConditions (conditions.go:535-893): n = number of list elements
TermSet(key, n) ==
    CASE key \in KeysTag   -> Rep(n, <<0>>)
      [] key \in KeysProto -> Rep(n, <<-1, -1, -1>>)
      [] key \in KeysHost1 -> Rep(n, <<0>>)
      [] key \in KeysHost2 -> Rep(2 * n, <<0>>)
      [] key \in KeysNum1  -> Rep(n, <<0, 0>>)
      [] key \in KeysNum2  -> Rep(2 * n, <<0, 0>>)
      [] key \in KeysTime  -> Rep(n, <<0, 0>>)
      [] key \in KeysData1 -> << <<1>> >>
      [] key \in KeysData2 -> << <<1>>, <<1>> >>
      [] OTHER             -> <<>>

\* max = largest number of conjuncts, vol = largest number of literals (sum over the conjuncts)
\* of any intermediate set
BIG == [big |-> TRUE, set |-> <<>>, max |-> Cap + 1, vol |-> 0]
RECURSIVE LitsFrom(_, _)
LitsFrom(set, i) == IF i > Len(set) THEN 0 ELSE Len(set[i]) + LitsFrom(set, i + 1)
Res(set, m, v) == IF Len(set) > Cap THEN BIG
                  ELSE [big |-> FALSE, set |-> set, max |-> Max2(m, Len(set)), vol |-> Max2(v, LitsFrom(set, 1))]

IsData(l) == l > 0
NonData(c) == SelectSeq(c, LAMBDA l : l <= 0)
Data(c)    == SelectSeq(c, LAMBDA l : l > 0)

RECURSIVE Flatten(_)
Flatten(ss) == IF ss = <<>> THEN <<>> ELSE Head(ss) \o Flatten(Tail(ss))

\* Conditions.and : concatenation (then cleaned; cleaning only removes)
AndConj(a, b) == a \o b
\* Conditions.then (conditions.go:913-951): data literals of a are chained with those of b
ThenConj(a, b) ==
    LET da == Data(a)  db == Data(b) IN
    NonData(a) \o NonData(b) \o
    (IF da = <<>> \/ db = <<>> THEN da \o db
     ELSE Flatten([i \in 1 .. Len(da) |-> <<da[i]>> \o [j \in 1 .. Len(db) |-> da[i] + db[j]]]))

\* ConditionsSet.And / then (953-987): empty operand is the identity, else all pairs
PairSets(a, b, then) ==
    [i \in 1 .. (Len(a) * Len(b)) |->
        LET x == a[((i - 1) \div Len(b)) + 1]  y == b[((i - 1) % Len(b)) + 1]
        IN IF then THEN ThenConj(x, y) ELSE AndConj(x, y)]

Pairs(ra, b, then) ==
    IF ra.big THEN BIG
    ELSE IF ra.set = <<>> THEN Res(b, ra.max, ra.vol)
    ELSE IF b = <<>> THEN ra
    ELSE IF Len(ra.set) * Len(b) > Cap THEN BIG
    ELSE Res(PairSets(ra.set, b, then), ra.max, ra.vol)

\* Condition.invert of one literal (438-533)
InvLit(l) == IF l = 0 THEN << <<0>> >>
             ELSE IF l = -1 THEN << <<-1, -1, -1>> >>
             ELSE [i \in 1 .. l |-> <<i>>]
\* Conditions.invert (895-902): Or over the literals
InvConj(c) == Flatten([i \in 1 .. Len(c) |-> InvLit(c[i])])

\* ConditionsSet.invert (904-911): conds = {} ; for every conjunct: conds = conds.And(cc.invert())
RECURSIVE InvFrom(_, _, _)
InvFrom(acc, s, i) ==
    IF acc.big \/ i > Len(s) THEN acc
    ELSE LET w == InvConj(s[i]) IN
         IF Len(w) > Cap THEN BIG
         ELSE InvFrom(Pairs([acc EXCEPT !.max = Max2(acc.max, Len(w)), !.vol = Max2(acc.vol, LitsFrom(w, 1))],
                            w, FALSE), s, i + 1)

(* AST:  <<"nil">>            sort:/limit:/group: (no condition)
         <<"term", key, n>>
         <<"not", a>>   <<"or", <<a, ...>>>>   <<"and", <<...>>>>   <<"then", <<...>>>>       *)
RECURSIVE Eval(_), FoldOr(_, _, _), FoldPairs(_, _, _, _)

FoldOr(acc, xs, i) ==
    IF acc.big \/ i > Len(xs) THEN acc
    ELSE LET r == Eval(xs[i]) IN
         IF r.big THEN BIG
         ELSE FoldOr(Res(acc.set \o r.set, Max2(acc.max, r.max), Max2(acc.vol, r.vol)), xs, i + 1)

FoldPairs(acc, xs, i, then) ==
    IF acc.big \/ i > Len(xs) THEN acc
    ELSE LET r == Eval(xs[i]) IN
         IF r.big THEN BIG
         ELSE FoldPairs(Pairs([acc EXCEPT !.max = Max2(acc.max, r.max), !.vol = Max2(acc.vol, r.vol)], r.set, then),
                        xs, i + 1, then)

Eval(a) ==
    CASE a[1] = "nil"  -> Res(<<>>, 0, 0)
      [] a[1] = "term" -> Res(TermSet(a[2], a[3]), 0, 0)
      \* ConditionsSet.invert cleans after every And step: negating a negation gives back (a cleaned form of) what was
      \* negated, through intermediate sets no larger than those of the inner negation
      [] a[1] = "not" /\ a[2][1] = "not" ->
                          LET inner == Eval(a[2]) r == Eval(a[2][2]) IN
                          IF inner.big \/ r.big THEN BIG ELSE Res(r.set, Max2(inner.max, r.max), Max2(inner.vol, r.vol))
      [] a[1] = "not"  -> LET r == Eval(a[2]) IN
                          IF r.big THEN BIG ELSE InvFrom(Res(<<>>, r.max, r.vol), r.set, 1)
      [] a[1] = "or"   -> FoldOr(Res(<<>>, 0, 0), a[2], 1)
      [] a[1] = "and"  -> FoldPairs(Res(<<>>, 0, 0), a[2], 1, FALSE)
      [] a[1] = "then" -> FoldPairs(Res(<<>>, 0, 0), a[2], 1, TRUE)

\* the largest intermediate number of conjuncts, saturating at Cap + 1
DNFSize(ast) == Eval(ast).max
\* the largest intermediate number of literals (0 when DNFSize is beyond the bound)
DNFVolume(ast) == Eval(ast).vol

\* =========================================================================================
\* 2. The token grammar (parser.go:29-48) over LEXER-level tokens  [k, key, n]
\*    k: neg lp rp or and then sub key conv val sortkey limitkey groupkey
\* =========================================================================================
Fail == [ok |-> FALSE, ast |-> <<"nil">>, pos |-> 0]
Ok(a, p) == [ok |-> TRUE, ast |-> a, pos |-> p]
KindAt(s, i) == IF i >= 1 /\ i <= Len(s) THEN s[i].k ELSE "eof"

CondStart == {"neg", "lp", "sub", "key", "sortkey", "limitkey", "groupkey"}

RECURSIVE POr(_, _), POrRest(_, _, _), PAnd(_, _), PAndRest(_, _, _),
          PThen(_, _), PThenRest(_, _, _), PCond(_, _)

\* queryCondition
PCond(s, i) ==
    LET k == KindAt(s, i) IN
    CASE k = "neg" -> LET r == PCond(s, i + 1) IN IF r.ok THEN Ok(<<"not", r.ast>>, r.pos) ELSE Fail
      [] k = "lp"  -> LET r == POr(s, i + 1) IN
                      IF r.ok /\ KindAt(s, r.pos) = "rp" THEN Ok(r.ast, r.pos + 1) ELSE Fail
      [] k = "sub" -> IF KindAt(s, i + 1) = "key" THEN PCond(s, i + 1) ELSE Fail
      [] k = "key" -> LET j == IF KindAt(s, i + 1) = "conv" THEN i + 2 ELSE i + 1 IN
                      IF KindAt(s, j) = "val" THEN Ok(<<"term", s[i].key, s[j].n>>, j + 1) ELSE Fail
      [] k \in {"sortkey", "limitkey", "groupkey"} ->
                      IF KindAt(s, i + 1) = "val" THEN Ok(<<"nil">>, i + 2) ELSE Fail
      [] OTHER -> Fail

\* queryThenCondition:  @@ ( OperatorThen @@ )*
PThen(s, i) == LET r == PCond(s, i) IN IF r.ok THEN PThenRest(s, r.pos, <<r.ast>>) ELSE Fail
PThenRest(s, i, acc) ==
    IF KindAt(s, i) = "then"
    THEN LET r == PCond(s, i + 1) IN IF r.ok THEN PThenRest(s, r.pos, Append(acc, r.ast)) ELSE Fail
    ELSE Ok(IF Len(acc) = 1 THEN acc[1] ELSE <<"then", acc>>, i)

\* queryAndCondition:  @@ ( OperatorAnd? @@ )*
PAnd(s, i) == LET r == PThen(s, i) IN IF r.ok THEN PAndRest(s, r.pos, <<r.ast>>) ELSE Fail
PAndRest(s, i, acc) ==
    LET k == KindAt(s, i) IN
    IF k = "and" \/ k \in CondStart
    THEN LET r == PThen(s, IF k = "and" THEN i + 1 ELSE i) IN
         IF r.ok THEN PAndRest(s, r.pos, Append(acc, r.ast)) ELSE Fail
    ELSE Ok(IF Len(acc) = 1 THEN acc[1] ELSE <<"and", acc>>, i)

\* queryOrCondition:  @@ ( OperatorOr @@ )*
POr(s, i) == LET r == PAnd(s, i) IN IF r.ok THEN POrRest(s, r.pos, <<r.ast>>) ELSE Fail
POrRest(s, i, acc) ==
    IF KindAt(s, i) = "or"
    THEN LET r == PAnd(s, i + 1) IN IF r.ok THEN POrRest(s, r.pos, Append(acc, r.ast)) ELSE Fail
    ELSE Ok(IF Len(acc) = 1 THEN acc[1] ELSE <<"or", acc>>, i)

\* queryRoot:  @@?   followed by end of input
ParseTokens(s) ==
    IF s = <<>> THEN Ok(<<"nil">>, 1)
    ELSE LET r == POr(s, 1) IN IF r.ok /\ r.pos = Len(s) + 1 THEN r ELSE Fail

\* "moderate size" = the promptness claim of the property applies
Moderate(j) == j.size <= Cap /\ j.vol <= VolCap

\* what the checks need of a lexer-level token sequence
Judge(s) == LET r == ParseTokens(s)
                e == IF r.ok THEN Eval(r.ast) ELSE BIG IN
            [syn |-> r.ok, size |-> IF r.ok THEN e.max ELSE 0, vol |-> IF r.ok THEN e.vol ELSE 0]

\* =========================================================================================
\* 3. Value sub-grammars (valueparser.go): alphabets with malformed members, recognisers
\* =========================================================================================
\* a symbol: t = text, c = class, m = number of commas in t
S(t, c) == [t |-> t, c |-> c, m |-> 0]
SC(t, c, m) == [t |-> t, c |-> c, m |-> m]

Comma == SC(",", "comma", 1)
Colon == S(":", "colon")
Plus  == S("+", "op")
Minus == S("-", "op")
Space == S(" ", "sp")

\* ---- numbers: id, [cs]port, port, [cs]bytes, bytes (numberRangeListParser) ----
NumRaw == { S("0", "num"), S("1", "num"), S("6", "num"), S("70000", "num"),
            S("99999999999999999999", "huge"),
            S("@id@", "var"), S("@a:cbytes@", "var"), S("@ftime@", "wvar"),
            S("@id", "bad"), S("x", "bad"), Plus, Minus, Comma, Colon, Space }
NumOperands == { S("1", "num"), S("6", "num"), S("@id@", "var"), S("@a:id@", "var"),
                 S("@cbytes@", "var"), S("@sbytes@", "var") }
\* "parts": a signed operand as ONE symbol -> arithmetic with repeated operands
NumParts == { [t |-> o.t \o x.t, c |-> x.c, m |-> 0] : o \in {Plus, Minus}, x \in NumOperands }

\* ---- times: ftime, ltime, time (timeRangeListParser) ----
TimeRaw == { S("1h", "dur"), S("90s", "dur"), S("1.5ms", "dur"), S("5m30s", "dur"), S("7<MU>s", "dur"),
             S("99999999h", "hugedur"), S("1x", "bad"), S("1504", "bad"),
             S("2020-01-02 1504", "time"), S("2021-12-31 235959", "time"), S("2020-13-45 9999", "badtime"),
             S("@ftime@", "var"), S("@a:ltime@", "var"), S("@id@", "wvar"),
             Plus, Minus, Comma, Colon }
TimeOperands == { S("1h", "dur"), S("2020-01-02 1504", "time"), S("@ftime@", "var"),
                  S("@ltime@", "var"), S("@a:ltime@", "var") }
TimeParts == { [t |-> o.t \o x.t, c |-> x.c, m |-> 0] : o \in {Plus, Minus}, x \in TimeOperands }

\* ---- hosts: chost, shost, host (hostListParser, maskParser.Capture) ----
HostRaw == { S("1.2.3.4", "host"), S("::1", "host"), S("1.2.3.400", "badhost"), S("1::2::3", "badhost"),
             S("@chost@", "var"), S("@a:shost@", "var"), S("@id@", "wvar"), S("x", "bad"),
             S("/8", "mask"), S("/-8", "mask"), S("/200", "badmask"), Comma }
HostHeads == { S("1.2.3.4", "host"), S("fe80::1", "host"), S("@a:chost@", "var") }
HostMasks == { S("/0", "mask"), S("/8", "mask"), S("/32", "mask"), S("/33", "mask"), S("/128", "mask"),
               S("/129", "badmask"), S("/200", "badmask"), S("/99999", "badmask"),
               S("/-8", "mask"), S("/-32", "mask"), S("/-33", "mask"), S("/-40", "mask"),
               S("/-128", "mask"), S("/-129", "badmask"), S("/-200", "badmask"), S("/-", "bad") }

\* ---- protocol (tokenListParser) ----
ProtoRaw == { S("tcp", "tok"), S("udp", "tok"), S("sctp", "tok"), S("other", "tok"), S("foo", "unk"),
              S("TCP", "bad"), S("@protocol@", "var"), S("@a:protocol@", "var"), S("@id@", "wvar"),
              Comma, Space }

\* ---- data: cdata, sdata, data (stringParser + binaryregexp.Compile) ----
DataRaw == { S("abc", "lit"), S("a.*b", "lit"), S("[0-9]+", "lit"), S("@@", "lit"),
             S("@cport@", "var"), S("@a:sdata@", "var"),
             S("(", "re"), S(")", "re"), SC("x{2,1}", "re", 1), S("a{1001}", "re"), S("(?i)", "re"),
             S("$", "re"), S("<BS>b", "re"), S("<BS>x41", "re"), S("<BS>", "re"), S("(?P<n>a)", "re"),
             S("<DQ>", "re"), S(" ", "re"), S("*", "re"), S("@", "at") }

\* ---- tag, service, mark, generated: any text, split at commas ----
TagRaw == { S("a", "lit"), S("b/c", "lit"), S(" ", "lit"), Comma, S("<DQ>", "lit"), S("@x@", "lit"),
            S("-", "lit"), S("(", "lit"), S(")", "lit"), S("<BS>", "lit") }

\* ---- sort: / limit: / group: (parser.go:157-196, 291-308) ----
SortRaw == { S("id", "key"), S("cbytes", "key"), S("ftime", "key"), S("shost", "key"), S("bad", "badkey"),
             S("-", "minus"), Comma, Space }
LimitRaw == { S("1", "dig"), S("0", "dig"), S("10", "dig"), S("99999999999999999999999", "huge"),
              S("-", "junk"), S("+", "junk"), S("x", "junk"), Comma, Space }
GroupRaw == { S("abc", "lit"), S("@cport@", "var"), S("@a:chost@", "var"), S("@@", "lit"), S("@", "at"),
              S(" ", "lit"), Comma }

\* alphabet of grammar vk at position i (i = 1 is the first symbol)
SymbolsAt(vk, alpha, i) ==
    CASE vk = "num"   -> IF alpha = "parts" THEN NumParts ELSE NumRaw
      [] vk = "time"  -> IF alpha = "parts" THEN TimeParts ELSE TimeRaw
      [] vk = "host"  -> IF alpha = "masks" THEN (IF i = 1 THEN HostHeads ELSE HostMasks) ELSE HostRaw
      [] vk = "proto" -> ProtoRaw
      [] vk = "data"  -> DataRaw
      [] vk = "tag"   -> TagRaw
      [] vk = "sort"  -> SortRaw
      [] vk = "limit" -> LimitRaw
      [] vk = "group" -> GroupRaw

Classes(v) == [i \in 1 .. Len(v) |-> v[i].c]
NoSp(cs) == SelectSeq(cs, LAMBDA c : c # "sp")
Has(cs, bad) == \E i \in 1 .. Len(cs) : cs[i] \in bad

\* number and time lists:  Elem ("," Elem)* ; Elem = Side (":" Side)? ; Side = (op* operand)*
RECURSIVE RangeScan(_, _, _, _, _)
RangeScan(cs, i, afterOp, colons, operands) ==
    IF i > Len(cs) THEN ~afterOp
    ELSE LET c == cs[i] IN
         CASE c = "op"    -> RangeScan(cs, i + 1, TRUE, colons, operands)
           [] c \in operands -> RangeScan(cs, i + 1, FALSE, colons, operands)
           [] c = "comma" -> ~afterOp /\ RangeScan(cs, i + 1, FALSE, 0, operands)
           [] c = "colon" -> ~afterOp /\ colons = 0 /\ RangeScan(cs, i + 1, FALSE, 1, operands)
           [] OTHER -> FALSE

\* host lists:  Elem ("," Elem)* ; Elem = (host | var) mask*
RECURSIVE HostScan(_, _, _)
HostScan(cs, i, inElem) ==
    IF i > Len(cs) THEN inElem
    ELSE LET c == cs[i] IN
         CASE c \in {"host", "var"} -> ~inElem /\ HostScan(cs, i + 1, TRUE)
           [] c = "mask"  -> inElem /\ HostScan(cs, i + 1, TRUE)
           [] c = "comma" -> inElem /\ HostScan(cs, i + 1, FALSE)
           [] OTHER -> FALSE

\* token lists:  Elem ("," Elem)*
RECURSIVE ListScan(_, _, _, _)
ListScan(cs, i, inElem, elems) ==
    IF i > Len(cs) THEN inElem
    ELSE LET c == cs[i] IN
         CASE c \in elems -> ~inElem /\ ListScan(cs, i + 1, TRUE, elems)
           [] c = "comma" -> inElem /\ ListScan(cs, i + 1, FALSE, elems)
           [] OTHER -> FALSE

\* sort:  elements split at ","; each:  sp* (minus sp*)? key sp*
RECURSIVE SortScan(_, _, _)
SortScan(cs, i, st) ==          \* st: "start" | "minus" | "key"
    IF i > Len(cs) THEN st = "key"
    ELSE LET c == cs[i] IN
         CASE c = "sp"    -> SortScan(cs, i + 1, st)
           [] c = "minus" -> st = "start" /\ SortScan(cs, i + 1, "minus")
           [] c = "key"   -> st \in {"start", "minus"} /\ SortScan(cs, i + 1, "key")
           [] c = "comma" -> st = "key" /\ SortScan(cs, i + 1, "start")
           [] OTHER -> FALSE

\* limit:  sp* dig+ sp*   (strconv.ParseUint of the trimmed text)
RECURSIVE LimitScan(_, _, _)
LimitScan(cs, i, st) ==         \* st: "lead" | "dig" | "trail"
    IF i > Len(cs) THEN st \in {"dig", "trail"}
    ELSE LET c == cs[i] IN
         CASE c = "sp"  -> LimitScan(cs, i + 1, IF st = "lead" THEN "lead" ELSE "trail")
           [] c = "dig" -> st \in {"lead", "dig"} /\ LimitScan(cs, i + 1, "dig")
           [] OTHER -> FALSE

\* "yes" / "no" / "unknown" (regular expressions are not modelled)
WFValue(vk, v) ==
    LET cs == Classes(v)  ns == NoSp(Classes(v))
        B(b) == IF b THEN "yes" ELSE "no" IN
    CASE vk = "num"   -> B(RangeScan(ns, 1, FALSE, 0, {"num", "var"}))
      [] vk = "time"  -> B(RangeScan(ns, 1, FALSE, 0, {"dur", "time", "var"}))
      [] vk = "host"  -> B(HostScan(cs, 1, FALSE))
      [] vk = "proto" -> B(ListScan(ns, 1, FALSE, {"tok", "var"}))
      [] vk = "data"  -> IF \A i \in 1 .. Len(cs) : cs[i] \in {"lit", "var"} THEN "yes" ELSE "unknown"
      [] vk = "tag"   -> "yes"
      [] vk = "sort"  -> B(SortScan(cs, 1, "start"))
      [] vk = "limit" -> B(LimitScan(cs, 1, "lead"))
      [] vk = "group" -> IF Has(cs, {"at"}) THEN "unknown" ELSE "yes"

\* text of a value: the symbols concatenated; two adjacent word-like symbols of the list
\* grammars are separated by one blank (the value lexers skip white space)
Wordy == {"num", "huge", "var", "wvar", "bad", "dur", "hugedur", "time", "badtime", "host", "badhost",
          "tok", "unk"}
Spaced == {"num", "time", "host", "proto"}
RECURSIVE TextFrom(_, _, _)
TextFrom(vk, v, i) ==
    IF i > Len(v) THEN ""
    ELSE (IF i > 1 /\ vk \in Spaced /\ v[i].c \in Wordy /\ v[i - 1].c \in Wordy THEN " " ELSE "")
         \o v[i].t \o TextFrom(vk, v, i + 1)
TextOf(vk, v) == TextFrom(vk, v, 1)

RECURSIVE CommasFrom(_, _)
CommasFrom(v, i) == IF i > Len(v) THEN 0 ELSE v[i].m + CommasFrom(v, i + 1)
ListLen(v) == 1 + CommasFrom(v, 1)

\* =========================================================================================
\* 4. Generator-level tokens and their lexer-level image
\* =========================================================================================
(* generator token:
   k    neg lp rp or and then term ctl keyonly valonly subonly convonly
   key  key text (term, keyonly) or sort/limit/group (ctl)
   sub  "" or the name of the sub-query prefix   conv "" or the converter suffix
   q    "u" unquoted if possible, "q" quoted, "x" unterminated quote (key:<DQ>)
   txt  value text   n list length (commas + 1)   wf "yes"/"no"/"unknown": value accepted for key *)
Tok(k) == [k |-> k, key |-> "", sub |-> "", conv |-> "", q |-> "u", txt |-> "", n |-> 1, wf |-> "yes"]
Term(key, sub, conv, q, txt, n, wf) ==
    [k |-> "term", key |-> key, sub |-> sub, conv |-> conv, q |-> q, txt |-> txt, n |-> n, wf |-> wf]
Ctl(key, q, txt, n, wf) ==
    [k |-> "ctl", key |-> key, sub |-> "", conv |-> "", q |-> q, txt |-> txt, n |-> n, wf |-> wf]

LT(k, key, n) == [k |-> k, key |-> key, n |-> n]
\* the value token of an unterminated quote is the two bytes :<DQ> (UnquotedValue), nothing else
LexOf(t) ==
    CASE t.k \in {"neg", "lp", "rp", "or", "and", "then"} -> <<LT(t.k, "", 0)>>
      [] t.k = "term"    -> (IF t.sub # "" THEN <<LT("sub", "", 0)>> ELSE <<>>) \o <<LT("key", t.key, 0)>> \o
                            (IF t.conv # "" THEN <<LT("conv", "", 0)>> ELSE <<>>) \o
                            <<LT("val", "", IF t.q = "x" THEN 1 ELSE t.n)>>
      [] t.k = "ctl"     -> <<LT(t.key \o "key", "", 0), LT("val", "", IF t.q = "x" THEN 1 ELSE t.n)>>
      [] t.k = "keyonly" -> <<LT("key", t.key, 0)>>
      [] t.k = "valonly" -> <<LT("val", "", t.n)>>
      [] t.k = "subonly" -> <<LT("sub", "", 0)>>
      [] t.k = "convonly" -> <<LT("conv", "", 0)>>
Flat(ts) == Flatten([i \in 1 .. Len(ts) |-> LexOf(ts[i])])

\* the value of a term is accepted (no error from queryTerm.QueryConditions / Capture)
TokAccepted(t) ==
    CASE t.k = "term" -> IF t.q = "x" THEN "no"            \* (the value is the text <DQ>)
                         ELSE IF t.conv # "" /\ t.key \notin KeysData THEN "no" ELSE t.wf
      [] t.k = "ctl"  -> IF t.q = "x" THEN "no" ELSE t.wf
      [] OTHER -> "yes"
RECURSIVE AcceptFrom(_, _)
AcceptFrom(ts, i) ==
    IF i > Len(ts) THEN "yes"
    ELSE LET a == TokAccepted(ts[i])  r == AcceptFrom(ts, i + 1) IN
         IF a = "no" \/ r = "no" THEN "no" ELSE IF a = "unknown" \/ r = "unknown" THEN "unknown" ELSE "yes"
CountCtl(ts, key) == Cardinality({i \in 1 .. Len(ts) : ts[i].k = "ctl" /\ ts[i].key = key})
\* well-formed: grammatical, every value accepted, at most one sort/limit/group
WellFormed(ts, syn) ==
    IF ~syn THEN "no"
    ELSE IF \E key \in {"sort", "limit", "group"} : CountCtl(ts, key) > 1 THEN "no"
    ELSE AcceptFrom(ts, 1)

\* ---- palette of terms for the token-level modes ----
RECURSIVE NumList(_, _)
NumList(a, b) == IF a > b THEN "" ELSE ToString(a) \o (IF a < b THEN "," ELSE "") \o NumList(a + 1, b)
RECURSIVE TagList(_, _)
TagList(a, b) == IF a > b THEN "" ELSE "t" \o ToString(a) \o (IF a < b THEN "," ELSE "") \o TagList(a + 1, b)

Palette == <<
    Term("id", "", "", "u", "1", 1, "yes"),
    Term("id", "", "", "u", "1,2,3", 3, "yes"),
    Term("id", "a", "", "u", "@id@+1", 1, "yes"),
    Term("id", "", "", "u", "-@id@+@a:id@+@a:id@", 1, "yes"),
    Term("id", "", "", "u", "1:", 1, "yes"),
    Term("id", "", "", "x", "", 1, "no"),
    Term("cport", "", "", "u", "80", 1, "yes"),
    Term("port", "", "", "u", "80,443", 2, "yes"),
    Term("sport", "", "", "u", "1000:2000", 1, "yes"),
    Term("cport", "a", "", "u", "@sport@", 1, "yes"),
    Term("cport", "", "b64", "u", "1", 1, "yes"),
    Term("port", "", "", "u", NumList(1, 150), 150, "yes"),
    Term("port", "", "", "q", "1, 2 ,3", 3, "yes"),
    Term("cbytes", "", "", "u", "@sbytes@+100", 1, "yes"),
    Term("sbytes", "", "", "u", "@cbytes@+@cbytes@-@sbytes@", 1, "yes"),
    Term("bytes", "", "", "u", "-1", 1, "yes"),
    Term("cbytes", "", "", "u", "99999999999999999999", 1, "no"),
    Term("sbytes", "", "", "u", "@ftime@", 1, "no"),
    Term("protocol", "", "", "u", "tcp", 1, "yes"),
    Term("protocol", "", "", "u", "tcp,udp", 2, "yes"),
    Term("protocol", "a", "", "u", "@protocol@,sctp", 2, "yes"),
    Term("protocol", "", "", "u", "foo", 1, "no"),
    Term("chost", "", "", "u", "1.2.3.4", 1, "yes"),
    Term("host", "", "", "u", "10.0.0.0/8", 1, "yes"),
    Term("shost", "", "", "u", "::1/-64", 1, "yes"),
    Term("chost", "", "", "u", "@a:chost@/-40", 1, "yes"),
    Term("host", "", "", "u", "1.2.3.4/200", 1, "no"),
    Term("shost", "", "", "u", "1.2.3.4,fe80::1/64/-8", 2, "yes"),
    Term("ftime", "", "", "u", "-1h:", 1, "yes"),
    Term("ltime", "", "", "q", "2020-01-02 1504", 1, "yes"),
    Term("time", "", "", "u", "@ftime@+5m:@a:ltime@", 1, "yes"),
    Term("time", "", "", "u", "1200", 1, "no"),
    Term("cdata", "", "", "u", "abc", 1, "yes"),
    Term("data", "", "", "u", "a.*b", 1, "yes"),
    Term("sdata", "", "b64", "u", "x", 1, "yes"),
    Term("cdata", "", "", "u", "x{2,1}", 2, "no"),
    Term("cdata", "", "", "u", "@cport@", 1, "yes"),
    Term("sdata", "a", "", "q", "GET (<BS>S+) HTTP@a:cport@", 1, "yes"),
    Term("data", "", "", "q", "a<DQ>b (c) ", 1, "yes"),
    Term("tag", "", "", "u", "a", 1, "yes"),
    Term("service", "", "", "u", "http,dns", 2, "yes"),
    Term("mark", "a", "", "u", "x", 1, "yes"),
    Term("generated", "", "", "u", "y", 1, "yes"),
    Term("tag", "", "", "u", TagList(1, 40), 40, "yes")
>>
CtlPalette == <<
    Ctl("sort", "u", "id", 1, "yes"),
    Ctl("sort", "u", "-ftime,cbytes", 2, "yes"),
    Ctl("sort", "u", "bad", 1, "no"),
    Ctl("limit", "u", "10", 1, "yes"),
    Ctl("limit", "u", "-1", 1, "no"),
    Ctl("limit", "x", "", 1, "no"),
    Ctl("group", "u", "@cport@", 1, "yes"),
    Ctl("group", "q", "a b@a:chost@", 1, "yes"),
    Ctl("group", "u", "@", 1, "no")
>>
FragPalette == <<
    [Tok("keyonly") EXCEPT !.key = "id"], [Tok("keyonly") EXCEPT !.key = "cdata"],
    [Tok("valonly") EXCEPT !.txt = "1"], [Tok("valonly") EXCEPT !.txt = "x,y", !.n = 2, !.q = "q"],
    Tok("subonly"), Tok("convonly")
>>

Kinds == <<"neg", "lp", "rp", "or", "and", "then", "term", "ctl", "frag">>
KindNo(k) == CHOOSE i \in 1 .. Len(Kinds) : Kinds[i] = k

\* seeded slot filling: every kind sequence gets ONE deterministic choice per slot
RECURSIVE HashFrom(_, _, _)
HashFrom(ks, i, h) == IF i > Len(ks) THEN h ELSE HashFrom(ks, i + 1, (h * 31 + KindNo(ks[i])) % 1000003)
Pick(pal, ks, i) == pal[((HashFrom(ks, 1, Seed % 1000003) + i * 7919 + Seed * 104729) % Len(pal)) + 1]
Fill(ks) == [i \in 1 .. Len(ks) |->
                CASE ks[i] = "term" -> Pick(Palette, ks, i)
                  [] ks[i] = "ctl"  -> Pick(CtlPalette, ks, i)
                  [] ks[i] = "frag" -> Pick(FragPalette, ks, i)
                  [] OTHER -> Tok(ks[i])]

SeqToSet(s) == {s[i] : i \in 1 .. Len(s)}
\* (the two long lists are left to the exhaustive modes: a long random conjunction of them is always BIG)
SimAlphabet == {Tok(k) : k \in {"neg", "lp", "rp", "or", "and", "then"}}
               \cup {t \in SeqToSet(Palette) : t.n < 40} \cup SeqToSet(CtlPalette) \cup SeqToSet(FragPalette)

\* ---- headers of the "value" mode: the term the enumerated value is put in ----
KeysOf(vk) == CASE vk = "num"   -> {"id", "cbytes", "bytes"}
                [] vk = "time"  -> {"ftime", "time"}
                [] vk = "host"  -> {"chost", "host"}
                [] vk = "proto" -> {"protocol"}
                [] vk = "data"  -> {"cdata", "data"}
                [] vk = "tag"   -> {"tag", "mark"}
                [] vk = "sort"  -> {"sort"}
                [] vk = "limit" -> {"limit"}
                [] vk = "group" -> {"group"}
IsCtl(vk) == vk \in {"sort", "limit", "group"}
FirstKey(vk) == CASE vk = "num" -> "id" [] vk = "time" -> "ftime" [] vk = "host" -> "chost"
                  [] vk = "data" -> "cdata" [] vk = "tag" -> "tag" [] OTHER -> CHOOSE k \in KeysOf(vk) : TRUE
\* Hdrs: "base" one key, "keys" every key of the grammar, "all" keys x sub-query prefix x converter x negations
Headers(vk) ==
    IF IsCtl(vk) \/ Hdrs = "keys" THEN {[key |-> k, sub |-> "", conv |-> "", neg |-> 0] : k \in KeysOf(vk)}
    ELSE IF Hdrs = "base" THEN {[key |-> FirstKey(vk), sub |-> "", conv |-> "", neg |-> 0]}
    ELSE {[key |-> k, sub |-> s, conv |-> c, neg |-> g] :
              k \in KeysOf(vk), s \in {"", "a"}, c \in (IF vk = "data" THEN {"", "b64"} ELSE {""}), g \in {0, 1, 2}}

ValueTokens(h, v) ==
    LET wf == WFValue(VK, v)
        t  == IF IsCtl(VK) THEN Ctl(h.key, "u", TextOf(VK, v), ListLen(v), wf)
              ELSE Term(h.key, h.sub, h.conv, "u", TextOf(VK, v), ListLen(v), wf)
    IN [i \in 1 .. h.neg |-> Tok("neg")] \o <<t>>

\* =========================================================================================
\* 5. The generator
\* =========================================================================================
NoHdr == [key |-> "", sub |-> "", conv |-> "", neg |-> 0]

\* ---- viable prefixes of the token grammar (Gram = TRUE: only grammatical sequences) ----
\* need = an operand must follow, depth = open brackets
KindsOf(s) == IF Mode = "sim" THEN [i \in 1 .. Len(s) |-> s[i].k] ELSE s
StepOK(st, k) ==
    IF k \in {"neg", "lp", "term", "ctl"} THEN TRUE          \* operand start (implicit AND when ~need)
    ELSE IF k = "rp" THEN ~st.need /\ st.depth > 0
    ELSE IF k \in {"or", "and", "then"} THEN ~st.need
    ELSE FALSE
StepTo(st, k) ==
    CASE k = "neg"  -> [need |-> TRUE, depth |-> st.depth]
      [] k = "lp"   -> [need |-> TRUE, depth |-> st.depth + 1]
      [] k \in {"term", "ctl"} -> [need |-> FALSE, depth |-> st.depth]
      [] k = "rp"   -> [need |-> FALSE, depth |-> st.depth - 1]
      [] OTHER      -> [need |-> TRUE, depth |-> st.depth]
RECURSIVE ScanFrom(_, _, _)
ScanFrom(ks, i, st) == IF i > Len(ks) THEN st ELSE ScanFrom(ks, i + 1, StepTo(st, ks[i]))
StateOf(s) == ScanFrom(KindsOf(s), 1, [need |-> TRUE, depth |-> 0])
\* shortest completion of a viable prefix: an operand if one is missing, then the closing brackets
Closure(s) == LET st == StateOf(s) IN
              s \o (IF st.need THEN <<Palette[1]>> ELSE <<>>) \o [i \in 1 .. st.depth |-> Tok("rp")]

Init == /\ seq = <<>>
        /\ done = FALSE
        /\ hd \in (IF Mode = "value" THEN Headers(VK)
                   ELSE IF Mode = "pairs" THEN {[NoHdr EXCEPT !.key = c] :
                                                   c \in (IF Hdrs = "base" THEN {"and"} ELSE {"and", "or", "then", "andnot"})}
                   ELSE {NoHdr})

KindOfItem(x) == IF Mode = "sim" THEN x.k ELSE x

Extend == /\ ~done
          /\ Len(seq) < MaxLen
          /\ \E x \in (CASE Mode = "value"  -> SymbolsAt(VK, Alpha, Len(seq) + 1)
                         [] Mode = "tokens" -> SeqToSet(Kinds)
                         [] Mode = "pairs"  -> IF Len(seq) < 2 THEN SeqToSet(Palette) \cup SeqToSet(CtlPalette) ELSE {}
                         [] Mode = "sim"    -> SimAlphabet) :
                /\ (Gram /\ Mode \in {"tokens", "sim"}) => StepOK(StateOf(seq), KindOfItem(x))
                /\ seq' = Append(seq, x)
          /\ UNCHANGED <<hd, done>>

Finish == /\ ~done
          /\ Mode # "sim"
          /\ Mode = "value" => seq # <<>>
          /\ Mode = "pairs" => Len(seq) = 2
          /\ (Gram /\ Mode = "tokens") => (seq # <<>> /\ LET st == StateOf(seq) IN ~st.need /\ st.depth = 0)
          /\ done' = TRUE
          /\ UNCHANGED <<seq, hd>>

Next == Extend \/ Finish
Spec == Init /\ [][Next]_vars

Tokens == CASE Mode = "value"  -> ValueTokens(hd, seq)
            [] Mode = "tokens" -> Fill(seq)
            [] Mode = "pairs"  -> <<seq[1]>> \o (CASE hd.key = "and" -> <<>>
                                                   [] hd.key = "andnot" -> <<Tok("neg")>>
                                                   [] OTHER -> <<Tok(hd.key)>>) \o <<seq[2]>>
            [] Mode = "sim"    -> IF Gram THEN Closure(seq) ELSE seq

Record ==
    LET ts == Tokens  fl == Flat(Tokens)  j == Judge(Flat(Tokens)) IN
    [mode |-> Mode, vk |-> IF Mode = "value" THEN VK ELSE "", toks |-> ts, flat |-> fl,
     syn |-> j.syn, size |-> j.size, vol |-> j.vol, wf |-> WellFormed(ts, j.syn)]

\* printing invariant (always true): one line per finished sequence
Emit == done => PrintT("@@J" \o ToJson(Record))

\* in simulation a behaviour is printed at one third, two thirds and full depth
EmitSim == (Len(seq) > 0 /\ Len(seq) \in {MaxLen \div 3, (2 * MaxLen) \div 3, MaxLen})
               => PrintT("@@J" \o ToJson(Record))

\* ---- sanity of the oracle itself, checked by TLC on every generated sequence ----
\* a single term is tiny, negations of negations stay as small as the inner negation (the inversion cleans between its steps;
\* before that repair -(-(-(port:81))) was beyond the bound), sizes are monotone under Or
SizeSanity ==
    /\ DNFSize(<<"term", "port", 1>>) = 2
    /\ DNFSize(<<"not", <<"term", "port", 1>>>>) = 4
    /\ DNFSize(<<"not", <<"not", <<"term", "port", 1>>>>>>) = 4
    /\ DNFSize(<<"not", <<"not", <<"not", <<"term", "port", 1>>>>>>>>) = 4
    /\ DNFSize(<<"term", "port", 150>>) = 300
    /\ DNFVolume(<<"term", "port", 150>>) = 600
    /\ DNFVolume(<<"and", << <<"term", "port", 150>>, <<"not", <<"term", "tag", 40>>>> >> >>) = 300 * 42
    /\ DNFSize(<<"term", "port", 151>>) = Cap + 1
    /\ DNFSize(<<"and", << <<"term", "tag", 10>>, <<"term", "host", 5>> >> >>) = 100
    /\ DNFSize(<<"then", << <<"term", "data", 1>>, <<"term", "data", 1>>, <<"term", "cdata", 1>> >> >>) = 4
    /\ DNFSize(<<"not", <<"then", << <<"term", "cdata", 1>>, <<"term", "sdata", 1>> >> >> >>) = 3
    /\ DNFSize(<<"not", <<"term", "protocol", 2>>>>) = 9
    /\ DNFSize(<<"or", << <<"nil">>, <<"term", "id", 3>> >> >>) = 3
    /\ DNFSize(<<"not", <<"term", "tag", 300>>>>) = 300
    /\ DNFSize(<<"not", <<"term", "id", 300>>>>) = Cap + 1
ASSUME SizeSanity
=============================================================================

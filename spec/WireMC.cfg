SPECIFICATION Spec
CONSTANTS
  NConv = 1
  MaxMsgs = 2
  MaxLen = 2
  MaxSeg = 2
  Protos = {"tcp", "udp"}
  Fams = {4}
  MaxDup = 1
  MaxDisp = 1
  MaxSwap = 1
  MaxPerturb = 2
  MaxCuts = 1
  MinCuts = 0
  MaxAck = 0
  MaxBulk = 0
  MaxFrag = 0
  Dts = {1}
  BatchMode = "chrono"
INVARIANTS TypeOK IdealIsExpected PrefixMonotone NoCrossDirectionReordering BoundedDisplacement NeverIdle HandshakeFirst PrintSchedule

SPECIFICATION TraceSpec
CONSTANTS
  Pieces = {}
  Restarts = {"none", "keep", "drop"}
  AllNumberings = TRUE
  LookupEveryOldPacket = TRUE
INVARIANT TraceDone

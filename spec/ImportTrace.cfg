SPECIFICATION TraceSpec
CONSTANTS
  Pieces = {}
  Restarts = {"none", "keep", "drop"}
  AllNumberings = TRUE
INVARIANT TraceDone

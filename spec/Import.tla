------------------------------- MODULE Import -------------------------------
(* C08 - the importer seen from outside: capture files arrive in batches, in any order,
   and every import writes ONE new index file holding the streams touched by the batch.
   What is visible is read through the stack of index files, newest file wins per id.

   World: Pieces, a set of pairs <<c, k>> (connection c has packets in capture k; captures are
   numbered chronologically).  State: the set of imported captures, the stack
   of index files (id -> [conn, caps] each; caps = the captures the stored version was
   assembled from), the next free id and the history.

   ImportBatch transcribes builder.go FromPcap, "dump collected streams to new indexes"
   (the loop over s.Packets, ~456-516): a re-assembled stream is walked packet by packet
   (here: piece by piece, chronologically); a packet of a NEW capture marks it touched; for
   packets of OLD captures the id is looked up by first-packet source in the existing index
   files, oldest first, until one is found; touched-then-found = "reset", found-then-touched
   = "updated", never found = "added" with the next free id.

   Properties (C08): SetDetermined, IdStable, OneIdPerConn, NextIdFresh. *)
EXTENDS Integers, Sequences, FiniteSets, TLC, Json

CONSTANTS Pieces, Restarts,
          AllNumberings,    \* TRUE: new streams of one import may be numbered in any order
          LookupEveryOldPacket  \* TRUE as in the code; FALSE = "look up only the very first packet of the stream"
                                \* (a seeded design fault: the properties below must reject it - ImportMC_fault.cfg)

VARIABLES world,      \* the pieces (constant along a behaviour; a variable so that trace validation
                      \* can bind it to the world of each recorded schedule)
          imported, files, nextId, hist, lastMasks

vars == <<world, imported, files, nextId, hist, lastMasks>>

NoId == -1
Range(s) == {s[i] : i \in DOMAIN s}
Min(S) == CHOOSE x \in S : \A y \in S : x <= y
Max(S) == CHOOSE x \in S : \A y \in S : y <= x
ConnsW == {p[1] : p \in world}
CapsW  == {p[2] : p \in world}
PiecesOf(c) == {p[2] : p \in {x \in world : x[1] = c}}
SortedSeq(S) ==     \* ascending
    LET F[T \in SUBSET S] == IF T = {} THEN <<>> ELSE <<Min(T)>> \o F[T \ {Min(T)}] IN F[S]

\* ---- reading through the stack
IdsOf(fs) == UNION {DOMAIN fs[i] : i \in DOMAIN fs}
VisibleOf(fs) == [id \in IdsOf(fs) |-> fs[Max({i \in DOMAIN fs : id \in DOMAIN fs[i]})][id]]
Visible == VisibleOf(files)
idOf(c) == {id \in DOMAIN Visible : Visible[id].conn = c}

\* ---- StreamByFirstPacketSource over the existing files, oldest first: the first packet of a
\* stored version is the first packet of its chronologically first piece
Lookup(fs, c, k) ==
    LET hits(i) == {id \in DOMAIN fs[i] : fs[i][id].conn = c /\ Min(fs[i][id].caps) = k}
        cand == {i \in DOMAIN fs : hits(i) # {}}
    IN IF cand = {} THEN NoId ELSE CHOOSE id \in hits(Min(cand)) : TRUE

\* ---- the classification loop for one re-assembled stream
Classify(fs, known, B, c) ==
    LET ks == SortedSeq(PiecesOf(c) \cap (known \cup B))
        \* state after the first i pieces
        F[i \in 0 .. Len(ks)] ==
            IF i = 0 THEN [id |-> NoId, touched |-> FALSE, cat |-> "added", stop |-> FALSE]
            ELSE LET p == F[i - 1] k == ks[i] IN
                 IF p.stop THEN p
                 ELSE IF k \in B
                      THEN IF p.id # NoId THEN [p EXCEPT !.touched = TRUE, !.cat = "updated", !.stop = TRUE]
                                          ELSE [p EXCEPT !.touched = TRUE]
                      ELSE IF p.id # NoId \/ (~LookupEveryOldPacket /\ i # 1) THEN p
                           ELSE LET id == Lookup(fs, c, k) IN
                                IF p.touched THEN [p EXCEPT !.id = id, !.cat = "reset", !.stop = TRUE]
                                             ELSE [p EXCEPT !.id = id]
    IN F[Len(ks)]

\* numberings of the new streams of one import
Numberings(new, base) ==
    IF AllNumberings
    THEN {num \in [new -> base .. (base + Cardinality(new) - 1)] : \A a, b \in new : a # b => num[a] # num[b]}
    ELSE {[c \in new |-> base + Cardinality({x \in new : x < c})]}

Touched(B) == {c \in ConnsW : PiecesOf(c) \cap B # {}}

Init == /\ world = Pieces /\ imported = {} /\ files = <<>> /\ nextId = 0 /\ hist = <<>>
        /\ lastMasks = [add |-> {}, upd |-> {}, rst |-> {}]

NewConns(B) == {c \in Touched(B) : Classify(files, imported, B, c).id = NoId}

\* what one import writes: the new index file, the masks reported to the service, the next id.
\* num: the numbering of the streams that are new
BatchResult(fs, known, nid, B, num) ==
    LET T   == Touched(B)
        cl  == [c \in T |-> Classify(fs, known, B, c)]
        new == {c \in T : cl[c].id = NoId}
        idFor(c) == IF c \in new THEN num[c] ELSE cl[c].id
    IN [file  |-> [id \in {idFor(c) : c \in T} |->
                      LET c == CHOOSE x \in T : idFor(x) = id
                      IN [conn |-> c, caps |-> PiecesOf(c) \cap (known \cup B)]],
        masks |-> [add |-> {idFor(c) : c \in {x \in T : cl[x].cat = "added"}},
                   upd |-> {idFor(c) : c \in {x \in T : cl[x].cat = "updated"}},
                   rst |-> {idFor(c) : c \in {x \in T : cl[x].cat = "reset"}}],
        next  |-> nid + Cardinality(new),
        none  |-> T = {}]

\* q: the batch as handed to FromPcap (a sequence - the order does not matter to the result)
ImportBatchNum(q, restart, num) ==
    LET B == Range(q) res == BatchResult(files, imported, nextId, B, num) IN
       /\ q # <<>> /\ B \subseteq CapsW \ imported
       /\ \A i, j \in DOMAIN q : i # j => q[i] # q[j]
       /\ (hist = <<>>) => restart = "none"
       /\ num \in Numberings(NewConns(B), nextId)
       /\ files' = IF res.none THEN files ELSE Append(files, res.file)
       /\ lastMasks' = res.masks
       /\ nextId' = res.next
       /\ imported' = imported \cup B
       /\ hist' = Append(hist, [files |-> q, restart |-> restart])
       /\ UNCHANGED world

ImportBatch(q, restart) == \E num \in Numberings(NewConns(Range(q)), nextId) : ImportBatchNum(q, restart, num)

Perms(S) ==
    UNION {{q \in [1 .. k -> S] : \A i, j \in 1 .. k : i # j => q[i] # q[j]} : k \in 1 .. Cardinality(S)}

Next == \E q \in Perms(CapsW \ imported), r \in Restarts : ImportBatch(q, r)
Spec == Init /\ [][Next]_vars

\* ------------------------------------------------------------------ properties (C08)
\* what a one-shot import of the same set shows, up to numbering
OneShot(F) == {[conn |-> c, caps |-> PiecesOf(c) \cap F] : c \in {x \in ConnsW : PiecesOf(x) \cap F # {}}}
Unnumbered(v) == {v[id] : id \in DOMAIN v}
\* the visible streams after importing the set F do not depend on the history that led to F
SetDetermined == Unnumbered(Visible) = OneShot(imported)
\* no connection has two visible ids
OneIdPerConn == \A c \in ConnsW : Cardinality(idOf(c)) <= 1
\* ... and exactly one once it has been seen
AllVisible == \A c \in ConnsW : PiecesOf(c) \cap imported # {} => Cardinality(idOf(c)) = 1
\* the next id is beyond everything ever handed out
NextIdFresh == \A id \in IdsOf(files) : id < nextId
\* an id once assigned to a connection stays with it
IdStableStep == \A id \in DOMAIN Visible : id \in DOMAIN VisibleOf(files') /\ VisibleOf(files')[id].conn = Visible[id].conn
IdStable == [][IdStableStep]_vars
\* ids handed out by an import are new
NewIdsFreshStep == \A id \in IdsOf(files') \ IdsOf(files) : id >= nextId /\ id < nextId'
NewIdsFresh == [][NewIdsFreshStep]_vars
\* the masks reported to the service: added = the new ids, updated / reset = existing ids
MasksSound == /\ lastMasks.add \cap (lastMasks.upd \cup lastMasks.rst) = {} /\ lastMasks.upd \cap lastMasks.rst = {}
MasksStep == /\ lastMasks'.add = IdsOf(files') \ IdsOf(files)
             /\ (lastMasks'.upd \cup lastMasks'.rst) \subseteq IdsOf(files)
MasksRight == [][MasksStep]_vars

\* every complete history, for replay on the real importer
PrintHistory == (imported = CapsW) => PrintT("@@J" \o ToJson([batches |-> hist]))
=============================================================================

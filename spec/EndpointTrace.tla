---------------------------- MODULE EndpointTrace ----------------------------
(* Captures that arrive over a PCAP-over-IP endpoint (harness/manager/pcapoverip_test.go).  The service cuts the packet
   stream into capture files of its own; however it cuts, a view opened at rest has to show what Manager.tla shows after
   the captures of the world were imported: every connection once, with all its packets (C10; C08: the result does not
   depend on how the captures arrive). *)
EXTENDS ManagerWorld, Integers, Sequences, FiniteSets, TLC, Json

VARIABLE l
Rows == ndJsonDeserialize("endpoint_rows.ndjson")
Range(s) == {s[i] : i \in DOMAIN s}

Say(r, what, got) == PrintT("@@J" \o ToJson([kind |-> "fail", what |-> what, variant |-> r.variant, got |-> got]))
Chk(c, r, what, got) == c \/ Say(r, what, got)

\* what was served: the packets (connection, capture) of the world
ServedOK(r) == {<<p[1], p[2]>> : p \in Range(r.served)} = {<<c, k>> : c \in WConns, k \in WCaps} \cap {<<c, k>> \in WConns \X WCaps : k \in WPieces[c]}

Check(r) ==
    /\ Chk(r.err = "", r, "endpoint-scenario-failed", r.err)
    /\ Chk(ServedOK(r), r, "endpoint-scenario-served-something-else", r.served)
    /\ r.err = "" =>
         /\ Chk(\A c \in WConns : Cardinality({i \in DOMAIN r.vis : r.vis[i].c = c}) = 1, r, "C10.EndpointEachConnectionOnce", r.vis)
         /\ Chk(\A i \in DOMAIN r.vis : r.vis[i].c \in WConns /\ Range(r.vis[i].v) = WPieces[r.vis[i].c], r, "C10.EndpointAllPackets", r.vis)
         /\ Chk(r.packets = Cardinality({<<c, k>> \in WConns \X WCaps : k \in WPieces[c]}), r, "C10.EndpointPacketCount", r.packets)

Init == l = 0
Next == l < Len(Rows) /\ l' = l + 1 /\ Check(Rows[l + 1])
Spec == Init /\ [][Next]_l
Done == l = Len(Rows) => PrintT("@@J" \o ToJson([done |-> l]))
=============================================================================

------------------------------ MODULE ApiTrace ------------------------------
(* HTTP-level conformance of the tag and settings API (C11; the settings are what C12 must keep).

   harness/api sends TLC-generated call sequences (valid and invalid calls of spec/ManagerGen.tla) through the real
   router of cmd/pkappa2 and records, per call, the status and what the GET endpoints show afterwards.  The service
   is idle before and after every call, so the recorded tag table is a function of the calls alone.

   The variables of Manager.tla that the validity conditions read (tags, nextID, settings) are bound from the
   recorded observation; the conditions themselves (AddTagOK, UpdQueryOK, DelTagOK, UpdNameOK, MarkOK, SetConvOK,
   AddHookOK ...) are those of Manager.tla, plus what the HTTP layer demands on top (non-empty colour / name).

   "@@J" lines:  kind = "fail"    a C11 predicate is false on what the real service answered / shows (verdict)
                 kind = "nonconf" the service accepted / rejected a call the specification judges otherwise *)
EXTENDS Manager, Json

VARIABLE l

Trace == ndJsonDeserialize("api_trace.ndjson")

ACaps   == {1, 2, 3}
AConns  == {1, 2, 3}
APieces == [c \in AConns |-> CASE c = 1 -> {1, 2} [] c = 2 -> {2, 3} [] c = 3 -> {1}]
APort   == [c \in AConns |-> CASE c = 1 -> 80 [] c = 2 -> 81 [] c = 3 -> 80]

S(a) == Range(a)
DefOf(d) == Def(d.k, d.n, d.s, d.t)

\* the tag table as far as the API shows it: matching / uncertain counts stand in for the sets
TagsOf(o) ==
    [t \in DOMAIN o.tags |->
        [def |-> DefOf(o.tags[t].def), M |-> 1 .. o.tags[t].matching, U |-> 1 .. o.tags[t].uncertain,
         convs |-> S(o.tags[t].convs),
         refBy |-> {u \in DOMAIN o.tags : t \in Refs(DefOf(o.tags[u].def))},
         color |-> o.tags[t].color]]
SettingsOfObs(o) == [hooks |-> o.hooks, eps |-> o.eps, cfg |-> o.cfg]

Bind(r) ==
    /\ tags' = TagsOf(r.obs)
    /\ nextID' = r.obs.streams
    /\ settings' = SettingsOfObs(r.obs)
    /\ UNCHANGED <<known, queue, allS, files, indexes, use, flags, during, unmerge, jobs, views, toConv, cache>>

Say(kind, r, what, info) ==
    PrintT("@@J" \o ToJson([kind |-> kind, what |-> what, sid |-> r.sid, n |-> r.n, a |-> r.ev.a, status |-> r.status, info |-> info]))
Chk(cond, r, what) == cond \/ Say("fail", r, what, r.target)

Accepted(r) == r.status >= 200 /\ r.status < 300

\* is the call valid?  (pre-state = the unprimed variables)
\* text with a byte that is no valid UTF-8 ("<ff>" in the schedules) cannot be kept in the state file
Clean(s) == ~\E i \in 1 .. (Len(s) - 3) : SubSeq(s, i, i + 3) = "<ff>"
CleanEv(ev) == Clean(ev.name) /\ Clean(ev.new) /\ Clean(ev.color) /\ Clean(ev.what)
ExpectOK(r) ==
    LET ev == r.ev IN
    CleanEv(ev) /\
    CASE ev.a = "AddTag"   -> ev.name # "" /\ ev.color # "" /\ PrefixOf(ev.name) # "" /\ Len(ev.name) > Len(PrefixOf(ev.name))
                              /\ AddTagOK(ev.name, DefOf(ev.def))
      [] ev.a = "DelTag"   -> DelTagOK(ev.name)
      [] ev.a = "UpdQuery" -> ev.name # "" /\ UpdQueryOK(ev.name, DefOf(ev.def))
      [] ev.a = "UpdName"  -> ev.name # "" /\ ev.new # "" /\ UpdNameOK(ev.name, ev.new)
      [] ev.a = "UpdColor" -> ev.name # "" /\ ev.color # "" /\ UpdColorOK(ev.name)
      [] ev.a \in {"MarkAdd", "MarkDel"} -> ev.name # "" /\ MarkOK(ev.name, S(ev.ids))
      [] ev.a = "SetConverters" -> ev.name # "" /\ SetConvOK(ev.name, S(ev.convs))
      [] ev.a = "AddHook"  -> ev.what # "" /\ AddHookOK(ev.what)
      [] ev.a = "DelHook"  -> ev.what # "" /\ DelHookOK(ev.what)
      [] ev.a = "AddEndpoint" -> ev.what # "" /\ AddEndpointOK(ev.what)
      [] ev.a = "DelEndpoint" -> ev.what # "" /\ DelEndpointOK(ev.what)
      [] OTHER -> TRUE

\* C11: an acknowledged call has taken effect (what the GET endpoints show afterwards)
Applied(r) ==
    LET ev == r.ev IN
    Accepted(r) =>
        \* (GET /api/tags shows "..." as the definition of mark/ and generated/ tags: only their matching counts are visible)
        CASE ev.a = "AddTag"   -> ev.name \in DOMAIN tags' /\ tags'[ev.name].color = ev.color
                                  /\ (IF IsMarkName(ev.name) THEN tags'[ev.name].def.k = "M" ELSE tags'[ev.name].def = DefOf(ev.def))
                                  /\ DOMAIN tags' = DOMAIN tags \cup {ev.name}
          [] ev.a = "DelTag"   -> ev.name \notin DOMAIN tags' /\ DOMAIN tags' = DOMAIN tags \ {ev.name}
          [] ev.a = "UpdQuery" -> ev.name \in DOMAIN tags' /\ DOMAIN tags' = DOMAIN tags
                                  /\ (IF IsMarkName(ev.name) THEN tags'[ev.name].def.k = "M" ELSE tags'[ev.name].def = DefOf(ev.def))
          [] ev.a = "UpdName"  -> ev.new \in DOMAIN tags' /\ ev.name \notin DOMAIN tags'
                                  /\ DOMAIN tags' = (DOMAIN tags \ {ev.name}) \cup {ev.new}
                                  /\ ev.name \in DOMAIN tags => (tags'[ev.new].def = tags[ev.name].def /\ tags'[ev.new].color = tags[ev.name].color)
          [] ev.a = "UpdColor" -> ev.name \in DOMAIN tags' /\ tags'[ev.name].color = ev.color
          [] ev.a = "MarkAdd"  -> ev.name \in DOMAIN tags' /\ ev.name \in DOMAIN tags
                                  /\ Cardinality(tags'[ev.name].M) >= Cardinality(tags[ev.name].M)
                                  /\ Cardinality(tags'[ev.name].M) <= Cardinality(tags[ev.name].M) + Cardinality(S(ev.ids))
                                  /\ Cardinality(tags'[ev.name].M) >= Cardinality(S(ev.ids))
          [] ev.a = "MarkDel"  -> ev.name \in DOMAIN tags' /\ ev.name \in DOMAIN tags
                                  /\ Cardinality(tags'[ev.name].M) <= Cardinality(tags[ev.name].M)
                                  /\ Cardinality(tags'[ev.name].M) >= Cardinality(tags[ev.name].M) - Cardinality(S(ev.ids))
          [] ev.a = "SetConverters" -> ev.name \in DOMAIN tags' /\ tags'[ev.name].convs = S(ev.convs)
          [] ev.a = "AddHook"  -> settings'.hooks = Append(settings.hooks, ev.what)
          [] ev.a = "DelHook"  -> settings'.hooks = SeqWithout(settings.hooks, ev.what)
          [] ev.a = "AddEndpoint" -> settings'.eps = Append(settings.eps, ev.what)
          [] ev.a = "DelEndpoint" -> settings'.eps = SeqWithout(settings.eps, ev.what)
          [] ev.a = "SetConfig" -> settings'.cfg = (ev.k = 1)
          [] OTHER -> TRUE
\* ... and only that: everything the call does not name stays as it was
FrameOK(r) ==
    LET ev == r.ev
        Core(x) == [x EXCEPT !.refBy = {}]              \* (the referenced flag of other tags follows the definitions)
        same(D) == \A t \in D : t \in DOMAIN tags /\ t \in DOMAIN tags' => Core(tags'[t]) = Core(tags[t])
        tagCall == ev.a \in {"AddTag", "DelTag", "UpdQuery", "UpdName", "UpdColor", "MarkAdd", "MarkDel", "SetConverters"}
    IN Accepted(r) =>
        /\ tagCall => settings' = settings
        /\ ~tagCall /\ ev.a \notin {"ApiImport", "Init"} => tags' = tags
        /\ ev.a \in {"AddTag", "DelTag", "UpdName"} => same(DOMAIN tags \ {ev.name})         \* (referenced flags of others may change: refBy is derived)
        /\ ev.a \in {"UpdColor", "SetConverters"} => same(DOMAIN tags \ {ev.name})
\* C11: a rejected call leaves everything as it was
RejectIsNoop(r) == ~Accepted(r) => tags' = tags /\ settings' = settings

GraphOK == /\ \A t \in DOMAIN tags' : Refs(tags'[t].def) \subseteq DOMAIN tags' \ {t}
           /\ \A t \in DOMAIN tags' : ~Reaches(tags', t, t)
Mirrors(r) == \A t \in DOMAIN r.obs.tags : r.obs.tags[t].referenced = (tags'[t].refBy # {})

Init0 == l = 0 /\ Init
Next0 ==
    /\ l < Len(Trace)
    /\ l' = l + 1
    /\ LET r == Trace[l + 1] IN
       /\ Bind(r)
       /\ Chk(r.obs.err = "", r, "api-observation-failed")
       /\ r.obs.err = "" /\ r.n # 0 /\ r.ev.a # "ApiImport" =>
            /\ Chk(r.status > 0 /\ r.status < 500, r, "C11.ServerError")
            /\ Chk(Applied(r), r, "C11.Applied")
            /\ Chk(FrameOK(r), r, "C11.OnlyThat")
            /\ Chk(RejectIsNoop(r), r, "C11.RejectIsNoop")
            /\ (Accepted(r) = ExpectOK(r)) \/ Say("nonconf", r, IF Accepted(r) THEN "accepted-but-invalid" ELSE "rejected-but-valid", r.target)
       /\ r.obs.err = "" =>
            /\ Chk(GraphOK, r, "C11.GraphWellFormed")
            /\ Chk(Mirrors(r), r, "C11.ReferencedMirrors")
Spec0 == Init0 /\ [][Next0]_<<vars, l>>

Done == l = Len(Trace) => PrintT("@@J" \o ToJson([done |-> l]))
=============================================================================

------------------------------ MODULE IndexFile ------------------------------
(* C01 / C07 - the index file writer, reader and merger of internal/index
   (writer.go, reader.go, format.go, merger.go) AS THE CODE HAS THEM, with SCALED constants:

     real                                   scaled (IndexFileMC*.cfg)
     host table full at 65535 bytes         CapBytes = 7   (v4 host = 2 bytes -> 4 hosts, v6 host = 4 bytes -> 2 hosts)
     DataSize capped at 65535 bytes         MaxData  = 2 units
     SkipPacketsForData saturates at 255    SkipSat  = 2
     RelPacketTimeMS modulo 2^32 us         Wrap     = 4 ticks (a tick = 2^30 us = Tick time units)
     packet index split at 2^32             ImportSplit = 2
     reference time in whole seconds        Sec = 2 time units (a time unit = half a second)

   The module is purely functional: a writer W, a finished file F and the reader's
   observations are values; AddStream / Finalize / Open / Decode / AddIndex / Merge are
   operators that follow the Go code statement by statement (line numbers of the pinned
   commit are given).  Two switches select between the code as it was found and the proposed
   repair (proposed_fixes/C01-1.patch):

     PopUnit   = "byte"  hostGroup.pop/popN drop n BYTES          (writer.go:65-71 as found)
               = "host"  ... drop n hosts                          (repaired)
     StartUnit = "byte"  the reader uses hostGroupEntry.Start as a byte offset (reader.go:218 as found)
               = "host"  ... as a host index                        (repaired)

   (A third defect of the same regime is NOT a switch of the model: AddIndex as found takes over a reader's
   host group by aliasing the reader's slice of the host section, so a later append overwrites the first
   hosts of the reader's next group.  The model has value semantics, i.e. the repaired behaviour; the regime
   "hosts-appended-to-group-sharing-the-readers-host-section" of IndexFileMergeMC.tla steers the real code
   into it and the trace predicates Visible / InputsIntact catch it there.)

   IndexFileMC.tla checks Decode(Encode(S)) = S and merge invisibility exhaustively for small
   inputs and prints regime-covering vectors; IndexFileTrace.tla validates what the real
   code did. *)
EXTENDS Integers, Sequences, FiniteSets, TLC

CONSTANTS CapBytes, MaxData, SkipSat, Wrap, Tick, Sec, ImportSplit, PopUnit, StartUnit

RelMod == Wrap * Tick                 \* 2^32 us
Burst  == 1                           \* ChunkSplitThreshold (50 ms) < one time unit

Min(S) == CHOOSE x \in S : \A y \in S : x <= y
Max(S) == CHOOSE x \in S : \A y \in S : y <= x
Range(s) == {s[i] : i \in DOMAIN s}
Last(s) == s[Len(s)]

RECURSIVE Flatten(_)
Flatten(ss) == IF ss = <<>> THEN <<>> ELSE Head(ss) \o Flatten(Tail(ss))
RECURSIVE SumSeq(_)
SumSeq(s) == IF s = <<>> THEN 0 ELSE Head(s) + SumSeq(Tail(s))
SelectSeqI(s, T(_)) == LET F[i \in 0 .. Len(s)] == IF i = 0 THEN <<>> ELSE IF T(i) THEN Append(F[i - 1], s[i]) ELSE F[i - 1]
                       IN F[Len(s)]

\* the permutation of 1..n that sorts by the strict total order Less(i,j) (ties cannot occur
\* for the two lookups that are observable; sort.Slice is not stable, the model breaks ties by index)
SortPerm(n, Less(_, _)) ==
    LET lt(i, j) == Less(i, j) \/ (~Less(j, i) /\ i < j)
        rank(i) == Cardinality({j \in 1 .. n : lt(j, i)}) + 1
    IN [r \in 1 .. n |-> CHOOSE i \in 1 .. n : rank(i) = r]

(***************************************************************************)
(* Input: a stream as handed to Writer.AddStream (streams.Stream)          *)
(*   [id, fam \in {"v4","v6"}, c, s (host numbers), cp, sp, proto,          *)
(*    pkts : Seq([t (absolute, time units), cap (capture number), idx      *)
(*                (packet index), dir \in {0,1}]),                          *)
(*    data : Seq([pk (position in pkts, 1-based), sz (units, 0 allowed)])] *)
(* payload bytes are abstract tokens <<pk, k>>.                             *)
(***************************************************************************)
HostSize(fam) == IF fam = "v4" THEN 2 ELSE 4
HostBytes(fam, h) == IF fam = "v4" THEN <<104, h>> ELSE <<106, 106, 106, h>>

Tokens(pk, sz) == [k \in 1 .. sz |-> <<pk, k>>]
DataDir(S, d) == S.pkts[d.pk].dir

\* what the property says must come back (the abstraction of the input)
RECURSIVE Collapse(_)
Collapse(ds) == IF Len(ds) <= 1 THEN ds
                ELSE IF ds[1] = ds[2] THEN Collapse(Tail(ds)) ELSE <<ds[1]>> \o Collapse(Tail(ds))
Abs(S) ==
    LET nz == SelectSeq(S.data, LAMBDA d : d.sz > 0)
        blob(dir) == Flatten([i \in 1 .. Len(S.data) |->
                         IF DataDir(S, S.data[i]) = dir THEN Tokens(S.data[i].pk, S.data[i].sz) ELSE <<>>])
    IN [id |-> S.id, ch |-> HostBytes(S.fam, S.c), sh |-> HostBytes(S.fam, S.s), cp |-> S.cp, sp |-> S.sp,
        proto |-> S.proto, first |-> S.pkts[1].t, last |-> Last(S.pkts).t,
        cb |-> Len(blob(0)), sb |-> Len(blob(1)), c |-> blob(0), s |-> blob(1),
        runs |-> Collapse([i \in 1 .. Len(nz) |-> DataDir(S, nz[i])]),
        pkts |-> [i \in 1 .. Len(S.pkts) |-> <<S.pkts[i].cap, S.pkts[i].idx, S.pkts[i].dir>>]]

(***************************************************************************)
(* hostGroup  (writer.go:21-71).  bytes is the backing array: bytes beyond  *)
(* len are stale but still seen by the re-slicing compare of add().        *)
(***************************************************************************)
EmptyGroup == [size |-> 0, bytes |-> <<>>, len |-> 0]

GAdd(g, hb) ==                                                          \* writer.go:41-63
    IF g.len = 0 THEN [g |-> [size |-> Len(hb), bytes |-> hb, len |-> Len(hb)], idx |-> 0, added |-> TRUE, ok |-> TRUE]
    ELSE IF g.size # Len(hb) THEN [g |-> g, idx |-> 0, added |-> FALSE, ok |-> FALSE]
    ELSE LET found == {p \in 0 .. ((g.len - 1) \div g.size) : SubSeq(g.bytes, p * g.size + 1, p * g.size + g.size) = hb}
         IN IF found # {} THEN [g |-> g, idx |-> Min(found), added |-> FALSE, ok |-> TRUE]
            ELSE IF g.len >= CapBytes THEN [g |-> g, idx |-> 0, added |-> FALSE, ok |-> FALSE]
            ELSE [g |-> [g EXCEPT !.bytes = SubSeq(g.bytes, 1, g.len) \o hb, !.len = g.len + Len(hb)],
                  idx |-> ((g.len + Len(hb)) \div g.size) - 1, added |-> TRUE, ok |-> TRUE]

GPopN(g, n) == [g EXCEPT !.len = IF PopUnit = "byte" THEN g.len - n ELSE g.len - n * g.size]   \* writer.go:65-71
GHosts(g) == g.len \div g.size                                           \* hosts the writer believes to have

\* the host-group loop of AddStream (writer.go:207-238)
\* (u counts the "client fits, server does not" undo steps - only used to name regimes)
RECURSIVE Place(_, _, _, _, _)
Place(groups, gi, cb, sb, u) ==
    LET gs == IF gi > Len(groups) THEN Append(groups, EmptyGroup) ELSE groups
        r1 == GAdd(gs[gi], cb)
    IN IF ~r1.ok THEN Place(gs, gi + 1, cb, sb, u)
       ELSE LET r2 == GAdd(r1.g, sb)
            IN IF ~r2.ok
               THEN Place([gs EXCEPT ![gi] = IF r1.added THEN GPopN(r1.g, 1) ELSE r1.g], gi + 1, cb, sb,
                          IF r1.added THEN u + 1 ELSE u)
               ELSE [groups |-> [gs EXCEPT ![gi] = r2.g], hg |-> gi - 1, ch |-> r1.idx, sh |-> r2.idx,
                     undone |-> u]

(***************************************************************************)
(* Writer                                                                  *)
(***************************************************************************)
NewWriter == [groups |-> <<>>, imports |-> <<>>, packets |-> <<>>, streams |-> <<>>, ref |-> 0]

ImportKey(p) == <<p.cap, p.idx \div ImportSplit>>
IndexOf(seq, x) == CHOOSE i \in 1 .. Len(seq) : seq[i] = x
RECURSIVE AddImports(_, _)
AddImports(imps, keys) == IF keys = <<>> THEN imps
                          ELSE AddImports(IF Head(keys) \in Range(imps) THEN imps ELSE Append(imps, Head(keys)), Tail(keys))

RECURSIVE RecSizes(_)
RecSizes(sz) == IF sz <= MaxData THEN <<sz>> ELSE <<MaxData>> \o RecSizes(sz - MaxData)

ApplySkips(rs, from, to, base) ==
    [j \in 1 .. Len(rs) |-> IF j >= from /\ j <= to /\ base - j < SkipSat THEN [rs[j] EXCEPT !.skip = base - j] ELSE rs[j]]

\* packet records of one stream (writer.go:281-341); st = [rs, last]  (last = 1-based lastPacketWithData)
RECURSIVE EmitRecs(_, _, _)
EmitRecs(st, proto, sizes) ==
    IF sizes = <<>> THEN st
    ELSE LET n  == Len(st.rs)
             np == [proto EXCEPT !.dsz = Head(sizes)]
         IN IF Head(sizes) # 0
            THEN EmitRecs([rs |-> Append(ApplySkips(st.rs, st.last, n, n), np), last |-> n + 1], proto, Tail(sizes))
            ELSE EmitRecs([rs |-> Append(st.rs, np), last |-> st.last], proto, Tail(sizes))

RECURSIVE StreamRecs(_, _, _, _)
StreamRecs(S, imps, i, st) ==
    IF i > Len(S.pkts) THEN
        LET N  == Len(st.rs)
            rs == ApplySkips(st.rs, st.last, N - 1, N - 1)
        IN [rs EXCEPT ![N].next = FALSE]
    ELSE LET p  == S.pkts[i]
             ds == {k \in 1 .. Len(S.data) : S.data[k].pk = i}
             sz == IF ds = {} THEN 0 ELSE S.data[Max(ds)].sz          \* packetToData: the last entry wins
             proto == [rel |-> (p.t - S.pkts[1].t) % RelMod, imp |-> IndexOf(imps, ImportKey(p)) - 1,
                       idx |-> p.idx % ImportSplit, dsz |-> 0, skip |-> SkipSat, next |-> TRUE, dir |-> p.dir]
         IN StreamRecs(S, imps, i + 1, EmitRecs(st, proto, RecSizes(sz)))

\* the alternating run lengths (writer.go:363-397); returns the sequence of numbers
RECURSIVE Segm(_, _, _)
Segm(S, di, want) ==
    IF di > Len(S.data) THEN <<>>
    ELSE LET dir == DataDir(S, S.data[di])
             RECURSIVE runEnd(_)
             runEnd(k) == IF k + 1 <= Len(S.data) /\ DataDir(S, S.data[k + 1]) = dir THEN runEnd(k + 1) ELSE k
             e  == runEnd(di)
             sz == SumSeq([k \in 1 .. (e - di + 1) |-> S.data[di + k - 1].sz])
         IN (IF dir # want THEN <<0>> ELSE <<>>) \o <<sz>> \o Segm(S, e + 1, 1 - dir)

AddStream(W, S) ==                                                      \* writer.go:151-405
    LET t0    == S.pkts[1].t
        fsec  == t0 \div Sec
        first == W.packets = <<>>
        ref   == IF first THEN fsec ELSE IF W.ref > fsec THEN fsec ELSE W.ref
        diff  == IF first THEN 0 ELSE (W.ref - ref) * Sec
        old   == [i \in 1 .. Len(W.streams) |-> [W.streams[i] EXCEPT !.first = @ + diff, !.last = @ + diff]]
        pl    == Place(W.groups, 1, HostBytes(S.fam, S.c), HostBytes(S.fam, S.s), 0)
        imps  == AddImports(W.imports, [i \in 1 .. Len(S.pkts) |-> ImportKey(S.pkts[i])])
        recs  == StreamRecs(S, imps, 1, [rs |-> <<>>, last |-> 1])
        a     == Abs(S)
        st    == [id |-> S.id, cp |-> S.cp, sp |-> S.sp, proto |-> S.proto, pstart |-> Len(W.packets),
                  first |-> t0 - ref * Sec, last |-> Last(S.pkts).t - ref * Sec,
                  hg |-> pl.hg, ch |-> pl.ch, sh |-> pl.sh, cb |-> a.cb, sb |-> a.sb,
                  payload |-> a.c \o a.s, seg |-> Segm(S, 1, 0)]
    IN [groups |-> pl.groups, imports |-> imps, packets |-> W.packets \o recs, streams |-> Append(old, st), ref |-> ref]

RECURSIVE AddStreams(_, _)
AddStreams(W, Ss) == IF Ss = <<>> THEN W ELSE AddStreams(AddStream(W, Head(Ss)), Tail(Ss))

(***************************************************************************)
(* Finalize (writer.go:407-622): the file                                  *)
(***************************************************************************)
FamOfSize(sz) == IF sz = 4 THEN "v6" ELSE "v4"          \* writer.go:515: everything that is not 16 bytes is v4
Finalize(W) ==
    LET ng == Len(W.groups)
        gb(i) == SubSeq(W.groups[i].bytes, 1, W.groups[i].len)
        v4 == Flatten([i \in 1 .. ng |-> IF W.groups[i].size = 2 THEN gb(i) ELSE <<>>])
        v6 == Flatten([i \in 1 .. ng |-> IF W.groups[i].size = 4 THEN gb(i) ELSE <<>>])
        startOf(i) == SumSeq([j \in 1 .. (i - 1) |-> IF FamOfSize(W.groups[j].size) = FamOfSize(W.groups[i].size)
                                                     THEN GHosts(W.groups[j]) ELSE 0])
        hgs == [i \in 1 .. ng |-> [start |-> startOf(i), count |-> GHosts(W.groups[i]) - 1, fam |-> FamOfSize(W.groups[i].size)]]
        n  == Len(W.streams)
        fp(i) == W.packets[W.streams[i].pstart + 1]
        srcLess(i, j) ==
            IF fp(i).imp = fp(j).imp THEN fp(i).idx < fp(j).idx
            ELSE LET ai == W.imports[fp(i).imp + 1]  bi == W.imports[fp(j).imp + 1]
                 IN IF ai[1] # bi[1] THEN ai[1] < bi[1]
                    ELSE ai[2] * ImportSplit + fp(i).idx < bi[2] * ImportSplit + fp(j).idx
    IN [ref |-> W.ref, imports |-> W.imports, packets |-> W.packets, v4 |-> v4, v6 |-> v6, hgs |-> hgs,
        streams |-> W.streams,
        byId    |-> SortPerm(n, LAMBDA i, j : W.streams[i].id < W.streams[j].id),
        bySrc   |-> SortPerm(n, srcLess),
        byFirst |-> SortPerm(n, LAMBDA i, j : W.streams[i].first < W.streams[j].first),
        byLast  |-> SortPerm(n, LAMBDA i, j : W.streams[i].last < W.streams[j].last)]

(***************************************************************************)
(* Reader (reader.go).  Every operation returns [ok |-> FALSE] where the   *)
(* Go code would panic or return an error.                                 *)
(***************************************************************************)
Bad == [ok |-> FALSE]

RGroup(F, g) ==                                                         \* reader.go:206-224
    LET hg   == F.hgs[g + 1]
        base == IF hg.fam = "v4" THEN F.v4 ELSE F.v6
        size == HostSize(hg.fam)
        off  == IF StartUnit = "byte" THEN hg.start ELSE hg.start * size
    IN [base |-> base, size |-> size, off |-> off, n |-> hg.count + 1, fam |-> hg.fam,
        ok |-> off <= Len(base) /\ off + size * (hg.count + 1) <= Len(base)]
OpenOK(F) == \A g \in 0 .. (Len(F.hgs) - 1) : RGroup(F, g).ok            \* NewReader slices every group
RGet(F, g, id) ==                                                       \* readerHostGroup.get (re-slices up to cap)
    LET G == RGroup(F, g)
        lo == G.off + G.size * id
    IN IF lo + G.size <= Len(G.base) THEN [ok |-> TRUE, b |-> SubSeq(G.base, lo + 1, lo + G.size)] ELSE Bad

\* Stream.Packets (reader.go:435-469), references only
RECURSIVE RPackets(_, _, _, _, _)
RPackets(F, i, lastImp, lastIdx, acc) ==
    IF i > Len(F.packets) THEN Bad
    ELSE LET p == F.packets[i]
             new == p.imp # lastImp \/ p.idx # lastIdx
             imp == F.imports[p.imp + 1]
             acc2 == IF new THEN Append(acc, <<imp[1], imp[2] * ImportSplit + p.idx, p.dir>>) ELSE acc
         IN IF ~p.next THEN [ok |-> TRUE, v |-> acc2] ELSE RPackets(F, i + 1, p.imp, p.idx, acc2)

\* first loop of Stream.Data (reader.go:471-517): per direction the list of (time, size)
\* z = [i, refAdd, expect, lastRel, prevTs, prevDir, pt]
RECURSIVE RScan(_, _, _)
RScan(F, s, z) ==
    IF z.i > Len(F.packets) THEN Bad
    ELSE LET p  == F.packets[z.i]
             wr == z.expect # 0 /\ p.rel < z.lastRel
             refAdd == IF wr THEN z.refAdd + RelMod ELSE z.refAdd
             expect == IF wr THEN z.expect - 1 ELSE z.expect
             lastRel == IF z.expect # 0 THEN p.rel ELSE z.lastRel
             ts == refAdd + p.rel
             merge == p.dsz # 0 /\ z.pt[p.dir] # <<>> /\ p.dir = z.prevDir /\ ts - z.prevTs < Burst
             pt == IF p.dsz = 0 THEN z.pt
                   ELSE IF merge THEN [z.pt EXCEPT ![p.dir][Len(z.pt[p.dir])].sz = @ + p.dsz]
                   ELSE [z.pt EXCEPT ![p.dir] = Append(@, [ts |-> ts, sz |-> p.dsz])]
             z2 == [i |-> z.i + 1 + (IF expect = 0 THEN p.skip ELSE 0), refAdd |-> refAdd, expect |-> expect,
                    lastRel |-> lastRel, prevTs |-> IF p.dsz # 0 THEN ts ELSE z.prevTs,
                    prevDir |-> IF p.dsz # 0 THEN p.dir ELSE z.prevDir, pt |-> pt]
         IN IF ~p.next THEN [ok |-> TRUE, pt |-> pt] ELSE RScan(F, s, z2)

\* second loop of Stream.Data (reader.go:532-577)
\* y = [k (next seg number), dir, pos, pt, out]
RECURSIVE RChunks(_, _), RConsume(_, _, _, _)
RConsume(s, y, dir, sz) ==               \* inner for-loop: take sz bytes of direction dir from the packet-time list
    IF y.pt[dir] = <<>> THEN Bad
    ELSE LET pt  == y.pt[dir][1]
             cur == IF sz > pt.sz THEN pt.sz ELSE sz
             base == IF dir = 0 THEN 0 ELSE s.cb
             piece == SubSeq(s.payload, base + y.pos[dir] + 1, base + y.pos[dir] + cur)
             left == pt.sz - cur
             y2 == [y EXCEPT !.out = Append(@, [dir |-> dir, content |-> piece]), !.pos[dir] = @ + cur,
                             !.pt[dir] = IF left = 0 THEN Tail(@) ELSE [@ EXCEPT ![1].sz = left]]
         IN IF sz - cur = 0 THEN [ok |-> TRUE, y |-> y2] ELSE RConsume(s, y2, dir, sz - cur)
RChunks(s, y) ==
    IF y.pos[0] = s.cb /\ y.pos[1] = s.sb THEN [ok |-> TRUE, out |-> y.out]
    ELSE IF y.k > Len(s.seg) THEN Bad
    ELSE LET sz == s.seg[y.k]
         IN IF sz = 0 THEN RChunks(s, [y EXCEPT !.k = @ + 1, !.dir = 1 - @])
            ELSE LET r == RConsume(s, y, y.dir, sz)
                 IN IF ~r.ok THEN Bad ELSE RChunks(s, [r.y EXCEPT !.k = @ + 1, !.dir = 1 - @])

RData(F, s) ==
    LET sc == RScan(F, s, [i |-> s.pstart + 1, refAdd |-> 0, expect |-> (s.last - s.first) \div RelMod, lastRel |-> 0,
                           prevTs |-> 0, prevDir |-> 0, pt |-> [d \in {0, 1} |-> <<>>]])
    IN IF ~sc.ok THEN Bad
       ELSE RChunks(s, [k |-> 1, dir |-> 0, pos |-> [d \in {0, 1} |-> 0], pt |-> sc.pt, out |-> <<>>])

\* everything the property lists, for the stream at (0-based) position k of file F
Decode(F, k) ==
    LET s  == F.streams[k + 1]
        ch == RGet(F, s.hg, s.ch)
        sh == RGet(F, s.hg, s.sh)
        pk == RPackets(F, s.pstart + 1, -1, -1, <<>>)
        da == RData(F, s)
        cat(dir) == Flatten([i \in 1 .. Len(da.out) |-> IF da.out[i].dir = dir THEN da.out[i].content ELSE <<>>])
    IN IF ~(OpenOK(F) /\ ch.ok /\ sh.ok /\ pk.ok /\ da.ok) THEN [id |-> s.id, ok |-> FALSE]
       ELSE [id |-> s.id, ch |-> ch.b, sh |-> sh.b, cp |-> s.cp, sp |-> s.sp, proto |-> s.proto,
             first |-> F.ref * Sec + s.first, last |-> F.ref * Sec + s.last, cb |-> s.cb, sb |-> s.sb,
             c |-> cat(0), s |-> cat(1), runs |-> Collapse([i \in 1 .. Len(da.out) |-> da.out[i].dir]), pkts |-> pk.v]

\* Reader.StreamByID (reader.go:319-332): position or -1
StreamIDs(F) == {F.streams[i].id : i \in 1 .. Len(F.streams)}
ByID(F, id) ==
    IF F.streams = <<>> \/ id < Min(StreamIDs(F)) \/ id > Max(StreamIDs(F)) \/ id \notin StreamIDs(F) THEN -1
    ELSE Max({i \in 1 .. Len(F.streams) : F.streams[i].id = id}) - 1          \* the map keeps the last one

\* Reader.StreamByFirstPacketSource (reader.go:370-407) with sort.Search as written in Go
BySource(F, cap, idx) ==
    LET n == Len(F.streams)
        src(si) == LET p == F.packets[F.streams[si].pstart + 1]  imp == F.imports[p.imp + 1]
                   IN <<imp[1], imp[2] * ImportSplit + p.idx>>
        f(i) == LET x == src(F.bySrc[i + 1]) IN IF x[1] # cap THEN cap <= x[1] ELSE idx <= x[2]
        bs[i \in 0 .. n, j \in 0 .. n] == IF i >= j THEN i
                                          ELSE LET h == (i + j) \div 2 IN IF ~f(h) THEN bs[h + 1, j] ELSE bs[i, h]
        pos == bs[0, n]
    IN IF pos >= n THEN -1
       ELSE IF src(F.bySrc[pos + 1]) = <<cap, idx>> THEN F.bySrc[pos + 1] - 1 ELSE -1

(***************************************************************************)
(* C01: the round-trip predicate for a file built from the streams Ss      *)
(***************************************************************************)
File(Ss) == Finalize(AddStreams(NewWriter, Ss))
RoundTripAt(F, Ss, i) == Decode(F, i - 1) = Abs(Ss[i])
LookupAt(F, Ss, i) ==
    /\ ByID(F, Ss[i].id) = i - 1
    /\ BySource(F, Ss[i].pkts[1].cap, Ss[i].pkts[1].idx) = i - 1

(***************************************************************************)
(* C07: AddIndex (writer.go:624-858) and Merge (merger.go)                 *)
(***************************************************************************)
\* host groups of an opened reader: [size, n, bytes (backing up to the end of the section), fam]
RHostGroup(F, g) == LET G == RGroup(F, g) IN
    [size |-> G.size, n |-> G.n, bytes |-> SubSeq(G.base, G.off + 1, Len(G.base)), len |-> G.size * G.n]
RHGet(rg, h) == SubSeq(rg.bytes, rg.size * h + 1, rg.size * h + rg.size)

\* try to add all hosts of reader group rg to writer group g; [g, remap, nAdded, ok]
RECURSIVE AddAll(_, _, _, _, _)
AddAll(g, rg, h, remap, nAdded) ==
    IF h >= rg.n THEN [g |-> g, remap |-> remap, nAdded |-> nAdded, ok |-> TRUE]
    ELSE LET r == GAdd(g, RHGet(rg, h))
         IN IF ~r.ok THEN [g |-> g, remap |-> remap, nAdded |-> nAdded, ok |-> FALSE]
            ELSE AddAll(r.g, rg, h + 1, Append(remap, r.idx), IF r.added THEN nAdded + 1 ELSE nAdded)

\* writer.go:678-719 for one reader group: first writer group that takes all its hosts, else a new one
RECURSIVE MapGroup(_, _, _)
MapGroup(groups, rg, wi) ==
    IF wi > Len(groups)
    THEN [groups |-> Append(groups, [size |-> rg.size, bytes |-> rg.bytes, len |-> rg.len]),     \* as found: aliases the reader's slice (see head)
          to |-> wi - 1, remap |-> [h \in 1 .. rg.n |-> h - 1]]
    ELSE LET r == AddAll(groups[wi], rg, 0, <<>>, 0)
         IN IF r.ok THEN [groups |-> [groups EXCEPT ![wi] = r.g], to |-> wi - 1, remap |-> r.remap]
            ELSE MapGroup([groups EXCEPT ![wi] = GPopN(r.g, r.nAdded)], rg, wi + 1)
RECURSIVE MapGroups(_, _, _, _)
MapGroups(groups, F, g, acc) ==
    IF g >= Len(F.hgs) THEN [groups |-> groups, maps |-> acc]
    ELSE LET m == MapGroup(groups, RHostGroup(F, g), 1)
         IN MapGroups(m.groups, F, g + 1, Append(acc, [to |-> m.to, remap |-> m.remap]))

\* the packet records of one stream of F (up to the record without has-next)
RECURSIVE RecsFrom(_, _)
RecsFrom(F, i) == IF ~F.packets[i].next THEN <<F.packets[i]>> ELSE <<F.packets[i]>> \o RecsFrom(F, i + 1)

RECURSIVE CopyStreams(_, _, _, _, _, _)
CopyStreams(F, k, have, maps, impRemap, acc) ==      \* acc = [packets, streams (new ones only)], writer.go:745-828
    IF k > Len(F.streams) THEN acc
    ELSE LET s == F.streams[k]
         IN IF s.id \in have THEN CopyStreams(F, k + 1, have, maps, impRemap, acc)
            ELSE LET recs == RecsFrom(F, s.pstart + 1)
                     m == maps[s.hg + 1]
                     ns == [s EXCEPT !.hg = m.to, !.ch = m.remap[s.ch + 1], !.sh = m.remap[s.sh + 1],
                                     !.pstart = Len(acc.packets)]
                 IN CopyStreams(F, k + 1, have, maps, impRemap,
                        [packets |-> acc.packets \o [i \in 1 .. Len(recs) |-> [recs[i] EXCEPT !.imp = impRemap[@ + 1]]],
                         streams |-> Append(acc.streams, ns)])

AddIndex(W, F) ==
    LET imps == AddImports(W.imports, F.imports)
        impRemap == [i \in 1 .. Len(F.imports) |-> IndexOf(imps, F.imports[i]) - 1]
        mg   == MapGroups(W.groups, F, 0, <<>>)
        have == {W.streams[i].id : i \in 1 .. Len(W.streams)}
        cp   == CopyStreams(F, 1, have, mg.maps, impRemap, [packets |-> W.packets, streams |-> <<>>])
        n0   == Len(W.streams)
    IN IF cp.streams = <<>>
       THEN \* "no new streams": undo() - imports deleted, groups truncated, but hosts added to
            \* existing groups stay (hgRemap.nAdded is never set, writer.go:672-677)
            [W EXCEPT !.groups = SubSeq(mg.groups, 1, Len(W.groups))]
       ELSE LET minFirst == Min({cp.streams[i].first : i \in 1 .. Len(cp.streams)})
                cand == (F.ref * Sec + minFirst) \div Sec
                newRef == IF n0 # 0 /\ cand > W.ref THEN W.ref ELSE cand
                newDiff == (F.ref - newRef) * Sec                    \* may be negative: uint64 wrap-around in Go
                oldDiff == (W.ref - newRef) * Sec
            IN [groups |-> mg.groups, imports |-> imps, packets |-> cp.packets, ref |-> newRef,
                streams |-> [i \in 1 .. n0 |-> [W.streams[i] EXCEPT !.first = @ + oldDiff, !.last = @ + oldDiff]]
                            \o [i \in 1 .. Len(cp.streams) |-> [cp.streams[i] EXCEPT !.first = @ + newDiff, !.last = @ + newDiff]]]

\* Merge (merger.go:11-41): newest first into one writer (the limits that make AddIndex
\* refuse - 2^16 host groups, 2^32 records - are out of reach and not modelled)
RECURSIVE MergeInto(_, _)
MergeInto(W, files) == IF files = <<>> THEN W ELSE MergeInto(AddIndex(W, Last(files)), SubSeq(files, 1, Len(files) - 1))
Merge(files) == Finalize(MergeInto(NewWriter, files))

\* what a user sees of a stack (oldest first): for every id the newest file's version
StackIDs(stack) == UNION {StreamIDs(stack[i]) : i \in 1 .. Len(stack)}
VisibleAt(stack, id) ==
    LET fi == Max({i \in 1 .. Len(stack) : id \in StreamIDs(stack[i])})
    IN Decode(stack[fi], ByID(stack[fi], id))
Visible(stack) == [id \in StackIDs(stack) |-> VisibleAt(stack, id)]
=============================================================================

----------------------------- MODULE IndexFileMC -----------------------------
(* C01 (C): exhaustive check of Decode(Encode(S)) = S on the scaled model of IndexFile.tla,
   and generator of regime-covering vectors for the real Writer/Reader.

   The input space is explored along three axes (constant Mode), each one exhaustively:
     "hosts"  up to MaxStreams streams, every (family, client, server) choice up to renaming of
              hosts: host-group capacity, second groups, the undo path, mixed families
     "meta"   up to MaxStreams streams, every choice of id (sparse, unordered), start time
              (reference second re-basing) and first-packet source (captures, index high bits)
     "pkts"   one stream, every packet list up to MaxPkts packets: time steps (bursts, ticks,
              wrap, lost wrap), payload per packet (none, empty chunk, 1, split sizes), direction;
              payload order as the packets or reversed (re-ordered TCP segments)
   Every state is one input; the invariant RoundTrip evaluates the whole write/finalize/open/
   read pipeline on it.  Emit prints the first EmitK inputs reaching each regime as "@@J" lines. *)
EXTENDS IndexFile, Json

CONSTANTS Mode, MaxStreams, MaxPkts, Sizes, Steps, EmitK, Exempt
VARIABLES ws, rev

vars == <<ws, rev>>

NoData == 99                              \* marker in Sizes: the packet carries no payload entry
IDS    == <<5, 2, 9, 0, 7>>                  \* sparse, unordered
Slots  == {<<1, 0>>, <<1, 1>>, <<1, 3>>, <<2, 0>>}        \* first-packet sources <<capture, index>>
Starts == {0, 1, 2, 5}                       \* seconds 0, 0, 1, 2

Simple(id, fam, c, s, start, cap, idx, cap2, idx2) ==
    [id |-> id, fam |-> fam, c |-> c, s |-> s, cp |-> 1000 + id, sp |-> 80 + Len(ws), proto |-> IF id % 2 = 0 THEN "TCP" ELSE "UDP",
     pkts |-> <<[t |-> start, cap |-> cap, idx |-> idx, dir |-> 0], [t |-> start + 1, cap |-> cap2, idx |-> idx2, dir |-> 1]>>,
     data |-> <<[pk |-> 2, sz |-> 1]>>]

UsedHosts(fam) == UNION {{ws[i].c, ws[i].s} : i \in {j \in 1 .. Len(ws) : ws[j].fam = fam}}
NextHost(fam) == IF UsedHosts(fam) = {} THEN 0 ELSE Max(UsedHosts(fam)) + 1

CandHosts ==
    LET n == Len(ws) + 1 IN
    {Simple(IDS[n], fam, c, s, 2, 1, 10 * n, 1, 10 * n + 1) :
        fam \in {"v4", "v6"}, c \in 0 .. 5, s \in 0 .. 6}
HostsCanon(S) == /\ S.c <= NextHost(S.fam)
                 /\ S.s <= (IF S.c = NextHost(S.fam) THEN S.c + 1 ELSE NextHost(S.fam))

CandMeta ==
    LET usedIds == {ws[i].id : i \in 1 .. Len(ws)}
        usedSlots == {<<ws[i].pkts[1].cap, ws[i].pkts[1].idx>> : i \in 1 .. Len(ws)}
    IN {Simple(id, "v4", 0, 1, st, sl[1], sl[2], 3 - sl[1], sl[2] + ImportSplit) :
            id \in (Range(IDS) \ {7}) \ usedIds, st \in Starts, sl \in Slots \ usedSlots}

\* "pkts": the single stream grows by one packet per step
PStream(pk, da) == [id |-> 3, fam |-> "v4", c |-> 0, s |-> 1, cp |-> 1234, sp |-> 80, proto |-> "TCP", pkts |-> pk, data |-> da]
RevSeq(s) == [i \in 1 .. Len(s) |-> s[Len(s) + 1 - i]]
TheStream == IF rev THEN [ws[1] EXCEPT !.data = RevSeq(@)] ELSE ws[1]
Input == IF Mode = "pkts" THEN (IF ws = <<>> THEN <<>> ELSE <<TheStream>>) ELSE ws

Init == ws = <<>> /\ rev \in (IF Mode = "pkts" THEN BOOLEAN ELSE {FALSE})

NextStreams ==
    /\ Len(ws) < MaxStreams
    /\ \E S \in (IF Mode = "hosts" THEN {x \in CandHosts : HostsCanon(x)} ELSE CandMeta) : ws' = Append(ws, S)
    /\ UNCHANGED rev

NextPkt ==
    /\ UNCHANGED rev
    /\ \E dt \in Steps, sz \in Sizes, dir \in {0, 1} :
        IF ws = <<>>
        THEN /\ dt = 0
             /\ ws' = <<PStream(<<[t |-> 3, cap |-> 1, idx |-> 0, dir |-> dir]>>,
                                IF sz = NoData THEN <<>> ELSE <<[pk |-> 1, sz |-> sz]>>)>>
        ELSE LET n == Len(ws[1].pkts) IN
             /\ n < MaxPkts
             /\ ws' = <<[ws[1] EXCEPT !.pkts = Append(@, [t |-> ws[1].pkts[n].t + dt, cap |-> 1, idx |-> n, dir |-> dir]),
                                      !.data = IF sz = NoData THEN @ ELSE Append(@, [pk |-> n + 1, sz |-> sz])]>>

Next == IF Mode = "pkts" THEN NextPkt ELSE NextStreams
Spec == Init /\ [][Next]_vars

(***************************************************************************)
(* the property (all definitions take the writer W / file F as arguments   *)
(* so that TLC evaluates the pipeline once per state, see Check)           *)
(***************************************************************************)
\* the defect found on the unchanged tree (KNOWN_FINDINGS / proposed_fixes C01-1): streams
\* that are not in the first host group of their family, or that refer to a host the
\* byte-wise pop() left half-removed, read back wrong addresses.  Only these are exempted
\* and only in the as-found configuration (Exempt = TRUE).
FamRank(W, g) == Cardinality({j \in 1 .. g : FamOfSize(W.groups[j].size) = FamOfSize(W.groups[g + 1].size)})
KnownHostGroupDefect(W, i) ==
    LET s == W.streams[i] IN
    \/ FamRank(W, s.hg) > 0
    \/ s.ch >= GHosts(W.groups[s.hg + 1]) \/ s.sh >= GHosts(W.groups[s.hg + 1])
HostFieldsOnly(a, b) ==   \* everything but the addresses agrees
    /\ "ok" \notin DOMAIN a
    /\ [a EXCEPT !.ch = b.ch, !.sh = b.sh] = b

RoundTrip(W, F, Ss, D) ==
    \/ Exempt /\ ~OpenOK(F) /\ \E i \in 1 .. Len(Ss) : KnownHostGroupDefect(W, i)    \* NewReader panics
    \/ \A i \in 1 .. Len(Ss) :
        \/ D[i] = Abs(Ss[i])
        \/ /\ Exempt /\ KnownHostGroupDefect(W, i)
           /\ ("ok" \in DOMAIN D[i] \/ HostFieldsOnly(D[i], Abs(Ss[i])))
Lookups(F, Ss) ==
    /\ \A i \in 1 .. Len(Ss) : LookupAt(F, Ss, i)
    /\ \A id \in (-1 .. 11) \ StreamIDs(F) : ByID(F, id) = -1
    /\ \A cap \in 0 .. 3, idx \in 0 .. 6 :
          (\A i \in 1 .. Len(Ss) : <<cap, idx>> # <<Ss[i].pkts[1].cap, Ss[i].pkts[1].idx>>) => BySource(F, cap, idx) = -1
SortedLookups(F) ==
    /\ \A r \in 1 .. (Len(F.streams) - 1) : F.streams[F.byFirst[r]].first <= F.streams[F.byFirst[r + 1]].first
    /\ \A r \in 1 .. (Len(F.streams) - 1) : F.streams[F.byLast[r]].last <= F.streams[F.byLast[r + 1]].last
    /\ \A i \in 1 .. Len(F.streams) : F.streams[i].first >= 0 /\ F.streams[i].last >= F.streams[i].first

(***************************************************************************)
(* regimes                                                                 *)
(***************************************************************************)
RecsOf(W, i) == LET a == W.streams[i].pstart + 1
                    b == IF i < Len(W.streams) THEN W.streams[i + 1].pstart ELSE Len(W.packets)
                IN SubSeq(W.packets, a, b)
StreamRegimes(W, S, i) ==
    LET rs == RecsOf(W, i)
        n  == Len(rs)
        gap(k) == S.pkts[k + 1].t - S.pkts[k].t
        rel(k) == (S.pkts[k].t - S.pkts[1].t) % RelMod
        wrapAt(k) == k > 1 /\ rel(k) < rel(k - 1)                                \* packet k is the first after a wrap
        hasData(k) == \E d \in Range(S.data) : d.pk = k /\ d.sz > 0
        dataPk == {k \in 1 .. Len(S.pkts) : hasData(k)}
        satAt == {j \in 1 .. n : rs[j].skip = SkipSat /\ rs[j].next /\ \A q \in 1 .. SkipSat : j + q <= n /\ rs[j + q].dsz = 0}
        nzDirs == Abs(S).runs
    IN  (IF \E d \in Range(S.data) : d.sz > MaxData THEN {"split"} ELSE {})
   \cup (IF \E d \in Range(S.data) : d.sz > MaxData /\ d.sz % MaxData = 0 THEN {"split-exact-multiple"} ELSE {})
   \cup (IF \E d \in Range(S.data) : d.sz = MaxData THEN {"exactly-max-datasize"} ELSE {})
   \cup (IF satAt # {} THEN {"skip-saturated"} ELSE {})
   \cup (IF \E j \in satAt : rs[j].dsz > 0 /\ j > 1 /\ rs[j - 1].dsz = MaxData /\ rs[j - 1].idx = rs[j].idx /\ rs[j - 1].imp = rs[j].imp
           THEN {"split-then-saturated-skip"} ELSE {})
   \cup (IF \E j \in 1 .. n : rs[j].dsz = 0 /\ rs[j].skip > 0 /\ rs[j].skip < SkipSat THEN {"skip-from-empty-packet"} ELSE {})
   \cup (IF \E k \in 2 .. Len(S.pkts) : wrapAt(k) /\ hasData(k) /\ hasData(k - 1) THEN {"wrap-between-data-packets"} ELSE {})
   \cup (IF \E k \in 2 .. Len(S.pkts) : wrapAt(k) /\ ~hasData(k) /\ ~hasData(k - 1) THEN {"wrap-inside-empty-run"} ELSE {})
   \cup (IF \E k \in 2 .. Len(S.pkts) : wrapAt(k) /\ \E a \in dataPk : a < k - 1 /\ \A b \in dataPk : ~(a < b /\ b <= k)
           THEN {"wrap-in-skipped-packets"} ELSE {})
   \cup (IF \E k \in 1 .. (Len(S.pkts) - 1) : gap(k) >= RelMod THEN {"gap-of-a-full-wrap"} ELSE {})
   \cup (IF (Last(S.pkts).t - S.pkts[1].t) \div RelMod >= 2 THEN {"two-wraps"} ELSE {})
   \cup (IF \E k \in 1 .. (Len(S.pkts) - 1) : gap(k) = 0 /\ hasData(k) /\ hasData(k + 1) /\ S.pkts[k].dir = S.pkts[k + 1].dir
           THEN {"burst-same-time"} ELSE {})
   \cup (IF dataPk # {} /\ Min(dataPk) > 1 THEN {"leading-empty-packets"} ELSE {})
   \cup (IF dataPk # {} /\ Max(dataPk) < Len(S.pkts) THEN {"trailing-empty-packets"} ELSE {})
   \cup (IF dataPk = {} THEN {"no-payload"} ELSE {})
   \cup (IF \E d \in Range(S.data) : d.sz = 0 THEN {"empty-chunk"} ELSE {})
   \cup (IF nzDirs # <<>> /\ nzDirs[1] = 1 THEN {"server-speaks-first"} ELSE {})
   \cup (IF Len(nzDirs) >= 3 THEN {"three-direction-changes"} ELSE {})
   \cup (IF \E a, b \in 1 .. Len(S.data) : a < b /\ S.data[a].pk > S.data[b].pk THEN {"payload-order-differs-from-packets"} ELSE {})
   \cup (IF \E k \in 1 .. Len(S.pkts) : S.pkts[k].idx >= ImportSplit THEN {"index-high-bits"} ELSE {})
   \cup (IF \E a, b \in 1 .. Len(S.pkts) : S.pkts[a].cap = S.pkts[b].cap /\ S.pkts[a].idx \div ImportSplit # S.pkts[b].idx \div ImportSplit
           THEN {"several-import-entries-one-capture"} ELSE {})
   \cup (IF \E a, b \in 1 .. Len(S.pkts) : S.pkts[a].cap # S.pkts[b].cap THEN {"two-captures-one-stream"} ELSE {})

\* the writer states after each AddStream (W_1 .. W_n)
RECURSIVE Prefixes(_, _)
Prefixes(W, Ss) == IF Ss = <<>> THEN <<>> ELSE LET W2 == AddStream(W, Head(Ss)) IN <<W2>> \o Prefixes(W2, Tail(Ss))
FileRegimes(Ss, Ws) ==
    LET n  == Len(Ss)
        prev(i) == IF i = 1 THEN NewWriter ELSE Ws[i - 1]
        pls == [i \in 1 .. n |-> Place(prev(i).groups, 1, HostBytes(Ss[i].fam, Ss[i].c), HostBytes(Ss[i].fam, Ss[i].s), 0)]
        pl(i) == pls[i]
        W  == Ws[n]
        fams == {FamOfSize(W.groups[g].size) : g \in 1 .. Len(W.groups)}
        ids == [i \in 1 .. n |-> Ss[i].id]
    IN  (IF \E i \in 1 .. n : FamOfSize(W.groups[W.streams[i].hg + 1].size) = "v4" /\ FamRank(W, W.streams[i].hg) > 0 THEN {"second-v4-hostgroup"} ELSE {})
   \cup (IF \E i \in 1 .. n : FamOfSize(W.groups[W.streams[i].hg + 1].size) = "v6" /\ FamRank(W, W.streams[i].hg) > 0 THEN {"second-v6-hostgroup"} ELSE {})
   \cup (IF fams = {"v4", "v6"} THEN {"mixed-families"} ELSE {})
   \cup (IF fams = {"v4", "v6"} /\ Len(W.groups) >= 3 /\ \E g \in 2 .. (Len(W.groups) - 1) :
              W.groups[g].size # W.groups[1].size /\ W.groups[g + 1].size = W.groups[1].size THEN {"interleaved-family-groups"} ELSE {})
   \cup (IF \E i \in 1 .. n : pl(i).undone > 0 THEN {"undo-after-partial-add"} ELSE {})
   \cup (IF \E i \in 1 .. n : pl(i).undone > 0 /\ \E j \in (i + 1) .. n : pl(j).hg < pl(i).hg THEN {"first-group-used-after-undo"} ELSE {})
   \cup (IF \E i \in 1 .. n : pl(i).undone > 0 /\ \E j \in (i + 1) .. n : pl(j).hg < pl(i).hg /\ Ss[j].fam = Ss[i].fam /\ {Ss[j].c, Ss[j].s} \cap {Ss[i].c} # {}
           THEN {"undone-host-looked-up-again"} ELSE {})
   \* ... after another, new host went into the group the undone host had been taken out of (it may sit in the freed place)
   \cup (IF \E i \in 1 .. n : pl(i).undone > 0 /\ \E j \in (i + 1) .. n :
              /\ pl(j).hg < pl(i).hg /\ Ss[j].fam = Ss[i].fam
              /\ \E h \in {Ss[j].c, Ss[j].s} : ~\E m \in 1 .. (j - 1) : Ss[m].fam = Ss[j].fam /\ h \in {Ss[m].c, Ss[m].s}
              /\ \E k \in (j + 1) .. n : Ss[k].fam = Ss[i].fam /\ Ss[i].c \in {Ss[k].c, Ss[k].s}
           THEN {"place-of-undone-host-taken-then-host-again"} ELSE {})
   \cup (IF \E i \in 1 .. n : pl(i).hg > 0 /\ \E g \in 1 .. pl(i).hg : W.groups[g].size = HostSize(Ss[i].fam) /\
              (\E p \in 0 .. (GHosts(W.groups[g]) - 1) : SubSeq(W.groups[g].bytes, p * W.groups[g].size + 1, (p + 1) * W.groups[g].size) \in {HostBytes(Ss[i].fam, Ss[i].c), HostBytes(Ss[i].fam, Ss[i].s)})
           THEN {"host-stored-in-two-groups"} ELSE {})
   \cup (IF \E i \in 1 .. n : Ss[i].c = Ss[i].s THEN {"client-equals-server"} ELSE {})
   \cup (IF \E i \in 2 .. n : Ss[i].pkts[1].t \div Sec < Min({Ss[j].pkts[1].t \div Sec : j \in 1 .. (i - 1)}) THEN {"stream-before-reference-second"} ELSE {})
   \cup (IF Cardinality({i \in 2 .. n : Ss[i].pkts[1].t \div Sec < Min({Ss[j].pkts[1].t \div Sec : j \in 1 .. (i - 1)})}) >= 2 THEN {"reference-second-moved-twice"} ELSE {})
   \cup (IF \E i \in 2 .. n : Ss[i].pkts[1].t < Ss[1].pkts[1].t /\ Ss[i].pkts[1].t \div Sec = Ss[1].pkts[1].t \div Sec THEN {"earlier-within-reference-second"} ELSE {})
   \cup (IF \E i \in 1 .. (n - 1) : ids[i] > ids[i + 1] THEN {"ids-unordered"} ELSE {})
   \cup (IF n >= 2 /\ Max(Range(ids)) - Min(Range(ids)) >= n THEN {"ids-sparse"} ELSE {})
   \cup (IF \E i, j \in 1 .. n : Ss[i].pkts[1].cap # Ss[j].pkts[1].cap THEN {"several-captures"} ELSE {})
   \cup (IF \E i, j \in 1 .. n : i < j /\ (Ss[i].pkts[1].cap > Ss[j].pkts[1].cap \/ (Ss[i].pkts[1].cap = Ss[j].pkts[1].cap /\ Ss[i].pkts[1].idx > Ss[j].pkts[1].idx))
           THEN {"source-order-differs-from-write-order"} ELSE {})
   \cup (IF \E i, j \in 1 .. n : i # j /\ Ss[i].pkts[1].cap = Ss[j].pkts[1].cap /\ Ss[i].pkts[1].idx \div ImportSplit # Ss[j].pkts[1].idx \div ImportSplit
           THEN {"first-packets-in-different-import-entries"} ELSE {})
   \cup UNION {StreamRegimes(W, Ss[i], i) : i \in 1 .. n}

\* emit the first EmitK inputs of every regime (per worker; the runner removes duplicates)
Seen == TLCGet(1)
Emit(Ss, rg) ==
    LET fresh == {r \in rg : Cardinality({p \in Seen : p[1] = r}) < EmitK}
    IN fresh = {} \/
       /\ TLCSet(1, Seen \cup {<<r, Cardinality({p \in Seen : p[1] = r}) + 1>> : r \in fresh})
       /\ PrintT("@@J" \o ToJson([vec |-> "c01", mode |-> Mode, regimes |-> rg, fresh |-> fresh, streams |-> Ss]))

Fail(what) == PrintT("@@J" \o ToJson([mcfail |-> what, streams |-> Input])) /\ FALSE

\* the single invariant: one evaluation of the pipeline per state
Check ==
    Input = <<>> \/
    LET Ss == Input
        Ws == Prefixes(NewWriter, Ss)
        W  == Ws[Len(Ss)]
        F  == Finalize(W)
        D  == [i \in 1 .. Len(Ss) |-> Decode(F, i - 1)]
    IN /\ RoundTrip(W, F, Ss, D) \/ Fail("RoundTrip")
       /\ Lookups(F, Ss) \/ Fail("Lookups")
       /\ SortedLookups(F) \/ Fail("SortedLookups")
       /\ Emit(Ss, FileRegimes(Ss, Ws))

ASSUME TLCSet(1, {})
=============================================================================

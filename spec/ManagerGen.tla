------------------------------ MODULE ManagerGen ------------------------------
(* Schedule generator: ManagerMC plus a history of events.  Run with
   `tlc -simulate num=N -depth D`; a behaviour is printed as one JSON line when it ends. *)
EXTENDS ManagerMC, Json

CONSTANT MaxLen
VARIABLE hist

GenInit == MCInit /\ hist = <<>>
\* weighted choice (uniform choice would spend the whole API budget before any job step):
\* 55% a background-job step if one is enabled, otherwise an API call; invalid calls are 1 in 5 API calls;
\* with Restarts, 4% a process kill + restart (on top of its share among the API calls).
IsValidCall(e) ==
    CASE e.a = "AddTag"   -> AddTagOK(e.name, e.def)
      [] e.a = "DelTag"   -> DelTagOK(e.name)
      [] e.a = "UpdQuery" -> UpdQueryOK(e.name, e.def)
      [] e.a \in {"MarkAdd", "MarkDel"} -> MarkOK(e.name, Range(e.ids))
      [] e.a = "SetConverters" -> SetConvOK(e.name, Range(e.convs))
      [] e.a = "UpdName" -> e.v = "" \/ UpdNameOK(e.name, e.v)
      [] e.a = "UpdColor" -> UpdColorOK(e.name)
      [] e.a = "AddHook" -> AddHookOK(e.what)
      [] e.a = "DelHook" -> DelHookOK(e.what)
      [] e.a = "AddEndpoint" -> AddEndpointOK(e.what)
      [] e.a = "DelEndpoint" -> DelEndpointOK(e.what)
      [] OTHER -> TRUE
GenNext ==
    /\ Len(hist) < MaxLen
    /\ \E dice \in {RandomElement(1 .. 100)} : LET en   == {e \in JobEvents \cup ApiEvents : ENABLED Step(e)}
           jevs == en \cap JobEvents
           good == {e \in en \ JobEvents : IsValidCall(e)}
           bad  == (en \ JobEvents) \ good
           kill == {e \in good : e.a = "Restart"}
           pool == IF jevs # {} /\ (dice <= 55 \/ good \cup bad = {}) THEN jevs
                   ELSE IF kill # {} /\ dice > 55 /\ dice <= 59 /\ Len(hist) > 3 THEN kill       \* a kill about once per 25 steps
                   ELSE IF bad # {} /\ (dice > 91 \/ good = {}) THEN bad
                   ELSE IF good # {} THEN good ELSE jevs
       IN /\ pool # {}
          /\ \E e \in {RandomElement(pool)} : Step(e) /\ hist' = Append(hist, e)   \* bound once
GenSpec == GenInit /\ [][GenNext]_<<mcvars, hist>>

\* the same transition relation with the history, for breadth-first search: the last state of a counterexample
\* carries the schedule that leads to it (used to turn model counterexamples into regression schedules)
HistNext == Len(hist) < MaxLen /\ \E e \in JobEvents \cup ApiEvents : Step(e) /\ hist' = Append(hist, e)
HistSpec == GenInit /\ [][HistNext]_<<mcvars, hist>>
StreamsKeptHist == [][StreamsKeptStep]_<<mcvars, hist>>

\* a behaviour ends when the length bound is hit, or when nothing is left to do
Ended == Len(hist) = MaxLen \/ (Len(hist) > 0 /\ calls = MaxCalls /\ Caps \subseteq known /\ Settled)
Emit == Ended => PrintT("@@J" \o ToJson([hist |-> hist]))
=============================================================================

SPECIFICATION Spec
INVARIANT Done

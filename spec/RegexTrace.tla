----------------------------- MODULE RegexTrace -----------------------------
(* Trace validation for C18.  Every line of regex_trace.ndjson is what the real
   AcceptedLength / ConstantSuffix (internal/tools/regexAnalysis) answered for one
   expression tree:  [id, ast, re, min, max, suffix, errlen, errsuf, engn]
   (min / max = -1 : the code answered math.MaxUint, "no finite bound").
   TLC recomputes Lang(ast, L) with the semantics of Regex.tla and evaluates the
   property predicates of C18 on the recorded answers.  A false predicate prints one
   "@@J" line (the runner turns these into verdicts); `conf` lines are machinery
   problems (the engine accepted a different number of words than Lang has).

   Rows are independent, so the trace is consumed in blocks: from the root state TLC
   branches to the first row of every block and walks the block; the blocks are spread
   over the workers. *)
EXTENDS Regex

CONSTANT Block
VARIABLE l

Trace == ndJsonDeserialize("regex_trace.ndjson")
N == Len(Trace)

Say(rec, kind, what, extra) ==
    PrintT("@@J" \o ToJson([kind |-> kind, what |-> what, id |-> rec.id, re |-> rec.re, min |-> rec.min, max |-> rec.max,
                            suffix |-> rec.suffix, extra |-> extra]))
Chk(cond, rec, what, extra) == cond \/ Say(rec, "fail", what, extra)

EndsWith(w, suf) == Len(suf) <= Len(w) /\ \A i \in 1 .. Len(suf) : w[Len(w) - Len(suf) + i] = suf[i]

\* ---- the property (C18), on one recorded answer
\* Exact(x): the structural bounds of Regex.tla are exact for x (no assertion, no empty class), so a matched word of
\* length TrueMin(x) - and of length TrueMax(x) when finite - exists even when it is longer than L
Exact(x) == Relax(x) = x
\* every matched word is at least min long
MinContains(rec, ls, tmin) == /\ \A k \in ls : rec.min # Inf /\ rec.min <= k
                              /\ Exact(rec.ast) => (rec.min # Inf /\ rec.min <= tmin)
\* ... and at most max long
MaxContains(rec, ls, tmax) == /\ \A k \in ls : rec.max = Inf \/ k <= rec.max
                              /\ Exact(rec.ast) => (rec.max = Inf \/ (tmax # Inf /\ tmax <= rec.max))
\* a finite bound is the length of some matched word.  Decided on Lang when the bound is within the
\* word length L; beyond it by the structural value, which is exact for expressions without assertions
\* and without empty classes (Relax(x) = x); no claim for the other expressions beyond L.
Attained(x, ls, v, tv) == v # Inf => IF v <= L THEN v \in ls ELSE (~Exact(x) \/ v = tv)
\* every matched word ends with the computed suffix
SuffixHolds(rec, lang) == \A w \in lang : EndsWith(w, rec.suffix)

\* regime of an unattained bound: the expression has a part that can never be passed in that place (an assertion that
\* is false there, a class without members) and the bound is attained once such parts are relaxed (Relax: assertions hold,
\* an empty class matches a letter) - the analysis follows a path of the program that no input can take
Regime(x, v) == IF Relax(x) # x /\ v \in Lens(Lang(Relax(x), L)) THEN ":infeasible-path" ELSE ""

Witness(S) == IF S = {} THEN "-" ELSE "'" \o Str(CHOOSE w \in S : \A v \in S : Len(w) <= Len(v)) \o "'"

RowOK(rec) ==
    LET x    == rec.ast
        lang == Lang(x, L)
        ls   == Lens(lang)
        dead == Dead(x)
        tmin == IF dead THEN Inf ELSE TrueMin(x)
        tmax == IF dead THEN Inf ELSE TrueMax(x)
    IN /\ (Cardinality(lang) = rec.engn /\ Render(x) = rec.re /\ SaneFor(x, lang))
            \/ Say(rec, "conf", "engine/specification disagree", Cardinality(lang))
       /\ Chk(rec.errlen = "", rec, "LenError", rec.errlen)
       /\ Chk(rec.errsuf = "", rec, "SuffixError", rec.errsuf)
       /\ rec.errlen = "" =>
            /\ Chk(MinContains(rec, ls, tmin), rec, "MinTooLarge", Witness({w \in lang : rec.min = Inf \/ Len(w) < rec.min}))
            /\ Chk(MaxContains(rec, ls, tmax), rec, "MaxTooSmall", Witness({w \in lang : rec.max # Inf /\ Len(w) > rec.max}))
            /\ MinContains(rec, ls, tmin) => Chk(Attained(x, ls, rec.min, tmin), rec, "MinNotAttained" \o Regime(x, rec.min), tmin)
            /\ MaxContains(rec, ls, tmax) => Chk(Attained(x, ls, rec.max, tmax), rec, "MaxNotAttained" \o Regime(x, rec.max), tmax)
       /\ rec.errsuf = "" =>
            Chk(SuffixHolds(rec, lang), rec, "SuffixNotSuffix", Witness({w \in lang : ~EndsWith(w, rec.suffix)}))
       \* witnesses that the predicates were not vacuous on this row (counted by the runner)
       /\ PrintT("@@J" \o ToJson([kind |-> "ok", id |-> rec.id, n |-> Cardinality(lang),
                                  minw |-> (rec.min # Inf /\ rec.min <= L /\ rec.min \in ls),
                                  maxw |-> (rec.max # Inf /\ rec.max <= L /\ rec.max \in ls),
                                  sufw |-> (Len(rec.suffix) > 0 /\ lang # {})]))

TraceInit == l = 0 /\ r = 0 /\ d = 0

TraceNext ==
    /\ UNCHANGED <<r, d>>
    /\ IF l = 0 THEN l' \in {1 + Block * k : k \in 0 .. ((N - 1) \div Block)} /\ N > 0
       ELSE l % Block # 0 /\ l < N /\ l' = l + 1

TraceSpec == TraceInit /\ [][TraceNext]_<<l, r, d>>

Checked == l > 0 => RowOK(Trace[l])
=============================================================================

SPECIFICATION Spec
INVARIANT Done

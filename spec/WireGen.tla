------------------------------ MODULE WireGen ------------------------------
(* Seeded generator of packet schedules: the behaviours of Wire.tla under a weighted
   random choice of the next event (uniform choice would spend all its steps on
   perturbations).  Run with `tlc -simulate num=N -depth D -seed S`; every finished
   behaviour is printed once as a JSON line by the invariant PrintSchedule. *)
EXTENDS Wire

CONSTANTS MinBulk, WantCutAfterBulk

Progress == {"Open", "Hs", "NewMsg", "Segment", "Close", "Fin", "Emit"}
Perturb  == {"Dup", "Swap", "CutFile", "Interleave", "PureAck"}

AfterBulk == Len(wire) >= 2 /\ wire[Len(wire) - 1].k = "bulk"     \* exactly one packet after the block

GenNext ==
    \E dice \in {RandomElement({x \in 1 .. 100 : clock >= 0})} :     \* (mentions a variable: not constant-folded)
    \E en \in {{e \in AllEvents : ENABLED Step(e)}} :                \* bound once (LET would re-evaluate per use)
    \E pool \in {
        LET prog  == {e \in en : e.a \in Progress}
            pert  == {e \in en : e.a \in Perturb}
            bulk  == {e \in en : e.a = "Bulk" /\ wire # <<>>}
            cut   == {e \in en : e.a = "CutFile"}
            emitd == {e \in prog : e.a = "Emit" /\ Head(flight[e.c]).k = "data"}
            hand  == {e \in en : e.a \in {"Handover", "Batch"}}
        IN  IF hand # {} THEN hand
            ELSE IF WantCutAfterBulk /\ AfterBulk /\ cut # {} /\ dice <= 60 THEN cut
            ELSE IF Len(wire) >= 1 /\ Last(wire).k = "bulk" /\ emitd # {} /\ dice <= 80 THEN emitd
            ELSE IF bulk # {} /\ (dice <= 4 \/ (cnt.bulk < MinBulk /\ Len(wire) >= 12 /\ dice <= 30)) THEN bulk
            ELSE IF pert # {} /\ dice > 70 THEN pert
            ELSE IF prog # {} THEN prog
            ELSE pert} :
        /\ pool # {}
        /\ \E e \in {RandomElement(pool)} : Step(e)

GenSpec == Init /\ [][GenNext]_vars

GenDone == Done /\ cnt.bulk >= MinBulk
GenPrint == GenDone => PrintT("@@J" \o ToJson(Schedule))
=============================================================================

------------------------------ MODULE WireGen ------------------------------
(* Seeded generator of packet schedules: the behaviours of Wire.tla under a weighted
   random choice of the next event (uniform choice would spend all its steps on
   perturbations).  Run with `tlc -simulate num=N -depth D -seed S`; every finished
   behaviour that meets its regime (MinBulk, WantCutAfterBulk ...) is printed once as a JSON
   line by the invariant GenPrint. *)
EXTENDS Wire

CONSTANTS MinBulk,             \* bulk blocks a behaviour needs to count
          WantCutAfterBulk,    \* TRUE: steer towards [block, one packet, CutFile] and require a later file
          SingleFileBatches    \* TRUE: every capture file is imported on its own (each cut is an import boundary)

Progress == {"Open", "Hs", "NewMsg", "Segment", "Close", "Fin", "Emit"}
Perturb  == {"Dup", "Swap", "CutFile", "Interleave", "PureAck"}

AfterBulk == Len(wire) >= 2 /\ wire[Len(wire) - 1].k = "bulk"     \* exactly one packet after the block

LastBulk == CHOOSE i \in DOMAIN wire : wire[i].k = "bulk" /\ \A j \in DOMAIN wire : wire[j].k = "bulk" => j <= i
NeedBulk == cnt.bulk < MinBulk
\* some connection has exchanged both FINs and its last ACK is still in flight
Closing  == \E c \in Convs : ~Finished(c) /\ \E i \in DOMAIN wire : wire[i].c = c /\ wire[i].k = "finack"
\* a bulk block has passed and the schedule is still in the block's capture file
NeedCut  == WantCutAfterBulk /\ cnt.bulk >= 1 /\ curFile = wire[LastBulk].file /\ Last(wire).k # "bulk"

GenNext ==
    \E dice \in {RandomElement({x \in 1 .. 100 : clock >= 0})} :     \* (mentions a variable: not constant-folded)
    \E en \in {{e \in AllEvents : ENABLED Step(e)}} :                \* bound once (LET would re-evaluate per use)
    \E pool \in {
        LET prog  == {e \in en : e.a \in Progress}
            cut   == {e \in en : e.a = "CutFile"}
            \* keep one cut for after the block
            pert  == {e \in en : e.a \in Perturb /\ ~(e.a = "CutFile" /\ WantCutAfterBulk /\ NeedBulk /\ cnt.cut >= MaxCuts - 1)}
            bulk  == {e \in en : e.a = "Bulk" /\ Len(wire) >= 6 /\ Last(wire).k # "bulk"}
            emitd == {e \in prog : e.a = "Emit" /\ Head(flight[e.c]).k = "data"}
            hand0 == {e \in en : e.a \in {"Handover", "Batch"}}
            hand1 == {e \in hand0 : e.a = "Batch" /\ Len(e.files) = 1}
            hand  == IF SingleFileBatches /\ hand1 # {} THEN hand1 ELSE hand0
        IN  IF hand # {} THEN hand
            ELSE IF WantCutAfterBulk /\ AfterBulk /\ cut # {} /\ dice <= 60 THEN cut
            ELSE IF Len(wire) >= 1 /\ Last(wire).k = "bulk" /\ emitd # {} /\ dice <= 80 THEN emitd
            ELSE IF bulk # {} /\ (dice <= 3 \/ (NeedBulk /\ dice <= 6) \/ (NeedBulk /\ Closing /\ dice <= 30)) THEN bulk
            ELSE IF NeedCut /\ cut # {} /\ dice <= 40 THEN cut
            ELSE IF pert # {} /\ dice > 70 THEN pert
            ELSE IF prog # {} THEN prog
            ELSE pert} :
        /\ pool # {}
        /\ \E e \in {RandomElement(pool)} : Step(e)

GenSpec == Init /\ [][GenNext]_vars

\* in the snapshot regimes the schedule goes on in a later capture file than the (last) bulk block:
\* only then can a later import resume from the snapshot
FileAfterBulk == \A i \in DOMAIN wire : wire[i].k = "bulk" => \E j \in DOMAIN wire : j > i /\ wire[j].file > wire[i].file
GenDone == Done /\ cnt.bulk >= MinBulk /\ (WantCutAfterBulk => FileAfterBulk)
GenPrint == GenDone => PrintT("@@J" \o ToJson(Schedule))
=============================================================================

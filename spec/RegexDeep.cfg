SPECIFICATION Spec
CONSTANTS
  Sigma = {"a", "b"}
  L = 5
  Leaves <- DeepInit
  UnOps <- DeepUn
  Pool <- DeepInit
  MaxDepth = 3
  MaxSize = 99
INVARIANT Emit
VIEW View

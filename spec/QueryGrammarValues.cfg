SPECIFICATION Spec
CONSTANTS
  Mode = "value"
  MaxLen = 2
  Seed = 1
  VK = "num"
  Alpha = "raw"
  Hdrs = "base"
  Gram = FALSE
INVARIANT Emit

SPECIFICATION Spec
CONSTANTS
  Mode = "pairs"
  MaxLen = 4
  Seed = 1
  VK = "num"
  Alpha = "raw"
  Hdrs = "base"
  Gram = FALSE
INVARIANT Emit

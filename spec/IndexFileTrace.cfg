SPECIFICATION TraceSpec
INVARIANT Done

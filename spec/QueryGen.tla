------------------------------ MODULE QueryGen ------------------------------
(* Enumerates query ASTs over the atom menu of the Query family (C02, C03): exhaustively up to depth 2
   plus THEN-chains (ASSUME, printed once at start-up), and random deeper ones (run with -simulate). *)
EXTENDS Query, Json

CONSTANT Mode        \* "exhaustive" | "random"
VARIABLE ast

A(k) == [k |-> k, n |-> 0, lo |-> 0, hi |-> 0, s |-> <<>>, p |-> 0, h |-> 0, bits |-> 32, name |-> "", tok |-> "", conv |-> ""]
Lin(f, op, c, ms) == [A("lin") EXCEPT !.name = f, !.tok = op, !.n = c, !.s = ms]
IP(a, b, c, d) == ((a * 256 + b) * 256 + c) * 256 + d

\* one or more representatives per filter kind; several id atoms so that contradictions / overlaps are generated
PlainAtoms == {
    [A("id") EXCEPT !.lo = 5, !.hi = 5], [A("id") EXCEPT !.lo = 1, !.hi = 5], [A("id") EXCEPT !.lo = 7, !.hi = 9],
    [A("id") EXCEPT !.lo = 3, !.hi = -1], [A("idlist") EXCEPT !.s = <<2, 5, 40>>],
    [A("cport") EXCEPT !.n = 1000], [A("sport") EXCEPT !.n = 80], [A("port") EXCEPT !.n = 81],
    [A("cbytes") EXCEPT !.lo = 5, !.hi = -1], [A("sbytes") EXCEPT !.lo = 0, !.hi = 3],
    [A("proto") EXCEPT !.p = 1], [A("proto") EXCEPT !.p = 2],
    [A("chost") EXCEPT !.h = IP(10, 0, 0, 1)], [A("host") EXCEPT !.h = IP(10, 0, 1, 0), !.bits = 24],
    [A("shost") EXCEPT !.h = IP(10, 0, 9, 9)],
    [A("tag") EXCEPT !.name = "tag/x"], [A("tag") EXCEPT !.name = "service/y"],
    [A("ftime") EXCEPT !.lo = 1, !.hi = 2], [A("ltime") EXCEPT !.lo = 4, !.hi = -1],
    [A("ltime") EXCEPT !.lo = 6, !.hi = -1], [A("ltime") EXCEPT !.lo = 0, !.hi = 1], [A("ftime") EXCEPT !.lo = 3, !.hi = -1],
    [A("fteq") EXCEPT !.n = 2], A("protoself"), [A("hostself") EXCEPT !.bits = 24],
    \* 71 separate ids (every second number from 960 to 1100): more alternatives than fit into one 64-bit word
    [A("idlist") EXCEPT !.s = [i \in 1 .. 71 |-> 958 + 2 * i]],
    [A("dur") EXCEPT !.tok = "ge", !.n = 2], [A("dur") EXCEPT !.tok = "le", !.n = 3],
    \* arithmetic on the stream's own fields (odd constants: the normaliser divides by the common factor of the variables)
    Lin("id", "ge", 7, <<-1>>), Lin("id", "le", 9, <<-1>>), Lin("id", "ge", 10, <<-2>>), Lin("sport", "ge", 161, <<0, 0, -1>>),
    Lin("cport", "eq", 920, <<0, 0, 1>>), Lin("id", "ge", 1030, <<0, -1>>), Lin("sbytes", "ge", 1, <<0, 0, 0, 1>>), Lin("id", "le", 2137, <<-1, -1, -1>>) }
DataAtoms == {
    [A("cdata") EXCEPT !.tok = "AA"], [A("sdata") EXCEPT !.tok = "BB"], [A("cdata") EXCEPT !.tok = "CC"],
    [A("data") EXCEPT !.tok = "BB"] }

\* payload filters with a converter selector (only outside THEN chains)
ConvAtoms == {
    [A("cdata") EXCEPT !.tok = "AA", !.conv = "a"], [A("cdata") EXCEPT !.tok = "AA", !.conv = "b"],
    [A("sdata") EXCEPT !.tok = "BB", !.conv = "a"], [A("cdata") EXCEPT !.tok = "CC", !.conv = "a"] }
\* (cport 9999 does not occur: a sub-query without any result, next to alternatives that do not depend on it)
SubAtoms == {[A("sub_port") EXCEPT !.n = 1000], [A("sub_id") EXCEPT !.name = "tag/x"], [A("sub_port") EXCEPT !.n = 9999]}
At(a)     == [op |-> "atom", a |-> a]
Not(x)    == [op |-> "not", x |-> x]
Bin(o, x, y) == [op |-> o, x |-> x, y |-> y]

Lits     == {At(a) : a \in PlainAtoms \cup DataAtoms \cup ConvAtoms} \cup {Not(At(a)) : a \in PlainAtoms \cup DataAtoms \cup ConvAtoms}
DataLits == {At(a) : a \in DataAtoms}
\* negated elements of a chain only with a direction (a negated either-direction atom is a conjunction, not a chain)
NegDataLits == {Not(At(a)) : a \in {d \in DataAtoms : d.k # "data"}}
Chains2  == {Bin("then", x, y) : x \in DataLits, y \in DataLits \cup NegDataLits}
Chains3  == {Bin("then", Bin("then", x, y), z) : x \in DataLits, y \in DataLits \cup NegDataLits, z \in DataLits}
ChainsOr == {Bin("then", Bin("or", x, y), z) : x, y \in {At(a) : a \in {d \in DataAtoms : d.k # "data"}}, z \in DataLits}
\* four elements, the last one with alternatives (either direction, or an OR group): the sequences built so far are extended
\* once per alternative
Chains4  == {Bin("then", Bin("then", Bin("then", x, y), z), w) :
                x \in {At([A("cdata") EXCEPT !.tok = "AA"])}, y \in {At([A("sdata") EXCEPT !.tok = "BB"])},
                z \in {At([A("cdata") EXCEPT !.tok = "CC"])},
                w \in {At([A("data") EXCEPT !.tok = "BB"]),
                       Bin("or", At([A("cdata") EXCEPT !.tok = "BB"]), At([A("sdata") EXCEPT !.tok = "BB"])),
                       Bin("or", At([A("sdata") EXCEPT !.tok = "BB"]), At([A("cdata") EXCEPT !.tok = "BB"]))}}
Chains   == Chains2 \cup Chains3 \cup ChainsOr \cup Chains4

Depth2   == {Bin(o, x, y) : o \in {"and", "or"}, x \in Lits, y \in Lits}
SomePlain == {At(a) : a \in {b \in PlainAtoms : b.k \in {"sport", "tag", "id"}}}
ChainMix == {Bin(o, c, l) : o \in {"and", "or"}, c \in Chains2, l \in SomePlain}
            \cup {Not(c) : c \in Chains2 \cup ChainsOr}
\* restricted sub-queries: alone and in conjunction with one plain filter
SubQs == {At(a) : a \in SubAtoms} \cup {Bin("and", At(a), l) : a \in SubAtoms, l \in {At(b) : b \in PlainAtoms} \cup {Not(At(b)) : b \in PlainAtoms}}
Exhaustive == Lits \cup Depth2 \cup Chains \cup ChainMix \cup SubQs

\* random deeper expressions.  Negating a conjunction multiplies the literal counts of its conjuncts in the normal
\* form (exponential by construction, see C14), so NOT is applied to literals and to small expressions over
\* filters whose normal form is a single literal.
CheapAtoms == {a \in PlainAtoms \cup DataAtoms :
                  \/ a.k \in {"cport", "sport", "tag", "cdata", "sdata"}
                  \/ (a.k = "id" /\ a.lo = a.hi)}
CheapLits == {At(a) : a \in CheapAtoms} \cup {Not(At(a)) : a \in CheapAtoms}
RECURSIVE Rand(_)
Rand(d) ==
    IF d = 0 THEN RandomElement(Lits)
    ELSE LET c == RandomElement(1 .. 10) IN
         IF c <= 2 THEN RandomElement(Lits)
         ELSE IF c <= 3 THEN RandomElement(Chains)
         ELSE IF c <= 5 THEN Not(Bin(RandomElement({"and", "or"}), RandomElement(CheapLits), RandomElement(CheapLits)))
         ELSE Bin(IF c <= 8 THEN "and" ELSE "or", Rand(d - 1), Rand(d - 1))

ASSUME Mode = "exhaustive" => \A q \in Exhaustive : PrintT("@@J" \o ToJson(q))

Init == ast = At(CHOOSE a \in PlainAtoms : TRUE)
Next == Mode = "random" /\ \E q \in {Rand(3)} : ast' = q
Spec == Init /\ [][Next]_ast
Emit == PrintT("@@J" \o ToJson(ast))
=============================================================================

SPECIFICATION Spec
CONSTANTS
  Mode = "sim"
  MaxLen = 12
  Seed = 1
  VK = "num"
  Alpha = "raw"
  Hdrs = "base"
  Gram = TRUE
INVARIANT EmitSim

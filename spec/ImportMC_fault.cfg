SPECIFICATION Spec
CONSTANTS
  Pieces <- MCPieces
  Restarts = {"none"}
  AllNumberings = FALSE
  LookupEveryOldPacket = FALSE
INVARIANTS SetDetermined OneIdPerConn AllVisible NextIdFresh MasksSound
PROPERTIES IdStable NewIdsFresh MasksRight

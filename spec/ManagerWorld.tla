---------------------------- MODULE ManagerWorld ----------------------------
(* The world the trace validation of the Manager family runs in: captures, connections, which capture holds
   packets of which connection, server ports.  This file is the default (the world of ManagerMC.tla and of
   harness/manager/world_test.go); for the scaled worlds (64 / 65 streams: word boundaries of the stream
   bitmasks) the runner writes another ManagerWorld.tla next to the trace. *)
EXTENDS Integers
WCaps   == {1, 2, 3}
WConns  == {1, 2, 3}
WPieces == [c \in WConns |-> CASE c = 1 -> {1, 2} [] c = 2 -> {2, 3} [] c = 3 -> {1}]
WPort   == [c \in WConns |-> CASE c = 1 -> 80 [] c = 2 -> 81 [] c = 3 -> 80]
=============================================================================

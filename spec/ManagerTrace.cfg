SPECIFICATION TraceSpec
CONSTANTS
  Caps <- TCaps
  Conns <- TConns
  Pieces <- TPieces
  Port <- TPort
  TagNames = {}
  ConvNames <- TConvNames
INVARIANTS Props Done

SPECIFICATION MCSpec
CONSTANTS
  Caps <- MCCaps
  Conns <- MCConns
  Pieces <- MCPieces
  Port <- MCPort
  TagNames = {"tag/a", "tag/b", "mark/m"}
  ConvNames = {}
  MaxCalls = 4
  MaxViews = 0
  Menu = "tags"
  Invalid = FALSE
  Crashes = FALSE
  Restarts = FALSE
  Extra = {}
INVARIANTS GraphWellFormed NoUseAfterFree Balanced DirExactWhenQuiet ViewComplete OneIdPerConn NeverStuck FlagsMatchJobs NeverStale

SPECIFICATION SpecF
CONSTANT W = 4
INVARIANTS TypeOKF

SPECIFICATION TraceSpec
CONSTANTS
  Sigma = {"a", "A"}
  L = 4
  Leaves = {}
  UnOps = {}
  Pool = {}
  MaxDepth = 0
  MaxSize = 0
  Block = 50
INVARIANT Checked

---------------------------- MODULE DataMatchGen ----------------------------
(* Enumerates the SHAPES of payload-filter queries for C04: number of conditions, elements per condition with
   direction, inversion, number of representations (raw + converter outputs), converter selector, whether an
   expression is shared between conditions (as their heads, or as the later element of a sequence and a single filter), whether a capture of the first element feeds a later element.
   Sequences (more than one element) are generated only where exactly one representation is searched
   (DESIGN.md, C04 scope decision). *)
EXTENDS Integers, Sequences, FiniteSets, TLC, Json

VARIABLE x
Dirs == {"c", "s"}
Els(n) == [1 .. n -> Dirs]
Conds == UNION {{[els |-> e, inv |-> i, cap |-> c] : e \in Els(n), i \in BOOLEAN, c \in BOOLEAN} : n \in 1 .. 3}
CondOK(c) == c.cap => Len(c.els) >= 2                       \* a capture needs a later element to use it
Shapes ==
    {[conds |-> cs, nconv |-> nc, sel |-> s, share |-> sh] :
        cs \in ({<<c>> : c \in {d \in Conds : CondOK(d)}} \cup
                {<<c1, c2>> : c1 \in {d \in Conds : CondOK(d) /\ Len(d.els) <= 2 /\ ~d.cap}, c2 \in {d \in Conds : Len(d.els) = 1}}),
        nc \in 0 .. 2, s \in {"all", "none", "c0"}, sh \in {"no", "first", "later"}}
Searched(sh) == IF sh.sel = "all" THEN 1 + sh.nconv ELSE 1
ShapeOK(sh) ==
    /\ sh.sel = "c0" => sh.nconv >= 1
    /\ (\E i \in DOMAIN sh.conds : Len(sh.conds[i].els) > 1) => Searched(sh) = 1
    \* "first": both conditions start with the same expression; "later": the second condition is the expression the
    \* sequence of the first one continues with (the engine evaluates every distinct expression once per pass)
    /\ sh.share # "no" => Len(sh.conds) = 2
    /\ sh.share = "later" => Len(sh.conds[1].els) = 2

ASSUME \A sh \in {s \in Shapes : ShapeOK(s)} :
    PrintT("@@J" \o ToJson([conds |-> [i \in DOMAIN sh.conds |-> [els |-> sh.conds[i].els, inv |-> sh.conds[i].inv, cap |-> sh.conds[i].cap]],
                            nconv |-> sh.nconv, sel |-> sh.sel, share |-> sh.share]))
Init == x = 0
Next == UNCHANGED x
Spec == Init /\ [][Next]_x
=============================================================================

---------------------------- MODULE BitmaskTrace ----------------------------
(* Trace validation for C17: walks recorded from the real LongBitmask, ShortBitmask
   and ConnectedBitmask (harness/bitmask) are replayed on the set model of Bitmask.tla.
   Every logged observation of every representation is compared with the model by TLC;
   a failing predicate prints one "@@J" line (the runner turns these into verdicts). *)
EXTENDS Integers, Sequences, FiniteSets, TLC, Json

CONSTANT W
VARIABLES A, B, l

INSTANCE Bitmask

Trace == ndJsonDeserialize("bitmask_trace.ndjson")

Range(s) == {s[i] : i \in DOMAIN s}
Impls == {"Long", "Short", "Connected"}

\* the model step for one logged operation, reusing the set functions of Bitmask.tla
ApplyOp(r, a0, b0) ==
    CASE r.op = "Set"     -> <<a0 \cup {r.arg}, b0>>
      [] r.op = "Unset"   -> <<a0 \ {r.arg}, b0>>
      [] r.op = "Flip"    -> <<XorOf(a0, {r.arg}), b0>>
      [] r.op = "Or"      -> <<a0 \cup b0, b0>>
      [] r.op = "And"     -> <<a0 \cap b0, b0>>
      [] r.op = "Sub"     -> <<a0 \ b0, b0>>
      [] r.op = "Xor"     -> <<XorOf(a0, b0), b0>>
      [] r.op = "Copy"    -> <<a0, a0>>
      [] r.op = "Swap"    -> <<b0, a0>>
      [] r.op = "Shrink"  -> <<a0, b0>>
      [] r.op = "Inject"  -> <<InjectOf(a0, r.arg, r.val), b0>>
      [] r.op = "Extract" -> <<ExtractOf(a0, r.arg), b0>>

Fail(r, impl, what) ==
    PrintT("@@J" \o ToJson([fail |-> what, impl |-> impl, tr |-> r.tr, n |-> r.n, op |-> r.op,
                            arg |-> r.arg, base |-> r.base]))
Chk(cond, r, impl, what) == cond \/ Fail(r, impl, what)

NextSeq(S) == [f \in 0 .. W |-> NextOf(S, f)]

ObsOK(r, impl, a0, a1, b1) ==
    LET o == r.obs[impl] IN
    /\ Chk(o.panic = "", r, impl, "panic")
    /\ Chk(Range(o.a) = a1, r, impl, "bits")
    /\ Chk(Range(o.b) = b1, r, impl, "bits-b")
    /\ Chk(o.len = LenOf(a1), r, impl, "len")
    /\ Chk(o.ones = OnesOf(a1), r, impl, "ones")
    /\ Chk(o.zero = ZeroOf(a1), r, impl, "zero")
    /\ Chk(o.eqc, r, impl, "equal-canon")
    /\ Chk(o.eqab = (a1 = b1), r, impl, "equal-ab")
    /\ Chk(~(r.op = "Extract" /\ o.sup) \/ o.res = (r.arg \in a0), r, impl, "result")
    /\ Chk(Len(o.next) = 0 \/ o.next = [i \in 1 .. (W + 1) |-> NextOf(a1, i - 1)], r, impl, "next")

TraceInit == l = 0 /\ A = {} /\ B = {}

TraceNext ==
    /\ l < Len(Trace)
    /\ l' = l + 1
    /\ LET r  == Trace[l + 1]
           a0 == IF r.n = 0 THEN {} ELSE A       \* n = 0 starts a new walk (TraceReset)
           b0 == IF r.n = 0 THEN {} ELSE B
           s  == ApplyOp(r, a0, b0)
       IN /\ A' = s[1] /\ B' = s[2]
          /\ \A impl \in (DOMAIN r.obs) : ObsOK(r, impl, a0, s[1], s[2])

TraceSpec == TraceInit /\ [][TraceNext]_<<A, B, l>>

TraceAccepted == l = Len(Trace)          \* every line consumed
Done == l = Len(Trace) => PrintT("@@J" \o ToJson([done |-> l]))
=============================================================================

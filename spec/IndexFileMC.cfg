SPECIFICATION Spec
CONSTANTS
  CapBytes = 7
  MaxData = 2
  SkipSat = 2
  Wrap = 4
  Tick = 8
  Sec = 2
  ImportSplit = 2
  PopUnit = "host"
  StartUnit = "host"
  Mode = "hosts"
  MaxStreams = 4
  MaxPkts = 0
  Sizes = {}
  Steps = {}
  EmitK = 3
  Exempt = FALSE
INVARIANTS Check

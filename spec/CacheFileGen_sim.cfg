\* long weighted random sequences; list "H" concretises to one 9 MiB chunk (replaced at run time: MaxLen)
SPECIFICATION GenSpec
CONSTANTS
  NIds = 3
  Lists = {"A", "B", "H"}
  RecLen <- GenRecLen
  Hdr = 8
  SHdr = 8
  MinFree = 16777216
  PersistInvalidate = TRUE
  TolerantLoad = TRUE
  MaxRecs = 99
  MaxLen = 14
  Weighted = TRUE
INVARIANT Emit

SPECIFICATION Spec
VIEW View
CONSTANTS
  CapBytes = 7
  MaxData = 2
  SkipSat = 2
  Wrap = 4
  Tick = 8
  Sec = 2
  ImportSplit = 2
  PopUnit = "host"
  StartUnit = "host"
  MIds = {1, 2, 3}
  MaxFiles = 3
  MaxMerges = 2
  HPats = {"p0", "p3", "u"}
  TPats = {"a0", "d2"}
  HPatsLast = {"p3", "mix"}
  TPatsLast = {"d2"}
  EmitK = 3
INVARIANTS Check

SPECIFICATION Spec
CONSTANTS
  CapBytes = 7
  MaxData = 2
  SkipSat = 2
  Wrap = 4
  Tick = 8
  Sec = 2
  ImportSplit = 2
  PopUnit = "host"
  StartUnit = "host"
  Mode = "pkts"
  MaxStreams = 1
  MaxPkts = 3
  Sizes = {99, 0, 1, 3}
  Steps = {0, 1, 8, 24, 32}
  EmitK = 3
  Exempt = FALSE
INVARIANTS Check

--------------------------- MODULE DataMatchTrace ---------------------------
(* C04: every recorded case (one stream, one parsed query) carries the real matcher's verdict and the plain
   binaryregexp results at the offsets the specification visits; TLC re-derives the walk (DataMatch.tla) and
   compares verdicts.  A walker that did not follow the specification is a machinery problem, not a verdict. *)
EXTENDS DataMatch, Json

VARIABLE l
Rows == ndJsonDeserialize("datamatch_rows.ndjson")

Say(kind, r, what) ==
    PrintT("@@J" \o ToJson([kind |-> kind, what |-> what, case |-> r.case, stream |-> r.stream, text |-> r.text, feat |-> r.feat]))
Check(r) ==
    /\ (WalkerOK(r) \/ Say("infra", r, "walker-deviates"))
    /\ (WalkerOK(r) => (Verdict(r) = r.real \/ Say("fail", r, IF r.real THEN "C04.FalsePositive" ELSE "C04.FalseNegative")))

Init == l = 0
Next == l < Len(Rows) /\ l' = l + 1 /\ Check(Rows[l + 1])
Spec == Init /\ [][Next]_l
Done == l = Len(Rows) => PrintT("@@J" \o ToJson([done |-> l]))
=============================================================================

SPECIFICATION TraceSpec
CONSTANTS
  NConv = 1
  MaxMsgs = 1
  MaxLen = 1
  MaxSeg = 1
  Protos = {"tcp", "udp"}
  Fams = {4, 6}
  MaxDup = 0
  MaxDisp = 0
  MaxSwap = 0
  MaxPerturb = 0
  MaxCuts = 0
  MinCuts = 0
  MaxAck = 0
  MaxBulk = 0
  MaxFrag = 0
  Dts = {0}
  BatchMode = "none"
INVARIANT TraceDone

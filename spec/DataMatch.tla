------------------------------ MODULE DataMatch ------------------------------
(* C04 - what a set of payload conditions means, given plain regular-expression matching.

   The module does not specify regular expressions.  It specifies everything around them and takes plain
   matching as an input table: Find(rep, conjunct, condition, element, offset) = the leftmost-first match of the
   (variable-substituted) expression in buffer[dir][offset:] as returned by binaryregexp with no shortcut.

   Semantics (internal/index/search_data.go, makeDataConditionFilter):
   per searched representation (raw payload or one converter's cached output), per condition (a sequence of
   elements, possibly inverted):  offsets [c2s, s2c] start at [0,0]; element k asks Find in its direction at the
   current offset; a match with a non-empty advance moves the offset of that direction to the match end and the
   offset of the other direction to the amount of other-direction data that precedes the chunk in which the match
   ended; the walk stops at the first element without a match.  A condition with n elements succeeds on a
   representation iff the first n-1 elements match in sequence and the last one matches XOR inverted.
   Across representations: a positive condition needs some representation to succeed, an inverted one needs all
   of them; with no representation that has data, a conjunct holds iff all its conditions are inverted. *)
EXTENDS Integers, Sequences, FiniteSets, TLC

\* cumulative chunk lengths: cum[i] = <<c2s bytes, s2c bytes>> after chunk i-1 (cum[1] = <<0,0>>)
Cum(chunks) ==
    LET RECURSIVE go(_)
        go(i) == IF i = 0 THEN <<<<0, 0>>>>
                 ELSE LET p == go(i - 1) l == p[Len(p)] c == chunks[i]
                      IN Append(p, IF c.d = "c" THEN <<l[1] + c.n, l[2]>> ELSE <<l[1], l[2] + c.n>>)
    IN go(Len(chunks))
DirIdx(d) == IF d = "c" THEN 1 ELSE 2
\* offset of the other direction after a match in direction d that ended at absolute offset off (search_data.go:815-827)
OtherBefore(chunks, d, off) ==
    LET cum == Cum(chunks)
        is == {i \in 2 .. Len(cum) : cum[i - 1][DirIdx(d)] < off}
        i == CHOOSE x \in is : \A y \in is : y <= x
    IN cum[i][3 - DirIdx(d)]

\* steps logged by the reference walker for (rep, conjunct cj, condition c): sequence of [k, d, off, found, e]
StepsOf(row, rep, cj, c) == SelectSeq(row.steps, LAMBDA s : s.rep = rep /\ s.cj = cj /\ s.c = c)

\* re-derive the walk from the logged Find results; returns [ok |-> walker followed the specification, n |-> elements matched]
Walk(row, rep, cj, c) ==
    LET cond == row.conjs[cj].conds[c]
        steps == StepsOf(row, rep, cj, c)
        chunks == row.reps[rep].chunks
        RECURSIVE go(_, _, _)
        go(k, off, ok) ==
            IF k > Len(cond.els) THEN [ok |-> ok /\ Len(steps) = Len(cond.els), n |-> Len(cond.els)]
            ELSE IF k > Len(steps) THEN [ok |-> FALSE, n |-> k - 1]
            ELSE LET s == steps[k] d == cond.els[k].d
                     good == s.k = k /\ s.d = d /\ s.off = off[DirIdx(d)]
                 IN IF ~s.found THEN [ok |-> ok /\ good /\ Len(steps) = k, n |-> k - 1]
                    ELSE LET noff == IF s.e = 0 THEN off
                                     ELSE LET a == off[DirIdx(d)] + s.e
                                              o == OtherBefore(chunks, d, a)
                                          IN IF d = "c" THEN <<a, o>> ELSE <<o, a>>
                         IN go(k + 1, noff, ok /\ good)
    IN go(1, <<0, 0>>, TRUE)

CondOnRep(row, rep, cj, c) ==        \* does the condition succeed on this representation?
    LET cond == row.conjs[cj].conds[c]
        un == Len(cond.els) - Walk(row, rep, cj, c).n
    IN ~(un >= 2 \/ ((un # 0) # cond.inv))

CondHolds(row, cj, c) ==
    LET reps == DOMAIN row.reps
        succ == {r \in reps : CondOnRep(row, r, cj, c)}
        inv == row.conjs[cj].conds[c].inv
    IN IF succ = {} THEN FALSE
       ELSE IF succ = reps THEN TRUE
       ELSE ~inv                                  \* mixed: a positive filter needs some, a negated one all
\* cheap metadata filters of the alternative (number conditions on the client port: number + factor * cport >= 0)
GateHolds(row, cj) == \A i \in DOMAIN row.conjs[cj].ports : row.conjs[cj].ports[i][2] + row.conjs[cj].ports[i][1] * row.cport >= 0
ConjHolds(row, cj) ==
    GateHolds(row, cj) /\
    IF row.reps = <<>> THEN \A c \in DOMAIN row.conjs[cj].conds : row.conjs[cj].conds[c].inv
    ELSE \A c \in DOMAIN row.conjs[cj].conds : CondHolds(row, cj, c)
Verdict(row) == \E cj \in DOMAIN row.conjs : ConjHolds(row, cj)
WalkerOK(row) == \A r \in DOMAIN row.reps : \A cj \in DOMAIN row.conjs : \A c \in DOMAIN row.conjs[cj].conds : Walk(row, r, cj, c).ok
=============================================================================

SPECIFICATION GenSpec
CONSTANTS
  Caps <- MCCaps
  Conns <- MCConns
  Pieces <- MCPieces
  Port <- MCPort
  TagNames = {"tag/a", "tag/b", "mark/m"}
  ConvNames = {}
  MaxCalls = 7
  MaxViews = 2
  Menu = "tags"
  Invalid = TRUE
  Crashes = FALSE
  Restarts = FALSE
  Extra = {}
  MaxLen = 40
INVARIANT Emit

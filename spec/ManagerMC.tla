------------------------------ MODULE ManagerMC ------------------------------
(* Bounded configurations of Manager.tla: exhaustive model checking (binding (C) of
   DESIGN.md) and, with the history variable of ManagerGen.tla, generation of schedules
   that are replayed on the real Manager (binding (A)).
   Adds two bookkeeping variables: a file-name clock and an API-call budget. *)
EXTENDS Manager

CONSTANTS MaxCalls,      \* budget of tag/view API calls
          MaxViews,
          Menu,          \* which definition menu to use: "tags" | "tagsb" | "subs" | "files" | "bytes" | "errs" | "conv" | "convq" | "subq"
          Invalid,       \* TRUE: also issue calls that must be rejected (C11)
          Crashes,       \* TRUE: also take crash copies of the data directory (C12; no effect on the model state)
          Restarts,      \* TRUE: the process may be killed between two steps and restarted (C12; spends a call)
          Extra          \* subset of {"rename", "color", "settings", "convdir", "mergefail", "badcap"} ("badcap" only selects the capture set MCCapsBad in the configuration): further calls / environment events to issue

VARIABLES clock, calls,
          lost,          \* history: captures that were only queued when the process was killed (never imported afterwards)
          fkey,          \* [file -> Seq(Nat)] sort key of the file's name (restart stacks the files in name order)
          epoch          \* number of restarts so far

mcvars == <<vars, clock, calls, lost, fkey, epoch>>

\* ---- the world (the Go harness has the same one: harness/manager/world_test.go) ----
MCCaps   == {1, 2, 3}
MCCapsBad == {1, 2, 3, 91}         \* ... plus an unreadable capture file (Manager.tla, Bad)
MCConns  == {1, 2, 3}
MCPieces == [c \in MCConns |-> CASE c = 1 -> {1, 2} [] c = 2 -> {2, 3} [] c = 3 -> {1}]
MCPort   == [c \in MCConns |-> CASE c = 1 -> 80 [] c = 2 -> 81 [] c = 3 -> 80]

FileName(n) == "f" \o ToString(n)
NoDef == Def("", 0, <<>>, "")

DefsFor(name) ==
    IF IsMarkName(name) THEN {Def("M", 0, <<0>>, ""), Def("M", 0, <<1, 2>>, "")}
    ELSE CASE Menu \in {"tags", "tagsb"} -> {Def("P", 80, <<>>, ""), Def("D", 2, <<>>, ""), Def("I", 0, <<2>>, "")}
                                 \cup {Def("R", 0, <<>>, t) : t \in TagNames \ {name}}
                                 \cup {Def("N", 0, <<>>, t) : t \in TagNames \ {name}}
                                 \cup (IF Menu = "tagsb" THEN {Def("B", 2, <<>>, "")} ELSE {})     \* (only the schedule generators use it)
           [] Menu = "subs"  -> {Def("P", 80, <<>>, ""), Def("D", 2, <<>>, "")}
                                 \cup {Def("R", 0, <<>>, t) : t \in TagNames \ {name}}
                                 \cup {Def("S", 81, <<>>, t) : t \in TagNames \ {name}}
           [] Menu = "files" -> {Def("P", 80, <<>>, ""), Def("D", 2, <<>>, "")}
           [] Menu = "bytes" -> {Def("P", 80, <<>>, ""), Def("B", 2, <<>>, ""), Def("D", 2, <<>>, "")}
           [] Menu = "errs"  -> {Def("P", 80, <<>>, ""), Def("E", 0, <<>>, ""), Def("D", 2, <<>>, "")}
           [] Menu = "conv"  -> {Def("P", 80, <<>>, ""), Def("L", 2, <<>>, ""), Def("D", 2, <<>>, ""), Def("C", 0, <<>>, "")}
           \* ... and a payload filter inside a sub-query (depends on the converter output of other streams)
           [] Menu = "convq" -> {Def("P", 80, <<>>, ""), Def("L", 2, <<>>, ""), Def("D", 2, <<>>, ""), Def("C", 0, <<>>, ""), Def("Q", 0, <<>>, "")}
           [] Menu = "subq"  -> {Def("P", 80, <<>>, ""), Def("Q", 0, <<>>, "")}
BadDefsFor(name) ==      \* definitions that make a call invalid
    {Def("X", 0, <<>>, ""), Def("R", 0, <<>>, name), Def("R", 0, <<>>, "tag/ghost")}
    \cup (IF IsMarkName(name) THEN {Def("P", 80, <<>>, "")} ELSE {})

\* ---- events: one record shape, so that behaviours can be written out as JSON ----
Ev(a, k, name, def, ids, v) == [a |-> a, k |-> k, name |-> name, def |-> def, ids |-> ids, v |-> v, convs |-> <<>>, what |-> "", cut |-> 0]
E0(a) == Ev(a, 0, "", NoDef, <<>>, "")
EvC(a, name, cs, v, k) == [a |-> a, k |-> k, name |-> name, def |-> NoDef, ids |-> <<>>, v |-> v, convs |-> cs, what |-> "", cut |-> 0]
EvW(a, name, what, v, k) == [a |-> a, k |-> k, name |-> name, def |-> NoDef, ids |-> <<>>, v |-> v, convs |-> <<>>, what |-> what, cut |-> 0]
EvX(what, cut) == [a |-> "Crash", k |-> 0, name |-> "", def |-> NoDef, ids |-> <<>>, v |-> "", convs |-> <<>>, what |-> what, cut |-> cut]
ConvLists == {<<>>} \cup {<<c>> : c \in ConvNames} \cup (IF Invalid THEN {<<"ghost">>} \cup {<<c, "ghost">> : c \in ConvNames} ELSE {})
IdLists == {<<0>>, <<1>>, <<0, 2>>, <<7>>}
Colors == {"#111111", "#222222"}
HookUrls == {"http://127.0.0.1:9/h1", "http://127.0.0.1:9/h2"}
EndpointAddrs == {"127.0.0.1:1", "127.0.0.1:2"}

JobEvents == {E0(a) : a \in {"ImportCompute", "ImportDone", "TagCompute", "TagDone", "MergeCompute", "MergeDone",
                             "ConvCompute", "ConvDone"}}
AllDefs == UNION {DefsFor(m) \cup (IF Invalid THEN BadDefsFor(m) ELSE {}) : m \in TagNames}
ApiEvents ==
    {Ev("ApiImport", k, "", NoDef, <<>>, "") : k \in Caps}
    \cup {Ev("AddTag", 0, n, d, <<>>, "") : n \in TagNames, d \in AllDefs}
    \cup {Ev("DelTag", 0, n, NoDef, <<>>, "") : n \in TagNames}
    \cup {Ev("UpdQuery", 0, n, d, <<>>, "") : n \in TagNames, d \in AllDefs}
    \cup {Ev(a, 0, n, NoDef, s, "") : a \in {"MarkAdd", "MarkDel"}, n \in {m \in TagNames : IsMarkName(m) \/ Invalid}, s \in IdLists}
    \cup {Ev("ViewOpen", 0, "", NoDef, <<>>, "v" \o ToString(i)) : i \in 0 .. MaxCalls}
    \cup {Ev("ViewRelease", 0, "", NoDef, <<>>, v) : v \in DOMAIN views}
    \cup (IF Crashes THEN {EvX(w, c) : w \in {"none", "state", "idx"}, c \in {1, 7, 40, 97, 333, 1001}} ELSE {})
    \cup (IF Restarts THEN {E0("Restart")} ELSE {})
    \cup (IF "rename" \in Extra THEN {EvW("UpdName", q[1], "", q[2], 0) : q \in {x \in TagNames \X (TagNames \cup (IF Invalid THEN {"tag/", "zzz/x", ""} ELSE {})) : x[1] # x[2]}} ELSE {})
    \cup (IF "color" \in Extra THEN {EvW("UpdColor", n, c, "", 0) : n \in TagNames, c \in Colors} ELSE {})
    \cup (IF "settings" \in Extra THEN
             {EvW(a, "", u, "", 0) : a \in {"AddHook", "DelHook"}, u \in HookUrls}
             \cup {EvW(a, "", u, "", 0) : a \in {"AddEndpoint", "DelEndpoint"}, u \in EndpointAddrs \cup (IF Invalid THEN {"nocolon"} ELSE {})}
             \cup {EvW("SetConfig", "", "", "", k) : k \in {0, 1}}
          ELSE {})
    \cup (IF "mergefail" \in Extra THEN {E0("MergeFail")} ELSE {})
    \cup (IF ConvNames = {} THEN {} ELSE
             {EvC("SetConverters", n, cs, "", 0) : n \in TagNames, cs \in ConvLists}
             \cup {EvC("ConvReset", "", <<c>>, "", 0) : c \in ConvNames}
             \cup (IF "convdir" \in Extra THEN {EvC(a, "", <<c>>, "", 0) : a \in {"ConvRemove", "ConvAdd"}, c \in ConvNames} ELSE {})
             \cup {EvC("ViewConvert", "", <<c>>, v, s) : c \in ConvNames, v \in DOMAIN views, s \in 0 .. 2})

\* file names: an import output carries its creation time, a merge output the name of its newest input plus ".m0"
\* (merger.go, mergedFilename); keys of deleted files are dropped
KeepKeys == fkey' = [x \in DOMAIN files' |-> fkey[x]]
Spend == calls' = calls + 1 /\ UNCHANGED <<clock, lost, epoch>> /\ KeepKeys
Free  == UNCHANGED <<clock, calls, lost, epoch>> /\ KeepKeys
NewFile(f, key) == /\ clock' = clock + 1 /\ UNCHANGED <<calls, lost, epoch>>
                   /\ fkey' = [x \in DOMAIN files' |-> IF x = f THEN key ELSE fkey[x]]
LexLess(a, b) ==
    \E i \in 1 .. (IF Len(a) > Len(b) THEN Len(a) ELSE Len(b)) :
        /\ \A j \in 1 .. (i - 1) : j <= Len(a) /\ j <= Len(b) /\ a[j] = b[j]
        /\ \/ i > Len(a) /\ i <= Len(b)
           \/ i <= Len(a) /\ i <= Len(b) /\ a[i] < b[i]
Budget == calls < MaxCalls
AnyP == DOMAIN tags \cup TagNames \cup {""}

\* a call is valid iff the specification's precondition holds; an invalid call is rejected and is a no-op
Call(ok, action) == Budget /\ IF ok THEN action /\ Spend ELSE (Invalid /\ Rejected /\ Spend)

\* the index files in the order of their names
FilesByName == LET rank(f) == Cardinality({g \in DOMAIN files : LexLess(fkey[g], fkey[f])}) + 1
               IN [i \in 1 .. Cardinality(DOMAIN files) |-> CHOOSE f \in DOMAIN files : rank(f) = i]
\* the name order of the served files is the order they are served in (C12: a restart stacks them like the killed process)
NameOrderIsServeOrder ==
    /\ \A f, g \in DOMAIN files : f # g => fkey[f] # fkey[g]
    /\ \A i, j \in DOMAIN indexes : i < j => LexLess(fkey[indexes[i]], fkey[indexes[j]])
Step(e) ==
    \* (an unreadable capture never becomes known: the upload of one counts as a call, or it could be uploaded for ever;
    \* the real upload refuses a name that exists in the capture directory)
    CASE e.a = "ApiImport"     -> IF Bad(e.k) THEN Budget /\ ApiImport(e.k) /\ Spend ELSE ApiImport(e.k) /\ Free
      [] e.a = "ImportCompute" -> ImportCompute(FileName(clock + 1)) /\ NewFile(FileName(clock + 1), <<clock + 1>>)
      [] e.a = "ImportDone"    -> (\E p \in AnyP : ImportDone(p)) /\ Free
      [] e.a = "TagCompute"    -> TagCompute /\ Free
      [] e.a = "TagDone"       -> (\E p \in AnyP : TagDone(p)) /\ Free
      [] e.a = "MergeCompute"  -> /\ MergeCompute(FileName(clock + 1))
                                  /\ NewFile(FileName(clock + 1), Append(fkey[jobs.merge.idx[Len(jobs.merge.idx)]], 0))
      [] e.a = "MergeDone"     -> MergeDone /\ Free
      [] e.a = "MergeFail"     -> Budget /\ MergeFail /\ Spend
      [] e.a = "ConvCompute"   -> ConvCompute /\ Free
      [] e.a = "ConvDone"      -> (\E p \in AnyP : ConvDone(p)) /\ Free
      [] e.a = "AddTag"        -> /\ e.def \in DefsFor(e.name) \cup BadDefsFor(e.name)
                                  /\ Call(AddTagOK(e.name, e.def), \E p \in AnyP : AddTag(e.name, e.def, "", p))
      [] e.a = "DelTag"        -> Call(DelTagOK(e.name), \E p \in AnyP : DelTag(e.name, p))
      [] e.a = "UpdQuery"      -> /\ e.def \in DefsFor(e.name) \cup BadDefsFor(e.name)
                                  /\ e.name \in DOMAIN tags => e.def # tags[e.name].def
                                  /\ Call(UpdQueryOK(e.name, e.def), \E p \in AnyP : UpdQuery(e.name, e.def, p))
      [] e.a = "MarkAdd"       -> Call(MarkOK(e.name, Range(e.ids)), \E p \in AnyP : MarkAdd(e.name, e.ids, p))
      [] e.a = "MarkDel"       -> Call(MarkOK(e.name, Range(e.ids)), \E p \in AnyP : MarkDel(e.name, e.ids, p))
      [] e.a = "ViewOpen"      -> /\ Budget /\ Cardinality(DOMAIN views) < MaxViews
                                  /\ e.v = "v" \o ToString(calls) /\ ViewOpen(e.v) /\ Spend
      [] e.a = "ViewRelease"   -> ViewRelease(e.v) /\ Free
      [] e.a = "Crash"         -> Budget /\ Crashes /\ UNCHANGED vars /\ Spend
      [] e.a = "Restart"       -> /\ Budget /\ Restarts
                                  /\ \E p \in AnyP : Restart(FilesByName, Durable(tags), settings, p)
                                  /\ lost' = lost \cup Range(queue)
                                  /\ calls' = calls + 1 /\ epoch' = epoch + 1 /\ UNCHANGED clock /\ KeepKeys
      [] e.a = "UpdName"       -> \* (an empty new name is "no rename": accepted, nothing changes)
                                  IF e.v = "" THEN Budget /\ e.name \in DOMAIN tags /\ UNCHANGED vars /\ Spend
                                  ELSE Call(UpdNameOK(e.name, e.v), UpdName(e.name, e.v))
      [] e.a = "UpdColor"      -> /\ e.name \in DOMAIN tags => tags[e.name].color # e.what
                                  /\ Call(UpdColorOK(e.name), UpdColor(e.name, e.what))
      [] e.a = "AddHook"       -> Call(AddHookOK(e.what), AddHook(e.what))
      [] e.a = "DelHook"       -> Call(DelHookOK(e.what), DelHook(e.what))
      [] e.a = "AddEndpoint"   -> Call(AddEndpointOK(e.what), AddEndpoint(e.what))
      [] e.a = "DelEndpoint"   -> Call(DelEndpointOK(e.what), DelEndpoint(e.what))
      [] e.a = "SetConfig"     -> Budget /\ settings.cfg # (e.k = 1) /\ SetConfig(e.k = 1) /\ Spend
      [] e.a = "SetConverters" -> Call(SetConvOK(e.name, Range(e.convs)), \E p \in AnyP : SetConverters(e.name, Range(e.convs), p))
      [] e.a = "ConvReset"     -> Budget /\ (\E p \in AnyP : ConvReset(e.convs[1], p)) /\ Spend
      [] e.a = "ConvRemove"    -> Budget /\ (\E p \in AnyP : ConvRemove(e.convs[1], p)) /\ Spend
      [] e.a = "ConvAdd"       -> Budget /\ ConvAdd(e.convs[1]) /\ Spend
      [] e.a = "ViewConvert"   -> Budget /\ (\E p \in AnyP : ViewConvert(e.v, e.k, e.convs[1], p)) /\ Spend

MCInit == Init /\ clock = 0 /\ calls = 0 /\ lost = {} /\ fkey = <<>> /\ epoch = 0
MCNext == \E e \in JobEvents \cup ApiEvents : Step(e)
MCSpec == MCInit /\ [][MCNext]_mcvars

\* liveness (C09): once the environment is done, the service settles
\* C10 / C12 with restarts: completeness is owed for the captures that were not lost in a kill
MCViewComplete == CompleteFor(indexes, Processed \ lost)
\* C12 (action property): a restart shows every stream that was visible, under its old id, with at least its data
StreamsKeptStep ==
    epoch' # epoch =>
        /\ \A e \in Visible(indexes) : \E e2 \in VisibleIn(files', indexes') : e2[1] = e[1] /\ e2[2] = e[2] /\ e[3] \subseteq e2[3]
        /\ Durable(tags') = [t \in DOMAIN tags |-> [Durable(tags)[t] EXCEPT !.M = IF IsMarkName(t) THEN Durable(tags')[t].M ELSE @]]
        /\ settings'.hooks = settings.hooks /\ settings'.cfg = settings.cfg /\ Range(settings'.eps) = Range(settings.eps)
StreamsKeptProp == [][StreamsKeptStep]_mcvars

EnvDone == calls = MaxCalls /\ {k \in Caps : ~Bad(k)} \subseteq known \cup Range(queue) /\ views = <<>>
JobNext == \E e \in JobEvents : Step(e)
MCFairSpec == MCSpec /\ WF_mcvars(JobNext) /\ WF_mcvars(\E v \in DOMAIN views : ViewRelease(v) /\ Free)
Settles == [](EnvDone => <>Settled)
=============================================================================

SPECIFICATION GenSpec
CONSTANTS
  Sigma = {"a", "b"}
  L = 5
  Leaves <- AllLeaves
  UnOps <- AllUn
  Pool <- SimPoolAll
  MaxDepth = 7
  MaxSize = 14
INVARIANT Emit

SPECIFICATION TraceSpec
CONSTANT W = 6
INVARIANT Done

\* every operation sequence of length MaxLen over 3 ids and 3 lists (replaced at run time: MaxLen)
SPECIFICATION GenSpec
CONSTANTS
  NIds = 3
  Lists = {"A", "B", "C"}
  RecLen <- MCRecLen
  Hdr = 8
  SHdr = 8
  MinFree = 16000
  PersistInvalidate = TRUE
  TolerantLoad = TRUE
  MaxRecs = 99
  MaxLen = 3
  Weighted = FALSE
INVARIANT Emit

SPECIFICATION TraceSpec
CONSTANT Chunk = 500
INVARIANT Done

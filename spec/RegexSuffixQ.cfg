SPECIFICATION Spec
CONSTANTS
  Sigma = {"a", "b"}
  L = 5
  Leaves <- SuffixLeaves
  UnOps <- SuffixUn
  Pool <- SuffixLeaves
  MaxDepth = 3
  MaxSize = 99
INVARIANT Emit
VIEW View

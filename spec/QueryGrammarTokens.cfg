SPECIFICATION Spec
CONSTANTS
  Mode = "tokens"
  MaxLen = 4
  Seed = 1
  VK = "num"
  Alpha = "raw"
  Hdrs = "base"
  Gram = FALSE
INVARIANT Emit

SPECIFICATION Spec
CONSTANTS
  Sigma = {"a", "A"}
  L = 4
  Leaves <- FoldLeaves
  UnOps <- FoldUn
  Pool <- FoldLeaves
  MaxDepth = 2
  MaxSize = 99
INVARIANT Emit
VIEW View

SPECIFICATION TraceSpec
CONSTANTS
  NIds = 3
  Lists = {"A", "B", "C", "H"}
  RecLen <- GenRecLen
  Hdr = 8
  SHdr = 8
  MinFree = 16777216
  PersistInvalidate = TRUE
  TolerantLoad = TRUE
  MaxRecs = 0
INVARIANT Done

SPECIFICATION Spec
CONSTANT W = 6
INVARIANTS TypeOK InjectExtractInverse ShiftCard Algebra

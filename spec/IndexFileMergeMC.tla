-------------------------- MODULE IndexFileMergeMC --------------------------
(* C07 (C): merging is invisible - exhaustive on the scaled model of IndexFile.tla.

   A stack of index files (oldest first) grows by Push (a new file written with AddStream from
   a descriptor: which ids, which host pattern, which time pattern; the content of a stream
   depends on the file it is written to, so versions are distinguishable) and shrinks by
   MergeFrom(k) (the files k..top are replaced by index.Merge of them), in any order, at most
   MaxMerges merges (merge of a merge included).  The ghost variable vis holds what a user must
   see: for every id the abstraction of the stream of the newest pushed file containing it.
   Invariant: Visible(stack) = vis, every lookup of every file is exact.
   The first EmitK behaviours reaching each regime are printed as "@@J" lines. *)
EXTENDS IndexFile, Json

CONSTANTS MIds, MaxFiles, MaxMerges, HPats, TPats, HPatsLast, TPatsLast, EmitK
VARIABLES stack, vis, hist

vars == <<stack, vis, hist>>

NPush  == Cardinality({i \in 1 .. Len(hist) : hist[i].op = "push"})
NMerge == Cardinality({i \in 1 .. Len(hist) : hist[i].op = "merge"})

\* the stream with id i as written into the n-th pushed file
MStream(i, n, hp, tp) ==
    LET fam == CASE hp = "v6" -> "v6" [] hp = "mix" -> (IF i % 2 = 1 THEN "v6" ELSE "v4") [] OTHER -> "v4"
        \* "u": the third stream brings two new hosts when one place is left (undo path, a second group behind a non-full one)
        c   == CASE hp = "p0" -> i - 1 [] hp = "p3" -> i + 2 [] hp = "v6" -> i - 1 [] hp = "mix" -> (IF i % 2 = 1 THEN i - 1 ELSE 0)
                 [] hp = "u" -> (IF i <= 2 THEN i - 1 ELSE i)
        s   == CASE hp = "p0" -> i     [] hp = "p3" -> i + 3 [] hp = "v6" -> i     [] hp = "mix" -> (IF i % 2 = 1 THEN i ELSE 1)
                 [] hp = "u" -> (IF i <= 2 THEN i ELSE i + 1)
        base == IF tp \in {"a2", "d2"} THEN 2 ELSE 0
        start == (base + (IF tp \in {"a0", "a2"} THEN i - 1 ELSE 3 - i)) * Sec + (n % 2)
        cap == 1 + (n % 2)
    IN [id |-> i, fam |-> fam, c |-> c, s |-> s, cp |-> 1000 + i, sp |-> 80, proto |-> IF i % 2 = 0 THEN "TCP" ELSE "UDP",
        pkts |-> <<[t |-> start, cap |-> cap, idx |-> 2 * i, dir |-> 0],
                   [t |-> start + 1 + (n - 1) * 2 * Tick, cap |-> cap, idx |-> 2 * i + 1, dir |-> 1]>>,
        data |-> <<[pk |-> 1, sz |-> 1], [pk |-> 2, sz |-> n]>>]

SetToSeq(S) == LET f[T \in SUBSET S] == IF T = {} THEN <<>> ELSE LET m == Min(T) IN <<m>> \o f[T \ {m}] IN f[S]
\* order of AddStream calls inside a file: ascending ids for odd files, descending for even ones
FileStreams(T, n, hp, tp) ==
    LET asc == SetToSeq(T) IN
    [k \in 1 .. Len(asc) |-> MStream(IF n % 2 = 1 THEN asc[k] ELSE asc[Len(asc) + 1 - k], n, hp, tp)]

Init == stack = <<>> /\ vis = <<>> /\ hist = <<>>

Push ==
    /\ NPush < MaxFiles
    /\ \E T \in (SUBSET MIds) \ {{}} :
       \E hp \in (IF NPush + 1 = MaxFiles /\ MaxFiles > 2 THEN HPatsLast ELSE HPats) :
       \E tp \in (IF NPush + 1 = MaxFiles /\ MaxFiles > 2 THEN TPatsLast ELSE TPats) :
        LET Ss == FileStreams(T, NPush + 1, hp, tp) IN
        /\ stack' = Append(stack, File(Ss))
        /\ vis' = [id \in DOMAIN vis \cup T |-> IF id \in T THEN Abs(CHOOSE x \in Range(Ss) : x.id = id) ELSE vis[id]]
        /\ hist' = Append(hist, [op |-> "push", from |-> 0, hp |-> hp, tp |-> tp, streams |-> Ss])

MergeFrom(k) ==
    /\ NMerge < MaxMerges
    /\ k \in 1 .. Len(stack)
    /\ stack' = SubSeq(stack, 1, k - 1) \o <<Merge(SubSeq(stack, k, Len(stack)))>>
    /\ hist' = Append(hist, [op |-> "merge", from |-> k, hp |-> "", tp |-> "", streams |-> <<>>])
    /\ UNCHANGED vis

Next == Push \/ \E k \in 1 .. MaxFiles : MergeFrom(k)
Spec == Init /\ [][Next]_vars
View == <<stack, vis, NPush, NMerge>>

(***************************************************************************)
(* the property                                                            *)
(***************************************************************************)
FileExact(F) ==
    /\ OpenOK(F)
    /\ \A i \in 1 .. Len(F.streams) :
        LET p == F.packets[F.streams[i].pstart + 1]  imp == F.imports[p.imp + 1] IN
        /\ ByID(F, F.streams[i].id) = i - 1
        /\ BySource(F, imp[1], imp[2] * ImportSplit + p.idx) = i - 1
    /\ \A id \in (0 .. 6) \ StreamIDs(F) : ByID(F, id) = -1
    /\ \A r \in 1 .. (Len(F.streams) - 1) : F.streams[F.byFirst[r]].first <= F.streams[F.byFirst[r + 1]].first
    /\ \A r \in 1 .. (Len(F.streams) - 1) : F.streams[F.byLast[r]].last <= F.streams[F.byLast[r + 1]].last
    /\ \A i \in 1 .. Len(F.streams) : F.streams[i].first >= 0

(***************************************************************************)
(* regimes of the last merge                                               *)
(***************************************************************************)
RECURSIVE UndoInMap(_, _, _)
UndoInMap(groups, rg, wi) ==            \* does MapGroup pop hosts it had added to a full group?
    IF wi > Len(groups) THEN FALSE
    ELSE LET r == AddAll(groups[wi], rg, 0, <<>>, 0)
         IN IF r.ok THEN FALSE ELSE (r.nAdded > 0 \/ UndoInMap([groups EXCEPT ![wi] = GPopN(r.g, r.nAdded)], rg, wi + 1))

StepRegimes(W, F) ==                   \* one AddIndex(W, F)
    LET have == {W.streams[i].id : i \in 1 .. Len(W.streams)}
        newS == {i \in 1 .. Len(F.streams) : F.streams[i].id \notin have}
        mg   == MapGroups(W.groups, F, 0, <<>>)
        W2   == AddIndex(W, F)
    IN  (IF \E i \in 1 .. Len(F.streams) : F.streams[i].id \in have THEN {"older-version-skipped"} ELSE {})
   \cup (IF newS = {} THEN {"file-fully-superseded"} ELSE {})
   \cup (IF newS # {} /\ W.streams # <<>> /\ W2.ref < W.ref THEN {"older-file-moves-reference-second"} ELSE {})
   \cup (IF newS # {} /\ W2.ref > F.ref THEN {"earliest-stream-of-older-file-superseded"} ELSE {})
   \cup (IF newS # {} /\ W.streams # <<>> /\ W2.ref < F.ref THEN {"older-file-has-later-reference-second"} ELSE {})
   \cup (IF W.groups # <<>> /\ \E g \in 1 .. Len(mg.maps) : mg.maps[g].to < Len(W.groups) /\
              mg.groups[mg.maps[g].to + 1].len > W.groups[mg.maps[g].to + 1].len THEN {"hosts-joined-into-existing-group"} ELSE {})
   \cup (IF W.groups # <<>> /\ \E g \in 1 .. Len(mg.maps) : mg.maps[g].to < Len(W.groups) /\
              mg.maps[g].remap # [h \in 1 .. Len(mg.maps[g].remap) |-> h - 1] THEN {"host-indexes-remapped"} ELSE {})
   \cup (IF W.groups # <<>> /\ \E g \in 1 .. Len(mg.maps) : mg.maps[g].to >= Len(W.groups) /\
              \E w \in 1 .. Len(W.groups) : W.groups[w].size = HostSize(F.hgs[g].fam) THEN {"new-group-although-family-present"} ELSE {})
   \cup (IF \E g \in 0 .. (Len(F.hgs) - 1) : UndoInMap(W.groups, RHostGroup(F, g), 1) THEN {"addindex-pops-partially-added-hosts"} ELSE {})
   \cup (IF \E g \in 1 .. Len(mg.maps) : mg.maps[g].to # g - 1 THEN {"group-numbers-remapped"} ELSE {})
   \cup (IF W.imports # <<>> /\ \E i \in 1 .. Len(F.imports) : F.imports[i] \in Range(W.imports) THEN {"import-entry-shared"} ELSE {})
   \cup (IF W.imports # <<>> /\ \E i \in 1 .. Len(F.imports) : IndexOf(AddImports(W.imports, F.imports), F.imports[i]) # i THEN {"import-ids-remapped"} ELSE {})
   \cup (IF \E g \in 1 .. Len(W2.groups) : \E g2 \in 1 .. (g - 1) : W2.groups[g].size = W2.groups[g2].size THEN {"merged-file-has-second-group-of-a-family"} ELSE {})

\* the newest file of a merge becomes the writer's host groups as they are (slices of the reader's host section):
\* does a later AddIndex append hosts to such a group although the same section continues with another group?
RECURSIVE GrowsSharedGroup(_, _, _)
GrowsSharedGroup(W, files, hazard) ==
    IF files = <<>> THEN FALSE
    ELSE LET mg == MapGroups(W.groups, Last(files), 0, <<>>)
         IN (\E g \in hazard : g <= Len(W.groups) /\ mg.groups[g].len > W.groups[g].len)
            \/ GrowsSharedGroup(AddIndex(W, Last(files)), SubSeq(files, 1, Len(files) - 1), hazard)
SharedGroupRegime(files) ==
    LET F1 == Last(files)
        hazard == {g \in 1 .. Len(F1.hgs) : \E g2 \in (g + 1) .. Len(F1.hgs) : F1.hgs[g2].fam = F1.hgs[g].fam}
    IN IF Len(files) >= 2 /\ hazard # {} /\ GrowsSharedGroup(AddIndex(NewWriter, F1), SubSeq(files, 1, Len(files) - 1), hazard)
       THEN {"hosts-appended-to-group-sharing-the-readers-host-section"} ELSE {}

RECURSIVE MergeRegimes(_, _)
MergeRegimes(W, files) ==
    IF files = <<>> THEN {}
    ELSE StepRegimes(W, Last(files)) \cup MergeRegimes(AddIndex(W, Last(files)), SubSeq(files, 1, Len(files) - 1))

Regimes ==     \* evaluated in the state AFTER a merge: uses the history to rebuild the stack before it
    IF hist = <<>> \/ Last(hist).op # "merge" THEN {}
    ELSE LET RECURSIVE Replay(_, _)
             Replay(i, st) == IF i >= Len(hist) THEN st
                              ELSE Replay(i + 1, IF hist[i].op = "push" THEN Append(st, File(hist[i].streams))
                                                 ELSE SubSeq(st, 1, hist[i].from - 1) \o <<Merge(SubSeq(st, hist[i].from, Len(st)))>>)
             before == Replay(1, <<>>)
             k == Last(hist).from
         IN MergeRegimes(NewWriter, SubSeq(before, k, Len(before)))
            \cup SharedGroupRegime(SubSeq(before, k, Len(before)))
            \cup (IF k > 1 THEN {"merge-keeps-older-prefix"} ELSE {"merge-whole-stack"})
            \cup (IF k = Len(before) THEN {"merge-single-file"} ELSE {})
            \cup (IF Len(before) - k + 1 >= 3 THEN {"merge-three-files"} ELSE {})
            \cup (IF NMerge >= 2 /\ \E i \in 1 .. (Len(hist) - 1) : hist[i].op = "merge" /\ hist[i].from >= k THEN {"merge-of-a-merge"} ELSE {})
            \cup (IF \E i \in 1 .. (Len(hist) - 1) : hist[i].op = "merge" /\ \E j \in (i + 1) .. (Len(hist) - 1) : hist[j].op = "push" THEN {"push-after-merge"} ELSE {})

Seen == TLCGet(1)
Emit ==
    LET rg == Regimes
        fresh == {r \in rg : Cardinality({p \in Seen : p[1] = r}) < EmitK}
    IN fresh = {} \/
       /\ TLCSet(1, Seen \cup {<<r, Cardinality({p \in Seen : p[1] = r}) + 1>> : r \in fresh})
       /\ PrintT("@@J" \o ToJson([vec |-> "c07", regimes |-> rg, fresh |-> fresh, ops |-> hist]))

Fail(what) == PrintT("@@J" \o ToJson([mcfail |-> what, ops |-> hist])) /\ FALSE

Check ==
    /\ Visible(stack) = vis \/ Fail("Visible")
    /\ (\A i \in 1 .. Len(stack) : FileExact(stack[i])) \/ Fail("FileExact")
    /\ Emit

ASSUME TLCSet(1, {})
=============================================================================

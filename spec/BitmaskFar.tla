----------------------------- MODULE BitmaskFar -----------------------------
(* C17 - the window model of Bitmask.tla plus one far bit per register: a bit two 64-bit words above the window, with an
   empty word in between.  Set operations treat it like any other element; Inject / Extract below it move it up / down
   by one position (field shift of the emitted transition).  The far bit reaches what a contiguous window cannot: chains
   of words with an empty word in the middle, runs that are far apart, lengths beyond two words.

   The state graph is dumped like that of Bitmask.tla; lib/fam_bitmask.py translates the far flags into an ordinary
   element (position FarPos, relative to the base) before the transitions are replayed on the real containers. *)
EXTENDS Integers, Sequences, FiniteSets, TLC, Json

CONSTANT W
VARIABLES A, B, fa, fb

Base == INSTANCE Bitmask

varsF == <<A, B, fa, fb>>
InitF == Base!Init /\ fa = FALSE /\ fb = FALSE

EmitF(op, arg, val, res, shift) ==
    PrintT("@@J" \o ToJson([op |-> op, arg |-> arg, val |-> val, res |-> res, shift |-> shift,
                            a |-> A, b |-> B, a2 |-> A', b2 |-> B', fa |-> fa, fb |-> fb, fa2 |-> fa', fb2 |-> fb']))
Same == UNCHANGED <<fa, fb>>

NextF ==
    \/ \E b \in Base!Bits : Base!Set(b)    /\ Same /\ EmitF("Set", b, FALSE, FALSE, 0)
    \/ \E b \in Base!Bits : Base!Unset(b)  /\ Same /\ EmitF("Unset", b, FALSE, FALSE, 0)
    \/ \E b \in Base!Bits : Base!Flip(b)   /\ Same /\ EmitF("Flip", b, FALSE, FALSE, 0)
    \/ Base!Or     /\ fa' = (fa \/ fb) /\ fb' = fb /\ EmitF("Or", 0, FALSE, FALSE, 0)
    \/ Base!And    /\ fa' = (fa /\ fb) /\ fb' = fb /\ EmitF("And", 0, FALSE, FALSE, 0)
    \/ Base!Sub    /\ fa' = (fa /\ ~fb) /\ fb' = fb /\ EmitF("Sub", 0, FALSE, FALSE, 0)
    \/ Base!Xor    /\ fa' = (fa # fb) /\ fb' = fb /\ EmitF("Xor", 0, FALSE, FALSE, 0)
    \/ Base!CopyAB /\ fb' = fa /\ fa' = fa /\ EmitF("Copy", 0, FALSE, FALSE, 0)
    \/ Base!Swap   /\ fa' = fb /\ fb' = fa /\ EmitF("Swap", 0, FALSE, FALSE, 0)
    \/ Base!Shrink /\ Same /\ EmitF("Shrink", 0, FALSE, FALSE, 0)
    \/ \E b \in Base!Bits, v \in BOOLEAN : Base!Inject(b, v) /\ Same /\ EmitF("Inject", b, v, FALSE, IF fa THEN 1 ELSE 0)
    \/ \E b \in Base!Bits : Base!Extract(b) /\ Same /\ EmitF("Extract", b, FALSE, b \in A, IF fa THEN -1 ELSE 0)
    \* the far bit itself is set, cleared and flipped like any other bit
    \/ fa' = TRUE  /\ UNCHANGED <<A, B, fb>> /\ EmitF("SetFar", 0, FALSE, FALSE, 0)
    \/ fa' = FALSE /\ UNCHANGED <<A, B, fb>> /\ EmitF("UnsetFar", 0, FALSE, FALSE, 0)
    \/ fa' = ~fa   /\ UNCHANGED <<A, B, fb>> /\ EmitF("FlipFar", 0, FALSE, FALSE, 0)
    \* removing the far bit itself: nothing below it moves
    \/ fa /\ fa' = FALSE /\ UNCHANGED <<A, B, fb>> /\ EmitF("ExtractFar", 0, FALSE, TRUE, 0)

SpecF == InitF /\ [][NextF]_varsF
TypeOKF == Base!TypeOK /\ fa \in BOOLEAN /\ fb \in BOOLEAN
=============================================================================

---------------------------- MODULE CacheFileGen ----------------------------
(* Behaviour generator for C15: the specification of CacheFile.tla plus a history of the
   operations taken.  Two uses:
     * exhaustive (breadth-first, Weighted = FALSE): every operation sequence of length MaxLen,
       one JSON line per sequence (the history is part of the state, so every sequence is a state);
     * sampled (`tlc -simulate num=N -depth MaxLen+1`, Weighted = TRUE): long random sequences with
       a weighted choice of operations, e.g. over the list "H" whose record is 9 MiB so that
       invalidations cross the compaction threshold.
   The harness replays the sequences on the real cacheFile; what the real code then reads back is
   validated by CacheFileTrace.tla. *)
EXTENDS CacheFile, Json

CONSTANTS MaxLen, Weighted
VARIABLES hist, nc          \* nc: compactions the model went through at a Store (steering/selection only)

gvars == <<vars, hist, nc>>

Ev(op, id, L, S, p) == [op |-> op, id |-> id, list |-> L, ids |-> S, part |-> p]
AllEvents ==
    {Ev("Store", id, L, {}, FALSE) : id \in Ids, L \in Lists}
    \cup {Ev("Invalidate", 0, None, S, FALSE) : S \in (SUBSET Ids) \ {{}}}
    \cup {Ev("Reset", 0, None, {}, FALSE), Ev("Reopen", 0, None, {}, FALSE)}
    \cup {Ev("Truncate", 0, None, {}, p) : p \in BOOLEAN}

Step(e) ==
    CASE e.op = "Store"      -> Store(e.id, e.list)
      [] e.op = "Invalidate" -> Invalidate(e.ids)
      [] e.op = "Reset"      -> Reset
      [] e.op = "Reopen"     -> Reopen
      [] e.op = "Truncate"   -> TruncateAndReopen(e.part)

Class(e) == e.op
\* weights in percent: Store 46, Invalidate 26, Reopen 12, Truncate 10, Reset 6
Pick(dice) == IF dice <= 46 THEN "Store" ELSE IF dice <= 72 THEN "Invalidate"
              ELSE IF dice <= 84 THEN "Reopen" ELSE IF dice <= 94 THEN "Truncate" ELSE "Reset"

GenInit == Init /\ hist = <<>> /\ nc = 0
GenNext ==
    /\ Len(hist) < MaxLen
    /\ IF Weighted
       THEN \E dice \in {RandomElement(1 .. 100)} :
              LET en   == {e \in AllEvents : ENABLED Step(e)}
                  cls  == {e \in en : Class(e) = Pick(dice)}
                  pool == IF cls # {} THEN cls ELSE en
              IN \E e \in {RandomElement(pool)} : Step(e) /\ hist' = Append(hist, e)
       ELSE \E e \in AllEvents : Step(e) /\ hist' = Append(hist, e)
    /\ nc' = nc + (IF f.ok /\ NeedsCompact(f) /\ f' # f /\ Len(f'.disk) <= Len(f.disk) THEN 1 ELSE 0)
GenSpec == GenInit /\ [][GenNext]_gvars

Emit == Len(hist) = MaxLen => PrintT("@@J" \o ToJson([ops |-> hist, nc |-> nc, want |-> m]))
=============================================================================

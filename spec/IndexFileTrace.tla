--------------------------- MODULE IndexFileTrace ---------------------------
(* Trace validation for C01 and C07 (binding (B) of DESIGN.md): every row of
   indexfile_trace.ndjson is what the REAL internal/index code did with one input -
     kind "file"  : streams handed to Writer.AddStream (their abstraction: "written") and
                    every observation on the re-opened file (AllStreams, StreamByID,
                    StreamByFirstPacketSource for stored and unstored keys, StreamIDs, Min/Max),
     kind "merge" : a stack of files before and after index.Merge of a suffix: the visible
                    streams read directly and through index.SearchStreams, and a battery of searches.
   The property predicates are evaluated here by TLC; a failing conjunct prints one "@@J"
   line whose key (predicate.field:class) is the narrow signature used by the runner.

   C01  ReadBack     what is read is exactly what was written, field by field
        LookupExact  lookups by id / first packet source find exactly the stored streams
   C07  Visible      before = after = the model's Visible (newest pushed version per id)
        Searches     every search gives the same answer before and after
        InputsIntact the merged files themselves still read as before (views may hold them) *)
EXTENDS Integers, Sequences, FiniteSets, TLC, Json

VARIABLE l

Trace == ndJsonDeserialize("indexfile_trace.ndjson")

Range(s) == {s[i] : i \in DOMAIN s}
Max(S) == CHOOSE x \in S : \A y \in S : y <= x

\* the fields the property lists
Fields == <<"ch", "sh", "cp", "sp", "proto", "first", "last", "cb", "sb", "c", "s", "runs", "npk", "pkts", "pk1">>
DataFields == {"first", "last", "cb", "sb", "c", "s", "runs", "npk", "pkts", "pk1"}

RECURSIVE JoinStr(_)
JoinStr(f) == IF Len(f) = 0 THEN "" ELSE IF Len(f) = 1 THEN f[1] ELSE f[1] \o "+" \o JoinStr(Tail(f))

\* the regime of a mismatch: which representation switch the stream sits behind
Multi(r) == r.kind = "merge" /\ (r.before.multi \/ r.after.multi)      \* a second host group somewhere in the stack
Class(o, w, field) ==
    IF o.gr > 0 THEN "second-" \o o.gf \o "-hostgroup"
    ELSE IF o.gx THEN "host-index-outside-" \o o.gf \o "-group"
    ELSE IF field \in DataFields /\ Len(w.feat) > 0 THEN JoinStr(w.feat)
    ELSE "plain"

\* key = narrow signature: what differs and behind which representation switch; the same wrong field of the
\* same stream seen through AllStreams, StreamByID, StreamByFirstPacketSource or a merge is ONE signature
SayK(r, pred, key, info) ==
    PrintT("@@J" \o ToJson([fail |-> pred, key |-> key, tr |-> r.tr, name |-> r.name,
                            src |-> r.src, regimes |-> r.regimes, info |-> info]))
Say(r, pred, field, class, info) == SayK(r, pred, pred \o "." \o field \o ":" \o class, info)
Chk(cond, r, pred, field, class, info) == cond \/ Say(r, pred, field, class, info)
FieldName(f) == IF f \in {"ch", "sh"} THEN "hosts" ELSE IF f \in {"npk", "pkts", "pk1"} THEN "packets"
                ELSE IF f \in {"cb", "sb", "c", "s", "runs"} THEN "payload" ELSE IF f \in {"first", "last"} THEN "times" ELSE f

\* observed record o against written record w
RClass(r, o, w, field) == IF Multi(r) /\ o.gr = 0 THEN "second-hostgroup-in-stack" ELSE Class(o, w, field)
SameStream(o, w, r, pred) ==
    /\ o.err = "" \/ SayK(r, pred, "error:" \o RClass(r, o, w, "pkts"), [id |-> w.id, got |-> o.err])
    /\ o.err # "" \/ \A i \in 1 .. Len(Fields) :
          o[Fields[i]] = w[Fields[i]] \/
          SayK(r, pred, FieldName(Fields[i]) \o ":" \o RClass(r, o, w, Fields[i]),
               [id |-> w.id, field |-> Fields[i], got |-> ToString(o[Fields[i]]), want |-> ToString(w[Fields[i]])])

ById(recs, id) == CHOOSE x \in Range(recs) : x.id = id
Ids(recs) == {recs[i].id : i \in 1 .. Len(recs)}

(***************************************************************************)
(* C01                                                                     *)
(***************************************************************************)
ReadBack(r) ==
    /\ Chk(r.err = "", r, "ReadBack", "error", IF r.nfill > 0 \/ "random-many-hosts" \in Range(r.regimes) THEN "many-hosts" ELSE "plain", [got |-> r.err])
    /\ r.err # "" \/
       /\ Chk(r.nall = r.nwritten, r, "ReadBack", "count", "plain", [got |-> r.nall, want |-> r.nwritten])
       /\ \A i \in 1 .. Len(r.all) :
            /\ Chk(r.all[i].id \in Ids(r.written), r, "ReadBack", "extra-stream", "plain", [id |-> r.all[i].id])
            /\ r.all[i].id \notin Ids(r.written) \/ SameStream(r.all[i], ById(r.written, r.all[i].id), r, "ReadBack")
       /\ \A i \in 1 .. Len(r.written) :
            Chk(r.written[i].id \in Ids(r.all), r, "ReadBack", "missing-stream", "plain", [id |-> r.written[i].id])
       /\ Chk(r.fillok = r.nfill, r, "ReadBack", "many-hosts",
              IF r.fillgrp = "" \/ r.fillgrp = "v4#0" \/ r.fillgrp = "v6#0" THEN "plain" ELSE "second-hostgroup",
              [ok |-> r.fillok, of |-> r.nfill, first |-> r.fillbad])

LookupExact(r) ==
    r.err # "" \/
    /\ \A i \in 1 .. Len(r.byid) :
         /\ Chk(r.byid[i].found, r, "LookupExact", "id-not-found", "plain", [id |-> r.byid[i].key])
         /\ ~r.byid[i].found \/ SameStream(r.byid[i].rec, r.written[i], r, "LookupExact.byid")
    /\ \A i \in 1 .. Len(r.bysrc) :
         /\ Chk(r.bysrc[i].found, r, "LookupExact", "source-not-found", Class(r.bysrc[i].rec, r.written[i], "pk1"), [src |-> r.bysrc[i].key])
         /\ ~r.bysrc[i].found \/ Chk(r.bysrc[i].rec.id = r.written[i].id, r, "LookupExact", "source-finds-other-stream",
                                     Class(r.bysrc[i].rec, r.written[i], "pk1"), [src |-> r.bysrc[i].key, got |-> r.bysrc[i].rec.id, want |-> r.written[i].id])
         /\ ~r.bysrc[i].found \/ r.bysrc[i].rec.id # r.written[i].id \/ SameStream(r.bysrc[i].rec, r.written[i], r, "LookupExact.bysrc")
    /\ \A i \in 1 .. Len(r.probeid) :
         Chk(~r.probeid[i].found /\ r.probeid[i].rec.err = "", r, "LookupExact", "unstored-id-found", "plain", [id |-> r.probeid[i].key])
    /\ \A i \in 1 .. Len(r.probesrc) :
         Chk(~r.probesrc[i].found /\ r.probesrc[i].rec.err = "", r, "LookupExact", "unstored-source-found", "plain",
             [src |-> r.probesrc[i].key, got |-> r.probesrc[i].rec.id])
    /\ Chk(Range(r.ids) = Ids(r.written) /\ r.nids = r.nwritten, r, "LookupExact", "StreamIDs", "plain", [got |-> r.nids, want |-> r.nwritten])
    /\ Chk(r.min = r.wmin /\ r.max = r.wmax, r, "LookupExact", "MinMaxStreamID", "plain", [min |-> r.min, max |-> r.max, wmin |-> r.wmin, wmax |-> r.wmax])

(***************************************************************************)
(* C07                                                                     *)
(***************************************************************************)
\* the model's Visible: for every id the stream of the newest pushed file that contains it
PushedIds(r) == UNION {Ids(r.pushed[i]) : i \in 1 .. Len(r.pushed)}
VisRec(r, id) == ById(r.pushed[Max({i \in 1 .. Len(r.pushed) : id \in Ids(r.pushed[i])})], id)

VisibleIs(r, recs, pred, err) ==
    /\ Chk(err = "", r, pred, "error", "plain", [got |-> err])
    /\ err # "" \/
       /\ Chk(Ids(recs) = PushedIds(r) /\ Len(recs) = Cardinality(PushedIds(r)), r, pred, "stream-set", "plain",
              [got |-> Ids(recs), want |-> PushedIds(r)])
       /\ \A i \in 1 .. Len(recs) : recs[i].id \notin PushedIds(r) \/ SameStream(recs[i], VisRec(r, recs[i].id), r, pred)

Visible(r) ==
    /\ Chk(r.err = "", r, "Merge", "error", "plain", [got |-> r.err])
    /\ r.err # "" \/
       /\ VisibleIs(r, r.before.visible, "VisibleBefore", r.before.err)
       /\ VisibleIs(r, r.before.viasearch, "VisibleBefore.search", r.before.err)
       /\ VisibleIs(r, r.after.visible, "Visible", r.after.err)
       /\ VisibleIs(r, r.after.viasearch, "Visible.search", r.after.err)
       /\ Chk(r.before.filldig = r.fillexpect /\ r.before.nfill = r.nfillexpect, r, "VisibleBefore", "many-hosts",
              IF Multi(r) THEN "second-hostgroup-in-stack" ELSE "plain", [got |-> r.before.filldig, want |-> r.fillexpect])
       /\ Chk(r.after.filldig = r.fillexpect /\ r.after.nfill = r.nfillexpect, r, "Visible", "many-hosts",
              IF Multi(r) THEN "second-hostgroup-in-stack" ELSE "plain", [got |-> r.after.filldig, want |-> r.fillexpect])

\* a stream that sits in a second host group of its family is read (or was written) through the defective host
\* tables of C01; searches that look at hosts then differ as a consequence - one signature for all of them
SearchKey(r, s, what) == IF s.host /\ Multi(r) THEN "Searches.by-host:second-hostgroup-in-stack" ELSE "Searches." \o what \o ":" \o s.qk
Searches(r) ==
    r.err # "" \/ r.before.err # "" \/ r.after.err # "" \/
    /\ Chk(Len(r.before.searches) = Len(r.after.searches), r, "Searches", "battery", "plain", [n |-> Len(r.before.searches)])
    /\ \A i \in 1 .. Len(r.before.searches) : i > Len(r.after.searches) \/
         LET b == r.before.searches[i]  a == r.after.searches[i] IN
         /\ a.err = b.err \/ SayK(r, "Searches", SearchKey(r, a, "error"), [q |-> a.q, before |-> b.err, after |-> a.err])
         /\ a.keys = b.keys \/ SayK(r, "Searches", SearchKey(r, a, "order"), [q |-> a.q, before |-> b.keys, after |-> a.keys])
         /\ (a.ids = b.ids /\ a.more = b.more) \/ SayK(r, "Searches", SearchKey(r, a, "result"), [q |-> a.q, before |-> b.ids, after |-> a.ids])

InputsIntact(r) == r.err # "" \/ Chk(r.inputs = "", r, "InputsIntact", "reader", IF Multi(r) THEN "second-hostgroup-in-stack" ELSE "plain", [what |-> r.inputs])

(***************************************************************************)
RowOK(r) ==
    IF r.kind = "file" THEN ReadBack(r) /\ LookupExact(r)
    ELSE Visible(r) /\ Searches(r) /\ InputsIntact(r)

TraceInit == l = 0
TraceNext == l < Len(Trace) /\ l' = l + 1 /\ RowOK(Trace[l + 1])
TraceSpec == TraceInit /\ [][TraceNext]_l

Done == l = Len(Trace) => PrintT("@@J" \o ToJson([done |-> l]))
=============================================================================

SPECIFICATION MCSpec
CONSTANTS
  Classes <- MCClasses
  Stems = {"n1"}
  Exts = {"pcap"}
  Variants = 1
  Uploaders = {"A", "B", "C"}
  PairPaths <- MCPairPaths
  Exclusive = TRUE
INVARIANTS MC_TypeOK MC_InsideOnly MC_NoOverwrite MC_Pairs MC_OneWinnerPerName

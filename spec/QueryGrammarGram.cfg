SPECIFICATION Spec
CONSTANTS
  Mode = "tokens"
  MaxLen = 6
  Seed = 1
  VK = "num"
  Alpha = "raw"
  Hdrs = "base"
  Gram = TRUE
INVARIANT Emit

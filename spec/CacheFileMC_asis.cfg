\* C15 bounded exhaustive check of the design AS FOUND (memory-only invalidate, strict load; exemptions KnownResurrect, KnownOpenFail):
\* every reachable state of every operation sequence that keeps at most MaxRecs records on disk.
SPECIFICATION Spec
CONSTANTS
  NIds = 3
  Lists = {"A", "B", "C"}
  RecLen <- MCRecLen
  Hdr = 8
  SHdr = 8
  MinFree = 16000
  PersistInvalidate = FALSE
  TolerantLoad = FALSE
  MaxRecs = 4
CONSTRAINT Bounded
INVARIANTS TypeOK MapRefinement Opens Accounting

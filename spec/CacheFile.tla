------------------------------ MODULE CacheFile ------------------------------
(* C15 - the converter cache file of internal/index/converters/cachefile.go.

   Two layers:

   * the ABSTRACT layer: a map  stream id -> name of a chunk list  (None = nothing
     cached).  Store / Invalidate(set) / Reset / Reopen / TruncateAndReopen are plain
     functions on maps (AStore ...).  This is what the property talks about.

   * the FILE layer, shaped like the code: an 8 byte file header followed by
     appended records  [stream id][sizes.. 0 0][client bytes][server bytes][times]
     [content type masks.. 0]  (here: a record is [id, list, len], len = bytes
     including the 8 byte stream header), the in-memory table  info: id -> (offset,
     size)  (cacheFile.streamInfos), and the three counters fileSize / freeSize /
     freeStart.  Compaction (truncateFile) copies, from freeStart on, every record
     whose offset matches the table; the load-time scan (NewCacheFile) lets a later
     record for the same id free the earlier one; Invalidate only touches memory
     unless the parameter `pi` (persist invalidation) is TRUE, in which case the stream
     id in the record header is overwritten with the tombstone id (and a record
     replaced by a newer Store of the same id is freed the same way - TLC showed that
     tombstoning invalidated records alone is not enough: Store(0,A) Store(0,A)
     Invalidate(0) Reopen serves A again); loading a file that ends in a partly
     written record fails unless `tl` (tolerant load) is TRUE.
     pi = tl = FALSE is the code as found; pi = tl = TRUE is the repaired design
     (proposed_fixes/C15-1, C15-2).

   All file-layer operations are pure functions on a file-state record so that the
   same definitions are used by the bounded exhaustive check (this module's Spec),
   by the behaviour generator (CacheFileGen) and by trace validation of the real
   code (CacheFileTrace). *)
EXTENDS Integers, Sequences, FiniteSets, TLC

CONSTANTS NIds,              \* stream ids are 0 .. NIds-1
          Lists,             \* names of abstract chunk lists
          RecLen,            \* function Lists -> bytes of a record (incl. stream header)
          Hdr, SHdr,         \* file header / per record stream header size
          MinFree,           \* compaction needs freeSize >= MinFree and >= fileSize/2
          PersistInvalidate, TolerantLoad,     \* which design is checked
          MaxRecs            \* state constraint of the exhaustive run: records on disk

Ids  == 0 .. (NIds - 1)
None == "-"                  \* "nothing cached" (JSON has no null)
Junk == "?"                  \* a table entry that points at no record / a foreign record
Tomb == -1                   \* tombstone stream id (0xffffffffffffffff in the file)

Min(S) == CHOOSE x \in S : \A y \in S : x <= y
Range(s) == {s[i] : i \in DOMAIN s}

(* ------------------------------------------------------------------ abstract layer *)
AllNone            == [i \in Ids |-> None]
AStore(mm, id, L)  == [mm EXCEPT ![id] = L]
AInvalidate(mm, S) == [i \in Ids |-> IF i \in S THEN None ELSE mm[i]]
AReset(mm)         == AllNone
AReopen(mm)        == mm
\* The last record is cut short (crash while the latest Store(t.id, ..) was appending it, t.prev =
\* what t.id read before that Store): every other id is untouched; t.id reads what it read before
\* that Store, or nothing (a cache may lose the entry, it must never serve anything else).
NoTail               == [id |-> -1, prev |-> None]
ATruncOK(m2, mm, t)  == /\ \A i \in Ids : i # t.id => m2[i] = mm[i]
                        /\ m2[t.id] \in {t.prev, None}
ATruncate(mm, t, rd) == [mm EXCEPT ![t.id] = IF rd[t.id] \in {t.prev, None} THEN rd[t.id] ELSE t.prev]

(* ---------------------------------------------------------------------- file layer *)
NoInfo    == [off |-> -1, size |-> 0]
EmptyInfo == [i \in Ids |-> NoInfo]

RECURSIVE SumLen(_, _)
SumLen(d, k) == IF k = 0 THEN 0 ELSE SumLen(d, k - 1) + d[k].len
Start(d, j)  == Hdr + SumLen(d, j - 1)            \* byte offset of record j
DiskSize(d)  == Hdr + SumLen(d, Len(d))
\* index of the record that starts at byte o (0: o is not a record boundary)
RecIdx(d, o) == LET S == {j \in 1 .. Len(d) : Start(d, j) = o}
                IN IF S = {} THEN 0 ELSE CHOOSE j \in S : TRUE

FEmpty == [disk |-> <<>>, info |-> EmptyInfo, fileSize |-> Hdr, freeSize |-> 0,
           freeStart |-> Hdr, ok |-> TRUE]

\* truncateFile(): cachefile.go:523-576
RECURSIVE CompactFrom(_, _, _, _)
CompactFrom(d, j, nd, info) ==
    IF j > Len(d) THEN [disk |-> nd, info |-> info]
    ELSE LET r == d[j]  off == Start(d, j) + SHdr IN
         IF r.id \in Ids /\ info[r.id] # NoInfo /\ info[r.id].off = off
         THEN CompactFrom(d, j + 1, Append(nd, r),
                          [info EXCEPT ![r.id] = [off |-> DiskSize(nd) + SHdr, size |-> info[r.id].size]])
         ELSE CompactFrom(d, j + 1, nd, info)

FCompact(f) ==
    LET d == f.disk
        k == IF f.freeStart = DiskSize(d) THEN Len(d) + 1 ELSE RecIdx(d, f.freeStart)
    IN IF k = 0 THEN [f EXCEPT !.ok = FALSE]      \* would parse garbage: never in a correct design
       ELSE LET c == CompactFrom(d, k, SubSeq(d, 1, k - 1), f.info)
            IN [disk |-> c.disk, info |-> c.info, fileSize |-> DiskSize(c.disk), freeSize |-> 0,
                freeStart |-> DiskSize(c.disk), ok |-> f.ok]

NeedsCompact(f) == f.freeSize >= MinFree /\ f.freeSize >= (f.fileSize \div 2)

\* one record becomes free space: counters, and with pi the tombstone in its stream header
FreeRec(f, e, pi) ==
    LET j == RecIdx(f.disk, e.off - SHdr) IN
    [f EXCEPT !.freeSize = @ + e.size + SHdr,
              !.freeStart = IF @ > e.off - SHdr THEN e.off - SHdr ELSE @,
              !.disk = IF pi /\ j # 0 THEN [@ EXCEPT ![j].id = Tomb] ELSE @]

\* setData(): cachefile.go:582-703.  As found, a Store over an id that is still cached just
\* replaces the table entry (the old record is dead but not accounted); with pi the old record
\* is freed like an invalidated one AFTER the new record has been written.
FStore(f, id, L, len, pi) ==
    LET g == IF NeedsCompact(f) THEN FCompact(f) ELSE f
        h == [g EXCEPT !.disk = Append(g.disk, [id |-> id, list |-> L, len |-> len]),
                       !.info[id] = [off |-> g.fileSize + SHdr, size |-> len - SHdr],
                       !.freeStart = IF g.freeStart = g.fileSize THEN g.fileSize + len ELSE g.freeStart,
                       !.fileSize = g.fileSize + len]
    IN IF pi /\ g.info[id] # NoInfo THEN FreeRec(h, g.info[id], pi) ELSE h

\* InvalidateChangedStreams(): cachefile.go:705-726  (pi: also write the tombstone)
RECURSIVE FInvalidate(_, _, _)
FInvalidate(f, S, pi) ==
    IF S = {} THEN f
    ELSE LET i == Min(S)  e == f.info[i] IN
         IF e = NoInfo THEN FInvalidate(f, S \ {i}, pi)
         ELSE FInvalidate([FreeRec(f, e, pi) EXCEPT !.info[i] = NoInfo], S \ {i}, pi)
Invalidated(f, S) == {i \in S : f.info[i] # NoInfo}            \* the returned bitmask

FReset(f) == FEmpty

\* NewCacheFile(): cachefile.go:220-297
RECURSIVE Scan(_, _, _)
Scan(d, j, s) ==
    IF j > Len(d) THEN s
    ELSE LET r == d[j]  start == s.fileSize IN
         IF r.id = Tomb
         THEN Scan(d, j + 1, [s EXCEPT !.freeStart = IF s.freeSize = 0 \/ @ > start THEN start ELSE @,
                                       !.freeSize = @ + r.len, !.fileSize = @ + r.len])
         ELSE LET old == s.info[r.id]
                  s1  == IF old = NoInfo THEN s
                         ELSE [s EXCEPT !.freeStart = IF s.freeSize = 0 \/ @ > old.off - SHdr
                                                      THEN old.off - SHdr ELSE @,
                                        !.freeSize = @ + SHdr + old.size]
              IN Scan(d, j + 1, [s1 EXCEPT !.info[r.id] = [off |-> start + SHdr, size |-> r.len - SHdr],
                                           !.fileSize = @ + r.len])

\* d: the complete records found in the file;  partial: a partly written record follows
FLoad(d, partial, tl) ==
    IF partial /\ ~tl THEN [FEmpty EXCEPT !.ok = FALSE, !.disk = d]          \* NewCacheFile returns an error
    ELSE LET s  == Scan(d, 1, [info |-> EmptyInfo, fileSize |-> Hdr, freeSize |-> 0, freeStart |-> Hdr])
             f0 == [disk |-> d, info |-> s.info, fileSize |-> s.fileSize, freeSize |-> s.freeSize,
                    freeStart |-> s.freeStart, ok |-> TRUE]
         IN IF s.freeSize = 0 THEN [f0 EXCEPT !.freeStart = s.fileSize] ELSE FCompact(f0)

FReopen(f, tl)            == FLoad(f.disk, FALSE, tl)
FTruncate(f, partial, tl) == FLoad(SubSeq(f.disk, 1, Len(f.disk) - 1), partial, tl)

\* Data()/DataForSearch()/Contains(): what the file layer serves for id
Read(f, id) ==
    LET e == f.info[id] IN
    IF e = NoInfo THEN None
    ELSE LET j == RecIdx(f.disk, e.off - SHdr) IN
         IF j = 0 \/ f.disk[j].id # id \/ f.disk[j].len # e.size + SHdr THEN Junk ELSE f.disk[j].list
ReadMap(f) == [i \in Ids |-> Read(f, i)]

(* ------------------------------------------------ accounting predicates of a file state *)
IsLive(f, j) == LET r == f.disk[j] IN
                r.id \in Ids /\ f.info[r.id] # NoInfo /\ f.info[r.id].off = Start(f.disk, j) + SHdr
RECURSIVE DeadSum(_, _, _)
DeadSum(f, o, j) == IF j = 0 THEN 0
                    ELSE DeadSum(f, o, j - 1) +
                         (IF ~IsLive(f, j) /\ Start(f.disk, j) >= o THEN f.disk[j].len ELSE 0)
DeadFrom(f, o) == DeadSum(f, o, Len(f.disk))       \* bytes of dead records at or after offset o
AcctOK(f) ==
    /\ f.fileSize = DiskSize(f.disk)                                  \* counter = real file length
    /\ \A i \in Ids : f.info[i] # NoInfo => Read(f, i) \notin {None, Junk}      \* table entries point at own records
    /\ \A i, k \in Ids : i # k /\ f.info[i] # NoInfo => f.info[i].off # f.info[k].off
    /\ f.freeStart = DiskSize(f.disk) \/ RecIdx(f.disk, f.freeStart) # 0         \* freeStart is a record boundary
    /\ (f.freeSize = 0) <=> (f.freeStart = f.fileSize)
    /\ f.freeSize <= DeadFrom(f, f.freeStart)      \* never more than the dead bytes compaction will find
    /\ f.freeSize >= 0

(* -------------------------------------------------------- bounded exhaustive specification *)
VARIABLES f,        \* file-layer state
          m,        \* abstract map
          tail      \* [id, prev]: the last record on disk was appended by the latest Store(id,..), prev = m[id] before
vars == <<f, m, tail>>

Init == f = FEmpty /\ m = AllNone /\ tail = NoTail

\* Known finding "invalidate-then-reopen" (design with PersistInvalidate = FALSE only): a record that
\* was invalidated in memory comes back when the file is loaded again.  The abstract map follows the
\* resurrection ONLY for an id that should read None and reads the list of a dead record of this very
\* id that was still in the file before the load; every other difference stays a MapRefinement violation.
KnownResurrect(want, old, g, i) ==
    /\ ~PersistInvalidate /\ g.ok /\ want[i] = None
    /\ \E j \in 1 .. Len(old.disk) : old.disk[j].id = i /\ old.disk[j].list = Read(g, i)
Resync(want, old, g) == [i \in Ids |-> IF KnownResurrect(want, old, g, i) THEN Read(g, i) ELSE want[i]]

Store(id, L) ==
    /\ f.ok
    /\ f' = FStore(f, id, L, RecLen[L], PersistInvalidate)
    /\ m' = AStore(m, id, L)
    /\ tail' = [id |-> id, prev |-> m[id]]
Invalidate(S) ==
    /\ f.ok
    /\ f' = FInvalidate(f, S, PersistInvalidate)
    /\ m' = AInvalidate(m, S)
    /\ tail' = NoTail
Reset ==
    /\ f.ok
    /\ f' = FReset(f) /\ m' = AReset(m) /\ tail' = NoTail
Reopen ==
    /\ f.ok
    /\ f' = FReopen(f, TolerantLoad)
    /\ m' = Resync(AReopen(m), f, f')
    /\ UNCHANGED tail
TruncateAndReopen(partial) ==
    /\ f.ok /\ tail # NoTail
    /\ f' = FTruncate(f, partial, TolerantLoad)
    /\ m' = Resync(ATruncate(m, tail, ReadMap(f')), f, f')
    /\ tail' = NoTail

Next ==
    \/ \E id \in Ids, L \in Lists : Store(id, L)
    \/ \E S \in (SUBSET Ids) \ {{}} : Invalidate(S)
    \/ Reset
    \/ Reopen
    \/ \E p \in BOOLEAN : TruncateAndReopen(p)

Spec == Init /\ [][Next]_vars

Bounded == Len(f.disk) <= MaxRecs                 \* CONSTRAINT

\* record sizes of the exhaustive configuration: a minimal record, a small one and a "huge" one;
\* two invalidated huge records cross MinFree = 16000 and half of the file
MCRecLen == [L \in Lists |-> CASE L = "A" -> 12 [] L = "B" -> 40 [] OTHER -> 9000]
\* record sizes the generator steers with: small lists, and "H" = one chunk of 9 MiB
GenRecLen == [L \in Lists |-> IF L = "H" THEN 9437200 ELSE 64]

TypeOK ==
    /\ m \in [Ids -> Lists \cup {None}]
    /\ f.fileSize >= Hdr /\ f.freeStart >= Hdr /\ f.freeStart <= f.fileSize
\* Known finding "partial last record": with TolerantLoad = FALSE the open fails as a whole.
KnownOpenFail == ~TolerantLoad /\ ~f.ok
\* THE PROPERTY: reading serves the most recent Store not followed by Invalidate/Reset, for every id
MapRefinement == f.ok => ReadMap(f) = m
Opens         == f.ok \/ KnownOpenFail
Accounting    == f.ok => AcctOK(f)
\* vacuity witness, EXPECTED TO BE VIOLATED (CacheFileMC_witness.cfg): a state whose next Store compacts
\* lies inside the bound
NoCompactPending == ~(f.ok /\ NeedsCompact(f))
=============================================================================

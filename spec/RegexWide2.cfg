SPECIFICATION Spec
CONSTANTS
  Sigma = {"a", "b"}
  L = 5
  Leaves <- AllLeaves
  UnOps <- AllUn
  Pool <- AllLeaves
  MaxDepth = 2
  MaxSize = 99
INVARIANT Emit
VIEW View

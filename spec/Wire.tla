-------------------------------- MODULE Wire --------------------------------
(* C05 / C08 - the ENVIRONMENT of the importer: what endpoints exchange and what a
   capture device may make of it.

   A conversation is a TCP connection (three-way handshake, data, FIN exchange) or a
   UDP flow, over IPv4 or IPv6, carrying a sequence of application MESSAGES, each with
   a direction ("c" = initiator to responder, "s" = the reverse) and a length in
   abstract UNITS (a unit is concretised by the harness as one self-describing block
   of bytes).  The environment
     - cuts the current message into segments               (Segment / NewMsg / Open ...)
     - puts the oldest in-flight segment on the wire         (Emit, with a time step)
     - re-emits a segment that is already on the wire        (Dup)
     - splits an IPv4 packet into two IP fragments, in order or reversed (Emit with frag = 1 / 2; the capture
       shows two packets, the importer has to put the datagram together again before TCP/UDP sees it)
     - reorders two adjacent in-flight segments of the SAME direction, bounded
       displacement                                          (Swap)
     - switches to another conversation                      (Interleave)
     - starts a new capture file                             (CutFile)
     - lets a lot of unrelated traffic pass                  (Bulk - concretised as
       >= 100000 packets so that the importer takes a reassembly snapshot exactly
       before the next packet of the schedule)
     - and finally hands the capture files to the importer in batches, in any order,
       with or without a service restart in between          (Batch).
   The state carries the ground truth: cv[c].msgs.  Exp(c) is the per-direction unit
   sequence and the order of direction changes; Ideal(c, P) is what an ideal
   reassembler shows after the wire prefix P (used for chronological prefixes of the
   files).  Excluded on purpose: reordering ACROSS directions (it makes "order of
   direction changes" ill-defined), idle periods of 5 minutes (IdleMax), a displaced
   segment staying in flight for minutes, reuse of a 4-tuple, duplicated or reordered
   UDP datagrams (indistinguishable from the application sending them that way).

   TLC prints every finished behaviour as one JSON line ("@@J"): exhaustively for the
   tiny configuration (WireMC.cfg: 1 conversation x 2 messages x 2 segments; WireMCq.cfg
   is the same with at most one duplicate or swap), by seeded simulation beyond
   (WireGen.tla; the regimes are the constant sets in lib/fam_wire.py REGIMES). *)
EXTENDS Integers, Sequences, FiniteSets, TLC, Json

CONSTANTS
    NConv,      \* conversations 1..NConv
    MaxMsgs,    \* messages per conversation
    MaxLen,     \* units per message
    MaxSeg,     \* units per TCP segment
    Protos,     \* subset of {"tcp","udp"}
    Fams,       \* subset of {4, 6}
    MaxDup,     \* duplicated segments per behaviour
    MaxDisp,    \* displacement bound of a reordered segment (positions)
    MaxSwap,    \* swaps per behaviour
    MaxPerturb, \* duplicates + swaps per behaviour
    MaxCuts,    \* file cuts per behaviour
    MinCuts,    \* a behaviour only counts as finished with at least that many cuts
    MaxAck,     \* pure ACK packets per behaviour
    MaxBulk,    \* bulk blocks per behaviour
    MaxFrag,    \* IPv4 packets carrying payload that the network splits into two IP fragments, per behaviour
    Dts,        \* time steps (ms) an emitted packet may take: subset of {0, 1, 120000}
    BatchMode   \* "any" | "chrono" | "none" (batching left to Import.tla)

VARIABLES
    cv,         \* conversation descriptors incl. the ground truth (msgs)
    phase,      \* what the conversation does next
    rem,        \* units of the current message not yet cut into segments
    acked,      \* number of messages already answered by a pure ACK
    ocnt,       \* segments cut so far (cut order numbers)
    flight,     \* per conversation: segments cut but not yet on the wire
    wire,       \* everything emitted so far, in capture order
    active,     \* the conversation that currently talks
    curFile,    \* capture file being written
    clock,      \* ms
    last,       \* per conversation: time of its latest packet
    cnt,        \* counters: dup, swap, cut, ack, bulk
    pending,    \* files not yet handed to the importer
    batches     \* import batches so far

vars == <<cv, phase, rem, acked, ocnt, flight, wire, active, curFile, clock, last, cnt, pending, batches>>

Convs    == 1 .. NConv
IdleMax  == 250000          \* strictly less than the importer's 5 minute inactivity timeout
BulkMs   == 1000            \* a bulk block lasts at most this long
BigDt    == 10000           \* time steps from here on count as "long"
Other(d) == IF d = "c" THEN "s" ELSE "c"
Range(s) == {s[i] : i \in DOMAIN s}
Last(s)  == s[Len(s)]

NoConv == [proto |-> "none", fam |-> 0, closer |-> "c", msgs |-> <<>>]

Init ==
    /\ cv = [c \in Convs |-> NoConv]
    /\ phase = [c \in Convs |-> "new"]
    /\ rem = [c \in Convs |-> 0]
    /\ acked = [c \in Convs |-> 0]
    /\ ocnt = [c \in Convs |-> 0]
    /\ flight = [c \in Convs |-> <<>>]
    /\ wire = <<>>
    /\ active = 1
    /\ curFile = 1
    /\ clock = 0
    /\ last = [c \in Convs |-> 0]
    /\ cnt = [dup |-> 0, swap |-> 0, cut |-> 0, ack |-> 0, bulk |-> 0, frag |-> 0]
    /\ pending = {}
    /\ batches = <<>>

\* ------------------------------------------------------------------ ground truth
Msgs(c) == cv[c].msgs
MsgsOfDir(c, d) == {m \in 1 .. Len(Msgs(c)) : Msgs(c)[m].d = d}

\* ranges [m, first unit, last unit] of a direction, message by message
RangesOf(c, d, del) ==
    LET F[m \in 0 .. Len(Msgs(c))] ==
            IF m = 0 THEN <<>>
            ELSE IF Msgs(c)[m].d = d /\ del[m] > 0 THEN Append(F[m - 1], <<m, 0, del[m] - 1>>)
            ELSE F[m - 1]
    IN F[Len(Msgs(c))]

\* order of direction changes: maximal runs <<dir, units>>
RunsOf(c, del) ==
    LET F[m \in 0 .. Len(Msgs(c))] ==
            IF m = 0 THEN <<>>
            ELSE LET r == F[m - 1] n == del[m] d == Msgs(c)[m].d IN
                 IF n = 0 THEN r
                 ELSE IF Len(r) > 0 /\ Last(r)[1] = d
                      THEN [r EXCEPT ![Len(r)] = <<d, Last(r)[2] + n>>]
                      ELSE Append(r, <<d, n>>)
    IN F[Len(Msgs(c))]

FullDel(c) == [m \in 1 .. Len(Msgs(c)) |-> Msgs(c)[m].n]

\* Expected(conv): what the stream of a finished conversation must show
Exp(c) == [proto |-> cv[c].proto,
           c |-> RangesOf(c, "c", FullDel(c)),
           s |-> RangesOf(c, "s", FullDel(c)),
           runs |-> RunsOf(c, FullDel(c))]

\* ------------------------------------------------------------------ ideal reassembly of a wire prefix
DataOf(c, P) == {i \in DOMAIN P : P[i].c = c /\ P[i].k \in {"data", "dgram"}}
CoveredOf(c, P, m) == UNION {P[i].f .. P[i].t : i \in {j \in DataOf(c, P) : P[j].m = m}}
PrefixLen(S, n) ==      \* largest k <= n with 0..k-1 all in S
    IF S = {} THEN 0
    ELSE LET miss == (0 .. n - 1) \ S IN
         IF miss = {} THEN n ELSE CHOOSE k \in miss : \A j \in miss : k <= j
Established(c, P) ==
    \/ cv[c].proto = "udp"
    \/ \E i \in DOMAIN P : P[i].c = c /\ P[i].k = "synack"
\* units delivered per message: a message contributes only when every earlier message of
\* its direction is complete (TCP delivers each direction in sequence order)
DelOf(c, P) ==
    LET cov == [m \in 1 .. Len(Msgs(c)) |-> PrefixLen(CoveredOf(c, P, m), Msgs(c)[m].n)]
    IN [m \in 1 .. Len(Msgs(c)) |->
            IF ~Established(c, P) THEN 0
            ELSE IF \A k \in 1 .. (m - 1) : Msgs(c)[k].d = Msgs(c)[m].d => cov[k] = Msgs(c)[k].n
                 THEN cov[m] ELSE 0]
Seen(c, P) == \E i \in DOMAIN P : P[i].c = c
Ideal(c, P) == LET del == DelOf(c, P) IN
    [proto |-> cv[c].proto,
     c |-> RangesOf(c, "c", del),
     s |-> RangesOf(c, "s", del),
     runs |-> RunsOf(c, del)]

\* ------------------------------------------------------------------ events
Seg(k, d, m, f, t, o) == [k |-> k, d |-> d, m |-> m, f |-> f, t |-> t, o |-> o, disp |-> 0]
Pkt(c, s, dt, dup, fr) == [c |-> c, k |-> s.k, d |-> s.d, m |-> s.m, f |-> s.f, t |-> s.t, o |-> s.o,
                           file |-> curFile, dt |-> dt, dup |-> dup, open |-> FALSE, at |-> clock + dt, frag |-> fr]

NFiles       == IF wire = <<>> THEN 0 ELSE Last(wire).file     \* capture files that hold packets
Busy(c)      == phase[c] \notin {"new", "done"} \/ flight[c] # <<>>
Finished(c)  == phase[c] = "done" /\ flight[c] = <<>>
AllEmitted   == \A c \in Convs : Finished(c)
Displaced    == \E c \in Convs : \E i \in DOMAIN flight[c] : flight[c][i].disp # 0
\* nobody who still has something to say may be silent for IdleMax; no long step while a
\* displaced segment is in flight (a receiver would give the gap up after minutes)
TimeOK(c, dt) ==
    /\ \A x \in Convs : (x # c /\ phase[x] # "new" /\ ~Finished(x)) => clock + dt - last[x] <= IdleMax
    /\ (c \in Convs /\ phase[c] # "new") => clock + dt - last[c] <= IdleMax
    /\ dt >= BigDt => ~Displaced

Push(c, s) == /\ flight' = [flight EXCEPT ![c] = Append(@, s)]
              /\ ocnt' = [ocnt EXCEPT ![c] = @ + 1]

Same(vs) == UNCHANGED vs

Step(e) ==
    CASE e.a = "Interleave" ->
            /\ e.c # active /\ ~Finished(e.c) /\ ~AllEmitted
            /\ active' = e.c
            /\ Same(<<cv, phase, rem, acked, ocnt, flight, wire, curFile, clock, last, cnt, pending, batches>>)
      [] e.a = "Open" ->
            /\ e.c = active /\ phase[e.c] = "new"
            /\ cv' = [cv EXCEPT ![e.c] = [proto |-> e.proto, fam |-> e.fam, closer |-> "c", msgs |-> <<>>]]
            /\ last' = [last EXCEPT ![e.c] = clock]
            /\ IF e.proto = "tcp"
               THEN /\ phase' = [phase EXCEPT ![e.c] = "hs2"]
                    /\ Push(e.c, Seg("syn", "c", 0, 0, -1, ocnt[e.c]))
               ELSE /\ phase' = [phase EXCEPT ![e.c] = "est"]
                    /\ Same(<<flight, ocnt>>)
            /\ Same(<<rem, acked, wire, active, curFile, clock, cnt, pending, batches>>)
      [] e.a = "Hs" ->
            /\ e.c = active /\ phase[e.c] \in {"hs2", "hs3"}
            /\ IF phase[e.c] = "hs2"
               THEN /\ phase' = [phase EXCEPT ![e.c] = "hs3"]
                    /\ Push(e.c, Seg("synack", "s", 0, 0, -1, ocnt[e.c]))
               ELSE /\ phase' = [phase EXCEPT ![e.c] = "est"]
                    /\ Push(e.c, Seg("ack", "c", 0, 0, -1, ocnt[e.c]))
            /\ Same(<<cv, rem, acked, wire, active, curFile, clock, last, cnt, pending, batches>>)
      [] e.a = "NewMsg" ->
            /\ e.c = active /\ phase[e.c] = "est" /\ rem[e.c] = 0 /\ Len(Msgs(e.c)) < MaxMsgs
            /\ (cv[e.c].proto = "udp" /\ Msgs(e.c) = <<>>) => e.d = "c"     \* who talks first is the client
            /\ cv' = [cv EXCEPT ![e.c].msgs = Append(@, [d |-> e.d, n |-> e.n])]
            /\ IF cv[e.c].proto = "udp"
               THEN /\ Push(e.c, Seg("dgram", e.d, Len(Msgs(e.c)) + 1, 0, e.n - 1, ocnt[e.c]))
                    /\ Same(rem)
               ELSE /\ rem' = [rem EXCEPT ![e.c] = e.n]
                    /\ Same(<<flight, ocnt>>)
            /\ Same(<<phase, acked, wire, active, curFile, clock, last, cnt, pending, batches>>)
      [] e.a = "Segment" ->
            /\ e.c = active /\ rem[e.c] >= e.n /\ e.n >= 1
            /\ LET m == Len(Msgs(e.c)) f == Msgs(e.c)[m].n - rem[e.c] IN
               Push(e.c, Seg("data", Msgs(e.c)[m].d, m, f, f + e.n - 1, ocnt[e.c]))
            /\ rem' = [rem EXCEPT ![e.c] = @ - e.n]
            /\ Same(<<cv, phase, acked, wire, active, curFile, clock, last, cnt, pending, batches>>)
      [] e.a = "PureAck" ->
            /\ e.c = active /\ phase[e.c] = "est" /\ cv[e.c].proto = "tcp" /\ rem[e.c] = 0
            /\ acked[e.c] < Len(Msgs(e.c)) /\ cnt.ack < MaxAck
            /\ Push(e.c, Seg("pack", Other(Last(Msgs(e.c)).d), Len(Msgs(e.c)), 0, -1, ocnt[e.c]))
            /\ acked' = [acked EXCEPT ![e.c] = Len(Msgs(e.c))]
            /\ cnt' = [cnt EXCEPT !.ack = @ + 1]
            /\ Same(<<cv, phase, rem, wire, active, curFile, clock, last, pending, batches>>)
      [] e.a = "Close" ->
            /\ e.c = active /\ phase[e.c] = "est" /\ rem[e.c] = 0 /\ Len(Msgs(e.c)) >= 1
            /\ IF cv[e.c].proto = "tcp"
               THEN /\ cv' = [cv EXCEPT ![e.c].closer = e.d]
                    /\ phase' = [phase EXCEPT ![e.c] = "fin2"]
                    /\ Push(e.c, Seg("fin", e.d, Len(Msgs(e.c)), 0, -1, ocnt[e.c]))
               ELSE /\ e.d = "c"
                    /\ phase' = [phase EXCEPT ![e.c] = "done"]
                    /\ Same(<<cv, flight, ocnt>>)
            /\ Same(<<rem, acked, wire, active, curFile, clock, last, cnt, pending, batches>>)
      [] e.a = "Fin" ->
            /\ e.c = active /\ phase[e.c] \in {"fin2", "fin3"}
            /\ IF phase[e.c] = "fin2"
               THEN /\ phase' = [phase EXCEPT ![e.c] = "fin3"]
                    /\ Push(e.c, Seg("finack", Other(cv[e.c].closer), Len(Msgs(e.c)), 0, -1, ocnt[e.c]))
               ELSE /\ phase' = [phase EXCEPT ![e.c] = "done"]
                    /\ Push(e.c, Seg("lastack", cv[e.c].closer, Len(Msgs(e.c)), 0, -1, ocnt[e.c]))
            /\ Same(<<cv, rem, acked, wire, active, curFile, clock, last, cnt, pending, batches>>)
      [] e.a = "Emit" ->
            /\ e.c = active /\ flight[e.c] # <<>> /\ TimeOK(e.c, e.dt)
            /\ e.frag # 0 => cnt.frag < MaxFrag /\ cv[e.c].fam = 4 /\ Head(flight[e.c]).k \in {"data", "dgram"}
            /\ wire' = Append(wire, Pkt(e.c, Head(flight[e.c]), e.dt, FALSE, e.frag))
            /\ flight' = [flight EXCEPT ![e.c] = Tail(@)]
            /\ clock' = clock + e.dt
            /\ last' = [last EXCEPT ![e.c] = clock + e.dt]
            /\ cnt' = [cnt EXCEPT !.frag = @ + (IF e.frag # 0 THEN 1 ELSE 0)]
            /\ Same(<<cv, phase, rem, acked, ocnt, active, curFile, pending, batches>>)
      [] e.a = "Dup" ->
            /\ e.c = active /\ ~Finished(e.c) /\ cnt.dup < MaxDup /\ cnt.dup + cnt.swap < MaxPerturb /\ TimeOK(e.c, e.dt)
            /\ e.i \in DOMAIN wire /\ wire[e.i].c = e.c /\ wire[e.i].k = "data" /\ ~wire[e.i].dup
            /\ wire[e.i].m >= Len(Msgs(e.c)) - 1                 \* a recent one
            /\ wire' = Append(wire, [wire[e.i] EXCEPT !.file = curFile, !.dt = e.dt, !.dup = TRUE, !.at = clock + e.dt, !.frag = 0])
            /\ clock' = clock + e.dt
            /\ last' = [last EXCEPT ![e.c] = clock + e.dt]
            /\ cnt' = [cnt EXCEPT !.dup = @ + 1]
            /\ Same(<<cv, phase, rem, acked, ocnt, flight, active, curFile, pending, batches>>)
      [] e.a = "Swap" ->
            /\ e.c = active /\ cnt.swap < MaxSwap /\ cnt.dup + cnt.swap < MaxPerturb /\ e.i \in 1 .. (Len(flight[e.c]) - 1)
            /\ LET a == flight[e.c][e.i] b == flight[e.c][e.i + 1] IN
               /\ a.d = b.d /\ a.k = "data" /\ b.k \in {"data", "fin"}
               /\ a.disp < MaxDisp /\ b.disp > -MaxDisp
               /\ flight' = [flight EXCEPT ![e.c] = [@ EXCEPT ![e.i] = [b EXCEPT !.disp = @ - 1],
                                                              ![e.i + 1] = [a EXCEPT !.disp = @ + 1]]]
            /\ cnt' = [cnt EXCEPT !.swap = @ + 1]
            /\ Same(<<cv, phase, rem, acked, ocnt, wire, active, curFile, clock, last, pending, batches>>)
      [] e.a = "CutFile" ->
            /\ cnt.cut < MaxCuts /\ wire # <<>> /\ Last(wire).file = curFile /\ ~AllEmitted
            /\ curFile' = curFile + 1
            /\ cnt' = [cnt EXCEPT !.cut = @ + 1]
            /\ Same(<<cv, phase, rem, acked, ocnt, flight, wire, active, clock, last, pending, batches>>)
      [] e.a = "Bulk" ->
            /\ cnt.bulk < MaxBulk /\ ~AllEmitted /\ TimeOK(0, BulkMs)
            /\ wire' = Append(wire, [c |-> 0, k |-> "bulk", d |-> "c", m |-> cnt.bulk + 1, f |-> 0, t |-> -1, o |-> 0,
                                     file |-> curFile, dt |-> BulkMs, dup |-> FALSE, open |-> e.open, at |-> clock + BulkMs, frag |-> 0])
            /\ clock' = clock + BulkMs
            /\ cnt' = [cnt EXCEPT !.bulk = @ + 1]
            /\ Same(<<cv, phase, rem, acked, ocnt, flight, active, curFile, last, pending, batches>>)
      [] e.a = "Handover" ->          \* the captures are complete: everything becomes importable
            /\ AllEmitted /\ pending = {} /\ batches = <<>> /\ NFiles - 1 >= MinCuts /\ BatchMode # "none"
            /\ pending' = 1 .. NFiles
            /\ Same(<<cv, phase, rem, acked, ocnt, flight, wire, active, curFile, clock, last, cnt, batches>>)
      [] e.a = "Batch" ->
            /\ pending # {} /\ Range(e.files) \subseteq pending /\ e.files # <<>>
            /\ \A i, j \in DOMAIN e.files : i # j => e.files[i] # e.files[j]
            /\ BatchMode = "chrono" => /\ \A i \in DOMAIN e.files : \A p \in pending \ Range(e.files) : e.files[i] < p
                                       /\ \A i, j \in DOMAIN e.files : i < j => e.files[i] < e.files[j]
            /\ (batches = <<>>) => e.restart = "none"
            /\ batches' = Append(batches, [files |-> e.files, restart |-> e.restart])
            /\ pending' = pending \ Range(e.files)
            /\ Same(<<cv, phase, rem, acked, ocnt, flight, wire, active, curFile, clock, last, cnt>>)

\* ------------------------------------------------------------------ enabled events
Perms(S) ==     \* all orders of all non-empty subsets of S (|S| <= 4)
    LET n == Cardinality(S) IN
    UNION {{q \in [1 .. k -> S] : \A i, j \in 1 .. k : i # j => q[i] # q[j]} : k \in 1 .. n}

ConvEvents(c) ==
       {[a |-> "Open", c |-> c, proto |-> p, fam |-> f] : p \in Protos, f \in Fams}
  \cup {[a |-> "Hs", c |-> c]}
  \cup {[a |-> "NewMsg", c |-> c, d |-> d, n |-> n] : d \in {"c", "s"}, n \in 1 .. MaxLen}
  \cup {[a |-> "Segment", c |-> c, n |-> n] : n \in 1 .. MaxSeg}
  \cup {[a |-> "PureAck", c |-> c]}
  \cup {[a |-> "Close", c |-> c, d |-> d] : d \in {"c", "s"}}
  \cup {[a |-> "Fin", c |-> c]}
  \cup {[a |-> "Emit", c |-> c, dt |-> dt, frag |-> fr] : dt \in Dts, fr \in (IF MaxFrag > 0 THEN {0, 1, 2} ELSE {0})}
  \cup {[a |-> "Dup", c |-> c, i |-> i, dt |-> dt] : i \in DOMAIN wire, dt \in Dts}
  \cup {[a |-> "Swap", c |-> c, i |-> i] : i \in 1 .. (Len(flight[c]) - 1)}

EnvEvents ==
       {[a |-> "Interleave", c |-> c] : c \in Convs}
  \cup {[a |-> "CutFile"]}
  \cup {[a |-> "Bulk", open |-> b] : b \in BOOLEAN}
  \cup {[a |-> "Handover"]}

BatchEvents ==
    IF pending = {} THEN {}
    ELSE {[a |-> "Batch", files |-> q, restart |-> r] : q \in Perms(pending), r \in {"none", "keep", "drop"}}

AllEvents == ConvEvents(active) \cup EnvEvents \cup BatchEvents

Next == \E e \in AllEvents : Step(e)
Spec == Init /\ [][Next]_vars

\* ------------------------------------------------------------------ output
Done == /\ AllEmitted /\ NFiles - 1 >= MinCuts
        /\ IF BatchMode = "none" THEN TRUE ELSE batches # <<>> /\ pending = {}

Schedule == [convs |-> cv, wire |-> wire, nfiles |-> NFiles, batches |-> batches,
             exp |-> [c \in Convs |-> Exp(c)], cnt |-> cnt]
PrintSchedule == Done => PrintT("@@J" \o ToJson(Schedule))

\* ------------------------------------------------------------------ the environment is what it claims to be
NonDup(c) == {i \in DOMAIN wire : wire[i].c = c /\ ~wire[i].dup}
TypeOK ==
    /\ \A c \in Convs : cv[c].proto \in Protos \cup {"none"} /\ Len(Msgs(c)) <= MaxMsgs
    /\ \A i \in DOMAIN wire : wire[i].file \in 1 .. curFile
    /\ \A i \in 1 .. (Len(wire) - 1) : wire[i].file <= wire[i + 1].file /\ wire[i].at <= wire[i + 1].at
\* ideal in-order reassembly of the complete wire gives back the ground truth
IdealIsExpected == AllEmitted => \A c \in Convs : Ideal(c, wire) = Exp(c)
\* ... and of any prefix a prefix of it, with all missing units at the end of one direction
PrefixMonotone ==
    \A c \in Convs : LET del == DelOf(c, wire) IN
        \A m \in DOMAIN del : del[m] <= Msgs(c)[m].n
\* segments of different directions are never reordered against each other
NoCrossDirectionReordering ==
    \A c \in Convs : \A i, j \in NonDup(c) : (i < j /\ wire[i].d # wire[j].d) => wire[i].o < wire[j].o
\* a segment is displaced by at most MaxDisp positions among the packets of its conversation
BoundedDisplacement ==
    \A c \in Convs : \A i \in NonDup(c) :
        LET pos == Cardinality({j \in NonDup(c) : j < i}) IN
        pos - wire[i].o <= MaxDisp /\ wire[i].o - pos <= MaxDisp
\* no conversation is silent for five minutes while it still has something to say
NeverIdle ==
    \A c \in Convs : \A i, j \in DOMAIN wire :
        (i < j /\ wire[i].c = c /\ wire[j].c = c /\ ~\E k \in (i + 1) .. (j - 1) : wire[k].c = c)
            => wire[j].at - wire[i].at <= IdleMax
\* TCP: handshake first, FIN exchange last, in order
HandshakeFirst ==
    \A c \in Convs : cv[c].proto = "tcp" =>
        \A i \in NonDup(c) : /\ wire[i].k = "syn" <=> wire[i].o = 0
                             /\ wire[i].o = 0 => \A j \in NonDup(c) : i <= j
                             /\ wire[i].k = "synack" => \E j \in NonDup(c) : j < i /\ wire[j].k = "syn"
=============================================================================

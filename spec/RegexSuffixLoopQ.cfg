SPECIFICATION Spec
CONSTANTS
  Sigma = {"a", "b"}
  L = 5
  Leaves <- QLits
  UnOps <- SuffixUn
  Pool <- SuffixLoopPool
  MaxDepth = 3
  MaxSize = 99
INVARIANT Emit
VIEW View

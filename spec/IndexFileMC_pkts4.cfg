SPECIFICATION Spec
CONSTANTS
  CapBytes = 7
  MaxData = 2
  SkipSat = 2
  Wrap = 4
  Tick = 8
  Sec = 2
  ImportSplit = 2
  PopUnit = "host"
  StartUnit = "host"
  Mode = "pkts"
  MaxStreams = 1
  MaxPkts = 4
  Sizes = {99, 1, 3}
  Steps = {0, 8, 24}
  EmitK = 3
  Exempt = FALSE
INVARIANTS Check

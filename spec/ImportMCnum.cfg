SPECIFICATION Spec
CONSTANTS
  Pieces <- MCPieces
  Restarts = {"none"}
  AllNumberings = TRUE
  LookupEveryOldPacket = TRUE
INVARIANTS SetDetermined OneIdPerConn AllVisible NextIdFresh MasksSound
PROPERTIES IdStable NewIdsFresh MasksRight

------------------------------ MODULE ImportMC ------------------------------
(* Bounded exhaustive configuration of Import.tla: every batching and arrival order of 4
   captures (with or without a service restart before a batch) over a world in which
   connections span captures in all shapes: adjacent, with a hole, at the front, at the end. *)
EXTENDS Import

MCPieces == {<<1, 1>>, <<1, 2>>, <<1, 3>>,        \* long-lived, front
             <<2, 2>>, <<2, 4>>,                  \* with a hole
             <<3, 3>>,                            \* inside one capture
             <<4, 1>>, <<4, 4>>,                  \* first and last capture only
             <<5, 2>>, <<5, 3>>, <<5, 4>>}        \* long-lived, end

\* five captures, any numbering of new streams, no restarts (restarts do not exist in the abstract state)
MC5Pieces == {<<1, 1>>, <<1, 3>>, <<1, 5>>,       \* every other capture
              <<2, 2>>, <<2, 3>>, <<2, 4>>,       \* the middle
              <<3, 1>>, <<3, 2>>,                 \* front
              <<4, 4>>, <<4, 5>>,                 \* end
              <<5, 1>>, <<5, 5>>,                 \* first and last only
              <<6, 3>>}                           \* one capture
=============================================================================

SPECIFICATION Spec
CONSTANT Mode = "random"
INVARIANT Emit

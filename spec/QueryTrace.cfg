SPECIFICATION Spec
INVARIANT Done

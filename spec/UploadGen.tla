------------------------------ MODULE UploadGen ------------------------------
(* Request generator for C19: the sequential part of Upload.tla plus a history.
   Mode "sweep": TLC enumerates (breadth first, exhaustively) every abstract request
   - operation x path class x stem x suffix x spelling variant - as a one-step behaviour.
   Mode "sim"  : `tlc -simulate num=N -depth MaxLen+1 -seed S` draws request sequences;
   a path already used is repeated (overwrite attempt / download of an upload) or
   re-spelled in another class (alias) with fixed probabilities.
   A behaviour is printed as one JSON line when it ends.  The harness concretises
   each abstract path into a literal request target (several spellings per class). *)
EXTENDS Upload

CONSTANTS MaxLen, Mode
VARIABLE hist

GenClasses == {"plain", "enc_plain", "dot_before", "dot_after", "enc_slash", "enc_backslash", "enc_dot",
               "double_enc", "absolute", "empty_seg", "odd_suffix", "long", "nul", "bad_escape",
               "unicode", "query"}
GenStems   == {"n1", "n2", "secret", "seed"}
GenExts    == {"pcap", "pcapng"}

GenInit ==
    /\ fs = [inside |-> ("seed.pcap" :> "seed"), base |-> Base0, outer |-> Outer0]
    /\ fs0 = fs /\ stable = fs.inside
    /\ queue = <<>> /\ res = <<>> /\ sched = <<>> /\ up = <<>> /\ hist = <<>>

Req(op, p, k) == [op |-> op, cls |-> p.cls, nm |-> p.nm, ext |-> p.ext, v |-> p.v, k |-> k]
PathOf(e)     == [cls |-> e.cls, nm |-> e.nm, ext |-> e.ext, v |-> e.v]
Used          == {PathOf(hist[i]) : i \in DOMAIN hist}
Do(op, p)     == IF op = "download" THEN SeqDownload(p) ELSE SeqUpload(p, "b" \o ToString(Len(hist)))

Sweep ==
    /\ hist = <<>>
    /\ \E op \in {"upload", "download"}, p \in Paths : Do(op, p) /\ hist' = <<Req(op, p, 0)>>

Sim ==
    /\ Len(hist) < MaxLen
    /\ \E d1 \in {RandomElement(1 .. 100)}, d2 \in {RandomElement(1 .. 100)}, k \in {RandomElement(0 .. 9999)} :
        LET op   == IF d1 <= 55 THEN "upload" ELSE IF d1 <= 82 THEN "download" ELSE "pair"
            pool == IF Used # {} /\ d2 <= 35 THEN Used
                    ELSE IF Used # {} /\ d2 <= 50
                           THEN {p \in Paths : \E q \in Used : p.nm = q.nm /\ p.ext = q.ext}
                    ELSE IF d2 <= 75 THEN {p \in Paths : p.cls = "plain"}
                    ELSE Paths
        IN \E p \in {RandomElement(pool)} : Do(op, p) /\ hist' = Append(hist, Req(op, p, k))

GenNext == IF Mode = "sweep" THEN Sweep ELSE Sim
GenSpec == GenInit /\ [][GenNext]_<<vars, hist>>

Ended == IF Mode = "sweep" THEN Len(hist) = 1 ELSE Len(hist) = MaxLen
Emit  == Ended => PrintT("@@J" \o ToJson([hist |-> hist]))
=============================================================================

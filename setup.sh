#!/bin/sh
# Run once after a fresh restore, offline. Parses every specification and warms the Go build cache.
set -e
cd "$(dirname "$0")"
export GOFLAGS=-mod=mod GOPROXY=off
mkdir -p evidence
T=$(mktemp -d)
cp spec/*.tla "$T"/
for f in spec/*.tla; do
  b=$(basename "$f" .tla)
  (cd "$T" && java -cp /opt/veriftools/tla/tla2tools.jar:/opt/veriftools/tla/CommunityModules-deps.jar tla2sany.SANY "$b.tla" >"$T/$b.sany" 2>&1) || { cat "$T/$b.sany"; echo "SANY failed: $b"; rm -rf "$T"; exit 1; }
  if grep -q "rrors:" "$T/$b.sany"; then cat "$T/$b.sany"; rm -rf "$T"; exit 1; fi
done
rm -rf "$T"
(cd /repo && go build ./internal/... && go test -tags verif -vet=off -count=1 -run '^$' ./internal/... >/dev/null 2>&1 || true)
echo "setup ok"

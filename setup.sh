#!/bin/sh
# Run once after a fresh restore, offline. Parses the specifications and warms the Go build cache.
set -e
cd "$(dirname "$0")"
export GOFLAGS=-mod=mod GOPROXY=off
mkdir -p evidence
T=$(mktemp -d)
cp spec/*.tla "$T"/
REQUIRED=$(cat spec/REQUIRED_MODULES.txt)
for f in spec/*.tla; do
  b=$(basename "$f" .tla)
  ok=1
  (cd "$T" && java -cp /opt/veriftools/tla/tla2tools.jar:/opt/veriftools/tla/CommunityModules-deps.jar tla2sany.SANY "$b.tla" >"$T/$b.sany" 2>&1) || ok=0
  if grep -q "rrors:" "$T/$b.sany"; then ok=0; fi
  if [ $ok = 0 ]; then
    if echo " $REQUIRED " | grep -q " $b "; then cat "$T/$b.sany"; echo "SANY failed: $b"; rm -rf "$T"; exit 1; fi
    echo "warning: $b.tla does not parse (not required by a registered check)"
  fi
done
rm -rf "$T"
(cd /repo && go build ./internal/... && go test -tags verif -vet=off -count=1 -run '^$' ./internal/... >/dev/null 2>&1 || true)
echo "setup ok"
